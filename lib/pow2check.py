"""C19 extra check: ares_round_up_pow2 on a boundary sweep.

Three values per input n (1 <= n <= 2^62): what the library under test returns (harness/pow2_drv.c
linked against the sanitized build of the working tree), what the text GENERATED from the source
(c_ares_round_up_pow2, evaluated by vm_compute inside Coq) returns, and the least power of two >= n.
The theorem (Dsa/Pow2_gen_agree.v) covers every n; this sweep (a) gives the concrete failing input
when a change of the function breaks the theorem, and (b) checks the translator against the
compiled code on these inputs.  Inputs: 2^k - 1, 2^k, 2^k + 1 for every k, plus random values of
every bit length."""
import os
import random
import re

import vlib


def inputs(seed):
    rng = random.Random(seed * 31 + 5)
    ns = set()
    for k in range(0, 63):
        for d in (-1, 0, 1):
            n = (1 << k) + d
            if 1 <= n <= (1 << 62):
                ns.add(n)
    for k in range(1, 63):
        for _ in range(4):
            n = rng.randrange(1 << (k - 1), 1 << k) + 1
            if 1 <= n <= (1 << 62):
                ns.add(n)
    return sorted(ns)


def want(n):
    return 1 << (n - 1).bit_length()


def coq_eval(ns, workdir):
    v = os.path.join(workdir, "Pow2Cases.v")
    with open(v, "w") as f:
        f.write("From Coq Require Import ZArith List. Import ListNotations.\n")
        f.write("From CAres.Base Require Import CInt.\nFrom CAres.Gen Require Import LeafFns.\nLocal Open Scope Z_scope.\n")
        f.write("Definition show (o : outcome Z) : Z := match o with Ok v => v | Err _ => -1 | UB _ => -2 end.\n")
        f.write("Eval vm_compute in map (fun n => show (c_ares_round_up_pow2 n 1)) [%s].\n" % "; ".join(str(n) for n in ns))
    rc, out, err = vlib.sh(["coqc", "-Q", vlib.COQ, "CAres", v], cwd=workdir, timeout=300)
    if rc != 0:
        return None, (out + err)[-600:]
    body = out.split("=", 1)[1].rsplit(":", 1)[0]
    return [int(x) for x in re.findall(r"-?\d+", body)], ""


def check(ctx):
    res = []
    ns = inputs(ctx["seed"])
    binp = vlib.build_harness("pow2", ["harness/pow2_drv.c"])
    rc, out, err = vlib.sh([binp], input="".join("%d\n" % n for n in ns).encode(), timeout=120)
    impl = {}
    lg = {}
    for line in out.splitlines():
        a, b, c = line.split()
        impl[int(a)] = int(b)
        lg[int(a)] = int(c)
    ctx["totals"]["evaluations"] += len(ns)
    ctx["totals"]["stats"]["pow2:inputs"] = len(ns)
    if rc != 0 or len(impl) != len(ns):
        n_bad = [n for n in ns if n not in impl][:1]
        res.append(("pow2-crash", "ares_round_up_pow2 aborted (sanitizer) at input %s: %s" % (n_bad, err[-500:]),
                    dict(extra_check="pow2", input=n_bad, stderr=err[-1500:])))
        return res
    bad = [n for n in ns if impl[n] != want(n)]
    if bad:
        n = bad[0]
        res.append(("pow2-wrong", "ares_round_up_pow2(%d) = %d, least power of two >= n is %d (%d of %d inputs differ)"
                    % (n, impl[n], want(n), len(bad), len(ns)),
                    dict(extra_check="pow2", input=n, got=impl[n], want=want(n), n_wrong=len(bad))))
    badl = [n for n in ns if impl[n] == want(n) and lg[n] != want(n).bit_length() - 1]
    if badl:
        n = badl[0]
        res.append(("log2-wrong", "ares_log2(%d) = %d, expected %d (%d inputs differ)"
                    % (want(n), lg[n], want(n).bit_length() - 1, len(badl)),
                    dict(extra_check="pow2", input=want(n), got=lg[n], want=want(n).bit_length() - 1)))
    ok, mklog = vlib.coq_make(["Gen/LeafFns.vo"])
    gen, msg = coq_eval(ns, ctx["workdir"]) if ok else (None, "Gen/LeafFns.vo does not build")
    if gen is None or len(gen) != len(ns):
        res.append(("pow2-generated", "generated c_ares_round_up_pow2 cannot be evaluated: %s" % msg, None))
    else:
        d = [(n, g, impl[n]) for (n, g) in zip(ns, gen) if g != impl[n]]
        if d and not bad:
            res.append(("pow2-translator", "generated function and compiled code differ at n=%d: generated %d, library %d"
                        % d[0], None))
    return res
