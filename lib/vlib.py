#!/usr/bin/env python3
"""Shared machinery of the c-ares verification framework (see DESIGN.md section 2).

Everything is rebuilt from the *current working tree* of the repository (VERIF_REPO, default
/repo); build products live in <root>/.cache and are keyed by content hashes.
"""
import concurrent.futures
import fcntl
import glob
import hashlib
import json
import os
import random
import re
import shutil
import subprocess
import sys
import time

ROOT = os.path.dirname(os.path.dirname(os.path.abspath(__file__)))
REPO = os.environ.get("VERIF_REPO", "/repo")
CACHE = os.path.join(ROOT, ".cache")
COQ = os.path.join(ROOT, "coq")
NPROC = os.cpu_count() or 4
GUARD = "CARES_VERIF"

os.makedirs(CACHE, exist_ok=True)


def log(*a):
    print(*a, file=sys.stderr, flush=True)


def sh(cmd, timeout=None, cwd=None, env=None, input=None):
    """Run cmd (list), return (rc, stdout, stderr) as text."""
    try:
        p = subprocess.run(cmd, cwd=cwd, env=env, input=input, timeout=timeout,
                           stdout=subprocess.PIPE, stderr=subprocess.PIPE)
        return p.returncode, p.stdout.decode("utf-8", "replace"), p.stderr.decode("utf-8", "replace")
    except subprocess.TimeoutExpired as e:
        out = (e.stdout or b"").decode("utf-8", "replace")
        err = (e.stderr or b"").decode("utf-8", "replace")
        return 124, out, err + "\n[timeout]"


class Lock:
    def __init__(self, name):
        self.path = os.path.join(CACHE, name + ".lock")

    def __enter__(self):
        self.f = open(self.path, "w")
        fcntl.flock(self.f, fcntl.LOCK_EX)
        return self

    def __exit__(self, *a):
        fcntl.flock(self.f, fcntl.LOCK_UN)
        self.f.close()


def sha(*parts):
    h = hashlib.sha256()
    for p in parts:
        if isinstance(p, str):
            p = p.encode()
        h.update(p)
        h.update(b"\0")
    return h.hexdigest()


def file_hash(paths):
    h = hashlib.sha256()
    for p in sorted(paths):
        h.update(p.encode())
        h.update(b"\0")
        with open(p, "rb") as f:
            h.update(f.read())
        h.update(b"\0")
    return h.hexdigest()


# ------------------------------------------------------------------------------------------
# Library build (sanitized, from the working tree)
# ------------------------------------------------------------------------------------------

VARIANTS = {
    "asan": ["-O1", "-g", "-fno-omit-frame-pointer", "-fsanitize=address,undefined",
             "-fno-sanitize-recover=undefined"],
    "tsan": ["-O1", "-g", "-fno-omit-frame-pointer", "-fsanitize=thread"],
    "plain": ["-O1", "-g"],
}


def config_dir():
    """Directory holding ares_config.h / ares_build.h.  The repo's own configured build
    directory is preferred; the copies under harness/config are the offline fallback."""
    d = os.path.join(REPO, "_build")
    if os.path.exists(os.path.join(d, "ares_config.h")) and os.path.exists(os.path.join(d, "ares_build.h")):
        return d
    return os.path.join(ROOT, "harness", "config")


def lib_sources():
    src = os.path.join(REPO, "src", "lib")
    files = sorted(glob.glob(os.path.join(src, "*.c")) + glob.glob(os.path.join(src, "*", "*.c")))
    return files


def lib_headers():
    src = os.path.join(REPO, "src", "lib")
    hs = glob.glob(os.path.join(src, "*.h")) + glob.glob(os.path.join(src, "*", "*.h"))
    hs += glob.glob(os.path.join(REPO, "include", "*.h"))
    cd = config_dir()
    hs += [os.path.join(cd, "ares_config.h"), os.path.join(cd, "ares_build.h")]
    return sorted(hs)


def include_flags():
    cd = config_dir()
    return ["-I" + cd, "-I" + os.path.join(REPO, "include"), "-I" + os.path.join(REPO, "src", "lib"),
            "-I" + os.path.join(REPO, "src", "lib", "include")]


def define_flags(hooks=True):
    d = ["-DHAVE_CONFIG_H=1", "-DCARES_BUILDING_LIBRARY", "-DCARES_STATICLIB", "-D_GNU_SOURCE"]
    if hooks:
        d.append("-D" + GUARD)
    return d


def build_lib(variant="asan"):
    """Compile src/lib of the working tree; return the cache directory containing libcares.a."""
    flags = VARIANTS[variant] + define_flags() + ["-std=gnu99", "-w"]
    srcs = lib_sources()
    key = sha(file_hash(srcs + lib_headers()), " ".join(flags), variant)[:16]
    d = os.path.join(CACHE, "lib-%s-%s" % (variant, key))
    with Lock("lib-" + variant):
        if os.path.exists(os.path.join(d, "libcares.a")):
            return d
        # remove stale builds of this variant (keep the few most recent ones: other checks, or
        # a run against another tree through VERIF_REPO, may be using them right now)
        olds = sorted(glob.glob(os.path.join(CACHE, "lib-%s-*" % variant)), key=lambda q: os.path.getmtime(q), reverse=True)
        for old in olds[4:]:
            if time.time() - os.path.getmtime(old) > 1800:
                shutil.rmtree(old, ignore_errors=True)
        os.makedirs(os.path.join(d, "obj"), exist_ok=True)
        t0 = time.time()

        def cc(s):
            o = os.path.join(d, "obj", os.path.relpath(s, os.path.join(REPO, "src", "lib")).replace("/", "_")[:-2] + ".o")
            rc, out, err = sh(["clang"] + flags + include_flags() + ["-c", s, "-o", o], timeout=300)
            return rc, o, err

        objs = []
        errs = []
        with concurrent.futures.ThreadPoolExecutor(NPROC) as ex:
            for rc, o, err in ex.map(cc, srcs):
                if rc != 0:
                    errs.append(err)
                objs.append(o)
        if errs:
            shutil.rmtree(d, ignore_errors=True)
            raise BuildError("library does not compile:\n" + "\n".join(errs)[:4000])
        rc, out, err = sh(["ar", "rcs", os.path.join(d, "libcares.a")] + objs)
        if rc != 0:
            shutil.rmtree(d, ignore_errors=True)
            raise BuildError("ar failed: " + err)
        log("[lib] built %s in %.1fs" % (d, time.time() - t0))
    return d


class BuildError(Exception):
    pass


def build_harness(name, srcs, variant="asan", wraps=(), extra=(), libs=("-lpthread",)):
    """Build a harness binary against the sanitized library.  srcs relative to ROOT."""
    libd = build_lib(variant)
    paths = [os.path.join(ROOT, s) for s in srcs]
    hdrs = glob.glob(os.path.join(ROOT, "harness", "*.h"))
    key = sha(file_hash(paths + hdrs), " ".join(wraps), " ".join(extra))[:12]
    bind = os.path.join(libd, "bin")
    os.makedirs(bind, exist_ok=True)
    out = os.path.join(bind, "%s-%s" % (name, key))
    with Lock("harness-" + name):
        if os.path.exists(out):
            return out
        flags = VARIANTS[variant] + define_flags() + ["-std=gnu99", "-w", "-I" + os.path.join(ROOT, "harness")]
        wl = ["-Wl,--wrap=" + w for w in wraps]
        cmd = ["clang"] + flags + include_flags() + list(extra) + paths + [os.path.join(libd, "libcares.a")] + wl + list(libs) + ["-o", out]
        rc, o, err = sh(cmd, timeout=600)
        if rc != 0:
            raise BuildError("harness %s does not build:\n%s" % (name, err[:6000]))
    return out


# ------------------------------------------------------------------------------------------
# Coq build
# ------------------------------------------------------------------------------------------

def coq_project():
    vs = sorted(os.path.relpath(p, COQ) for p in glob.glob(os.path.join(COQ, "*", "*.v")))
    txt = "-Q . CAres\n-arg -w -arg -notation-overridden,-deprecated-hint-without-locality,-deprecated-instance-without-locality\n" + "\n".join(vs) + "\n"
    p = os.path.join(COQ, "_CoqProject")
    old = open(p).read() if os.path.exists(p) else None
    if old != txt:
        with open(p, "w") as f:
            f.write(txt)
        rc, out, err = sh(["coq_makefile", "-f", "_CoqProject", "-o", "Makefile"], cwd=COQ)
        if rc != 0:
            raise BuildError("coq_makefile: " + err)
    elif not os.path.exists(os.path.join(COQ, "Makefile")):
        sh(["coq_makefile", "-f", "_CoqProject", "-o", "Makefile"], cwd=COQ)


def coq_make(targets=None, timeout=3000):
    """make the given .vo targets (relative to coq/), or everything.  Returns (ok, log)."""
    with Lock("coq"):
        regenerate()
        coq_project()
        cmd = ["make", "-k", "-j%d" % NPROC]
        if targets:
            cmd += list(targets)
        os.makedirs(os.path.join(ROOT, "ocaml", "gen"), exist_ok=True)
        rc, out, err = sh(cmd, cwd=COQ, timeout=timeout)
        return rc == 0, out + err


_regen_done = False


def regenerate():
    """Regenerate coq/Gen/*.v from the repository's current sources (translator, constants)."""
    global _regen_done
    if _regen_done:
        return
    gen = os.path.join(ROOT, "gen", "regen.py")
    if os.path.exists(gen):
        rc, out, err = sh([sys.executable, gen], timeout=600, env=dict(os.environ, VERIF_REPO=REPO))
        if rc != 0:
            # a function that left the translatable subset: leave a Gen file that does not
            # compile so that dependants break visibly
            log("[regen] FAILED:\n" + out[-2000:] + err[-2000:])
    _regen_done = True


def coqchk(vfiles, timeout=3000):
    """Independent re-check (coqchk -o) of the compiled statement modules and all their
    dependencies.  Returns (ok, one-line note)."""
    mods = ["CAres." + v[:-2].replace("/", ".") for v in vfiles]
    with Lock("coq"):
        rc, out, err = sh(["coqchk", "-o", "-silent", "-Q", ".", "CAres"] + mods, cwd=COQ, timeout=timeout)
    txt = out + err
    m = re.search(r"\* Axioms:\s*(.*?)\n\s*\n", txt, re.S)
    axioms = m.group(1).strip() if m else "?"
    relaxed = []
    for what in ("type-in-type", "unsafe (co)fixpoints", "positivity is assumed"):
        mm = re.search(re.escape(what) + r":\s*(.*?)\n\s*\n", txt, re.S)
        if not mm or mm.group(1).strip() != "<none>":
            relaxed.append(what)
    ok = rc == 0 and axioms == "<none>" and not relaxed
    note = "modules %s re-checked with all dependencies: rc=%d axioms=%s relaxed-checks=%s" % (
        ",".join(mods), rc, axioms.replace("\n", " ")[:200], ",".join(relaxed) or "none")
    if rc != 0:
        note += " | " + txt[-300:].replace("\n", " ")
    return ok, note


def coq_check_properties(vfile):
    """Compile one Properties_*.v directly, return (ok, theorems, assumptions, log).
    theorems: list of names; assumptions: dict name -> text printed by Print Assumptions."""
    path = os.path.join(COQ, vfile)
    src = open(path).read()
    thms = re.findall(r"^\s*Theorem\s+([A-Za-z0-9_']+)", src, re.M)
    with Lock("coq"):
        rc, out, err = sh(["coqc", "-Q", ".", "CAres", "-w", "-notation-overridden", vfile], cwd=COQ, timeout=1800)
    assum = {}
    # Print Assumptions output: either "Closed under the global context" or "Axioms:\n..."
    printed = re.findall(r"Print Assumptions\s+([A-Za-z0-9_']+)\s*\.", src)
    blocks = re.split(r"(?=Closed under the global context|Axioms:)", out)
    blocks = [b.strip() for b in blocks if b.strip().startswith(("Closed under", "Axioms:"))]
    for n, b in zip(printed, blocks):
        assum[n] = b
    return rc == 0, thms, assum, out + err


FORBIDDEN = re.compile(r"\b(Admitted|admit|Axiom|Axioms|Parameter|Parameters|Conjecture|Admit Obligations)\b|Unset Guard|bypass_check|-type-in-type|impredicative-set|Unset Positivity|Unset Universe")


def coq_forbidden():
    """grep the development for forbidden constructs (outside comments)."""
    bad = []
    for p in glob.glob(os.path.join(COQ, "*", "*.v")):
        txt = open(p).read()
        txt = strip_coq_comments(txt)
        for i, line in enumerate(txt.split("\n"), 1):
            if FORBIDDEN.search(line):
                if re.search(r"\b(Variable|Hypothesis|Context)\b", line):
                    continue
                bad.append("%s:%d: %s" % (os.path.relpath(p, ROOT), i, line.strip()))
    return bad


def strip_coq_comments(t):
    out = []
    depth = 0
    i = 0
    n = len(t)
    while i < n:
        if t.startswith("(*", i):
            depth += 1
            i += 2
        elif t.startswith("*)", i) and depth > 0:
            depth -= 1
            i += 2
        else:
            if depth == 0:
                out.append(t[i])
            elif t[i] == "\n":
                out.append("\n")
            i += 1
    return "".join(out)


# ------------------------------------------------------------------------------------------
# OCaml model drivers
# ------------------------------------------------------------------------------------------

def build_ml(name, srcs, packages=()):
    """srcs relative to ROOT (extracted .ml first, driver last)."""
    paths = [os.path.join(ROOT, s) for s in srcs]
    for p in paths:
        if not os.path.exists(p):
            raise BuildError("missing OCaml source %s (extraction failed?)" % p)
    key = file_hash(paths + glob.glob(os.path.join(ROOT, "ocaml", "*.inc")))[:12]
    d = os.path.join(CACHE, "ml", name + "-" + key)
    out = os.path.join(d, name)
    with Lock("ml-" + name):
        if os.path.exists(out):
            return out
        for old in sorted(glob.glob(os.path.join(CACHE, "ml", name + "-*")), key=lambda q: os.path.getmtime(q), reverse=True)[3:]:
            shutil.rmtree(old, ignore_errors=True)
        os.makedirs(d)
        local = []
        for p in paths:
            q = os.path.join(d, os.path.basename(p))
            txt = open(p).read()

            def inc(m):
                return open(os.path.join(ROOT, "ocaml", m.group(1))).read()
            for _ in range(4):
                txt = re.sub(r"\(\*INCLUDE ([A-Za-z0-9_.]+)\*\)", inc, txt)
            with open(q, "w") as f:
                f.write(txt)
            mli = p[:-3] + ".mli"
            if os.path.exists(mli):
                shutil.copy(mli, os.path.join(d, os.path.basename(mli)))
                local.append(os.path.basename(mli))
            local.append(os.path.basename(q))
        cmd = ["ocamlfind", "ocamlopt", "-O3" if False else "-inline", "100", "-w", "-a"]
        if packages:
            cmd += ["-package", ",".join(packages), "-linkpkg"]
        cmd += local + ["-o", name]
        rc, o, err = sh(cmd, cwd=d, timeout=900)
        if rc != 0:
            shutil.rmtree(d, ignore_errors=True)
            raise BuildError("OCaml driver %s does not build:\n%s" % (name, (o + err)[:6000]))
    return out


# ------------------------------------------------------------------------------------------
# Running an engine: implementation driver + model driver over a case file
# ------------------------------------------------------------------------------------------

SAN_ENV = {
    "ASAN_OPTIONS": "detect_leaks=1:abort_on_error=0:exitcode=99:allocator_may_return_null=1:detect_stack_use_after_return=0",
    "UBSAN_OPTIONS": "print_stacktrace=1:halt_on_error=1:exitcode=98",
    "LSAN_OPTIONS": "exitcode=97",
    "TSAN_OPTIONS": "exitcode=96:halt_on_error=0:suppressions=" + os.path.join(ROOT, "harness", "tsan.supp"),
}


def _san_excerpt(err, limit=6000):
    """the first sanitizer report of a run (head of it), not the tail of the log"""
    m = re.search(r"(WARNING: ThreadSanitizer|ERROR: AddressSanitizer|ERROR: LeakSanitizer|runtime error:)", err)
    if m:
        return err[max(0, m.start() - 200):m.start() + limit]
    return err[-limit:]


def run_impl(binary, casefile, outfile, n_cases, timeout=1200, extra_args=(), chunk=None, env_extra=None, per_case=False):
    """Run the implementation driver over the case file.  The driver prints, for case k
    (0-based), lines starting with "<k> ".  If it dies (sanitizer report, crash, timeout) the
    case being run is recorded as a monitor failure and the run resumes at the next case.
    per_case=True starts one process per case (threaded engines: no cross-case interference).
    Returns a list of monitor failures: (case index, kind, text)."""
    env = dict(os.environ)
    env.update(SAN_ENV)
    if env_extra:
        env.update(env_extra)
    fails = []
    retries = {}
    start = 0
    with open(outfile, "w") as fo:
        while start < n_cases:
            cmd = [binary, casefile, str(start)] + (["1"] if per_case else []) + list(extra_args)
            rc, out, err = sh(cmd, timeout=timeout, env=env)
            if rc != 0 and re.search(r"Sanitizer: CHECK failed", err):
                m0 = re.findall(r"^BEGIN (\d+)", out, re.M)
                last0 = int(m0[-1]) if m0 else start
                if retries.get(last0, 0) < 3:
                    # an internal assertion of the sanitizer runtime itself (seen: TSan's report
                    # construction, sanitizer_common.h "((i)) < ((size_))"): a tool failure, not
                    # a finding about the library; keep the output of the cases that completed
                    # and run the interrupted case again
                    retries[last0] = retries.get(last0, 0) + 1
                    log("[run] sanitizer runtime CHECK failed in case %d, retry %d" % (last0, retries[last0]))
                    cut = out.rfind("BEGIN %d\n" % last0)
                    fo.write(out[:cut] if cut >= 0 else "")
                    start = last0
                    continue
            fo.write(out)
            if rc == 0:
                if per_case:
                    start += 1
                    continue
                break
            # find the last case that was started
            last = start
            for line in out.split("\n"):
                m = re.match(r"^BEGIN (\d+)", line)
                if m:
                    last = int(m.group(1))
            kind = {99: "asan", 98: "ubsan", 97: "leak", 96: "tsan", 124: "timeout"}.get(rc, "crash(rc=%d)" % rc)
            if "ThreadSanitizer" in err:
                kind = "tsan"
            elif rc == 99 and "LeakSanitizer" in err and "AddressSanitizer:" not in err:
                kind = "leak"
            fails.append((last, kind, _san_excerpt(err)))
            fo.write("%d MONITOR %s\n" % (last, kind))
            if kind == "leak" and rc in (97, 99) and re.search(r"^DONE$", out, re.M) and not per_case:
                # leak reported at exit after all cases ran: attribute to whole run
                break
            start = last + 1
    return fails


def run_model(binary, casefile, implout, outfile, timeout=1800, extra_args=()):
    rc, out, err = sh([binary, casefile, implout] + list(extra_args), timeout=timeout)
    with open(outfile, "w") as f:
        f.write(out)
    if rc != 0:
        raise BuildError("model driver failed rc=%d: %s" % (rc, err[-2000:]))
    return out


def parse_verdicts(text):
    """Lines of the model driver:  CASE i class | DIFF i text | FAIL i kind text | STAT k v"""
    classes = {}
    diffs = []
    fails = []
    stats = {}
    for line in text.split("\n"):
        if line.startswith("CASE "):
            _, i, cls = line.split(" ", 2)
            classes[int(i)] = cls
        elif line.startswith("DIFF "):
            p = line.split(" ", 2)
            diffs.append((int(p[1]), p[2] if len(p) > 2 else ""))
        elif line.startswith("FAIL "):
            p = line.split(" ", 3)
            fails.append((int(p[1]), p[2], p[3] if len(p) > 3 else ""))
        elif line.startswith("STAT "):
            p = line.split(" ", 2)
            stats[p[1]] = p[2] if len(p) > 2 else ""
    return classes, diffs, fails, stats


# ------------------------------------------------------------------------------------------
# Known findings
# ------------------------------------------------------------------------------------------

def known_findings(pid):
    """open findings for a property: known_findings.json plus per-property fragments findings/*.json"""
    out = []
    files = [os.path.join(ROOT, "known_findings.json")] + sorted(glob.glob(os.path.join(ROOT, "findings", "*.json")))
    seen = set()
    for p in files:
        if not os.path.exists(p):
            continue
        data = json.load(open(p))
        for f in data.get("findings", []):
            key = json.dumps(f, sort_keys=True)
            if key in seen:
                continue
            seen.add(key)
            if f.get("property") == pid and f.get("status") == "open":
                out.append(f)
    return out


# ------------------------------------------------------------------------------------------
# Evidence
# ------------------------------------------------------------------------------------------

def write_evidence(pid, ev):
    # evidence/ is only for runs against the repository itself; runs against another tree
    # (VERIF_REPO: seeded changes, scratch worktrees) leave their record under .cache
    d = os.path.join(ROOT, "evidence") if os.path.realpath(REPO) == "/repo" else os.path.join(CACHE, "evidence-other-tree")
    os.makedirs(d, exist_ok=True)
    p = os.path.join(d, pid + ".json")
    with open(p + ".tmp", "w") as f:
        json.dump(ev, f, indent=1, sort_keys=True)
    os.replace(p + ".tmp", p)
    return p


def write_replay(pid, obj):
    d = os.path.join(ROOT, "replays") if os.path.realpath(REPO) == "/repo" else os.path.join(CACHE, "replays-other-tree")
    os.makedirs(d, exist_ok=True)
    name = "%s-%d-%s.json" % (pid, int(time.time()), sha(json.dumps(obj, sort_keys=True))[:8])
    p = os.path.join(d, name)
    with open(p, "w") as f:
        json.dump(obj, f, indent=1, sort_keys=True)
    return p
