#!/usr/bin/env python3
"""Generic verdict logic of `bin/check <Cxx>` (DESIGN.md 2.6).

A property module (props/Cxx.py) defines PROP = Property(...).  The flow is:
  regenerate Gen/*.v -> make obligations -> extract -> build model driver
  build sanitized library from the working tree -> build implementation driver
  corpus + generated cases: implementation vs extracted model, property oracle on the
  implementation's output
  verdict A (all clean) / B (search for a failing input)
"""
import json
import os
import random
import re
import shutil
import sys
import time

import vlib
from vlib import ROOT, log


class Engine:
    def __init__(self, name, c_srcs, ml_srcs, gen, wraps=(), n_quick=2000, n_thorough=50000,
                 variant="asan", ml_packages=(), sep=";", extra_cflags=(), timeout=1500,
                 search_factor=2, libs=("-lpthread",), env=None, per_case=False):
        self.name = name
        self.c_srcs = c_srcs
        self.ml_srcs = ml_srcs
        self.gen = gen            # gen(rng, tier, n) -> list[str] (one case per line, no newlines)
        self.wraps = wraps
        self.n_quick = n_quick
        self.n_thorough = n_thorough
        self.variant = variant
        self.ml_packages = ml_packages
        self.sep = sep            # separator of shrinkable units inside a case (None: not shrinkable)
        self.extra_cflags = extra_cflags
        self.timeout = timeout
        self.search_factor = search_factor
        self.libs = libs
        self.env = env
        self.per_case = per_case


class Property:
    def __init__(self, pid, properties_v, coq_targets, engines, trusted_base, assumptions,
                 rule, generated_fns=(), extra_checks=()):
        self.id = pid
        self.properties_v = properties_v    # relative to coq/
        self.coq_targets = coq_targets      # extra .vo targets (extraction files)
        self.engines = engines
        self.trusted_base = trusted_base
        self.assumptions = assumptions
        self.rule = rule
        self.generated_fns = generated_fns
        self.extra_checks = extra_checks    # callables(ctx) -> list of (kind, detail, replayobj)


def corpus_cases(pid, engine):
    d = os.path.join(ROOT, "corpus", pid)
    out = []
    p = os.path.join(d, engine + ".cases")
    if os.path.exists(p):
        for line in open(p):
            line = line.rstrip("\n")
            if line and not line.startswith("#"):
                out.append(line)
    return out


def run_engine(prop, eng, cases, workdir, tag):
    """Returns dict(classes, diffs, fails, stats, monitors, impl_bin, ml_bin)"""
    casefile = os.path.join(workdir, "%s-%s.cases" % (eng.name, tag))
    with open(casefile, "w") as f:
        for c in cases:
            f.write(c + "\n")
    implout = os.path.join(workdir, "%s-%s.impl" % (eng.name, tag))
    verd = os.path.join(workdir, "%s-%s.verdict" % (eng.name, tag))
    impl_bin = vlib.build_harness(eng.name, eng.c_srcs, eng.variant, eng.wraps, eng.extra_cflags, eng.libs)
    monitors = vlib.run_impl(impl_bin, casefile, implout, len(cases), timeout=eng.timeout, env_extra=eng.env, per_case=eng.per_case)
    ml_bin = vlib.build_ml(eng.name, eng.ml_srcs, eng.ml_packages)
    text = vlib.run_model(ml_bin, casefile, implout, verd, timeout=eng.timeout)
    classes, diffs, fails, stats = vlib.parse_verdicts(text)
    return dict(classes=classes, diffs=diffs, fails=fails, stats=stats, monitors=monitors,
                casefile=casefile, implout=implout)


def still_fails(prop, eng, case, workdir, want_kind=None, want_diff=False):
    r = run_engine(prop, eng, [case], workdir, "shrink")
    if want_diff:
        return bool(r["diffs"])
    kinds = [k for (_, k, _) in r["fails"]] + [k for (_, k, _) in r["monitors"]]
    if want_kind is None:
        return bool(kinds)
    return want_kind in kinds


def shrink(prop, eng, case, workdir, want_kind=None, want_diff=False, budget=120):
    """Delta-debugging over the sep-separated units of a case ("head|u1;u2;...")."""
    if eng.sep is None or "|" not in case:
        return case
    head, body = case.split("|", 1)
    units = [u for u in body.split(eng.sep) if u != ""]
    n = 2
    tries = 0
    while len(units) >= 2 and tries < budget:
        chunk = max(1, len(units) // n)
        reduced = False
        for i in range(0, len(units), chunk):
            cand = units[:i] + units[i + chunk:]
            if not cand:
                continue
            tries += 1
            c = head + "|" + eng.sep.join(cand)
            try:
                ok = still_fails(prop, eng, c, workdir, want_kind, want_diff)
            except Exception:
                ok = False
            if ok:
                units = cand
                n = max(n - 1, 2)
                reduced = True
                break
            if tries >= budget:
                break
        if not reduced:
            if chunk == 1:
                break
            n = min(len(units), n * 2)
    return head + "|" + eng.sep.join(units)


def finding_matches(f, kind, detail):
    if f.get("kind") != kind:
        return False
    m = f.get("match")
    if m and not re.search(m, detail):
        return False
    return True


def check(prop, tier="quick", seed=1, replay=None):
    t0 = time.time()
    pid = prop.id
    workdir = os.path.join(vlib.CACHE, "run-%s-%d" % (pid, os.getpid()))
    os.makedirs(workdir, exist_ok=True)
    known = vlib.known_findings(pid)
    out_lines = []
    violations = []      # (kind, detail, replayobj, found_input: bool)
    broken = []          # names of obligations / correspondences that no longer check

    try:
        return _check(prop, tier, seed, replay, t0, workdir, known, violations, broken)
    finally:
        shutil.rmtree(workdir, ignore_errors=True)


def _check(prop, tier, seed, replay, t0, workdir, known, violations, broken):
    pid = prop.id
    # ---------------- replay mode ----------------
    if replay:
        obj = json.load(open(replay))
        if obj.get("extra_check"):
            # a violation found by an extra check (directed sweep): run the sweeps again
            vlib.coq_make(prop.coq_targets)
            totals = dict(evaluations=0, classes={}, distinct=set(), samples=[], stats={})
            bad = False
            for chk in prop.extra_checks:
                for (kind, detail, robj) in chk(dict(prop=prop, tier=tier, seed=seed, workdir=workdir, totals=totals)):
                    print("FAIL", kind, detail[:1500])
                    bad = True
            if bad:
                print("VIOLATION property=%s replay=%s" % (pid, replay))
                return 1
            print("replay passes")
            return 0
        eng = [e for e in prop.engines if e.name == obj.get("engine")]
        if not eng or "case" not in obj:
            print("replay file names no runnable case (%s)" % obj.get("broken", "?"))
            print("VIOLATION property=%s replay=%s no-failing-input-found" % (pid, replay))
            return 1
        eng = eng[0]
        ok, mklog = vlib.coq_make(prop.coq_targets)
        r = run_engine(prop, eng, [obj["case"]], workdir, "replay")
        print(open(r["implout"]).read())
        bad = r["fails"] or r["monitors"] or r["diffs"]
        for x in r["fails"]:
            print("FAIL", x)
        for x in r["monitors"]:
            print("MONITOR", x[0], x[1], x[2][-1500:])
        for x in r["diffs"]:
            print("DIFF", x)
        if bad:
            print("VIOLATION property=%s replay=%s" % (pid, replay))
            return 1
        print("replay passes")
        return 0

    # ---------------- obligations ----------------
    pfiles = prop.properties_v if isinstance(prop.properties_v, (list, tuple)) else [prop.properties_v]
    targets = [pf[:-2] + ".vo" for pf in pfiles] + list(prop.coq_targets)
    ok_make, mklog = vlib.coq_make(targets)
    ok_prop, thms, assum, plog = (True, [], {}, "")
    try:
        for pf in pfiles:
            if ok_make:
                ok1, thms1, assum1, plog1 = vlib.coq_check_properties(pf)
                ok_prop = ok_prop and ok1
                thms += thms1
                assum.update(assum1)
                plog += plog1
            else:
                ok_prop = False
                src = open(os.path.join(vlib.COQ, pf)).read()
                thms += re.findall(r"^\s*Theorem\s+([A-Za-z0-9_']+)", src, re.M)
    except Exception as e:
        ok_prop = False
        plog = str(e)
    forbidden = vlib.coq_forbidden()
    discharged = 0
    allowed_axioms = ("functional_extensionality_dep", "FunctionalExtensionality", "proof_irrelevance",
                      "classic", "JMeq_eq", "eq_rect_eq", "propositional_extensionality",
                      "PrimInt63", "Uint63", "PrimFloat")
    dirty = []
    if ok_make and ok_prop and not forbidden:
        for t in thms:
            a = assum.get(t)
            if a is None:
                dirty.append(t + ": no Print Assumptions")
            elif a.startswith("Closed under"):
                discharged += 1
            else:
                names = re.findall(r"^\s*([A-Za-z0-9_.']+)\s*:", a, re.M)
                if all(any(x in n for x in allowed_axioms) for n in names):
                    discharged += 1
                else:
                    dirty.append(t + ": " + a[:200])
    if not ok_make:
        errs = re.findall(r'File "\./([^"]+)", line (\d+)[^\n]*\n(Error:[^\n]*(?:\n[^\n]+){0,4})', mklog)
        for f, l, e in errs[:5]:
            broken.append("coq build: %s:%s %s" % (f, l, e.replace("\n", " ")[:300]))
        if not errs:
            broken.append("coq build failed: " + mklog[-600:].replace("\n", " "))
    elif not ok_prop:
        broken.append("obligations file %s no longer checks: %s" % (",".join(pfiles), plog[-600:].replace("\n", " ")))
    if forbidden:
        broken.append("forbidden constructs: " + "; ".join(forbidden[:5]))
    for d in dirty:
        broken.append("assumptions not clean: " + d)
    # thorough tier: the property's statement modules and everything they depend on are
    # re-checked by the independent checker coqchk, which must report no axioms and no
    # relaxed kernel checks
    coqchk_note = None
    if tier == "thorough" and ok_make and ok_prop and not forbidden:
        okc, note = vlib.coqchk(pfiles)
        coqchk_note = note
        if not okc:
            broken.append("coqchk: " + note[:400])
        else:
            vlib.log("[%s] coqchk: %s" % (prop.id, note))
    obligations = len(thms)
    if obligations == 0:
        broken.append("no Theorem found in " + ",".join(pfiles))

    # ---------------- correspondence ----------------
    rng = random.Random(seed)
    totals = dict(evaluations=0, classes={}, distinct=set(), samples=[], stats={})
    corr_broken = []
    engine_errors = []

    def account(eng, cases, r):
        totals["evaluations"] += len(cases)
        for i, c in enumerate(cases):
            cls = r["classes"].get(i, "unclassified")
            totals["classes"][eng.name + ":" + cls] = totals["classes"].get(eng.name + ":" + cls, 0) + 1
            if not cls.startswith("trivial"):
                totals["distinct"].add(vlib.sha(eng.name, c)[:16])
        for k, v in r["stats"].items():
            totals["stats"][eng.name + ":" + k] = v
        if cases and len(totals["samples"]) < 6:
            idx = [0, len(cases) // 2, len(cases) - 1]
            for j in idx[:2]:
                totals["samples"].append({"engine": eng.name, "case": cases[j][:600], "class": r["classes"].get(j, "?")})

    def handle(eng, cases, r, searching=False):
        """classify results; returns (n_unlisted_failures)"""
        n = 0
        seen_kinds = set()
        for (i, kind, detail) in r["fails"] + [(i, k, d) for (i, k, d) in r["monitors"]]:
            case = cases[i] if i < len(cases) else ""
            kf = [f for f in known if finding_matches(f, kind, detail)]
            if kf:
                continue
            if kind in seen_kinds and n >= 3:
                continue
            seen_kinds.add(kind)
            n += 1
            small = case
            try:
                small = shrink(prop, eng, case, workdir, want_kind=kind)
            except Exception as e:
                log("shrink failed:", e)
            violations.append((kind, detail, dict(property=pid, engine=eng.name, case=small, original_case=case if small != case else None,
                                                  kind=kind, detail=detail[-2000:], seed=seed, tier=tier), True))
        return n

    for eng in prop.engines:
        try:
            corpus = corpus_cases(pid, eng.name)
            n = eng.n_quick if tier == "quick" else eng.n_thorough
            gen_cases = eng.gen(rng, tier, n)
            cases = corpus + gen_cases
            r = run_engine(prop, eng, cases, workdir, "main")
            account(eng, cases, r)
            handle(eng, cases, r)
            # known findings: report those whose corpus replay still fails
            for f in known:
                if f.get("engine") not in (None, eng.name):
                    continue
                hit = [1 for (i, kind, detail) in r["fails"] + r["monitors"] if finding_matches(f, kind, detail)]
                if hit:
                    print("KNOWN-FINDING: property=%s %s" % (pid, f.get("what", f.get("kind"))))
            if r["diffs"]:
                for (i, d) in r["diffs"][:3]:
                    small = cases[i]
                    try:
                        small = shrink(prop, eng, cases[i], workdir, want_diff=True)
                    except Exception as e:
                        log("shrink failed:", e)
                    corr_broken.append(dict(engine=eng.name, case=small, diff=d[:1500], n_diffs=len(r["diffs"])))
                broken.append("correspondence model-vs-implementation (engine %s): %d of %d cases differ" % (eng.name, len(r["diffs"]), len(cases)))
        except vlib.BuildError as e:
            engine_errors.append(str(e))
            broken.append("engine %s cannot run: %s" % (eng.name, str(e)[:400].replace("\n", " ")))

    for chk in prop.extra_checks:
        try:
            for (kind, detail, robj) in chk(dict(prop=prop, tier=tier, seed=seed, workdir=workdir, totals=totals)):
                kf = [f for f in known if finding_matches(f, kind, detail)]
                if kf:
                    print("KNOWN-FINDING: property=%s %s" % (pid, kf[0].get("what", kind)))
                    continue
                if robj is None:
                    broken.append("%s: %s" % (kind, detail[:400]))
                else:
                    robj = dict(robj, property=pid, kind=kind, detail=detail[-2000:])
                    violations.append((kind, detail, robj, True))
        except vlib.BuildError as e:
            broken.append("extra check cannot run: %s" % str(e)[:400].replace("\n", " "))

    # ---------------- search after a break ----------------
    searched = 0
    if broken and not violations:
        log("[%s] obligation/correspondence broken: searching for a failing input" % pid)
        for eng in prop.engines:
            try:
                for round_ in range(eng.search_factor):
                    rng2 = random.Random(seed * 7919 + 13 * round_ + 1)
                    n = (eng.n_quick if tier == "quick" else eng.n_thorough)
                    cases = eng.gen(rng2, "search", n)
                    r = run_engine(prop, eng, cases, workdir, "search%d" % round_)
                    searched += len(cases)
                    if handle(eng, cases, r, searching=True):
                        break
            except vlib.BuildError as e:
                log("search: engine cannot run:", str(e)[:300])
            if violations:
                break

    # ---------------- verdict ----------------
    rc = 0
    printed = set()
    for (kind, detail, robj, found) in violations:
        robj["broken_obligations"] = broken
        path = vlib.write_replay(pid, robj)
        if kind in printed:
            continue
        printed.add(kind)
        print("VIOLATION property=%s replay=%s" % (pid, path))
        log("  kind=%s detail=%s" % (kind, detail[:400]))
        rc = 1
    if broken and not violations:
        robj = dict(property=pid, broken=broken, correspondence_diffs=corr_broken, searched_cases=searched, seed=seed, tier=tier,
                    note="no concrete failing input was found by the search; the property is no longer shown to hold")
        if corr_broken:
            robj["engine"] = corr_broken[0]["engine"]
            robj["case"] = corr_broken[0]["case"]
        path = vlib.write_replay(pid, robj)
        print("VIOLATION property=%s replay=%s no-failing-input-found" % (pid, path))
        for b in broken[:6]:
            log("  broken: " + b)
        rc = 1

    ev = dict(
        property_id=pid, tier=tier, seed=seed, level="proof", wall_s=round(time.time() - t0, 2),
        violations=len(printed) + (1 if (broken and not violations) else 0),
        assumptions=prop.assumptions,
        coverage=dict(
            obligations=max(obligations, 0), discharged=discharged,
            checker_cmd="coq_makefile/make (coqc 8.16.1, full .vo) on coq/{%s} and dependencies; Print Assumptions per theorem" % ",".join(pfiles),
            trusted_base=prop.trusted_base,
            theorems=thms, print_assumptions=assum,
            broken=broken,
            evaluations=totals["evaluations"], distinct_nontrivial=len(totals["distinct"]),
            rule=prop.rule, samples=totals["samples"], class_distribution=totals["classes"],
            stats=totals["stats"], searched_after_break=searched,
            generated_functions=list(prop.generated_fns),
            coqchk=coqchk_note,
            repo=vlib.REPO,
        ))
    vlib.write_evidence(pid, ev)
    log("[%s] tier=%s obligations=%d discharged=%d cases=%d nontrivial=%d wall=%.1fs rc=%d" % (
        pid, tier, obligations, discharged, totals["evaluations"], len(totals["distinct"]), time.time() - t0, rc))
    return rc
