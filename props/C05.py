from runner import Property, Engine
import advgen

PROP = Property(
    pid="C05",
    properties_v="Properties/Properties_C05.v",
    coq_targets=["Extract/Extract_Accept.vo"],
    engines=[Engine(name="chan05", c_srcs=["harness/sim.c", "harness/chan_drv.c"],
                    ml_srcs=["ocaml/gen/AcceptModel.ml", "ocaml/chan05_drv.ml"], ml_packages=["str"],
                    wraps=["ares_tvnow", "ares_rand_bytes", "ares_generate_new_id",
                           "ares_htable_hash_FNV1a", "ares_htable_hash_FNV1a_casecmp"],
                    gen=advgen.gen, n_quick=5000, n_thorough=200000, timeout=3000)],
    trusted_base=["Coq 8.16.1 kernel + coqc (vm_compute only for the refutation witnesses)",
                  "extraction (ExtrOcamlBasic only) + OCaml 4.13.1",
                  "gen/regen.py: constants (rcodes, status codes, cookie states, COOKIE_RESEND_MAX) and the translated "
                  "timeval_is_set, compiled against the working tree",
                  "harness/sim.c (virtual sockets, clock, RNG/id source, QSTATE dump of the channel's query/connection/"
                  "cookie state), ocaml/chan05_drv.ml (log reader, DNS message reader, sync of send-side inputs), gen/advgen.py",
                  "clang 14 ASan/UBSan"],
    assumptions=["the accept path (ares_conn_read source test, process_answer, same_questions, ares_cookie_validate, "
                 "requeue/end, qcache insert/fetch, generate_unique_qid) is hand-modelled in coq/Core/Accept.v; the tie to "
                 "the C code is the per-packet correspondence run",
                 "the send side (server/connection choice, time-outs, ares_cookie_apply) is an input of the model: "
                 "theorems quantify over every such schedule, the run feeds the observed one",
                 "ares_dns_parse is abstract: a datagram is empty, malformed or a parsed record (id, QR, opcode, TC, rcode, "
                 "questions, OPT/cookie, cache TTL, ghost provenance tag)"],
    rule="adversarial histories on the channel simulator: 1-4 genuine queries each surrounded by 0-6 forged/stale packets "
         "(wrong id/name/case/type/class/source/socket/cookie/QR, truncated, late after resend / TCP upgrade / completion / "
         "id reuse / cache insert) under all flag configurations; non-trivial = at least one datagram was read by the "
         "library; distinct by case text",
)
