import os
from runner import Property, Engine
import dnsgen
import legacygen

os.environ.setdefault("WIRE_ORACLES", "C02")
os.environ.setdefault("LEGACY_ORACLES", "C02")

PROP = Property(
    pid="C02",
    properties_v=["Properties/Properties_C02.v", "Properties/Properties_C02_buf.v"],
    coq_targets=["Extract/Extract_Wire.vo", "Extract/Extract_Legacy.vo"],
    engines=[Engine(name="wire", c_srcs=["harness/wire_drv.c"],
                    ml_srcs=["ocaml/gen/WireModel.ml", "ocaml/wire_drv.ml"],
                    gen=dnsgen.gen, n_quick=12000, n_thorough=150000, sep=None, timeout=600),
             # the legacy reply decoders (ares_parse_*_reply, addrttl arrays with guard elements,
             # allocation ledger): C18's engine, judged here on the memory-safety clauses only
             Engine(name="legacy", c_srcs=["harness/legacy_drv.c"],
                    ml_srcs=["ocaml/gen/LegacyModel.ml", "ocaml/legacy_drv.ml"],
                    gen=legacygen.gen, n_quick=4000, n_thorough=40000)],
    trusted_base=["Coq 8.16.1 kernel + coqc (vm_compute; no native_compute)",
                  "extraction (ExtrOcamlBasic only, no Extract Constant) + OCaml 4.13.1",
                  "gen/c2gallina.py with helper inlining and byte regions (ares_buf_fetch_be16/be32/bytes/bytes_dup/peek_byte/tag_fetch_bytes: every byte access carries an OutOfBounds guard; Properties_C02_buf.v)",
                  "gen/c2gallina.py (ares_buf_len/consume/set_position/get_position, ares_dns_rr_remaining_len, ares_dns_flags_arevalid translated from the working tree)",
                  "gen/tables.c + gen/regen.d/wire_tables.py (type/class/key tables and character classes obtained by calling the working tree's library)",
                  "gen/regen.py constants (status codes, ARES_RR_* keys, datatypes, parse flags)",
                  "harness/wire_drv.c, ocaml/wire_drv.ml, gen/dnsgen.py (correspondence check, allocation ledger)",
                  "clang 14 ASan/UBSan/LSan"],
    assumptions=["the parsers are hand-modelled check by check (coq/Wire/Cursor.v, Name.v, Parse.v); the tie to the C text is generation for the cursor arithmetic and the correspondence run elsewhere",
                 "allocation failure is not modelled (C14)",
                 "absence of UB in the C text itself (e.g. a wrong memcpy length) and of leaks is observed by sanitizers / the allocation ledger on the generated inputs, not proved"],
    rule="legacy engine: every ares_parse_*_reply on generated/mutated messages with every addrttl capacity (guard elements), leak ledger || structure-aware DNS messages + mutations + repository fuzz seeds, all parse-flag values; legacy expand_name/expand_string with arbitrary int lengths; non-trivial = input of at least 12 octets (got past the header length check) or a legacy call; distinct by case text",
    generated_fns=["ares_buf_fetch_be16", "ares_buf_fetch_be32", "ares_buf_fetch_bytes", "ares_buf_fetch_bytes_dup", "ares_buf_peek_byte", "ares_buf_tag_fetch_bytes", "ares_buf_len", "ares_buf_consume", "ares_buf_set_position", "ares_buf_get_position",
                   "ares_dns_rr_remaining_len", "ares_dns_flags_arevalid"],
)
