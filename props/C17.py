from runner import Property, Engine
import cookiegen
import chan17gen

PROP = Property(
    pid="C17",
    properties_v="Properties/Properties_C17.v",
    coq_targets=["Extract/Extract_Cookie.vo"],
    engines=[Engine(name="cookie", c_srcs=["harness/cookie_drv.c"],
                    ml_srcs=["ocaml/gen/CookieModel.ml", "ocaml/cookie_drv.ml"],
                    wraps=["ares_rand_bytes", "ares_requeue_query"],
                    gen=cookiegen.gen, n_quick=4000, n_thorough=100000),
             Engine(name="chan17", c_srcs=["harness/sim.c", "harness/chan_drv.c"],
                    ml_srcs=["ocaml/gen/CookieModel.ml", "ocaml/chan17_drv.ml"],
                    wraps=["ares_tvnow", "ares_rand_bytes", "ares_generate_new_id",
                           "ares_htable_hash_FNV1a", "ares_htable_hash_FNV1a_casecmp"],
                    gen=chan17gen.gen, n_quick=2500, n_thorough=40000)],
    trusted_base=["Coq 8.16.1 kernel + coqc (vm_compute; no native_compute)",
                  "extraction (ExtrOcamlBasic only, no Extract Constant) + OCaml 4.13.1",
                  "gen/c2gallina.py (timeval_is_set, timeval_expired, ares_timeval_diff translated from the working tree) and gen/regen.py constants",
                  "harness/cookie_drv.c (fabricated server/connection, --wrap of ares_rand_bytes and ares_requeue_query), ocaml/cookie_drv.ml, gen/cookiegen.py",
                  "clang 14 ASan/UBSan"],
    assumptions=["ares_cookie_apply/ares_cookie_validate are hand-modelled (coq/Core/Cookie.v) and tied by the correspondence run; time predicates are generated",
                 "caller behaviour built into the system model: TCP connection when query->using_tcp; responses matched only to transmitted queries; allocation never fails"],
    rule="chan17: whole-channel histories on the simulator judged by the extracted monitor, one monitor state per server; cookie: random/boundary-directed apply/validate histories on one server with 4 query slots; non-trivial = at least two apply/validate steps reached the cookie code; distinct by case text",
    generated_fns=["src/lib/ares_cookie.c:timeval_is_set", "src/lib/ares_cookie.c:timeval_expired", "src/lib/ares_timeout.c:ares_timeval_diff"],
)
