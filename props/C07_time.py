"""C07, single-threaded half (hint arithmetic, deadline order, pop-while-expired).
Exports the pieces for the coordinator's props/C07.py and a stand-alone PROP so that
`bin/check C07_time` runs this half alone."""
from runner import Property, Engine
import timegen

WRAPS = ["ares_tvnow", "ares_rand_bytes", "ares_generate_new_id"]

ENGINES = [Engine(name="time", c_srcs=["harness/time_drv.c"],
                  ml_srcs=["ocaml/gen/TimeModel.ml", "ocaml/time_drv.ml"],
                  gen=timegen.gen_c07, wraps=WRAPS, n_quick=4000, n_thorough=60000)]
PROPERTIES_V = ["Properties/Properties_C07.v"]
COQ_TARGETS = ["Extract/Extract_Time.vo"]
TRUSTED = ["gen/c2gallina.py (C -> Gallina for ares_timedout, ares_timeval_remaining, ares_query_timeout_cmp_cb, ares_timeval_to_struct_timeval, struct_timeval_to_ares_timeval, timeadd)",
           "harness/time_drv.c (real channel with fabricated queries in queries_by_timeout; --wrap=ares_tvnow), ocaml/time_drv.ml, gen/timegen.py",
           "sortedness of channel->queries_by_timeout is a hypothesis of C07_hint_sound (C19's skip-list theorem; the comparator is proved to be the total preorder it needs, and the engine compares the real index order)"]
ASSUMPTIONS = ["ares_timeout_int and the loop of process_timeouts are hand-modelled (they call the generated functions); tie = correspondence on fabricated deadline sets and on single-query channel runs processed 1us before / at / after the deadline",
               "timevals are normalised with |sec| < 2^62 (ares_tvnow returns clock seconds)"]
RULE = "boundary-directed timevals (usec 0/999999, equal seconds, now just before/at/after the deadline), deadline sets of 0..60 queries with duplicates, maxtv none/smaller/equal/larger; non-trivial = model produced a result; distinct by case text"

PROP = Property(
    pid="C07",
    properties_v=PROPERTIES_V,
    coq_targets=COQ_TARGETS,
    engines=ENGINES,
    trusted_base=["Coq 8.16.1 kernel + coqc", "extraction (ExtrOcamlBasic only) + OCaml 4.13.1", "clang 14 ASan/UBSan"] + TRUSTED,
    assumptions=ASSUMPTIONS,
    rule=RULE,
    generated_fns=["src/lib/ares_process.c:ares_timedout", "src/lib/ares_timeout.c:ares_timeval_remaining",
                   "src/lib/ares_init.c:ares_query_timeout_cmp_cb", "src/lib/ares_timeout.c:ares_timeval_to_struct_timeval",
                   "src/lib/ares_timeout.c:struct_timeval_to_ares_timeval", "src/lib/ares_process.c:timeadd"],
)
