import os
from runner import Property, Engine
import dnsgen
import transportgen

os.environ.setdefault("WIRE_ORACLES", "C03")
os.environ.setdefault("CHAN20_ORACLES", "C03")

CHAN_WRAPS = ["ares_tvnow", "ares_rand_bytes", "ares_generate_new_id", "ares_htable_hash_FNV1a", "ares_htable_hash_FNV1a_casecmp"]

PROP = Property(
    pid="C03",
    properties_v="Properties/Properties_C03.v",
    coq_targets=["Extract/Extract_Wire.vo", "Extract/Extract_Frame.vo"],
    engines=[Engine(name="wire", c_srcs=["harness/wire_drv.c"],
                    ml_srcs=["ocaml/gen/WireModel.ml", "ocaml/wire_drv.ml"],
                    gen=dnsgen.gen_c03, n_quick=10000, n_thorough=120000, sep=";", timeout=600),
             # "the same holds for the length-prefixed frames the library actually hands to sockets":
             # C20's simulator engine (every buffer given to asendto / the TCP stream at the virtual
             # server), judged here on the frame oracles only (CHAN20_ORACLES=C03: kinds
             # udp-datagram-not-one-message, tcp-frame-malformed, tcp-frame-mismatch, framing)
             Engine(name="chan20", c_srcs=["harness/sim.c", "harness/c20_drv.c"],
                    ml_srcs=["ocaml/gen/FrameModel.ml", "ocaml/c20_drv.ml"],
                    gen=transportgen.gen_frames, wraps=CHAN_WRAPS, n_quick=600, n_thorough=12000, timeout=1200)],
    trusted_base=["Coq 8.16.1 kernel + coqc (vm_compute; no native_compute)",
                  "extraction (ExtrOcamlBasic only, no Extract Constant) + OCaml 4.13.1",
                  "coq/Wire/Roundtrip.v record_eqb + Escape.v unescape (what 'equal field by field' means: names as label sequences)",
                  "gen/tables.c, gen/regen.py (key tables, constants, character classes from the working tree)",
                  "harness/wire_drv.c (records built through the public setters, TCP buffer with earlier frames), ocaml/wire_drv.ml (dump parser, oracle glue), gen/dnsgen.py",
                  "clang 14 ASan/UBSan"],
    assumptions=["the round-trip statements for ALL records are not yet Coq theorems: they are decided per run by the oracle on generated records (parsed messages, records built through the public setters incl. escapes, shared suffixes, > 16 KiB and > 64 KiB totals, TCP frames after 0..3 earlier frames and partial sends, legacy query builders) and by the model-vs-implementation comparison of the written octets",
                 "re-serialisation to identical octets is judged only for records whose names are in canonical presentation form (the writer matches compression candidates textually)",
                 "ares_dnsrec_convert_cb (search path) and the bytes seen by a virtual server belong to the simulator properties"],
    rule="records from the parser and from the public setters; non-trivial = the record was written (or a frame / query was produced); distinct by case text; oracle = extracted record_eqb between the written and the re-parsed record, rewrite equality, frame layout, 65535 limit",
    generated_fns=[],
)
