from runner import Property, Engine
import stressgen
import evupdgen
import evgen

PROP = Property(
    pid="C11",
    properties_v=["Properties/Properties_C11.v", "Properties/Properties_C11_evupd.v", "Properties/Properties_C11_reinit.v"],
    coq_targets=["Extract/Extract_Locks.vo", "Extract/Extract_EvUpdates.vo", "Extract/Extract_EventLoop.vo"],
    engines=[Engine(name="tstress", c_srcs=["harness/thread_stress_drv.c"], variant="tsan",
                    ml_srcs=["ocaml/gen/LocksModel.ml", "ocaml/tstress_drv.ml"],
                    gen=stressgen.gen, n_quick=18, n_thorough=400, sep=None, timeout=3000, search_factor=1, per_case=True),
             # C07's event-thread engine (real event thread, mock server): here for the queue-wait
             # clause (a waiter woken by the notification must look at the queue again) and the
             # per-request guarantees under the event thread
             Engine(name="evthread", c_srcs=["harness/evthread_drv.c"],
                    ml_srcs=["ocaml/gen/EventLoopModel.ml", "ocaml/evthread_drv.ml"], ml_packages=["str"],
                    gen=evgen.gen, n_quick=30, n_thorough=300, sep=None, timeout=3000, search_factor=1, per_case=True),
             Engine(name="evupd", c_srcs=["harness/evupd_drv.c"],
                    ml_srcs=["ocaml/gen/EvUpdatesModel.ml", "ocaml/evupd_drv.ml"],
                    gen=evupdgen.gen, n_quick=3000, n_thorough=200000, sep=";")],
    trusted_base=["Coq 8.16.1 kernel + coqc (vm_compute for the finite fact table)",
                  "gen/lockfacts.py: syntactic lock-bracket analysis of the clang AST of every public entry point (regenerated each run)",
                  "whitelists in coq/Core/LockDiscipline.v (exclusive-by-contract functions, immutable-after-init fields, stateless callees)",
                  "harness/thread_stress_drv.c + ThreadSanitizer (search for a concrete failing schedule; not a proof)",
                  "harness/evupd_drv.c: the library's ares_event_thread.c compiled into the driver, recording event backend; ocaml/evupd_drv.ml (monitor on the implementation's trace)",
                  "gen/regen.d/wait_facts.py: textual reading of the loop of ares_queue_wait_empty (condition, exits with their guards, waits)", "gen/regen.d/reinit_facts.py: textual reading of ares_reinit_thread (actions in source order; callees that take the channel lock found by text search) and of the statement order in ares_reinit",
                  "extraction (ExtrOcamlBasic) + OCaml 4.13.1"],
    assumptions=["entry points are abstracted to their lock actions and channel-field accesses; races below the lock level (libc, OS, memory model) are not modelled",
                 "real schedules are only sampled (TSan stress with optional yield hook)",
                 "reload protocol: the client side (ares_reinit) is modelled by hand, only the order of its statements is read off the source; ares_destroy's join (without the lock) is not in the model",
                 "registration model: allocation in ares_event_update and the backend's event_add are assumed to succeed; the kernel forgets a closed socket's registration (epoll/kqueue), descriptor numbers may be reused at once"],
    rule="client threads issuing queries/searches/getaddrinfo/cancel/set-servers/reinit/save-options/get-servers/timeout against a live event thread on each backend; non-trivial = at least two requests issued; distinct by case text || event-handle registration: socket-state callbacks, raw updates and drains over a small pool of descriptor numbers (closed and reused before the drain); non-trivial = at least one drain",
)
