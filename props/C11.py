from runner import Property, Engine
import stressgen

PROP = Property(
    pid="C11",
    properties_v=["Properties/Properties_C11.v"],
    coq_targets=["Extract/Extract_Locks.vo"],
    engines=[Engine(name="tstress", c_srcs=["harness/thread_stress_drv.c"], variant="tsan",
                    ml_srcs=["ocaml/gen/LocksModel.ml", "ocaml/tstress_drv.ml"],
                    gen=stressgen.gen, n_quick=18, n_thorough=400, sep=None, timeout=3000, search_factor=1, per_case=True)],
    trusted_base=["Coq 8.16.1 kernel + coqc (vm_compute for the finite fact table)",
                  "gen/lockfacts.py: syntactic lock-bracket analysis of the clang AST of every public entry point (regenerated each run)",
                  "whitelists in coq/Core/LockDiscipline.v (exclusive-by-contract functions, immutable-after-init fields, stateless callees)",
                  "harness/thread_stress_drv.c + ThreadSanitizer (search for a concrete failing schedule; not a proof)",
                  "extraction (ExtrOcamlBasic) + OCaml 4.13.1"],
    assumptions=["entry points are abstracted to their lock actions and channel-field accesses; races below the lock level (libc, OS, memory model) are not modelled",
                 "real schedules are only sampled (TSan stress with optional yield hook)"],
    rule="client threads issuing queries/searches/getaddrinfo/cancel/set-servers/reinit/save-options/get-servers/timeout against a live event thread on each backend; non-trivial = at least two requests issued; distinct by case text",
)
