import os
from runner import Property, Engine
import dnsgen

os.environ.setdefault("WIRE_ORACLES", "C04")

PROP = Property(
    pid="C04",
    properties_v="Properties/Properties_C04.v",
    coq_targets=["Extract/Extract_Wire.vo"],
    engines=[Engine(name="wire", c_srcs=["harness/wire_drv.c"],
                    ml_srcs=["ocaml/gen/WireModel.ml", "ocaml/wire_drv.ml"],
                    gen=dnsgen.gen_c04, n_quick=12000, n_thorough=150000, sep=None, timeout=600)],
    trusted_base=["Coq 8.16.1 kernel + coqc (vm_compute; no native_compute)",
                  "extraction (ExtrOcamlBasic only, no Extract Constant) + OCaml 4.13.1",
                  "coq/Wire/RefDecode.v + Escape.v: the reference decoder, written from RFC 1035/2535/2782/3403/3596/6698/6891/7553/8659/9460 (it IS the specification; reviewed by reading, tied to nothing)",
                  "gen/tables.c (key numbers, which printable characters the library escapes, rcode/class/opcode tables used by the supported-subset predicate)",
                  "harness/wire_drv.c, ocaml/wire_drv.ml, gen/dnsgen.py",
                  "clang 14 ASan/UBSan"],
    assumptions=["C04_sound and C04_complete are Coq theorems about the model Parse.v (fixed variant, parse flags 0), which is tied to the library by the differential run (implementation dump vs extracted model and vs extracted reference decoder) on generated messages",
                 "ref_decode is lenient (ignores trailing octets, accepts compressed names anywhere); messages with more than one OPT RR are outside its domain (counted, not judged)",
                 "supported subset for completeness: one question, known opcode, known classes, printable text fields, RDATA consumed exactly"],
    rule="structure-aware DNS messages (all supported RR types, compression layouts, boundary lengths) + mutations; non-trivial = the parser got past the header; distinct by case text; the oracle compares the implementation's dump through the public getters with the dump of the extracted reference decoder",
    generated_fns=[],
)
