from runner import Property, Engine
import legacygen
import gai13gen

PROP = Property(
    pid="C13",
    properties_v="Properties/Properties_C13.v",
    coq_targets=["Extract/Extract_AddrInfo.vo", "Extract/Extract_Gai.vo"],
    engines=[Engine(name="ai", c_srcs=["harness/ai_drv.c"],
                    ml_srcs=["ocaml/gen/AddrInfoModel.ml", "ocaml/ai_drv.ml"],
                    gen=legacygen.gen_ai, n_quick=6000, n_thorough=80000),
             Engine(name="chan13", c_srcs=["harness/sim.c", "harness/chan_drv.c"],
                    ml_srcs=["ocaml/gen/GaiModel.ml", "ocaml/chan13_drv.ml"],
                    wraps=["ares_tvnow", "ares_rand_bytes", "ares_generate_new_id",
                           "ares_htable_hash_FNV1a", "ares_htable_hash_FNV1a_casecmp"],
                    gen=gai13gen.gen, n_quick=5000, n_thorough=60000)],
    trusted_base=["Coq 8.16.1 kernel + coqc",
                  "extraction (ExtrOcamlBasic only, no Extract Constant) + OCaml 4.13.1",
                  "gen/regen.py constants compiled against the working tree",
                  "harness/ai_drv.c (calls the internal functions directly; ares_gethostbyname.c compiled into the driver to reach the static sortlist sort; virtual socket callbacks for find_src_addr), ocaml/ai_drv.ml, gen/legacygen.py",
                  "clang 14 ASan/UBSan/LSan"],
    assumptions=["end-to-end half (engine chan13): ares_getaddrinfo / ares_gethostbyname / ares_gethostbyaddr are modelled ABOVE the query layer (coq/Legacy/Gai.v, for the code WITH fixes/C13-gai-family-restrict.patch); inputs from other layers: the outcome of every sub-query (accepted record or error status: C05/C12), the candidate names (C12; one round per name actually queried, read from the TX log), inet_pton, service->port, the tokenised hosts file",
                 "qsort is trusted: it leaves some permutation of the element array (Section hypothesis); the RFC 6724 comparator is not modelled (the property is about content, not order); node order is compared only under ARES_AI_NOSORT",
                 "get_address_index (sortlist matching, ares_subnet_match) is a parameter of the insertion-sort model; the driver feeds it the indices the implementation computed",
                 "the wire parser is not modelled (record = what the public getters report / what the scripted rsp specs say); allocation always succeeds; cache cases (qcachettl>0) run without search domains and the driver predicts cache hits/aged TTLs with its own table; ARES_AI_ENVHOSTS, .onion names, service names from /etc/services are not generated"],
    rule="ai: pia (generated responses through ares_parse_into_addrinfo, then addrinfo2hostent x3, addrinfo2addrttl x10, ares_sortaddrinfo x3, ares_parse_ptr_reply_dnsrec), ptr, sort, lo cases. chan13: simulator histories of 1-3 sequential requests (gai/ghbn/ghba/gni) with lookups b|f|bf|fb, generated hosts files (mixed families per name, aliases, case variants, duplicates, comments, bad lines), search domains/ndots with failing earlier candidates, families 0/4/6, hint flags, numeric services, literals, localhost names, answers with CNAME chains / other-family records / duplicates / junk / 0-30 records / TTL mixes, one family answered and the other NODATA/NXDOMAIN/SERVFAIL/timeout, both arrival orders; non-trivial = at least one request completed; distinct by case text",
)
