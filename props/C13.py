from runner import Property, Engine
import legacygen

PROP = Property(
    pid="C13",
    properties_v="Properties/Properties_C13.v",
    coq_targets=["Extract/Extract_AddrInfo.vo"],
    engines=[Engine(name="ai", c_srcs=["harness/ai_drv.c"],
                    ml_srcs=["ocaml/gen/AddrInfoModel.ml", "ocaml/ai_drv.ml"],
                    gen=legacygen.gen_ai, n_quick=6000, n_thorough=80000)],
    trusted_base=["Coq 8.16.1 kernel + coqc",
                  "extraction (ExtrOcamlBasic only, no Extract Constant) + OCaml 4.13.1",
                  "gen/regen.py constants compiled against the working tree",
                  "harness/ai_drv.c (calls the internal functions directly; ares_gethostbyname.c compiled into the driver to reach the static sortlist sort; virtual socket callbacks for find_src_addr), ocaml/ai_drv.ml, gen/legacygen.py",
                  "clang 14 ASan/UBSan/LSan"],
    assumptions=["function level only: the end-to-end half (getaddrinfo/gethostbyname/gethostbyaddr through a channel, merging of the A and AAAA sub-queries, hosts file, literals) needs the channel simulator and is not covered here",
                 "qsort is trusted: it leaves some permutation of the element array (Section hypothesis); the RFC 6724 comparator is not modelled (the property is about content, not order)",
                 "get_address_index (sortlist matching, ares_subnet_match) is a parameter of the insertion-sort model; the driver feeds it the indices the implementation computed",
                 "the wire parser is not modelled (record = what the public getters report); allocation always succeeds"],
    rule="pia: generated responses through ares_parse_into_addrinfo (empty / pre-populated addrinfo, both cname_only settings, ports), then addrinfo2hostent x3 families, addrinfo2addrttl x2 families x5 capacities, ares_sortaddrinfo x3 source-address modes, ares_parse_ptr_reply_dnsrec; ptr: random and boundary addresses; sort: sortlists x address lists with duplicates; lo: all family/port/pre-existing-node combinations; non-trivial per CASE class; distinct by case text",
)
