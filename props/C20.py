from runner import Property, Engine
import transportgen

WRAPS = ["ares_tvnow", "ares_rand_bytes", "ares_generate_new_id", "ares_htable_hash_FNV1a", "ares_htable_hash_FNV1a_casecmp"]

PROP = Property(
    pid="C20",
    properties_v="Properties/Properties_C20.v",
    coq_targets=["Extract/Extract_Frame.vo"],
    engines=[Engine(name="chan20", c_srcs=["harness/sim.c", "harness/c20_drv.c"],
                    ml_srcs=["ocaml/gen/FrameModel.ml", "ocaml/c20_drv.ml"],
                    gen=transportgen.gen_c20, wraps=WRAPS, n_quick=1500, n_thorough=40000, timeout=1200)],
    trusted_base=["Coq 8.16.1 kernel + coqc", "extraction (ExtrOcamlBasic only) + OCaml 4.13.1",
                  "gen/c2gallina.py for the buffer cursor functions (ares_buf_len/consume/tag/tag_rollback/tag_clear), regenerated from the working tree",
                  "harness/sim.c (virtual sockets: chunked reads, partial writes), harness/c20_drv.c, ocaml/c20_drv.ml, gen/transportgen.py",
                  "clang 14 ASan/UBSan"],
    assumptions=["buffers hold fewer than 2^64-1 bytes",
                 "whether ares_buf_ensure_space() reclaims consumed bytes before an append is an arbitrary input of the model (alloc_buf_len is not modelled)",
                 "process_answer's verdict on a message (accepted / rejected) is a function of the message bytes; its effect on queries is modelled only as the decision chain process_answer_decide",
                 "asendto never reports more bytes than offered"],
    rule="simulator histories run twice (with and without chunk=/wpat= patterns); non-trivial = in the segmented run at least one read completed a frame that had been buffered incomplete, or a write was short / would-block, or a truncated UDP answer was retried over TCP; distinct by case text",
    generated_fns=["ares_buf_len", "ares_buf_consume", "ares_buf_tag", "ares_buf_tag_rollback", "ares_buf_tag_clear"],
)
