from runner import Property, Engine
import histgen

WRAPS = ["ares_tvnow", "ares_rand_bytes", "ares_generate_new_id",
         "ares_htable_hash_FNV1a", "ares_htable_hash_FNV1a_casecmp",
         # harness/chan01_trace.c: decision points of the lifecycle code (LC events, lctrace=1)
         "ares_qcache_fetch", "ares_dns_record_duplicate_ex", "ares_dns_record_query_set_name",
         "ares_open_connection", "ares_cookie_apply", "ares_conn_flush", "ares_cookie_validate",
         "ares_close_connection", "ares_metrics_record", "ares_parse_into_addrinfo",
         "ares_parse_ptr_reply_dnsrec", "ares_check_cleanup_conns", "ares_servers_update"]

# the model follows the tree under test: ares_cancel() marks the queries it has taken
# (fixes/C01-cancel-complete.patch) or not yet
import os
try:
    import vlib
    _hdr = open(os.path.join(vlib.REPO, "src", "lib", "ares_private.h")).read()
    os.environ["C01_CANCELMARK"] = "1" if "cancelled;" in _hdr else "0"
except Exception:
    pass

PROP = Property(
    pid="C01",
    properties_v="Properties/Properties_C01.v",
    coq_targets=["Extract/Extract_Lifecycle.vo"],
    engines=[Engine(name="chan01", c_srcs=["harness/sim.c", "harness/chan_drv.c", "harness/chan01_trace.c"],
                    ml_srcs=["ocaml/gen/LifecycleModel.ml", "ocaml/chan01_drv.ml"], ml_packages=["str"],
                    wraps=WRAPS, gen=histgen.gen, n_quick=3000, n_thorough=30000, timeout=3000)],
    trusted_base=["Coq 8.16.1 kernel + coqc (vm_compute; no native_compute)",
                  "extraction (ExtrOcamlBasic only, no Extract Constant) + OCaml 4.13.1",
                  "harness/sim.c + harness/chan_drv.c (channel simulator: virtual sockets, clock, RNG; callback bookkeeping)",
                  "ocaml/chan01_drv.ml (projection of the simulator log onto lifecycle events, choice extraction), gen/histgen.py",
                  "clang 14 ASan/UBSan (use after free / double free of requests, connections, buffers on the implementation run)"],
    assumptions=["lifecycle code is hand-modelled (coq/Core/Lifecycle.v); the tie to the C code is the correspondence run on generated histories",
                 "user callbacks other than completion callbacks (socket state, server state, pending write) do not re-enter the channel",
                 "callbacks do not call ares_destroy or ares_process*"],
    rule="generated histories of the channel simulator (requests of all kinds, server behaviours, timeouts, cancel, destroy, reentrant callback scripts, socket failures, TCP); non-trivial = at least one request accepted; distinct by case text",
)
