from runner import Property, Engine
import legacygen

PROP = Property(
    pid="C18",
    properties_v="Properties/Properties_C18.v",
    coq_targets=["Extract/Extract_Legacy.vo"],
    engines=[Engine(name="legacy", c_srcs=["harness/legacy_drv.c"],
                    ml_srcs=["ocaml/gen/LegacyModel.ml", "ocaml/legacy_drv.ml"],
                    gen=legacygen.gen, n_quick=10000, n_thorough=60000)],
    trusted_base=["Coq 8.16.1 kernel + coqc",
                  "extraction (ExtrOcamlBasic only, no Extract Constant) + OCaml 4.13.1",
                  "gen/regen.py constants (status codes, record types, AF_*, INT_MAX) compiled against the working tree",
                  "harness/legacy_drv.c (record dump through the public getters, canonical dump of every legacy result, guard elements, allocation ledger, allocation-failure sweep), ocaml/legacy_drv.ml, gen/legacygen.py",
                  "clang 14 ASan/UBSan/LSan"],
    assumptions=["the wire parser ares_dns_parse is not modelled: its verdict and the record it builds (as seen through the public getters) are inputs of the model",
                 "allocator answers are an input of the ledger model (coq/Legacy/LegacyMem.v: every conversion allocation can fail; the allocations of ares_dns_parse itself are outside the model); the data models (Legacy.v) assume success",
                 "legacy parsers are hand-modelled (coq/Legacy/Legacy.v); the tie to the C code is the correspondence run over every parser and several caller capacities per message"],
    rule="generated DNS responses (valid stream: target type mixed with CNAME chains, other types/classes, foreign owners, duplicates, TTL extremes; malformed stream: truncation, bit flips, garbage, bad counts); every message goes through all 12 legacy entry points; non-trivial = parsed message with a non-empty answer section, or a rejected message; distinct by case text",
)
