from runner import Property, Engine
import allocgen
import allocdsagen

PROP = Property(
    pid="C14",
    properties_v="Properties/Properties_C14.v",
    coq_targets=["Extract/Extract_Alloc.vo"],
    engines=[Engine(name="allocfail", c_srcs=allocgen.C_SRCS,
                    ml_srcs=["ocaml/gen/AllocModel.ml", "ocaml/allocfail_drv.ml"],
                    gen=allocgen.gen, wraps=allocgen.WRAPS, env=allocgen.ENV,
                    n_quick=0, n_thorough=0, sep=None, search_factor=1, timeout=1500),
             Engine(name="allocdsa", c_srcs=allocdsagen.C_SRCS,
                    ml_srcs=["ocaml/gen/AllocModel.ml", "ocaml/allocdsa_drv.ml"],
                    gen=allocdsagen.gen, wraps=allocdsagen.WRAPS,
                    n_quick=0, n_thorough=0, sep=None, search_factor=1, timeout=900)],
    trusted_base=["Coq 8.16.1 kernel + coqc", "extraction (ExtrOcamlBasic) + OCaml 4.13.1",
                  "harness/sim.c (channel simulator, counting/failing allocator), harness/allocfail_drv.c (call-site tracker), ocaml/allocfail_drv.ml, gen/allocgen.py",
                  "clang 14 ASan/UBSan; LeakSanitizer replaced by the allocator ledger (every block, not only unreachable ones)"],
    assumptions=["theorems cover the modelled operations only (see manifest); every other allocation site is covered by enumeration only",
                 "submission models work at the granularity of allocation groups; ares_dns_write / ares_dns_parse and the groups G_key, G_0x20, G_write are assumed all-or-nothing",
                 "the work-stack model (all requests) abstracts the requeue order of a closed connection's requests; tied by enumeration only"],
    rule="one case per (scenario, index n of the failing allocation), every n of every scenario; non-trivial = the failure was reached; distinct by case text",
)
