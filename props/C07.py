from runner import Property, Engine
import evgen

PROP = Property(
    pid="C07",
    properties_v=["Properties/Properties_C07_evthread.v"],
    coq_targets=["Extract/Extract_EventLoop.vo"],
    engines=[Engine(name="evthread", c_srcs=["harness/evthread_drv.c"],
                    ml_srcs=["ocaml/gen/EventLoopModel.ml", "ocaml/evthread_drv.ml"], ml_packages=["str"],
                    gen=evgen.gen, n_quick=36, n_thorough=600, sep=None, timeout=3000, search_factor=1)],
    trusted_base=["Coq 8.16.1 kernel + coqc", "extraction (ExtrOcamlBasic) + OCaml 4.13.1",
                  "harness/evthread_drv.c (mock DNS server on loopback, real event thread, real time), ocaml/evthread_drv.ml",
                  "guarded trace hook CARES_VERIF in src/lib/event/ares_event_thread.c",
                  "OS assumptions of the event-loop model: a signalled wake ends the wait; a wait with timeout t returns by t"],
    assumptions=["event backends, wake pipe and OS scheduling are assumed (modelled as enabledness)",
                 "wall-clock oracle uses a 400 ms scheduling slack"],
    rule="event-thread channels on each backend (epoll/poll/select) with fresh / busy / idle kept-open connection reuse; non-trivial = at least one request issued; distinct by case text",
)
