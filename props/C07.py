"""C07 = single-threaded half (props/C07_time.py: hint arithmetic, deadline order,
pop-while-expired; generated time functions) + event-thread half (EventLoop model, hook-trace
acceptor, real-time oracle)."""
from runner import Property, Engine
import evgen
import C07_time

PROP = Property(
    pid="C07",
    properties_v=C07_time.PROPERTIES_V + ["Properties/Properties_C07_evthread.v"],
    coq_targets=C07_time.COQ_TARGETS + ["Extract/Extract_EventLoop.vo"],
    engines=C07_time.ENGINES + [
        Engine(name="evthread", c_srcs=["harness/evthread_drv.c"],
               ml_srcs=["ocaml/gen/EventLoopModel.ml", "ocaml/evthread_drv.ml"], ml_packages=["str"],
               gen=evgen.gen, n_quick=36, n_thorough=600, sep=None, timeout=3000, search_factor=1, per_case=True)],
    trusted_base=["Coq 8.16.1 kernel + coqc", "extraction (ExtrOcamlBasic) + OCaml 4.13.1", "clang 14 ASan/UBSan"] + C07_time.TRUSTED + [
                  "harness/evthread_drv.c (mock DNS server on loopback, real event thread, real time), ocaml/evthread_drv.ml",
                  "guarded trace hook CARES_VERIF in src/lib/event/ares_event_thread.c",
                  "OS assumptions of the event-loop model: a signalled wake ends the wait; a wait with timeout t returns by t"],
    assumptions=C07_time.ASSUMPTIONS + ["event backends, wake pipe and OS scheduling are assumed (modelled as enabledness)",
                 "wall-clock oracle uses a 400 ms scheduling slack"],
    rule=C07_time.RULE + " || event-thread channels on each backend (epoll/poll/select) with fresh / busy / idle kept-open / late-round connection reuse; non-trivial = at least one request issued; distinct by case text",
    generated_fns=C07_time.PROP.generated_fns,
)
