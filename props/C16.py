from runner import Property, Engine
import cfggen

WRAPS = ["fopen", "gethostname", "ares_os_if_nametoindex", "ares_os_if_indextoname"]

PROP = Property(
    pid="C16",
    properties_v="Properties/Properties_C16.v",
    coq_targets=["Extract/Extract_Config.vo"],
    engines=[Engine(name="config", c_srcs=["harness/config_drv.c"],
                    ml_srcs=["ocaml/gen/ConfigModel.ml", "ocaml/config_drv.ml"],
                    gen=cfggen.gen_c16, wraps=WRAPS, n_quick=4000, n_thorough=60000, timeout=2400)],
    trusted_base=["Coq 8.16.1 kernel + coqc (vm_compute; no native_compute)",
                  "extraction (ExtrOcamlBasic only, no Extract Constant) + OCaml 4.13.1",
                  "gen/regen.py constants (option bits, flags, defaults) compiled against the working tree",
                  "harness/config_drv.c, ocaml/config_drv.ml, gen/cfggen.py (correspondence check)",
                  "clang 14 ASan/UBSan/LSan",
                  "premises of C16_csv_fixpoint / C16_dup per address: ares_inet_pton(ares_inet_ntop(a)) = a, the shape of ntop output, inet_pton(AF_INET6) accepts exactly IPv6 texts (sampled on every generated address)"],
    assumptions=["option handling, server list and text forms are hand-modelled (coq/Config/Options.v, Csv.v, Sysconfig.v); the tie to the C code is the correspondence run",
                 "ARES_OPT_EVENT_THREAD and socket callbacks other than sock_state_cb are not generated",
                 "memory allocation is assumed to succeed"],
    generated_fns=["src/lib/ares_update_servers.c:ares_sconfig_get_port", "src/lib/ares_update_servers.c:ares_server_use_uri"],
    rule="channels built from generated options / setters / system files; save->init, dup, csv round trip, reinit; non-trivial = every class except trivial-*; distinct by case text",
)
