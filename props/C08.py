from runner import Property, Engine
import qcachegen
import chan08gen

PROP = Property(
    pid="C08",
    properties_v="Properties/Properties_C08.v",
    coq_targets=["Extract/Extract_QCache.vo"],
    engines=[Engine(name="qcache", c_srcs=["harness/qcache_drv.c"],
                    ml_srcs=["ocaml/gen/QCacheModel.ml", "ocaml/qcache_drv.ml"],
                    gen=qcachegen.gen, n_quick=3000, n_thorough=60000),
             Engine(name="chan08", c_srcs=["harness/sim.c", "harness/chan_drv.c"],
                    ml_srcs=["ocaml/gen/QCacheModel.ml", "ocaml/chan08_drv.ml"],
                    wraps=["ares_tvnow", "ares_rand_bytes", "ares_generate_new_id",
                           "ares_htable_hash_FNV1a", "ares_htable_hash_FNV1a_casecmp"],
                    gen=chan08gen.gen, n_quick=2500, n_thorough=40000)],
    trusted_base=["Coq 8.16.1 kernel + coqc (vm_compute; no native_compute)",
                  "extraction (ExtrOcamlBasic only, no Extract Constant) + OCaml 4.13.1",
                  "gen/c2gallina.py (ares_dns_rr_get_ttl, ares_qcache_entry_sort_cb translated from the working tree) and gen/regen.py constants",
                  "harness/qcache_drv.c (real channel, direct calls of ares_qcache_insert/fetch/flush, ares_set_servers_csv, ares_reinit), ocaml/qcache_drv.ml, gen/qcachegen.py",
                  "clang 14 ASan/UBSan"],
    assumptions=["ares_qcache.c is hand-modelled (coq/Core/QCache.v) and tied by the correspondence run; the key string is modelled as the tuple of its components (names contain no '|')",
                 "component level: the callers in ares_send.c / ares_process.c / ares_update_servers.c / ares_init.c are exercised only as far as the harness calls them (flush via ares_set_servers_csv and ares_reinit)"],
    rule="qcache: random/boundary-directed insert/fetch/flush/server-edit histories on a real channel; chan08: whole-channel histories on the simulator (requests through five APIs, answers, clock, reconfiguration), a request completed without transmission = hit; non-trivial = at least two accepted insertions or hits; distinct by case text",
    generated_fns=["src/lib/record/ares_dns_record.c:ares_dns_rr_get_ttl", "src/lib/ares_qcache.c:ares_qcache_entry_sort_cb"],
)
