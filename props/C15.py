from runner import Property, Engine
import cfggen

WRAPS = ["fopen", "gethostname", "ares_os_if_nametoindex", "ares_os_if_indextoname"]

PROP = Property(
    pid="C15",
    properties_v="Properties/Properties_C15.v",
    coq_targets=["Extract/Extract_Config.vo"],
    engines=[Engine(name="config", c_srcs=["harness/config_drv.c"],
                    ml_srcs=["ocaml/gen/ConfigModel.ml", "ocaml/config_drv.ml"],
                    gen=cfggen.gen_c15, wraps=WRAPS, n_quick=5000, n_thorough=60000, timeout=2400)],
    trusted_base=["Coq 8.16.1 kernel + coqc (vm_compute; no native_compute)",
                  "extraction (ExtrOcamlBasic only, no Extract Constant) + OCaml 4.13.1",
                  "gen/regen.py constants (status codes, option bits, INET6_ADDRSTRLEN) compiled against the working tree",
                  "harness/config_drv.c (hermetic files/env via --wrap=fopen,gethostname,ares_os_if_*; allocation counting), ocaml/config_drv.ml, gen/cfggen.py",
                  "clang 14 ASan/UBSan/LSan",
                  "grammar of junk lines: coq/Config/Spec.v (junk_class_resolv, junk_db_line, junk_localdomain, junk_res_options), coq/Config/HostsSpec.v (junk_hosts_class)"],
    assumptions=["parsers are hand-modelled (coq/Config/Lines.v, Inet.v); the tie to the C code is the correspondence run",
                 "address parsing is a parameter of the theorems (netfns); the extracted model instantiates it with coq/Config/Inet.v, compared byte for byte with ares_inet_pton/ntop on every generated address",
                 "dns:// URIs are modelled for scheme://host[:port][?tcpport=N] only; other URIs are classed unmodelled-uri (robustness only)",
                 "memory allocation is assumed to succeed (ENOMEM paths not modelled)"],
    generated_fns=["src/lib/ares_update_servers.c:ares_sconfig_get_port", "src/lib/ares_update_servers.c:ares_server_use_uri"],
    rule="generated system configurations (files, environment) with junk lines of one grammar class inserted; non-trivial = every class except trivial-*; distinct by case text",
)
