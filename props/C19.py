from runner import Property, Engine
import opsgen

PROP = Property(
    pid="C19",
    properties_v="Properties/Properties_C19.v",
    coq_targets=["Extract/Extract_Dsa.vo", "Extract/Extract_Buf.vo"],
    engines=[Engine(name="dsa", c_srcs=["harness/dsa_drv.c", "harness/dsa_arr.c", "harness/dsa_buf.c"],
                    ml_srcs=["ocaml/gen/DsaModel.ml", "ocaml/gen/BufModel.ml", "ocaml/dsa_reg.ml", "ocaml/dsa_arr.ml", "ocaml/dsa_buf.ml", "ocaml/dsa_drv.ml"],
                    gen=opsgen.gen, n_quick=1500, n_thorough=30000)],
    trusted_base=["Coq 8.16.1 kernel + coqc (vm_compute; no native_compute)",
                  "extraction (ExtrOcamlBasic only, no Extract Constant) + OCaml 4.13.1",
                  "gen/regen.py constants (ARES__ARRAY_MIN, status codes) compiled against the working tree",
                  "harness/dsa_drv.c, ocaml/dsa_drv.ml, gen/opsgen.py (correspondence check)",
                  "clang 14 ASan/UBSan",
                  "byte buffer: the allocator never returns a block of 2^62 bytes or more (buf_alloc_answer); "
                  "harness/dsa_buf.c, ocaml/dsa_buf.ml, gen/opsgen_buf.py"],
    assumptions=["containers are hand-modelled (coq/Dsa/*.v); the tie to the C code is the correspondence run",
                 "byte buffer: cursor functions (len, consume, tag, tag_rollback, tag_clear, tag_length, set_length, "
                 "set_position, get_position, is_const, append_finish) are generated from the C source and used inside "
                 "the model; sizes below 2^62, byte arguments are bytes (buf_op_ok); the three fixes/C19-buf-*.patch applied"],
    generated_fns=["ares_buf_len", "ares_buf_consume", "ares_buf_tag", "ares_buf_tag_rollback", "ares_buf_tag_clear",
                   "ares_buf_tag_length", "ares_buf_set_length", "ares_buf_set_position", "ares_buf_get_position",
                   "ares_buf_is_const", "ares_buf_append_finish"],
    rule="random/boundary-directed operation sequences per container; non-trivial = at least two state-changing operations succeeded in the model; distinct by case text",
)
