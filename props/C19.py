from runner import Property, Engine
import opsgen
import pow2check

# case kinds of the container engine that are integrated (model, proofs, drivers, generator)
KINDS = [("arr", "Dsa", "DsaModel"), ("llist", "LList", "LListModel"), ("slist", "SList", "SListModel"),
         ("ht", "Htable", "HtableModel"), ("buf", "Buf", "BufModel")]

PROP = Property(
    pid="C19",
    properties_v="Properties/Properties_C19.v",
    coq_targets=["Extract/Extract_%s.vo" % x for (_, x, _) in KINDS],
    engines=[Engine(name="dsa",
                    c_srcs=["harness/dsa_drv.c"] + ["harness/dsa_%s.c" % k for (k, _, _) in KINDS],
                    # the skip list draws its coin flips from ares_rand_bytes: replaced at link time by
                    # a deterministic stream defined in harness/dsa_slist.c (no other kind uses it)
                    wraps=["ares_rand_bytes"],
                    ml_srcs=["ocaml/gen/%s.ml" % m for (_, _, m) in KINDS] + ["ocaml/dsa_reg.ml"]
                            + ["ocaml/dsa_%s.ml" % k for (k, _, _) in KINDS] + ["ocaml/dsa_drv.ml"],
                    gen=opsgen.gen, n_quick=1500, n_thorough=30000)],
    trusted_base=["Coq 8.16.1 kernel + coqc (vm_compute; no native_compute)",
                  "extraction (ExtrOcamlBasic only, no Extract Constant) + OCaml 4.13.1",
                  "gen/regen.py constants (ARES__ARRAY_MIN, ARES__HTABLE_*, status codes) compiled against the working tree",
                  "harness/dsa_drv.c + harness/dsa_<kind>.c, ocaml/dsa_drv.ml + ocaml/dsa_<kind>.ml, gen/opsgen*.py (correspondence check)",
                  "harness/dsa_slist.c: link-time replacement of ares_rand_bytes by a deterministic stream",
                  "byte buffer: the allocator never returns a block of 2^62 bytes or more (buf_alloc_answer)",
                  "clang 14 ASan/UBSan/LSan"],
    assumptions=["containers are hand-modelled (coq/Dsa/*.v); the tie to the C code is the correspondence run",
                 "skip list: the comparison callback's sign is a total preorder (antisymmetric sign, transitive <=); coin flips are not modelled, theorems quantify over every level choice",
                 "byte buffer: cursor functions (len, consume, tag, tag_rollback, tag_clear, tag_length, set_length, "
                 "set_position, get_position, is_const, append_finish) are generated from the C source and used inside "
                 "the model; sizes below 2^62, byte arguments are bytes (buf_op_ok)",
                 "byte buffer: which allocation request of ares_buf_split belongs to which piece (buf_split_piece_reqs: "
                 "1 per kept piece + array growth at pieces 0, 4, 8, 16 ...) is read off ares_buf_create / "
                 "ares_array_set_size and checked by the '!<n>sx' cases; ares_buf_parse_dns_binstr_int reads ONE "
                 "character-string in this tree",
                 "hash table: the hash function is any function compatible with the key equality (theorems quantify over it)"],
    generated_fns=["ares_buf_len", "ares_buf_consume", "ares_buf_tag", "ares_buf_tag_rollback", "ares_buf_tag_clear",
                   "ares_buf_tag_length", "ares_buf_set_length", "ares_buf_set_position", "ares_buf_get_position",
                   "ares_buf_is_const", "ares_buf_append_finish", "ares_buf_append_start",
                   # read side: the hand model is proved equal to these (Dsa/Buf_gen_agree.v)
                   "ares_buf_fetch_be16", "ares_buf_fetch_be32", "ares_buf_peek_byte", "ares_buf_fetch_bytes",
                   # containers (Dsa/Dsa_gen_agree.v)
                   "ares_array_set_size", "ares_array_remove_last", "ares_array_len", "ares_slist_max_level",
                   "ares_slist_len", "ares_llist_len", "ares_htable_num_keys",
                   "ares_llist_node_detach",  # Dsa/LList_gen_agree.v
                   # growth function, both bit-smearing bodies inlined (Dsa/Pow2_gen_agree.v)
                   "ares_round_up_pow2", "ares_is_64bit", "ares_log2"],
    extra_checks=[pow2check.check],
    rule="random/boundary-directed operation sequences per container; non-trivial = at least two state-changing operations succeeded in the model; distinct by case text",
)
