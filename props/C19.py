from runner import Property, Engine
import opsgen

PROP = Property(
    pid="C19",
    properties_v="Properties/Properties_C19.v",
    coq_targets=["Extract/Extract_Dsa.vo", "Extract/Extract_Buf.vo"],
    engines=[Engine(name="dsa", c_srcs=["harness/dsa_drv.c", "harness/dsa_arr.c", "harness/dsa_buf.c"],
                    ml_srcs=["ocaml/gen/DsaModel.ml", "ocaml/gen/BufModel.ml", "ocaml/dsa_reg.ml", "ocaml/dsa_arr.ml", "ocaml/dsa_buf.ml", "ocaml/dsa_drv.ml"],
                    gen=opsgen.gen, n_quick=1500, n_thorough=30000)],
    trusted_base=["Coq 8.16.1 kernel + coqc (vm_compute; no native_compute)",
                  "extraction (ExtrOcamlBasic only, no Extract Constant) + OCaml 4.13.1",
                  "gen/regen.py constants (ARES__ARRAY_MIN, status codes) compiled against the working tree",
                  "harness/dsa_drv.c, ocaml/dsa_drv.ml, gen/opsgen.py (correspondence check)",
                  "clang 14 ASan/UBSan"],
    assumptions=["containers are hand-modelled (coq/Dsa/*.v); the tie to the C code is the correspondence run"],
    rule="random/boundary-directed operation sequences per container; non-trivial = at least two state-changing operations succeeded in the model; distinct by case text",
)
