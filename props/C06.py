from runner import Property, Engine
import timegen
import chanretrygen

WRAPS = ["ares_tvnow", "ares_rand_bytes", "ares_generate_new_id"]

ENGINE = Engine(name="time", c_srcs=["harness/time_drv.c"],
                ml_srcs=["ocaml/gen/TimeModel.ml", "ocaml/time_drv.ml"],
                gen=timegen.gen_c06, wraps=WRAPS, n_quick=1500, n_thorough=60000)

# history engine on the coordinator's channel simulator: several queries sharing connections
CHAN = Engine(name="chanretry", c_srcs=["harness/sim.c", "harness/chan_drv.c"],
              ml_srcs=["ocaml/gen/TimeModel.ml", "ocaml/chanretry_drv.ml"],
              gen=chanretrygen.gen, n_quick=600, n_thorough=20000, sep=";",
              wraps=WRAPS + ["ares_htable_hash_FNV1a", "ares_htable_hash_FNV1a_casecmp"])

PROP = Property(
    pid="C06",
    properties_v="Properties/Properties_C06.v",
    coq_targets=["Extract/Extract_Time.vo"],
    engines=[ENGINE, CHAN],
    trusted_base=["Coq 8.16.1 kernel + coqc (vm_compute for the concrete witnesses; no native_compute)",
                  "extraction (ExtrOcamlBasic only, no Extract Constant) + OCaml 4.13.1",
                  "gen/c2gallina.py (C -> Gallina for ares_calc_query_timeout, timeadd, ares_metric_timestamp, ares_timeval_diff) and gen/regen.py constants (MIN/MAX_TIMEOUT_MS, AVG_TIMEOUT_MULTIPLIER, MIN_COUNT_FOR_AVERAGE, COOKIE_RESEND_MAX, status codes)",
                  "hypothesis jitter_ok: the float expression (size_t)((float)timeplus * delta_multiplier), delta_multiplier in [0,0.5], is between 0 and timeplus (checked on every generated attempt through the observed wait)",
                  "harness/time_drv.c (virtual sockets, --wrap clock/RNG), ocaml/time_drv.ml (event reconstruction from the driver's log), gen/timegen.py",
                  "harness/sim.c + chan_drv.c (channel simulator), ocaml/chanretry_drv.ml (per-query trace reconstruction from the simulator log), gen/chanretrygen.py",
                  "clang 14 ASan/UBSan"],
    assumptions=["ares_metrics_server_timeout / ares_metrics_record and the retry machine (ares_send_query, ares_requeue_query, process_answer, ares_cookie_validate, read_answers' requeue array) are hand-modelled; tie = correspondence run on single-query histories",
                 "engine chanretry (channel simulator): several queries sharing connections; all waits made deterministic by maxtimeout <= 250 <= timeout; TCP only with one server; no BADCOOKIE"],
    rule="metrics op sequences (record/query across bucket period boundaries) and single-query channel histories (silence, every reply kind incl. duplicates, connection failures at open/send/recv, server-list changes) with tries up to 200 and 1..8 servers; non-trivial = the model produced a result; distinct by case text",
    generated_fns=["src/lib/ares_process.c:ares_calc_query_timeout", "src/lib/ares_process.c:timeadd",
                   "src/lib/ares_metrics.c:ares_metric_timestamp", "src/lib/ares_timeout.c:ares_timeval_diff"],
)
