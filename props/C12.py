from runner import Property, Engine
import searchgen

PROP = Property(
    pid="C12",
    properties_v="Properties/Properties_C12.v",
    coq_targets=["Extract/Extract_Search.vo"],
    engines=[Engine(name="search", c_srcs=["harness/search_drv.c"],
                    ml_srcs=["ocaml/gen/SearchModel.ml", "ocaml/search_drv.ml"],
                    gen=searchgen.gen, wraps=["ares_tvnow"], n_quick=6000, n_thorough=150000)],
    trusted_base=["Coq 8.16.1 kernel + coqc (vm_compute; no native_compute)",
                  "extraction (ExtrOcamlBasic only, no Extract Constant) + OCaml 4.13.1",
                  "gen/regen.py constants (status codes, flag bits, rcodes) compiled against the working tree",
                  "harness/search_drv.c + harness/ss_vnet.h (virtual sockets/clock), ocaml/search_drv.ml, gen/searchgen.py (correspondence check)",
                  "clang 14 ASan/UBSan/LSan"],
    assumptions=["coq/Core/Search.v is a hand-written model of ares_search.c / the ares_getaddrinfo.c walk; the tie to the C code is the correspondence run (internal ares_search_name_list on a real channel; ares_search_dnsrec and ares_getaddrinfo end to end on virtual sockets with a scripted server)",
                 "allocation failures are not modelled; a candidate whose send fails inside ares_send_nolock (over-long name, property C01) is outside the modelled stop rule",
                 "the stop rule is modelled for the code WITH fixes/C12-search-nodata-final.patch"],
    rule="L: generated (name, ndots, domains, flags, HOSTALIASES) tuples; S/A: scripted per-candidate outcomes, all vectors up to length 5 (quick) / 6 (thorough) plus random longer ones; non-trivial = the request reached the name-list code (no bad-name / no-init cases); distinct by case text",
)
