from runner import Property, Engine
import searchgen
import chan12gen

SIMWRAPS = ["ares_tvnow", "ares_rand_bytes", "ares_generate_new_id", "ares_htable_hash_FNV1a", "ares_htable_hash_FNV1a_casecmp"]

PROP = Property(
    pid="C12",
    properties_v="Properties/Properties_C12.v",
    coq_targets=["Extract/Extract_Search.vo"],
    engines=[Engine(name="search", c_srcs=["harness/search_drv.c"],
                    ml_srcs=["ocaml/gen/SearchModel.ml", "ocaml/search_drv.ml"],
                    gen=searchgen.gen, wraps=["ares_tvnow"], n_quick=6000, n_thorough=150000),
             Engine(name="chan12", c_srcs=["harness/sim.c", "harness/chan_drv.c"],
                    ml_srcs=["ocaml/gen/SearchModel.ml", "ocaml/chan12_drv.ml"],
                    gen=chan12gen.gen, wraps=SIMWRAPS, n_quick=8000, n_thorough=200000, sep=None)],
    trusted_base=["Coq 8.16.1 kernel + coqc (vm_compute; no native_compute)",
                  "extraction (ExtrOcamlBasic only, no Extract Constant) + OCaml 4.13.1",
                  "gen/regen.py constants (status codes, flag bits, rcodes) compiled against the working tree",
                  "harness/search_drv.c + harness/ss_vnet.h (virtual sockets/clock), ocaml/search_drv.ml, gen/searchgen.py (correspondence check)",
                  "clang 14 ASan/UBSan/LSan"],
    assumptions=["coq/Core/Search.v is a hand-written model of ares_search.c / the ares_getaddrinfo.c walk; the tie to the C code is the correspondence run (internal ares_search_name_list on a real channel; ares_search_dnsrec and ares_getaddrinfo end to end on virtual sockets with a scripted server)",
                 "allocation failures are not modelled; a candidate whose send fails inside ares_send_nolock (over-long name, property C01) is outside the modelled stop rule",
                 "the stop rule is modelled for the code WITH fixes/C12-search-nodata-final.patch (applied to the repository as 39c371c)",
                 "engine chan12 (channel simulator): ares_search_dnsrec, ares_getaddrinfo (AF_INET, AF_INET6, AF_UNSPEC) and ares_gethostbyname end to end; for AF_UNSPEC the status of a candidate is: data if either family returned addresses, else the status of the query that completed last, with a no-data answer of the first one remembered (ai2_combine; code WITH fixes/C12-gai-unspec-nodata.patch); every AF_UNSPEC request is run twice with the answers in opposite arrival order (FAIL unspec-order, open finding)"],
    rule="L: generated (name, ndots, domains, flags, HOSTALIASES) tuples; S/A: scripted per-candidate outcomes, all vectors up to length 5 (quick) / 6 (thorough) plus random longer ones; non-trivial = the request reached the name-list code (no bad-name / no-init cases); distinct by case text",
)
