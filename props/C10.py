from runner import Property, Engine
import transportgen

WRAPS = ["ares_tvnow", "ares_rand_bytes", "ares_generate_new_id", "ares_htable_hash_FNV1a", "ares_htable_hash_FNV1a_casecmp"]

PROP = Property(
    pid="C10",
    properties_v="Properties/Properties_C10.v",
    coq_targets=["Extract/Extract_Conn.vo"],
    engines=[Engine(name="chan10", c_srcs=["harness/sim.c", "harness/chan_drv.c"],
                    ml_srcs=["ocaml/gen/ConnModel.ml", "ocaml/c10_drv.ml"],
                    gen=transportgen.gen_c10, wraps=WRAPS, n_quick=8000, n_thorough=150000, timeout=1200)],
    trusted_base=["Coq 8.16.1 kernel + coqc", "extraction (ExtrOcamlBasic only) + OCaml 4.13.1",
                  "harness/sim.c (virtual socket layer: never reuses a descriptor, logs every call, failure injection), harness/chan_drv.c, ocaml/c10_drv.ml, gen/transportgen.py",
                  "clang 14 ASan/UBSan"],
    assumptions=["the application reports read events only for sockets it was told to watch (model precondition of AReadEvent)",
                 "non-reentrant histories: no library call from inside a callback (that is property C01)",
                 "allocation failures inside ares_open_connection are not modelled (LCOV_EXCL paths)"],
    rule="simulator histories with failure injection at every socket call, UDP/TCP/TFO/deferred connect, udp_max_queries, stay-open, reconfiguration, cancel, destroy; non-trivial = at least one socket was created; distinct by case text",
)
