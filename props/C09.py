from runner import Property, Engine
import serversgen
import chan09gen
import os
import vlib

SIM_DIR = os.path.join(vlib.CACHE, "simfiles")
os.makedirs(SIM_DIR, exist_ok=True)

PROP = Property(
    pid="C09",
    properties_v="Properties/Properties_C09.v",
    coq_targets=["Extract/Extract_Servers.vo"],
    engines=[Engine(name="servers", c_srcs=["harness/servers_drv.c"],
                    ml_srcs=["ocaml/gen/ServersModel.ml", "ocaml/servers_drv.ml"],
                    gen=serversgen.gen, wraps=["ares_tvnow", "ares_rand_bytes", "ares_generate_new_id"],
                    n_quick=4000, n_thorough=100000),
             Engine(name="chan09", c_srcs=["harness/sim.c", "harness/chan_drv.c"],
                    ml_srcs=["ocaml/gen/ServersModel.ml", "ocaml/chan09_drv.ml"],
                    gen=chan09gen.gen, n_quick=5000, n_thorough=100000, env={"VERIF_SIM_DIR": SIM_DIR},
                    wraps=["ares_tvnow", "ares_rand_bytes", "ares_generate_new_id",
                           "ares_htable_hash_FNV1a", "ares_htable_hash_FNV1a_casecmp"])],
    trusted_base=["Coq 8.16.1 kernel + coqc (vm_compute; no native_compute)",
                  "extraction (ExtrOcamlBasic only, no Extract Constant) + OCaml 4.13.1",
                  "gen/c2gallina.py translation of server_sort_cb, ares_timedout, timeadd (regenerated from the working tree on every run); gen/regen.py constants",
                  "harness/servers_drv.c + harness/ss_vnet.h (virtual sockets/clock, link-time replacement of ares_tvnow, ares_rand_bytes, ares_generate_new_id), ocaml/servers_drv.ml, gen/serversgen.py (correspondence check)",
                  "clang 14 ASan/UBSan/LSan"],
    assumptions=["coq/Core/Servers.v is a hand-written model of the failover code of ares_process.c / ares_update_servers.c around the GENERATED comparator and time predicates; the tie is the correspondence run (destination of every transmission, server-state callbacks, user callbacks and the complete server table after every event, with the library's own random draws fed to the model)",
                 "which attempt times out, and in which order simultaneous timeouts are processed, is an input of the model (read back from the implementation); connections, TCP, EDNS/cookie resends, the query cache and allocation failures are not modelled; server identity in list edits is the address (ports and link-local scope are the channel defaults throughout)",
                 "server-list edits are modelled for the code WITH fixes/C09-stale-servers-unlink-first.patch and probes for the code WITH fixes/C09-probe-pending-no-dangling.patch (the pinned behaviour is the separate function set_servers_pinned, theorem C09_edit_pinned_refuted)",
                 "engine chan09 has no model replay: the extracted monitor judges the simulator's TX / SERVERSTATE / setservers stream, the library's failure counters (QSTATE) and the order of ares_get_servers_csv; TCP and truncation are tied through this engine only (model events EvConnLost, EvTruncated are not replayed): a write queued on a still-connecting TCP socket is judged against the tables seen since the CONNECT (its first write strictly); the success of an answering server is applied to the choice monitor when the completion of the answered query is seen (model order: success, then completion), even if the library reports it later; queries of search/getaddrinfo requests are recognised by the generator's naming convention h<T>; the probe-liveness clause (probe-missing) is evaluated only with retry chance 1 (draws are not logged), over UDP, for the first attempt of a request made from an API call, with retry times derived from the failure callbacks and the virtual clock"],
    rule="generated histories (queries, answers, SERVFAIL/REFUSED/NOTIMP, timeouts, clock advances around the retry delay, server-list edits between queries and while attempts are in flight: add / remove / reverse / rotate / swap / mix / replace / duplicates / empty; TCP closes/resets; socket()/connect()/sendto() failures for probe copies and user queries; truncated answers; queries started from inside completion callbacks and search/getaddrinfo next candidates) over 1..8 servers with rotation on/off and failover options (retry chance 0 / 1 / 2 / 3 / 10 / 65535, delay 0 .. INT_MAX; with chance 0 dozens of fresh queries after a failure and the default delay); non-trivial = at least one user query was sent; distinct by case text",
    generated_fns=["src/lib/ares_init.c:server_sort_cb", "src/lib/ares_process.c:ares_timedout", "src/lib/ares_process.c:timeadd"],
)
