(* Model-side driver of engine chan05 (C05): replays the simulator log of every case against
   the extracted accept-path model (coq/Core/Accept.v) and judges the implementation with the
   extracted specification predicate [authentic_for] (provenance monitor).

   Inputs of the model (send side, taken from the log / QSTATE dump): new queries, connection
   open/close, assignment of a query to a connection, time-outs (try counter), ends without a
   record, ares_cookie_apply bookkeeping.
   Predictions of the model (DIFF when the implementation disagrees): for EVERY datagram read
   from a socket the accept/drop decision and its effects - callbacks with the record tag and
   status, server success/failure marks, in order; the set of live queries, their transport,
   try and cookie-try counters after every processing step; per-server cookie state when no
   query was written to the server in between; the id chosen by generate_unique_qid when the id
   source is deterministic (idseq/idlist); cache hits.
   Monitor (FAIL): every delivered record, success mark and cache hit is mapped back (unique tag
   in the RDATA) to the packet it came from; that packet must be authentic - in the sense of the
   Coq predicate - for the token that received it, evaluated on the implementation's OWN state
   dump at the moment the packet was read.  No two live queries share an id. *)
open AcceptModel
(*INCLUDE conv_z.inc*)
(*INCLUDE conv_io.inc*)

let starts_with p s = String.length s >= String.length p && String.sub s 0 (String.length p) = p
let words s = List.filter (fun w -> w <> "") (split_on ' ' s)
let zi = z_of_int
let iz = int_of_z
let bytes_of_string s = List.init (String.length s) (fun i -> zi (Char.code s.[i]))
let string_of_bytes b = String.concat "" (List.map (fun z -> String.make 1 (Char.chr ((iz z) land 255))) b)
let hex_decode s =
  let n = String.length s / 2 in
  Array.init n (fun i -> int_of_string ("0x" ^ String.sub s (2 * i) 2))
let zbytes_of_hex s = if s = "-" || s = "" then [] else Array.to_list (Array.map zi (hex_decode s))
let kv w = match String.index_opt w '=' with
  | Some i -> Some (String.sub w 0 i, String.sub w (i + 1) (String.length w - i - 1))
  | None -> None
let field ws key = List.fold_left (fun acc w -> match acc, kv w with
  | None, Some (k, v) when k = key -> Some v | _ -> acc) None ws
let sock_idx s = int_of_string (String.sub s 1 (String.length s - 1))   (* "s3" -> 3 *)

(* ------------------------------------------------------------------------------------- *)
(* minimal DNS message reader (what the accept path looks at)                              *)
(* ------------------------------------------------------------------------------------- *)
type msg = { m_id : int; m_qr : bool; m_opcode : int; m_tc : bool; m_rd : bool; m_cd : bool; m_rcode : int;
             m_qd : (string * int * int) list; m_opt : bool; m_cookie : int list option; m_nopts : int;
             m_tag : int option; m_minttl : int; m_soa : bool }
exception Bad
let bad_why = ref ""
let bad w = bad_why := w; raise Bad
let parse_msg (b : int array) : msg option =
  bad_why := "truncated or malformed";
  let n = Array.length b in
  let u8 o = if o < n then b.(o) else raise Bad in
  let u16 o = (u8 o) * 256 + u8 (o + 1) in
  let u32 o = (u16 o) * 65536 + u16 (o + 2) in
  (* ares_dns_name_parse: labels joined with '.', reserved characters escaped with a backslash,
     non-printable bytes as \DDD; a pointer must lead before the lowest label start seen so far *)
  let name start (_ : int) (_ : string list) =
    let buf = Buffer.create 32 in
    let pos = ref start and label_start = ref start and save = ref (-1) and fin = ref false in
    while not !fin do
      if !label_start > !pos then label_start := !pos;
      let c = u8 !pos in
      incr pos;
      if c land 0xC0 = 0xC0 then begin
        let off = ((c land 0x3F) lsl 8) lor u8 !pos in
        incr pos;
        if off >= !label_start then raise Bad;
        if !save < 0 then save := !pos;
        pos := off
      end else if c land 0xC0 <> 0 then raise Bad
      else if c = 0 then fin := true
      else begin
        if Buffer.length buf <> 0 then Buffer.add_char buf '.';
        for i = 0 to c - 1 do
          let ch = u8 (!pos + i) in
          if ch < 0x20 || ch > 0x7E then Buffer.add_string buf (Printf.sprintf "\\%03d" ch)
          else begin
            if List.mem (Char.chr ch) ['"'; '.'; ';'; '\\'; '('; ')'; '@'; '$'] then Buffer.add_char buf '\\';
            Buffer.add_char buf (Char.chr ch)
          end
        done;
        pos := !pos + c
      end
    done;
    (Buffer.contents buf, (if !save >= 0 then !save else !pos)) in
  try
    if n < 12 then raise Bad;
    let flags = u16 2 in
    let qd = u16 4 and an = u16 6 and ns = u16 8 and ar = u16 10 in
    (* ares_dns_parse: exactly one question; ares_dns_record_create: known opcode *)
    if qd <> 1 then bad "QDCOUNT is not 1";
    if not (List.mem ((flags lsr 11) land 15) [0; 1; 2; 4; 5]) then raise Bad;
    let off = ref 12 in
    let qs = ref [] in
    for _ = 1 to qd do
      let (nm, o) = name !off 0 [] in
      let t = u16 o and c = u16 (o + 2) in
      (* RAW 16 bit values of the wire.  ares_dns_record_query_add: class must be IN, CH, HS, NONE
         or ANY - anything else (0, 0x8001, 0x0101, ...) makes the message unparsable; any 16 bit
         type may be asked *)
      if not (List.mem c [1; 3; 4; 254; 255]) then bad (Printf.sprintf "question class 0x%04x is none of IN/CH/HS/NONE/ANY" c);
      qs := (nm, t, c) :: !qs; off := o + 4
    done;
    let cookie_seen = ref false in
    let opt = ref false and cookie = ref None and nopts = ref 0 and tag = ref None and minttl = ref 0xFFFFFFFF
    and soa = ref false and ext = ref 0 in
    for i = 1 to an + ns + ar do
      let (_, o) = name !off 0 [] in
      let t = u16 o and rcls = u16 (o + 2) and ttl = u32 (o + 4) and rdlen = u16 (o + 8) in
      (* ares_dns_record_rr_add: a record of a type the library knows must have class IN, CH, HS or
         NONE (ANY only for SIG); records of unknown types are kept raw with any class; for OPT
         the class field is the UDP size *)
      let known = List.mem t [1; 2; 5; 6; 12; 13; 15; 16; 24; 28; 33; 35; 52; 64; 65; 255; 256; 257] in
      if t <> 41 && known && not (List.mem rcls [1; 3; 4; 254] || (rcls = 255 && t = 24)) then bad (Printf.sprintf "record class 0x%04x is not a class" rcls);
      let rd = o + 10 in
      if rd + rdlen > n then raise Bad;
      if t = 41 then begin
        opt := true; ext := (ttl lsr 24) land 255;
        let p = ref rd in
        while !p + 4 <= rd + rdlen do
          let code = u16 !p and len = u16 (!p + 2) in
          if !p + 4 + len > rd + rdlen then raise Bad;
          (* ares_dns_rr_get_opt_byid returns the FIRST option with the id *)
          if code = 10 then begin
            (* ... and ares_dns_cookie_fetch yields NULL for an option without content *)
            if not !cookie_seen then (cookie_seen := true; if len > 0 then cookie := Some (List.init len (fun j -> b.(!p + 4 + j))))
          end else incr nopts;
          p := !p + 4 + len
        done end
      else begin
        if t = 6 then soa := true
        else if t <> 24 && ttl < !minttl then minttl := ttl;
        if t = 1 && rdlen = 4 && b.(rd) = 11 && i <= an && !tag = None then
          tag := Some (b.(rd + 1) * 65536 + b.(rd + 2) * 256 + b.(rd + 3)) end;
      off := rd + rdlen
    done;
    Some { m_id = u16 0; m_qr = flags land 0x8000 <> 0; m_opcode = (flags lsr 11) land 15; m_tc = flags land 0x200 <> 0;
           m_rd = flags land 0x100 <> 0; m_cd = flags land 0x10 <> 0;
           m_rcode = (let r = (flags land 15) lor (!ext lsl 4) in
                      if (r >= 0 && r <= 11) || (r >= 16 && r <= 23) then r else 2 (* invalid -> SERVFAIL *));
           m_qd = List.rev !qs; m_opt = !opt; m_cookie = !cookie; m_nopts = !nopts; m_tag = !tag;
           m_minttl = !minttl; m_soa = !soa }
  with Bad | Invalid_argument _ -> None

let question_of (nm, t, c) = { qn_name = bytes_of_string nm; qn_type = zi t; qn_class = zi c }

(* the datagram as the model sees it.  p_ttl: NOERROR -> minimum TTL, NXDOMAIN -> SOA minimum (the
   generator never sends an SOA: 0) *)
let datagram_of (b : int array) : datagram * int option =
  if Array.length b = 0 then (DEmpty, None) else
  match parse_msg b with
  | None -> (DMalformed (zi (-1)), None)
  | Some m ->
    let tag = match m.m_tag with Some t -> t | None -> -1 in
    let ttl = if m.m_rcode = 3 then 0 else m.m_minttl in
    (DParsed { p_tag = zi tag; p_id = zi m.m_id; p_qr = m.m_qr; p_opcode = zi m.m_opcode; p_tc = m.m_tc;
               p_rcode = zi m.m_rcode; p_qd = List.map question_of m.m_qd; p_has_opt = m.m_opt;
               p_cookie = (match m.m_cookie with Some c -> Some (List.map zi c) | None -> None);
               p_ttl = zi ttl }, m.m_tag)

(* ------------------------------------------------------------------------------------- *)
(* QSTATE                                                                                  *)
(* ------------------------------------------------------------------------------------- *)
type vq = { v_id : int; v_tok : int option; v_conn : int option; v_tcp : bool; v_try : int; v_ctry : int; v_nore : bool }
type vs = { vs_idx : int; vs_state : int; vs_client : z list; vs_server : z list; vs_sec : int; vs_usec : int }
type vc = { vc_id : int; vc_srv : int; vc_tcp : bool }
type view = { vqs : vq list; vss : vs list; vcs : vc list }

let bracket line key =      (* text between "key=[" and the matching "]" *)
  let pat = key ^ "=[" in
  match Str.search_forward (Str.regexp_string pat) line 0 with
  | exception Not_found -> ""
  | i -> let st = i + String.length pat in
    let j = String.index_from line st ']' in String.sub line st (j - st)
let items s = if s = "" then [] else split_on ',' s

let parse_view line =
  let q = List.map (fun it -> match split_on '/' it with
    | [id; tok; conn; tcp; tr; ctr; _; nore] ->
      { v_id = int_of_string id;
        v_tok = (if tok = "-" then None else Some (int_of_string (String.sub tok 1 (String.length tok - 1))));
        v_conn = (if conn = "-" then None else Some (sock_idx conn));
        v_tcp = tcp = "1"; v_try = int_of_string tr; v_ctry = int_of_string ctr; v_nore = nore = "1" }
    | _ -> failwith "qstate-q") (items (bracket line "q")) in
  let s = List.map (fun it -> match split_on '/' it with
    | [i; _; st; cl; sv; ts] ->
      let (sec, usec) = match split_on '.' ts with [a; b] -> (int_of_string a, int_of_string b) | _ -> (0, 0) in
      { vs_idx = int_of_string i; vs_state = int_of_string st; vs_client = zbytes_of_hex cl;
        vs_server = zbytes_of_hex sv; vs_sec = sec; vs_usec = usec }
    | _ -> failwith "qstate-srv") (items (bracket line "srv")) in
  let c = List.map (fun it -> match split_on '/' it with
    | [k; sv; tcp; _] -> { vc_id = sock_idx k; vc_srv = int_of_string sv; vc_tcp = tcp = "1" }
    | _ -> failwith "qstate-conn") (items (bracket line "conns")) in
  { vqs = q; vss = s; vcs = c }

(* ------------------------------------------------------------------------------------- *)
(* per case                                                                                *)
(* ------------------------------------------------------------------------------------- *)
exception Stop of string          (* DIFF already printed; give up on this case *)
exception Unsupported of string

let stats : (string, int) Hashtbl.t = Hashtbl.create 64
let bump k = Hashtbl.replace stats k (1 + (try Hashtbl.find stats k with Not_found -> 0))

type txinfo = { t_sock : int; t_srv : int; t_tcp : bool; t_msg : msg }
type readrec = { r_sock : int; r_src : int; r_pkt : packet; r_snap : chan; r_now : chan }
type pending = { pn_tok : int; pn_name : string; pn_type : int; pn_class : int; pn_rd : bool; pn_cd : bool;
                 pn_edns : bool; mutable pn_tx : txinfo option; mutable pn_cb_nodata : int option;
                 mutable pn_hit : bool; mutable pn_created : bool; pn_wrapped : bool }

let class_num s = match s with "IN" -> 1 | "CH" -> 3 | "HS" -> 4 | "ANY" -> 255 | _ -> int_of_string s
let type_num s = match s with "A" -> 1 | "NS" -> 2 | "CNAME" -> 5 | "SOA" -> 6 | "PTR" -> 12 | "MX" -> 15
  | "TXT" -> 16 | "AAAA" -> 28 | "SRV" -> 33 | "ANY" -> 255 | _ -> int_of_string s

let run_case k (caseline : string) (lines : string list) =
  let head = match String.index_opt caseline '|' with Some i -> String.sub caseline 0 i | None -> caseline in
  let cfgw = words head in
  let geti key d = match field cfgw key with Some v -> (try int_of_string v with _ -> d) | None -> d in
  let flags = match field cfgw "flags" with Some v -> split_on ',' v | None -> [] in
  let has f = List.mem f flags in
  let nservers = geti "servers" 1 + geti "servers6" 0 in
  let tries = geti "tries" 3 in
  let qttl = geti "qcachettl" 3600 in
  let cfg = fixed_cfg (has "dns0x20") (has "igntc") (has "nocheckresp") (has "usevc")
      (zi (nservers * tries)) (qttl > 0) (zi qttl) in
  let clock_us = ref (geti "clock" 1000000 * 1000) in
  (* id source *)
  let idlist = ref (match field cfgw "idlist" with Some v -> List.map int_of_string (split_on ',' v) | None -> []) in
  let idseq = ref (match field cfgw "idseq" with Some v -> Some (int_of_string v) | None -> None) in
  (* addresses *)
  let addr_tbl : (string, int) Hashtbl.t = Hashtbl.create 16 in
  let addr_id a = match Hashtbl.find_opt addr_tbl a with Some i -> i | None ->
    let i = 1000 + Hashtbl.length addr_tbl in Hashtbl.add addr_tbl a i; i in
  let strip_port a = match String.rindex_opt a ':' with Some i -> String.sub a 0 i | None -> a in
  let n4 = geti "servers" 1 and n6 = geti "servers6" 0 in
  let srv_addr i = addr_id (if i < n4 then Printf.sprintf "10.0.0.%d" (i + 1) else Printf.sprintf "[fd00::%x]" (i - n4 + 1)) in
  let ck0 = { ck_state = zi 0; ck_client = List.init 8 (fun _ -> zi 0); ck_server = []; ck_uts_sec = zi 0; ck_uts_usec = zi 0 } in
  let st = ref (init_chan (List.init nservers (fun i -> { sv_idx = zi i; sv_addr = zi (srv_addr i); sv_cookie = ck0 }))) in
  let snap = ref !st in
  (* sockets *)
  let sock_peer : (int, int) Hashtbl.t = Hashtbl.create 16 in       (* socket -> address id of its peer *)
  let sock_tcp : (int, bool) Hashtbl.t = Hashtbl.create 16 in
  let sock_q : (int, (int array * int) Queue.t) Hashtbl.t = Hashtbl.create 16 in
  let queue_of s = match Hashtbl.find_opt sock_q s with Some q -> q | None -> let q = Queue.create () in Hashtbl.add sock_q s q; q in
  let txs : (int, txinfo) Hashtbl.t = Hashtbl.create 16 in
  (* segment state *)
  let expected : output Queue.t = Queue.create () in
  let seg_reads : readrec list ref = ref [] in
  let seg_tx : (int * txinfo) list ref = ref [] in            (* (qid, tx) written in this segment, latest first *)
  let ended_nodata : (int * int) list ref = ref [] in         (* (token, status) *)
  let pending_new : pending list ref = ref [] in
  let req_stack : pending list ref = ref [] in
  let wrapped_tok : (int, unit) Hashtbl.t = Hashtbl.create 8 in
  let cur_op : string list ref = ref [] in
  let auth_delivered : (int, (string * int * int) list) Hashtbl.t = Hashtbl.create 16 in  (* tag -> question of the query it answered *)
  let marks_used : int list ref = ref [] in   (* tags already used to justify a success mark *)
  let last_view : view option ref = ref None in
  let dirty = ref false in
  let prev_recv = ref (-1) in
  let last_new : query option ref = ref None in
  let in_cancel = ref false in
  (* inertness monitor: what happened since the last synchronisation point *)
  let seg_malformed : (int * int * string) list ref = ref [] in
  let sync_view : view option ref = ref None in
  let seg_dirty = ref false and seg_other = ref 0 and seg_effects = ref 0 and clock_moved = ref false in
  let label = ref "nolabel" in
  let n_read = ref 0 and n_deliv = ref 0 and n_hit = ref 0 in
  let feats : (string, unit) Hashtbl.t = Hashtbl.create 8 in
  let diff fmt = Printf.ksprintf (fun s -> Printf.printf "DIFF %d %s\n" k s; raise (Stop s)) fmt in
  let fail kind fmt = Printf.ksprintf (fun s -> Printf.printf "FAIL %d %s %s\n" k kind s) fmt in
  let apply ev what =
    match step cfg !st ev with
    | Ok (st', outs) -> st := st'; outs
    | Err e -> diff "model rejects %s (status %d): the implementation made a transition outside the model's vocabulary" what (iz e)
    | UB _ -> diff "model reaches UB at %s" what in
  let live_ids () = List.map (fun q -> iz q.q_qid) !st.ch_queries in
  let candidates observed =
    let live = live_ids () in
    let seq = match !idseq with
      | Some b -> List.init (List.length live + 2) (fun i -> (b + i) land 0xFFFF)
      | None -> (match observed with Some id -> [id] | None ->
          let rec fresh i = if List.mem i live then fresh (i + 1) else i in [fresh 0]) in
    !idlist @ seq in
  let consume chosen cands =
    (* number of candidates eaten = position of the first occurrence of the chosen id + 1 *)
    let rec pos i = function [] -> i | x :: r -> if x = chosen then i + 1 else pos (i + 1) r in
    let n = pos 0 cands in
    let nl = List.length !idlist in
    if n <= nl then idlist := List.filteri (fun i _ -> i >= n) !idlist
    else begin idlist := []; (match !idseq with Some b -> idseq := Some ((b + (n - nl)) land 0xFFFF) | None -> ()) end in
  let now_sec () = !clock_us / 1000000 and now_usec () = !clock_us mod 1000000 in
  let do_new ?(internal=false) (pn : pending) (id_observed : int option) =
    let cands = candidates id_observed in
    let (qd, opt, rd, cd, nopts) = match pn.pn_tx with
      | Some t -> (List.map question_of t.t_msg.m_qd, t.t_msg.m_opt, t.t_msg.m_rd, t.t_msg.m_cd, t.t_msg.m_nopts)
      | None ->
        (* nothing transmitted yet (TCP connection not established / cache hit): the record is
           duplicated by writing and parsing it, which drops a trailing dot; no 0x20 on TCP *)
        let nm = pn.pn_name in
        let nm = if nm <> "" && nm.[String.length nm - 1] = '.' then String.sub nm 0 (String.length nm - 1) else nm in
        ([{ qn_name = bytes_of_string nm; qn_type = zi pn.pn_type; qn_class = zi pn.pn_class }],
                 pn.pn_edns, pn.pn_rd, pn.pn_cd, 0) in
    let before = live_ids () in
    let outs = apply (ENew (zi pn.pn_tok, qd, zi 0, rd, cd, opt, zi nopts, internal, internal, List.map zi cands, zi (now_sec ())))
        (Printf.sprintf "ENew t%d" pn.pn_tok) in
    let after = live_ids () in
    let chosen = match List.filter (fun i -> not (List.mem i before)) after with
      | [i] -> i
      | _ -> (let rec first = function [] -> -1 | x :: r -> if List.mem x before then first r else x in first cands) in
    consume chosen cands;
    (outs, (if List.length after > List.length before then Some chosen else None)) in
  (* ----- sync the model's send side with the implementation's dump ----- *)
  let find_mq id = List.find_opt (fun q -> iz q.q_qid = id) !st.ch_queries in
  let sync (v : view) =
    (* monitor: a batch that consisted ONLY of parsed datagrams that are authentic for no live
       query (judged on the implementation's own state) must leave no trace: no callback, no
       server mark, no transmission, the same queries on the same connections with the same
       counters.  Only judged when nothing else can have acted: no request, no cancel, and the
       clock has not moved since the last processing call (so no time-out can fire). *)
    (if (not !seg_dirty) && !seg_other = 0 && !seg_reads <> [] &&
        List.for_all (fun r -> authentic_for cfg r.r_snap (zi r.r_sock) (zi r.r_src) r.r_pkt = None
                               && authentic_for cfg r.r_now (zi r.r_sock) (zi r.r_src) r.r_pkt = None) !seg_reads then
       match !sync_view with
       | Some pv ->
         let key q = (q.v_id, q.v_conn, q.v_tcp, q.v_try, q.v_ctry) in
         if !seg_effects > 0 || List.map key pv.vqs <> List.map key v.vqs then begin
           let r = List.hd (List.rev !seg_reads) in
           let why = iz (reject_reason cfg r.r_snap (zi r.r_sock) (zi r.r_src) r.r_pkt) in
           fail "forgery-not-inert" "datagram(s) %s read on s%d are authentic for no live query (%s) but had an effect: %d callback/mark/transmission line(s), query table %s"
             (String.concat "," (List.rev_map (fun r -> string_of_int (iz r.r_pkt.p_tag)) !seg_reads)) r.r_sock
             (match why with 1 -> "no live query with this id" | 2 -> "question differs" | 3 -> "query is assigned to another connection"
                           | 4 -> "foreign source address" | 5 -> "QR bit clear" | 6 -> "cookie check" | _ -> "other")
             !seg_effects (if List.map key pv.vqs <> List.map key v.vqs then "changed" else "unchanged")
         end
       | None -> ());
    (* unobservable predicted outputs may remain; anything else is a missing effect *)
    Queue.iter (fun o -> match o with
      | OCacheInsert _ | OConnError _ -> ()
      | OCallback (t, _, _) when iz t < 0 -> ()
      | OCallback (t, s, d) -> diff "model predicted callback t%d status=%d %s that did not happen" (iz t) (iz s)
                                 (match d with Some tg -> "tag=" ^ string_of_int (iz tg) | None -> "without record")
      | OServerGood (s, _) -> diff "model predicted a success mark for server %d that did not happen" (iz s)
      | OServerFail (s, _) -> diff "model predicted a failure mark for server %d that did not happen" (iz s)) expected;
    Queue.clear expected;
    (* monitor: ids unique *)
    let ids = List.map (fun q -> q.v_id) v.vqs in
    if List.length (List.sort_uniq compare ids) <> List.length ids then
      fail "qid-dup" "two live queries share an id: %s" (String.concat "," (List.map string_of_int ids));
    (* new queries *)
    List.iter (fun (pn : pending) ->
        let vq = List.find_opt (fun q -> q.v_tok = Some pn.pn_tok && find_mq q.v_id = None) v.vqs in
        match vq with
        | Some q ->
          let (outs, chosen) = do_new pn (Some q.v_id) in
          if outs <> [] then diff "model answers t%d from the cache, implementation created a query" pn.pn_tok;
          last_new := find_mq q.v_id;
          (match chosen with
           | Some c when c <> q.v_id -> diff "generate_unique_qid: model chose %d, implementation %d" c q.v_id
           | _ -> ())
        | None ->
          (match pn.pn_cb_nodata with
           | Some status ->
             let (outs, chosen) = do_new pn None in
             if outs <> [] then diff "model answers t%d from the cache, implementation failed it" pn.pn_tok;
             (match chosen with Some c -> ignore (apply (EEnd (zi c, zi status)) "EEnd(new)") | None -> ())
           | None -> if not pn.pn_hit then diff "request t%d left no query, no callback" pn.pn_tok))
      (List.rev !pending_new);
    pending_new := [];
    (* queries the library created for itself (server probes): ARES_SEND_FLAG_NOCACHE|NORETRY *)
    List.iter (fun vq ->
        if vq.v_tok = None && find_mq vq.v_id = None then begin
          let pn_opt = match List.find_opt (fun (id, _) -> id = vq.v_id) !seg_tx with
            | Some (_, t) ->
              Some { pn_tok = -1; pn_name = ""; pn_type = 0; pn_class = 0; pn_rd = false; pn_cd = false; pn_edns = false;
                     pn_tx = Some t; pn_cb_nodata = None; pn_hit = false; pn_created = true; pn_wrapped = false }
            | None ->
              (* nothing transmitted yet (TCP not connected): a probe re-asks the question of the
                 request that triggered it, i.e. the one just submitted *)
              (match !last_new with
               | Some (q : query) ->
                 (match q.q_qd with
                  | [qn] -> Some { pn_tok = -1; pn_name = string_of_bytes qn.qn_name; pn_type = iz qn.qn_type; pn_class = iz qn.qn_class;
                                   pn_rd = q.q_rd; pn_cd = q.q_cd; pn_edns = q.q_has_opt; pn_tx = None; pn_cb_nodata = None; pn_hit = false; pn_created = true; pn_wrapped = false }
                  | _ -> None)
               | None -> None) in
          match pn_opt with
          | None -> diff "internal query id=%d without a transmission and without a triggering request" vq.v_id
          | Some pn ->
            let (_, chosen) = do_new ~internal:true pn (Some vq.v_id) in
            Hashtbl.replace feats "probe" ();
            (match chosen with
             | Some c when c <> vq.v_id -> diff "generate_unique_qid (probe): model chose %d, implementation %d" c vq.v_id
             | _ -> ())
        end) v.vqs;
    (* connections *)
    List.iter (fun c ->
        if not (List.exists (fun vc -> vc.vc_id = iz c.cn_id) v.vcs) then
          ignore (apply (ECloseConn c.cn_id) (Printf.sprintf "ECloseConn s%d" (iz c.cn_id)))) !st.ch_conns;
    List.iter (fun vc ->
        if find_conn !st (zi vc.vc_id) = None then
          ignore (apply (EOpenConn (zi vc.vc_id, zi vc.vc_srv, vc.vc_tcp)) (Printf.sprintf "EOpenConn s%d" vc.vc_id))) v.vcs;
    (* queries that disappeared *)
    List.iter (fun q ->
        let id = iz q.q_qid in
        if not (List.exists (fun vq -> vq.v_id = id) v.vqs) then begin
          match List.assoc_opt (iz q.q_tok) !ended_nodata with
          | Some status -> ignore (apply (EEnd (q.q_qid, zi status)) "EEnd")
          | None when iz q.q_tok < 0 -> ignore (apply (EEnd (q.q_qid, zi 12)) "EEnd(probe)")
          | None -> diff "query id=%d (t%d) vanished without a callback the model knows of" id (iz q.q_tok)
        end) !st.ch_queries;
    ended_nodata := [];
    (* per query *)
    List.iter (fun vq ->
        match find_mq vq.v_id with
        | None -> diff "implementation has a query id=%d the model does not" vq.v_id
        | Some q ->
          let mtry = iz q.q_try in
          if mtry > vq.v_try then diff "query %d try_count model=%d impl=%d" vq.v_id mtry vq.v_try;
          for _ = 1 to vq.v_try - mtry do
            let outs = apply (ERequeue (zi vq.v_id, zi 12)) "ERequeue" in
            if outs <> [] then diff "query %d: model ends it on requeue (tries exhausted), implementation keeps it" vq.v_id
          done;
          let q = match find_mq vq.v_id with Some q -> q | None -> diff "query %d lost" vq.v_id in
          if q.q_using_tcp <> vq.v_tcp then diff "query %d using_tcp model=%b impl=%b" vq.v_id q.q_using_tcp vq.v_tcp;
          if iz q.q_cookie_try <> vq.v_ctry then diff "query %d cookie_try model=%d impl=%d" vq.v_id (iz q.q_cookie_try) vq.v_ctry;
          let txo = List.find_opt (fun (id, t) -> id = vq.v_id && Some t.t_sock = vq.v_conn) !seg_tx in
          (match vq.v_conn with
           | Some c ->
             let same = (match q.q_conn with Some mc -> iz mc = c | None -> false) in
             if (not same) || txo <> None then begin
               let ck = match txo with
                 | Some (_, t) -> (match t.t_msg.m_cookie with Some l -> Some (List.map zi l) | None -> None)
                 | None -> None in
               (* a query that the model still sees assigned elsewhere was moved without a try
                  increment: only the accept path does that, and the model has already done it *)
               (match q.q_conn with
                | Some mc when iz mc <> c -> diff "query %d moved from s%d to s%d without requeue in the model" vq.v_id (iz mc) c
                | _ -> ());
               ignore (apply (EAssign (zi vq.v_id, zi c, ck)) (Printf.sprintf "EAssign %d s%d" vq.v_id c))
             end
           | None ->
             (match q.q_conn with
              | Some mc -> diff "query %d unassigned in the implementation, on s%d in the model" vq.v_id (iz mc)
              | None -> ()))) v.vqs;
    (* per server cookie *)
    List.iter (fun vs ->
        let written = List.exists (fun (_, t) -> t.t_srv = vs.vs_idx && not t.t_tcp) !seg_tx in
        let vck = { ck_state = zi vs.vs_state; ck_client = vs.vs_client; ck_server = vs.vs_server;
                    ck_uts_sec = zi vs.vs_sec; ck_uts_usec = zi vs.vs_usec } in
        match find_server !st (zi vs.vs_idx) with
        | None -> diff "server %d unknown to the model" vs.vs_idx
        | Some sv ->
          if sv.sv_cookie <> vck then begin
            if not written then
              diff "server %d cookie record model=(%d,%s,%s,%d.%d) impl=(%d,%s,%s,%d.%d)" vs.vs_idx
                (iz sv.sv_cookie.ck_state) (String.escaped (string_of_bytes sv.sv_cookie.ck_client))
                (String.escaped (string_of_bytes sv.sv_cookie.ck_server)) (iz sv.sv_cookie.ck_uts_sec) (iz sv.sv_cookie.ck_uts_usec)
                vs.vs_state (String.escaped (string_of_bytes vs.vs_client)) (String.escaped (string_of_bytes vs.vs_server)) vs.vs_sec vs.vs_usec;
            ignore (apply (ESetCookie (zi vs.vs_idx, vck)) "ESetCookie")
          end) v.vss;
    seg_tx := []; seg_reads := []; marks_used := [];
    sync_view := Some v; seg_dirty := false; seg_other := 0; seg_effects := 0; seg_malformed := [];
    last_view := Some v; dirty := false;
    snap := !st in
  (* ----- datagrams read from sockets are fed to the model LAZILY, in log order -----
     The library reads a whole batch first (RECVFROM lines) and then processes it packet by
     packet; a callback run for packet i may submit a new request (oncb, search/getaddrinfo
     follow-ups) before packet i+1 is processed.  Reads are therefore queued and fed only when an
     observed effect has to be explained, or when the batch is known to be over. *)
  let pending_reads : (int * (int array * int)) Queue.t = Queue.create () in
  let batch_callbacks = ref 0 in          (* data callbacks produced by the reads fed in this batch *)
  let internal_delivered : (int, unit) Hashtbl.t = Hashtbl.create 8 in   (* tags handed to the library's own callbacks *)
  let feed sock (b, src) =
    incr n_read;
    let (d, _) = datagram_of b in
    match find_conn !st (zi sock) with
    | None -> bump "discarded-after-close"      (* rest of a batch after the connection was closed *)
    | Some _ ->
      (match d with
       | DParsed p ->
         seg_reads := { r_sock = sock; r_src = src; r_pkt = p; r_snap = !snap; r_now = !st } :: !seg_reads;
         let r = iz (reject_reason cfg !st (zi sock) (zi src) p) in
         bump (Printf.sprintf "spec-%s" (match r with 0 -> "authentic" | 1 -> "reject-id" | 2 -> "reject-question"
                                                     | 3 -> "reject-connection" | 4 -> "reject-source" | 5 -> "reject-qr"
                                                     | 6 -> "reject-cookie" | _ -> "reject-other"));
         if r = 3 then Hashtbl.replace feats "stale" ();
         if r = 6 then Hashtbl.replace feats "cookie" ()
       | DMalformed _ ->
         incr seg_other; bump "datagram-malformed"; Hashtbl.replace feats "malformed" ();
         (* the provenance tag of a message that does not parse: the A RDATA 11.a.b.c after RDLENGTH 4 *)
         let n = Array.length b in
         let rec scan i = if i + 5 >= n then None
           else if b.(i) = 0 && b.(i + 1) = 4 && b.(i + 2) = 11 then Some (b.(i + 3) * 65536 + b.(i + 4) * 256 + b.(i + 5))
           else scan (i + 1) in
         (match scan 12 with Some tg -> seg_malformed := (tg, sock, !bad_why) :: !seg_malformed | None -> ())
       | DEmpty -> incr seg_other; bump "datagram-empty");
      let outs = apply (ERead (zi sock, zi src, zi (now_sec ()), zi (now_usec ()), d)) (Printf.sprintf "ERead s%d" sock) in
      List.iter (fun o ->
          (match o with
           | OCallback (t, _, Some tg) -> incr batch_callbacks; if iz t < 0 then Hashtbl.replace internal_delivered (iz tg) ()
           | _ -> ());
          Queue.add o expected) outs in
  let feed_one () = let (sk, x) = Queue.pop pending_reads in feed sk x in
  let flush_reads () = while not (Queue.is_empty pending_reads) do feed_one () done in
  let rec skip_unobservable () =
    if not (Queue.is_empty expected) then
      match Queue.peek expected with
      | OCacheInsert _ | OConnError _ -> ignore (Queue.pop expected); skip_unobservable ()
      | OCallback (t, _, _) when iz t < 0 -> ignore (Queue.pop expected); skip_unobservable ()
      | _ -> () in
  (* feed reads until the model predicts something observable (or the batch is exhausted) *)
  let want_output () =
    skip_unobservable ();
    while Queue.is_empty expected && not (Queue.is_empty pending_reads) do feed_one (); skip_unobservable () done in
  let real_sync v = flush_reads (); sync v; batch_callbacks := 0 in
  (* a transmission under an id the model does not know: the query is created now *)
  let create_from_tx (t : txinfo) =
    let id = t.t_msg.m_id in
    let (vtok, vnore) = match !last_view with
      | Some v -> (match List.find_opt (fun q -> q.v_id = id) v.vqs with Some q -> (q.v_tok, q.v_nore) | None -> (None, false))
      | None -> (None, false) in
    let pn = match vtok, !req_stack with
      | Some tk, (top : pending) :: _ when top.pn_tok = tk && not top.pn_created -> top.pn_created <- true; top.pn_tx <- Some t; top
      | _ -> { pn_tok = -1; pn_name = ""; pn_type = 0; pn_class = 0; pn_rd = false; pn_cd = false; pn_edns = false;
               pn_tx = Some t; pn_cb_nodata = None; pn_hit = false; pn_created = true; pn_wrapped = false } in
    (* queries created before this one that have not transmitted yet (TCP connection not
       established) took their ids first: all_queries is in creation order *)
    (match !last_view with
     | Some v ->
       let rec before = function
         | [] -> ()
         | q :: _ when q.v_id = id -> ()
         | q :: rest ->
           (if find_mq q.v_id = None then
              match q.v_tok, !req_stack with
              | Some tk, (top : pending) :: _ when top.pn_tok = tk && not top.pn_created ->
                top.pn_created <- true;
                let (outs, chosen) = do_new top (Some q.v_id) in
                if outs <> [] then diff "model answers t%d from the cache, implementation created a query" tk;
                (match chosen with
                 | Some c when c <> q.v_id -> diff "generate_unique_qid: model chose %d, implementation %d" c q.v_id
                 | _ -> ());
                last_new := find_mq q.v_id
              | _ -> ());
           before rest in
       before v.vqs
     | None -> ());
    if pn.pn_tok < 0 then Hashtbl.replace feats (if vnore then "probe" else "internal") ();
    let (outs, chosen) = do_new ~internal:(pn.pn_tok < 0 && vnore) pn (Some id) in
    if outs <> [] then diff "model answers the request behind transmission id=%d from the cache, implementation transmitted" id;
    (match chosen with
     | Some c when c <> id -> diff "generate_unique_qid: model chose %d, implementation %d" c id
     | _ -> ());
    last_new := find_mq id;
    if find_conn !st (zi t.t_sock) = None then
      ignore (apply (EOpenConn (zi t.t_sock, zi t.t_srv, t.t_tcp)) (Printf.sprintf "EOpenConn s%d" t.t_sock));
    ignore (apply (EAssign (zi id, zi t.t_sock, (match t.t_msg.m_cookie with Some l -> Some (List.map zi l) | None -> None)))
              (Printf.sprintf "EAssign %d s%d" id t.t_sock)) in
  let tag_re = Str.regexp ":11\\.\\([0-9]+\\)\\.\\([0-9]+\\)\\.\\([0-9]+\\)[],/:]" in
  let qd_re = Str.regexp "qd=\\[\\([^]/]*\\)/\\([A-Z0-9]+\\)/\\([A-Z0-9]+\\)\\]" in
  let stop = ref false in
  let larr = Array.of_list lines in
  let first_word i = if i < Array.length larr then (match words larr.(i) with w :: _ -> w | [] -> "") else "END" in
  (try
    Array.iteri (fun li line ->
      if not !stop then begin
        let ws = words line in
        let implicit_sync () = if !dirty || not (Queue.is_empty pending_reads) then (match !last_view with Some v -> real_sync v | None -> flush_reads ()) in
        (match ws with
         | "OP" :: _ -> implicit_sync ()
         | "RECVFROM" :: s :: _ -> if !prev_recv <> sock_idx s then implicit_sync ()
         | "QSTATE" :: _ -> ()
         | _ -> dirty := true);
        (match ws with "RECVFROM" :: s :: _ -> prev_recv := sock_idx s | _ -> prev_recv := -1);
        (match ws with
         | ("REQ" | "CANCEL" | "DESTROY" | "REINIT" | "SETSERVERS" | "CBOP") :: _ -> seg_dirty := true
         | "NOW" :: _ -> clock_moved := true; seg_dirty := true
         | "PROCEND" :: _ -> clock_moved := false
         | "RECVFROM" :: _ -> if !clock_moved then seg_dirty := true
         | ("CB" | "SERVERSTATE" | "TX") :: _ -> incr seg_effects
         | _ -> ());
        match ws with
        | "OP" :: _ :: op -> cur_op := op;
          (match op with "note" :: l :: _ -> label := l | _ -> ())
        | "NOW" :: t :: _ ->
          (match split_on '.' t with
           | [ms; us] -> clock_us := int_of_string ms * 1000 + int_of_string us
           | _ -> ())
        | "REQ" :: tok :: kind :: args ->
          let t = int_of_string (String.sub tok 1 (String.length tok - 1)) in
          let mk name cls typ fl wrapped =
            { pn_tok = t; pn_name = (if name = "-" then "" else name); pn_type = type_num typ; pn_class = class_num cls;
              pn_rd = List.mem "rd" fl || wrapped; pn_cd = List.mem "cd" fl;
              pn_edns = List.exists (fun w -> starts_with "edns" w) fl;
              pn_tx = None; pn_cb_nodata = None; pn_hit = false; pn_created = wrapped; pn_wrapped = wrapped } in
          if !req_stack <> [] || not (Queue.is_empty pending_reads) || not (Queue.is_empty expected) then Hashtbl.replace feats "reentrant" ();
          (match kind, args with
           | "send", name :: cls :: typ :: fl -> req_stack := mk name cls typ fl false :: !req_stack
           | ("query" | "search"), name :: cls :: typ :: fl ->
             Hashtbl.replace wrapped_tok t (); Hashtbl.replace feats kind ();
             req_stack := mk name cls typ fl true :: !req_stack
           | "gai", name :: _ ->
             Hashtbl.replace wrapped_tok t (); Hashtbl.replace feats "gai" ();
             req_stack := mk name "IN" "A" [] true :: !req_stack
           | _ -> raise (Unsupported "request kind"))
        | "RET" :: _ ->
          (match !req_stack with
           | pn :: rest ->
             req_stack := rest;
             if not pn.pn_created && not pn.pn_hit then pending_new := pn :: !pending_new
           | [] -> ())
        | "SOCKET" :: s :: _ :: ty :: _ when starts_with "s" s ->
          Hashtbl.replace sock_tcp (sock_idx s) (ty = "type=tcp")
        | "CONNECT" :: s :: addr :: _ -> Hashtbl.replace sock_peer (sock_idx s) (addr_id (strip_port addr))
        | "CLOSE" :: s :: _ ->
          Queue.clear (queue_of (sock_idx s));
          if !in_cancel then begin
            (* closed from inside a callback (ares_cancel): read_answers drops what is left of the
               batch it read from this socket *)
            let keep = Queue.create () in
            Queue.iter (fun (sk, x) -> if sk = sock_idx s then bump "discarded-after-close" else Queue.add (sk, x) keep) pending_reads;
            Queue.clear pending_reads; Queue.transfer keep pending_reads
          end else
            (* the regular clean-up comes after every read of this call has been processed *)
            flush_reads ()
        | "CANCEL" :: "begin" :: _ -> in_cancel := true
        | "CANCEL" :: "end" :: _ -> in_cancel := false
        | "TX" :: x :: s :: rest ->
          let j = int_of_string (String.sub x 1 (String.length x - 1)) in
          let hex = match field rest "hex" with Some h -> h | None -> "" in
          (match parse_msg (hex_decode hex) with
           | None -> raise (Unsupported "unparsable transmission")
           | Some m ->
             let srv = match field rest "srv" with Some "-" | None -> -1 | Some v -> int_of_string v in
             let t = { t_sock = sock_idx s; t_srv = srv; t_tcp = field rest "proto" = Some "tcp"; t_msg = m } in
             Hashtbl.replace txs j t;
             if srv < 0 then raise (Unsupported "transmission to an unknown server");
             if find_mq m.m_id <> None then begin
               (* re-transmission of a live query: inside a read batch this is the requeue flush (or
                  the re-send after a connection error), which comes after the whole batch *)
               flush_reads ();
               seg_tx := (m.m_id, t) :: !seg_tx
             end else if not (match !last_view with Some v -> List.exists (fun q -> q.v_id = m.m_id) v.vqs | None -> false) then
               (* neither the model nor the implementation has a query with this id: bytes of a
                  query that ended while they sat in a TCP connection's output buffer *)
               bump "stale-transmission"
             else begin
               (* a new query.  Inside a read batch it was submitted from a callback: some packet
                  of the batch must have been delivered first *)
               while !batch_callbacks = 0 && not (Queue.is_empty pending_reads) && !req_stack = [] do feed_one () done;
               if find_mq m.m_id <> None then seg_tx := (m.m_id, t) :: !seg_tx
               else begin
                 seg_tx := (m.m_id, t) :: !seg_tx;
                 create_from_tx t
               end
             end)
        | "RSP" :: _ :: s :: rest ->
          if not (List.mem "DROPPED=closed" rest) then begin
            let sk = sock_idx s in
            let hex = match field rest "hex" with Some h -> h | None -> "" in
            let dup = match field rest "dup" with Some d -> int_of_string d | None -> 1 in
            let src = match field rest "from" with
              | Some a -> addr_id (strip_port a)
              | None -> (try Hashtbl.find sock_peer sk with Not_found -> -1) in
            for _ = 1 to dup do Queue.add (hex_decode hex, src) (queue_of sk) done
          end
        | "RAW" :: s :: rest ->
          if not (List.mem "DROPPED=closed" rest) then begin
            let sk = sock_idx s in
            let (hex, src) = match !cur_op with
              | ["raw"; _; h] -> (h, (try Hashtbl.find sock_peer sk with Not_found -> -1))
              | ["rawfrom"; _; a; h] -> (h, addr_id (strip_port a))
              | "zerolen" :: _ -> ("", (try Hashtbl.find sock_peer sk with Not_found -> -1))
              | _ -> raise (Unsupported "raw op") in
            Queue.add (hex_decode hex, src) (queue_of sk)
          end
        | "QSTATE" :: _ ->
          let v = parse_view line in
          (* a dump taken at asendto (in the middle of whatever is going on) only informs about the
             new query; dumps taken before a read batch or after an op are synchronisation points *)
          (match first_word (li + 1) with
           | "SENDTO" | "USEAFTERCLOSE" -> last_view := Some v
           | _ -> real_sync v)
        | "RECVFROM" :: s :: rc :: rest ->
          let sk = sock_idx s in
          let n = match kv rc with Some ("rc", v) -> int_of_string v | _ -> -1 in
          if n >= 0 && not (List.mem "eof=1" rest) then begin
            let q = queue_of sk in
            if (try Hashtbl.find sock_tcp sk with Not_found -> false) then begin
              (* a TCP read returns every queued frame *)
              let total = ref 0 in
              let frames = ref [] in
              while not (Queue.is_empty q) && !total < n do
                let (b, src) = Queue.pop q in total := !total + Array.length b + 2; frames := (b, src) :: !frames
              done;
              if !total <> n then raise (Unsupported "partial TCP frame");
              List.iter (fun x -> Queue.add (sk, x) pending_reads) (List.rev !frames)
            end else begin
              if Queue.is_empty q then raise (Unsupported "datagram of unknown origin");
              let (b, src) = Queue.pop q in
              if Array.length b <> n then raise (Unsupported "datagram length mismatch");
              Queue.add (sk, (b, src)) pending_reads
            end
          end
        | "SERVERSTATE" :: addr :: succ :: _ ->
          let addr = Str.global_substitute (Str.regexp "%\\([0-9A-Fa-f][0-9A-Fa-f]\\)")
              (fun m -> String.make 1 (Char.chr (int_of_string ("0x" ^ Str.matched_group 1 m)))) addr in
          let a = addr_id (strip_port addr) in
          let srv = let rec f i = if i >= nservers then -1 else if srv_addr i = a then i else f (i + 1) in f 0 in
          want_output ();
          if succ = "success=1" then begin
            (match (if Queue.is_empty expected then None else Some (Queue.peek expected)) with
             | Some (OServerGood (s, _)) when iz s = srv -> ignore (Queue.pop expected)
             | _ -> Printf.printf "DIFF %d server %d marked good, not predicted by the model\n" k srv; Hashtbl.replace feats "diff" ());
            (* monitor: the mark needs a packet read on one of this server's sockets since the last
               state dump that is authentic for some live query (each packet justifies one mark) *)
            let auth r = authentic_for cfg r.r_snap (zi r.r_sock) (zi r.r_src) r.r_pkt <> None
                         || authentic_for cfg r.r_now (zi r.r_sock) (zi r.r_src) r.r_pkt <> None in
            (match List.find_opt (fun r ->
                 (not (List.mem (iz r.r_pkt.p_tag) !marks_used)) &&
                 (match find_conn r.r_snap (zi r.r_sock) with Some cn -> iz cn.cn_server = srv | None -> false) &&
                 auth r) (List.rev !seg_reads) with
             | Some r ->
               marks_used := iz r.r_pkt.p_tag :: !marks_used;
               (* a record that justified a success mark was accepted, possibly for a query of the
                  library's own (server probe, search candidate: no CB line) - and may have entered
                  the cache *)
               (match (match find_query r.r_snap r.r_pkt.p_id with Some q -> Some q | None -> find_query r.r_now r.r_pkt.p_id) with
                | Some q -> Hashtbl.replace auth_delivered (iz r.r_pkt.p_tag)
                              (List.map (fun qn -> (string_of_bytes qn.qn_name, iz qn.qn_type, iz qn.qn_class)) q.q_qd)
                | None -> ())
             | None -> fail "unauthentic-success-mark" "server %d marked good although no authentic packet was read on its sockets" srv)
          end else begin
            match (if Queue.is_empty expected then None else Some (Queue.peek expected)) with
            | Some (OServerFail (s, _)) when iz s = srv -> ignore (Queue.pop expected)
            | _ -> ()   (* time-outs and send failures: send side *)
          end
        | "CB" :: tok :: status :: rest ->
          let t = int_of_string (String.sub tok 1 (String.length tok - 1)) in
          let status = match kv status with Some (_, v) -> int_of_string v | None -> -1 in
          let has_rec = not (List.mem "rec=-" rest || List.mem "ai=-" rest || List.mem "abuf=-" rest || List.mem "host=-" rest) in
          let wrapped = Hashtbl.mem wrapped_tok t in
          let tag = match Str.search_forward tag_re line 0 with
            | exception Not_found -> None
            | _ -> Some (int_of_string (Str.matched_group 1 line) * 65536 + int_of_string (Str.matched_group 2 line) * 256
                         + int_of_string (Str.matched_group 3 line)) in
          let in_req = (match !req_stack with pn :: _ when pn.pn_tok = t -> Some pn | _ -> None) in
          if not has_rec then begin
            (* no feeding here: a callback without a record that the accept path causes follows a
               failure mark (which has already pulled the packet in); anything else is a send-side
               end (time-out, cancel from a callback) that must take effect before the rest of the
               batch is processed *)
            skip_unobservable ();
            (* callbacks without a record: the order among them (order of the connection's own
               query list) is not modelled, take the first matching prediction *)
            let found = ref false in
            let rest = Queue.create () in
            Queue.iter (fun o -> match o with
                | OCallback (mt, _, None) when iz mt = t && not !found -> found := true
                | o -> Queue.add o rest) expected;
            (match !found with
             | true -> Queue.clear expected; Queue.transfer rest expected
             | false ->
               (match in_req with
                | Some pn -> pn.pn_cb_nodata <- Some status
                | None ->
                  if not wrapped then begin
                    (* an end the accept path did not cause (time-out, cancel, send failure): it
                       takes effect now - packets still to be processed no longer find the query *)
                    match List.find_opt (fun q -> iz q.q_tok = t) !st.ch_queries with
                    | Some q -> ignore (apply (EEnd (q.q_qid, zi status)) "EEnd")
                    | None -> ended_nodata := (t, status) :: !ended_nodata
                  end))
          end else begin
            incr n_deliv;
            match in_req with
            | Some pn ->
              (* answered synchronously inside the request call: a cache hit *)
              incr n_hit; pn.pn_hit <- true; Hashtbl.replace feats "cachehit" ();
              (* the question the cache was asked: for ares_send the request itself, for the
                 wrapped kinds (query/search/getaddrinfo) the question of the record served *)
              let asked = if not pn.pn_wrapped then Some (pn.pn_name, pn.pn_type, pn.pn_class) else
                  (match Str.search_forward qd_re line 0 with
                   | exception Not_found -> None
                   | _ -> (try Some (Str.matched_group 1 line, type_num (Str.matched_group 2 line), class_num (Str.matched_group 3 line))
                           with _ -> None)) in
              (match tag with
               | None -> fail "untagged-delivery" "t%d served a record that carries no provenance tag" t
               | Some tg ->
                 (match Hashtbl.find_opt auth_delivered tg with
                  | None -> fail "unauthentic-cache-hit" "t%d served from the cache with the record of packet %d, which was never accepted as authentic" t tg
                  | Some qd ->
                    let low s = String.lowercase_ascii s in
                    let strip s = if s <> "" && s.[String.length s - 1] = '.' then String.sub s 0 (String.length s - 1) else s in
                    (match qd, asked with
                     | [(nm, ty, cl)], Some (an, aty, acl) when low (strip nm) = low (strip an) && ty = aty && cl = acl -> ()
                     | _, None -> ()
                     | _ -> fail "cache-wrong-question" "t%d (%s type %d) served the cached answer of another question" t pn.pn_name pn.pn_type)));
              (match asked with
               | None -> ()      (* addrinfo results do not show the question: no prediction *)
               | Some (an, aty, acl) ->
                 let pn' = { pn with pn_name = an; pn_type = aty; pn_class = acl; pn_tx = None } in
                 let (outs, _) = do_new pn' None in
                 (match outs, tag with
                  | [OCallback (mt, ms, Some mtag)], Some tg when iz mt = t && (pn.pn_wrapped || iz ms = status) && iz mtag = tg -> ()
                  | [OCallback (_, _, Some mtag)], _ -> diff "cache hit for t%d: model serves packet %d, implementation %s" t (iz mtag)
                                                          (match tag with Some tg -> string_of_int tg | None -> "untagged")
                  | _, _ -> diff "implementation serves t%d from the cache, model does not" t))
            | None ->
              want_output ();
              (* for a wrapped request the record reaches the user through the library's own
                 callback: feed until the model has delivered it there *)
              (match tag with
               | Some tg when wrapped ->
                 while not (Hashtbl.mem internal_delivered tg) && not (Queue.is_empty pending_reads) do feed_one () done
               | _ -> ());
              (* monitor *)
              (match tag with
               | None -> fail "untagged-delivery" "t%d received a record that carries no provenance tag" t
               | Some tg ->
                 let reads = List.filter (fun r -> iz r.r_pkt.p_tag = tg) !seg_reads in
                 (match reads with
                  | [] ->
                    (match List.find_opt (fun (g, _, _) -> g = tg) !seg_malformed with
                     | Some (_, sk, why) ->
                       fail "unauthentic-delivery" "t%d received the record of packet %d read on s%d, whose raw octets are not an acceptable message (%s): it matches no question" t tg sk why
                     | None ->
                       if not (wrapped && Hashtbl.mem auth_delivered tg) then
                         fail "unauthentic-delivery" "t%d received the record of packet %d, which was not read since the last state dump" t tg)
                  | _ ->
                    let ok_tok = function Some tok -> wrapped || iz tok = t | None -> false in
                    let ok = List.exists (fun r ->
                        ok_tok (authentic_for cfg r.r_snap (zi r.r_sock) (zi r.r_src) r.r_pkt)
                        || ok_tok (authentic_for cfg r.r_now (zi r.r_sock) (zi r.r_src) r.r_pkt)) reads in
                    if ok then begin
                      let r = List.hd reads in
                      let q0 = (match find_query r.r_snap r.r_pkt.p_id with Some q -> Some q | None -> find_query r.r_now r.r_pkt.p_id) in
                      let qd = List.map (fun q -> (string_of_bytes q.qn_name, iz q.qn_type, iz q.qn_class))
                          (match q0 with Some q -> q.q_qd | None -> []) in
                      Hashtbl.replace auth_delivered tg qd
                    end else begin
                      let r = List.hd reads in
                      let why = iz (reject_reason cfg r.r_snap (zi r.r_sock) (zi r.r_src) r.r_pkt) in
                      fail "unauthentic-delivery" "t%d received the record of packet %d read on s%d: not authentic for that query (%s)" t tg r.r_sock
                        (match why with 1 -> "no live query with this id" | 2 -> "question differs" | 3 -> "query is assigned to another connection"
                                      | 4 -> "foreign source address" | 5 -> "QR bit clear: not a response" | 6 -> "cookie check"
                                      | 0 -> "authentic for another token" | _ -> "unknown connection")
                    end));
              (* correspondence *)
              if wrapped then begin
                match tag with
                | Some tg when Hashtbl.mem internal_delivered tg -> ()
                | _ -> diff "t%d (wrapped request) received a record (status %d, packet %s) that the model never handed to the library's callback" t status
                         (match tag with Some tg -> string_of_int tg | None -> "untagged")
              end else begin
                skip_unobservable ();
                (match (if Queue.is_empty expected then None else Some (Queue.peek expected)), tag with
                 | Some (OCallback (mt, ms, Some mtag)), Some tg when iz mt = t && iz mtag = tg ->
                   ignore (Queue.pop expected);
                   if iz ms <> status then diff "t%d delivered with status %d, model %d" t status (iz ms)
                 | _, _ -> diff "t%d received a record (status %d, packet %s) that the model does not deliver" t status
                             (match tag with Some tg -> string_of_int tg | None -> "untagged"))
              end
          end
        | "DESTROY" :: _ -> stop := true
        | "BADOP" :: _ -> bump "badop"
        | "INIT" :: rc :: _ -> if rc <> "rc=0" then raise (Unsupported "init failed")
        | _ -> ()
      end) larr;
    let f = String.concat "" (List.map (fun x -> "+" ^ x) (List.sort compare (Hashtbl.fold (fun k' () acc -> k' :: acc) feats []))) in
    if !n_read = 0 then Printf.printf "CASE %d trivial-noread-%s\n" k !label
    else Printf.printf "CASE %d %s%s%s\n" k !label (if !n_deliv > 0 then "+deliv" else "") f
  with
  | Stop _ -> Printf.printf "CASE %d %s+diff\n" k !label
  | Unsupported what -> Printf.printf "CASE %d trivial-unsupported-%s\n" k (String.concat "-" (words what))
  | Failure what -> Printf.printf "CASE %d trivial-driver-error\nDIFF %d driver cannot read the log: %s\n" k k what
  | Not_found -> Printf.printf "CASE %d trivial-driver-error\nDIFF %d driver cannot read the log: Not_found\n" k k)

let () =
  let cases = read_lines Sys.argv.(1) in
  let impl = impl_table Sys.argv.(2) in
  List.iteri (fun k line -> run_case k line (impl_lines impl k)) cases;
  Hashtbl.iter (fun key v -> Printf.printf "STAT %s %d\n" key v) stats
