(* Model-side driver of the thread-stress engine (C11).  Oracle on the implementation's
   output: exactly one callback per request (none duplicated, none missing after destroy),
   ares_queue_wait_empty reported success only with nothing outstanding (the extracted
   [wait_empty] specification: success implies observed length 0), and the queue drained
   within the budget.  ThreadSanitizer reports are attributed to the case by the framework. *)
open LocksModel
(*INCLUDE conv_nat.inc*)
(*INCLUDE conv_io.inc*)

let () =
  let cases = read_lines Sys.argv.(1) in
  let impl = impl_table Sys.argv.(2) in
  List.iteri (fun k line ->
    let lines = impl_lines impl k in
    let rl = List.filter (fun l -> String.length l > 2 && String.sub l 0 2 = "R ") lines in
    (match rl with
     | ["R DEADLOCK"] ->
       Printf.printf "CASE %d stress\n" k;
       Printf.printf "FAIL %d deadlock the case was still running after 45 s: some thread is blocked forever (every wait in the case is bounded)\n" k
     | [r] ->
       let kv = List.filter_map (fun t -> match split_on '=' t with [a; b] -> Some (a, b) | _ -> None) (split_on ' ' r) in
       let get key = try List.assoc key kv with Not_found -> "?" in
       let issued = (try int_of_string (get "issued") with _ -> 0) in
       Printf.printf "CASE %d %s\n" k (if issued >= 2 then "stress" else "trivial");
       if get "dup" <> "0" then Printf.printf "FAIL %d callback-duplicate %s\n" k r;
       if get "missing" <> "0" then Printf.printf "FAIL %d callback-missing %s\n" k r;
       if get "lostwake" <> "0" && get "lostwake" <> "?" then Printf.printf "FAIL %d waitempty-lost-wakeup %s concurrent waiter(s) not released although the queue drained: %s\n" k (get "lostwake") r;
       (match split_on ':' (get "waitempty") with
        | [rc; outstanding] ->
          let n = (try int_of_string outstanding with _ -> 0) in
          (* specification: success only when the queue observed at return is empty *)
          (match wait_empty (nat_of_int n) [] with
           | Some (true, _) -> ()
           | _ -> if rc = "0" then Printf.printf "FAIL %d waitempty-nonempty success with %d outstanding: %s\n" k n r);
          if rc <> "0" then Printf.printf "FAIL %d queue-not-drained ares_queue_wait_empty rc=%s within budget: %s\n" k rc r
        | _ -> ())
     | _ ->
       Printf.printf "CASE %d trivial-noresult\n" k;
       if not (List.exists (fun l -> String.length l >= 7 && String.sub l 0 7 = "MONITOR") lines) then
         Printf.printf "DIFF %d no result line\n" k)) cases
