(* Model-side driver of the C09 engine "servers": replays the events of each case on the
   extracted model (Core/Servers.v), with the random draws and the order of simultaneous
   timeouts read back from the implementation's output, and compares observations and the
   server table after every event (DIFF).  The property's own oracle (FAIL) is the extracted
   monitor mon_step fed with the IMPLEMENTATION's observation stream, plus checks of the
   implementation's server table against that monitor (accounting, sortedness) and the
   probe-liveness predicate probe_due. *)
open ServersModel
(*INCLUDE conv.inc*)

let zi = z_of_int
let iz = int_of_z

let ints_of_csv s = List.filter_map (fun t -> match int_of_string_opt t with Some i when i >= 1 && i <= 250 -> Some i | _ -> None) (split_on ',' s)

let is_event u =
  u = "q" || u = "p" || u = "a" || u = "s" || u = "r" || u = "i" || u = "x" || u = "c" || u = "k"
  || (String.length u >= 2 && u.[0] = 'w' && u.[1] >= '0' && u.[1] <= '9')
  || (String.length u >= 1 && u.[0] = 'e')

let render_obs = function
  | OFail a -> Printf.sprintf "F%d" (iz a)
  | OGood a -> Printf.sprintf "G%d" (iz a)
  | OTx (l, a, _) -> Printf.sprintf "T%d@%d" (int_of_nat l) (iz a)
  | ODone (l, s) -> Printf.sprintf "D%d=%d" (int_of_nat l) (iz s)
  | OServers _ -> "E"
  | OConnLost (a, _) -> Printf.sprintf "L%d" (iz a)

let render_table (l : server list) =
  if l = [] then "-" else
  String.concat "," (List.map (fun s ->
    Printf.sprintf "%d:%d:%s:%d:%s.%s" (iz s.sv_addr) (iz s.sv_idx) (string_of_z s.sv_fail)
      (if s.sv_probe then 1 else 0) (string_of_z (fst s.sv_retry)) (string_of_z (snd s.sv_retry))) l)

let rec permutations = function
  | [] -> [[]]
  | l -> List.concat_map (fun x -> List.map (fun p -> x :: p) (permutations (List.filter (fun y -> y != x) l))) l

let starts_with p s = String.length s >= String.length p && String.sub s 0 (String.length p) = p

(* implementation table "id:idx:fail:probe:sec.usec,..." -> (id, idx, fail) list *)
let parse_table t =
  if t = "-" || t = "" then [] else
  List.filter_map (fun e -> match split_on ':' e with
    | id :: idx :: fl :: _ -> (try Some (int_of_string id, int_of_string idx, int_of_string fl) with _ -> None)
    | _ -> None) (split_on ',' t)

let () =
  let cases = read_lines Sys.argv.(1) in
  let impl = impl_table Sys.argv.(2) in
  let n_events = ref 0 and n_probes = ref 0 and n_fresh = ref 0 and n_pf = ref 0 in
  List.iteri (fun k line ->
    let lines = impl_lines impl k in
    let monitor_died = List.exists (starts_with "MONITOR") lines in
    let diff = ref None and fails = ref [] in
    let set_diff s = if !diff = None then diff := Some s in
    let add_fail kind s = if not (List.exists (fun (k', _) -> k' = kind) !fails) then fails := (kind, s) :: !fails in
    let cls = ref "trivial" in
    (match String.index_opt line '|', List.find_opt (starts_with "C ") lines with
     | None, _ -> cls := "trivial-badcase"
     | _, None ->
       cls := "trivial-noinit";
       if not monitor_died && not (List.exists (starts_with "R INITFAIL") lines) then set_diff "no configuration line"
     | Some bar, Some cline ->
       let units = split_on ';' (String.sub line (bar + 1) (String.length line - bar - 1)) in
       let sv = List.fold_left (fun acc u -> if starts_with "sv=" u then acc @ ints_of_csv (String.sub u 3 (String.length u - 3)) else acc) [] units in
       (* effective options from the C line: "C rot=R tries=T ch=C dl=D | table" *)
       let get key = List.fold_left (fun acc t -> if starts_with (key ^ "=") t then int_of_string (String.sub t (String.length key + 1) (String.length t - String.length key - 1)) else acc) 0 (split_on ' ' cline) in
       let rot = get "rot" = 1 and tries = get "tries" and eff_chance = get "ch" and eff_delay = get "dl" in
       (* the failover options are the CONFIGURED ones (units ch= / dl=; library defaults 10 / 5000 ms when the
          option is not passed): retry chance 0 disables probing, the retry delay is the configured one *)
       let unit_int key = List.fold_left (fun acc u -> if starts_with (key ^ "=") u then int_of_string_opt (String.sub u (String.length key + 1) (String.length u - String.length key - 1)) else acc) None units in
       let chance, delay = match unit_int "ch" with
         | Some c when c >= 0 -> (c, (match unit_int "dl" with Some d -> d | None -> 0))
         | _ -> (10, 5000) in
       if (eff_chance, eff_delay) <> (chance, delay) then
         add_fail "option-ignored" (Printf.sprintf "configured server failover options chance=%d delay=%d ms, but the channel uses chance=%d delay=%d ms" chance delay eff_chance eff_delay);
       let ch = ref (init_chan (List.map zi sv) rot (zi tries) (zi chance) (zi delay) (zi 100000, zi 0)) in
       let mon = ref (Some (mon_init (List.map zi sv) rot)) in
       let bmon = ref (Some (bmon_init (List.map zi sv) (zi tries))) in
       let dmon = ref (Some None) in
       let sections l = match List.map String.trim (split_on '|' l) with
         | [_; r; t] -> (List.filter (fun s -> s <> "") (split_on ' ' r), t)
         | _ -> ([], "?") in
       let (_, t0) = match List.map String.trim (split_on '|' cline) with [a; b] -> (a, b) | _ -> ("", "?") in
       if t0 <> render_table !ch.ch_servers then set_diff (Printf.sprintf "initial table model=[%s] impl=[%s]" (render_table !ch.ch_servers) t0);
       let slines = List.filter (starts_with "S ") lines in
       let evs = List.filter is_event units in
       let user_labels = Hashtbl.create 16 in
       let max_fail = ref 0 and n_edits = ref 0 and n_edits_inflight = ref 0 and probes_here = ref 0 and n_q = ref 0 in
       (* one event against one implementation line *)
       let do_event u sline =
         incr n_events;
         let (recs, table) = sections sline in
         let r1s = List.filter_map (fun r -> if starts_with "R1=" r then Some (int_of_string (String.sub r 3 (String.length r - 3))) else None) recs in
         let r2s = List.filter_map (fun r -> if starts_with "R2=" r then Some (int_of_string (String.sub r 3 (String.length r - 3))) else None) recs in
         List.iter (fun r -> if starts_with "Q" r then
                       (match int_of_string_opt (String.sub r 1 (String.length r - 1)) with
                        | Some l -> Hashtbl.replace user_labels l () | None -> ())) recs;
         let vis = List.filter (fun r -> not (starts_with "R1=" r || starts_with "R2=" r || starts_with "Q" r)) recs in
         let r1 = ref r1s in
         let next_choice () =
           { c_rot = zi (match !r1 with x :: _ -> x | [] -> 0); c_probe = zi (match r2s with x :: _ -> x | [] -> 0) } in
         let consume obs = List.iter (function OTx (_, _, false) when rot -> (match !r1 with _ :: r -> r1 := r | [] -> ()) | _ -> ()) obs in
         let apply c ev = match step c ev with
           | Ok (c', obs) -> consume obs; Some (c', obs)
           | Err _ | UB _ -> None in
         let pre = !ch in
         (* model prediction: (channel, observations) *)
         let predicted : (chan * obs list * string list) option =
           let head_label () = match !ch.ch_inflight with a :: _ -> Some a.at_label | [] -> None in
           match u with
           | "q" ->
             incr n_q;
             (match apply !ch (EvSend (next_choice ())) with Some (c, o) -> Some (c, o, []) | None -> None)
           | "p" ->
             (* a query during which the connection of the probe copy cannot be opened (PF): the
                probe is an attempt that fails at once - EvSend, then EvRefuse of the probe copy with
                ECONNREFUSED; the probe is never transmitted, so its OTx is not part of the stream *)
             incr n_q;
             (match apply !ch (EvSend (next_choice ())) with
              | Some (c, o) ->
                if not (List.mem "PF" recs) then Some (c, o, [])
                else
                  (match List.filter_map (function OTx (pl, _, true) -> Some pl | _ -> None) o with
                   | [pl] ->
                     (match apply c (EvRefuse (pl, zi 11, next_choice ())) with
                      | Some (c', o') -> incr n_pf; Some (c', List.filter (function OTx (_, _, true) -> false | _ -> true) o @ o', ["PF"])
                      | None -> None)
                   | _ -> None)
              | None -> None)
           | "a" | "s" | "r" | "i" ->
             (match head_label () with
              | None -> Some (!ch, [], ["-"])
              | Some l ->
                let ev = if u = "a" then EvAnswer l
                  else EvRefuse (l, zi (if u = "s" then 3 else if u = "r" then 6 else 5), next_choice ()) in
                (match apply !ch ev with Some (c, o) -> Some (c, o, []) | None -> None))
           | "x" ->
             (match step !ch (EvAdvance (zi 60000)) with
              | Ok (c0, _) ->
                let labels = List.map (fun a -> a.at_label) c0.ch_inflight in
                (* the order in which the attempts time out is the implementation's (deadline
                   order): search for an order under which the model reproduces the stream,
                   pruning on the observation prefix *)
                let rec is_prefix p l = match p, l with
                  | [], _ -> true
                  | x :: pr, y :: lr -> x = y && is_prefix pr lr
                  | _ :: _, [] -> false in
                let rec drop n l = if n = 0 then l else match l with [] -> [] | _ :: r -> drop (n - 1) r in
                let rec dfs c acc remaining vis_left r1_left =
                  match remaining with
                  | [] -> if vis_left = [] && render_table c.ch_servers = table then Some (c, acc) else None
                  | _ ->
                    List.fold_left (fun found l ->
                      match found with
                      | Some _ -> found
                      | None ->
                        r1 := r1_left;
                        (match apply c (EvTimeout (l, next_choice ())) with
                         | Some (c', o') ->
                           let ro = List.map render_obs o' in
                           if is_prefix ro vis_left
                           then dfs c' (acc @ o') (List.filter (fun y -> y <> l) remaining) (drop (List.length ro) vis_left) !r1
                           else None
                         | None -> None)) None remaining in
                let in_order order =
                  r1 := r1s;
                  List.fold_left (fun acc l -> match acc with
                    | None -> None
                    | Some (c, o) -> (match apply c (EvTimeout (l, next_choice ())) with
                        | Some (c', o') -> Some (c', o @ o') | None -> None)) (Some (c0, [])) order in
                (match dfs c0 [] labels vis r1s with
                 | Some (c, o) -> Some (c, o, [])
                 | None -> (match in_order labels with Some (c, o) -> Some (c, o, []) | None -> None))
              | _ -> None)
           | "k" ->
             (match !ch.ch_inflight with
              | [] -> Some (!ch, [], ["-"])
              | a :: _ ->
                let cs = List.map (fun x -> { c_rot = zi x; c_probe = zi 0 }) r1s in
                (match step !ch (EvConnLost (a.at_server, cs)) with Ok (c, o) -> Some (c, o, []) | _ -> None))
           | "c" -> (match apply !ch EvCancel with Some (c, o) -> Some (c, o, []) | None -> None)
           | _ when u.[0] = 'w' ->
             if !ch.ch_inflight <> [] then Some (!ch, [], ["skip"]) else
             (match apply !ch (EvAdvance (zi (int_of_string (String.sub u 1 (String.length u - 1))))) with
              | Some (c, o) -> Some (c, o, []) | None -> None)
           | _ (* e... *) ->
             incr n_edits;
             if !ch.ch_inflight <> [] then incr n_edits_inflight;
             let cs = List.map (fun x -> { c_rot = zi x; c_probe = zi 0 }) r1s in
             (match step !ch (EvSetServers (List.map zi (ints_of_csv (String.sub u 1 (String.length u - 1))), cs)) with
              | Ok (c, o) -> Some (c, o, ["rc=0"])
              | _ -> None) in
         (match predicted with
          | None -> set_diff (Printf.sprintf "event %s: model step is not Ok" u)
          | Some (c, o, extra) ->
            let mvis = List.map render_obs o @ extra in
            let pinned_note =
              if u.[0] = 'e' && mvis <> vis then
                (let cs = List.map (fun x -> { c_rot = zi x; c_probe = zi 0 }) r1s in
                 match set_servers_pinned pre (List.map zi (ints_of_csv (String.sub u 1 (String.length u - 1)))) cs with
                 | Ok (_, po) when List.map render_obs po @ ["rc=0"] = vis -> " (= model of the code WITHOUT fixes/C09-stale-servers-unlink-first.patch)"
                 | _ -> "")
              else "" in
            if mvis <> vis then set_diff (Printf.sprintf "event %s: observations model=[%s] impl=[%s]%s" u (String.concat " " mvis) (String.concat " " vis) pinned_note)
            else if render_table c.ch_servers <> table then set_diff (Printf.sprintf "event %s: server table model=[%s] impl=[%s]" u (render_table c.ch_servers) table);
            let fresh = List.length (List.filter (function OTx (_, _, false) -> true | _ -> false) o) in
            n_fresh := !n_fresh + fresh;
            if List.length r1s <> (if rot then fresh else 0) then
              set_diff (Printf.sprintf "event %s: %d one-byte draws for %d fresh attempts (rotate=%b)" u (List.length r1s) fresh rot);
            List.iter (function OTx (_, _, true) -> incr n_probes; incr probes_here | _ -> ()) o;
            ch := c);
         (* ---- oracle on the implementation's own stream ---- *)
         let iobs = List.filter_map (fun r ->
           try
             if starts_with "F" r then Some (OFail (zi (int_of_string (String.sub r 1 (String.length r - 1)))))
             else if starts_with "G" r then Some (OGood (zi (int_of_string (String.sub r 1 (String.length r - 1)))))
             else if starts_with "T" r then
               (match split_on '@' (String.sub r 1 (String.length r - 1)) with
                | [l; a] -> let l = int_of_string l in
                  Some (OTx (nat_of_int l, zi (int_of_string a), not (Hashtbl.mem user_labels l)))
                | _ -> None)
             else if starts_with "D" r then
               (match split_on '=' (String.sub r 1 (String.length r - 1)) with
                | [l; s] -> Some (ODone (nat_of_int (int_of_string l), zi (int_of_string s)))
                | _ -> None)
             else if starts_with "L" r then Some (OConnLost (zi (int_of_string (String.sub r 1 (String.length r - 1))), true))
             else if r = "E" then Some (OServers (List.map zi (ints_of_csv (String.sub u 1 (String.length u - 1)))))
             else None
           with _ -> None) vis in
         List.iter (fun ob ->
           match !mon with
           | None -> ()
           | Some m ->
             (match mon_step m ob with
              | Some m' -> mon := Some m'
              | None ->
                add_fail (match ob with OTx (_, _, true) -> "probe-target" | _ -> "choice")
                  (Printf.sprintf "event %s: %s rejected; failures by callbacks [%s]" u (render_obs ob)
                     (String.concat "," (List.map (fun s -> Printf.sprintf "%d:%d:%s" (iz s.sv_addr) (iz s.sv_idx) (string_of_z s.sv_fail)) m.m_servers)));
                mon := None)) iobs;
         (* third monitor: a lost connection with queries outstanding demotes the server at once *)
         List.iter (fun ob ->
           match !dmon with
           | None -> ()
           | Some d ->
             (match dmon_step d ob with
              | Some d' -> dmon := Some d'
              | None ->
                add_fail "not-demoted"
                  (Printf.sprintf "event %s: connection to server %s lost with queries outstanding, but the next observation is %s instead of its failure callback"
                     u (match d with Some a -> string_of_z a | None -> "?") (render_obs ob));
                dmon := None)) iobs;
         (match !dmon with
          | Some (Some a) -> add_fail "not-demoted" (Printf.sprintf "event %s: connection to server %s lost with queries outstanding and no failure callback followed" u (string_of_z a)); dmon := None
          | _ -> ());
         (* second monitor: an attempt that is due is made *)
         List.iter (fun ob ->
           match !bmon with
           | None -> ()
           | Some b ->
             (match bmon_step b ob with
              | Some b' -> bmon := Some b'
              | None ->
                add_fail "attempt-not-sent"
                  (Printf.sprintf "event %s: %s although only %d transmission(s) were made for it and the budget is %d server(s) x %d tries"
                     u (render_obs ob)
                     (match ob with ODone (l, _) -> List.length (List.filter (fun x -> x = l) b.b_txs) | _ -> 0)
                     (int_of_nat b.b_nsrv) (iz b.b_tries));
                bmon := None)) iobs;
         (* the implementation's table against the callback-derived counts, and its order *)
         let it = parse_table table in
         (match !mon with
          | Some m ->
            let mt = List.sort compare (List.map (fun s -> (iz s.sv_addr, iz s.sv_idx, iz s.sv_fail)) m.m_servers) in
            if mt <> List.sort compare it then
              add_fail "accounting" (Printf.sprintf "event %s: table [%s] but callbacks imply [%s]" u table
                (String.concat "," (List.map (fun (a, i, f) -> Printf.sprintf "%d:%d:%d" a i f) mt)))
          | None -> ());
         let rec sorted = function
           | (_, i1, f1) :: ((_, i2, f2) :: _ as r) -> (f1 < f2 || (f1 = f2 && i1 < i2)) && sorted r
           | _ -> true in
         if not (sorted it) then add_fail "unsorted" (Printf.sprintf "event %s: server list [%s] is not ordered by (failures, index)" u table);
         List.iter (fun (_, _, f) -> if f > !max_fail then max_fail := f) it;
         (* probe liveness: healthy first attempt, the draw says probe, a failed server is past its
            retry time with no probe in flight, yet no probe was transmitted *)
         if chance = 0 && List.exists (function OTx (_, _, true) -> true | _ -> false) iobs then
           add_fail "probe-unexpected" (Printf.sprintf "event %s: a probe copy was sent although the configured retry chance is 0 (probing disabled); table [%s]" u table);
         if (u = "q" || u = "p") && not (List.mem "PF" recs) then begin
           match r2s, choose_server rot (zi (match r1s with x :: _ -> x | [] -> 0)) pre.ch_servers with
           | r2 :: _, Some s when iz s.sv_fail = 0 && chance <> 0 && r2 mod chance = 0 ->
             (match probe_due pre pre.ch_servers with
              | Ok true ->
                if not (List.exists (function OTx (_, _, true) -> true | _ -> false) iobs) then
                  add_fail "probe-starved" (Printf.sprintf "event q/p: failed server past its retry time, no probe in flight, draw %d mod %d = 0, yet no probe sent; table before [%s]" r2 chance (render_table pre.ch_servers))
              | _ -> ())
           | _ -> ()
         end in
       (* walk events and S lines together; then the drain lines *)
       let rec walk evs sl = match evs, sl with
         | u :: er, s :: sr -> do_event u s; walk er sr
         | [], s :: sr -> do_event "a" s; walk [] sr
         | _ :: _, [] -> if not monitor_died then set_diff "implementation output ends early"
         | [], [] -> () in
       walk evs slines;
       if !ch.ch_inflight <> [] && not monitor_died && !diff = None then set_diff "model still has attempts in flight after the drain";
       let nsv = List.length (List.sort_uniq compare sv) in
       cls := if !n_q = 0 then "trivial-no-query"
         else Printf.sprintf "%s-%s-f%s%s%s" (if rot then "rot" else "norot")
             (if nsv <= 1 then "1srv" else if nsv <= 3 then "2-3srv" else "4-8srv")
             (if !max_fail = 0 then "0" else if !max_fail <= 2 then "1-2" else "3+")
             (if !probes_here > 0 then "-probe" else "") (if !n_edits_inflight > 0 then "-editinflight" else if !n_edits > 0 then "-edit" else ""));
    Printf.printf "CASE %d %s\n" k !cls;
    (match !diff with Some d -> Printf.printf "DIFF %d %s\n" k d | None -> ());
    List.iter (fun (kind, s) -> Printf.printf "FAIL %d %s %s\n" k kind s) (List.rev !fails)) cases;
  Printf.printf "STAT events %d\nSTAT fresh-attempts %d\nSTAT probes %d\nSTAT probes-failed-at-connect %d\n" !n_events !n_fresh !n_probes !n_pf
