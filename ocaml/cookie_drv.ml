(* Model-side driver for the DNS cookie engine (C17).
   For every case: runs the extracted model step by step and prints what harness/cookie_drv.c
   prints (DIFF on any difference), and runs the extracted monitor (CookieSpec.mon_step) over
   the IMPLEMENTATION's observations (FAIL when the property's oracle rejects them). *)
open CookieModel
(*INCLUDE conv.inc*)

let hexval c = match c with
  | '0'..'9' -> Char.code c - 48 | 'a'..'f' -> Char.code c - 87 | 'A'..'F' -> Char.code c - 55 | _ -> -1

let unhex s =
  let n = String.length s in
  let rec go i acc =
    if i + 1 < n && hexval s.[i] >= 0 && hexval s.[i + 1] >= 0
    then go (i + 2) ((hexval s.[i] * 16 + hexval s.[i + 1]) :: acc) else List.rev acc in
  go 0 []

let zbytes l = List.map z_of_int l
let hex_of_bytes l = String.concat "" (List.map (fun z -> Printf.sprintf "%02x" (int_of_z z)) l)

let rec take n l = if n <= 0 then [] else match l with [] -> [] | x :: r -> x :: take (n - 1) r
let rec pad n l = if List.length l >= n then l else pad n (l @ [0])

let field step key =
  let toks = split_on ' ' step in
  let kl = String.length key + 1 in
  List.fold_left (fun acc t ->
    match acc with Some _ -> acc | None ->
      if String.length t >= kl && String.sub t 0 kl = key ^ "=" then Some (String.sub t kl (String.length t - kl)) else None) None toks

let parse_time s =
  match split_on '.' s with
  | [a; b] -> (match int_of_string_opt a, int_of_string_opt b with
      | Some a, Some b -> Some { tv_sec = z_of_int a; tv_usec = z_of_int b } | _ -> None)
  | [a] -> (match int_of_string_opt a with Some a -> Some { tv_sec = z_of_int a; tv_usec = Z0 } | None -> None)
  | _ -> None

let parse_ip s =
  let n = String.length s in
  if n >= 2 && s.[0] = '4' && s.[1] = ':' then
    { a_family = aF_INET; a_data = zbytes (pad 16 (take 4 (unhex (String.sub s 2 (n - 2))))) }
  else if n >= 2 && s.[0] = '6' && s.[1] = ':' then
    { a_family = aF_INET6; a_data = zbytes (pad 16 (take 16 (unhex (String.sub s 2 (n - 2))))) }
  else { a_family = Z0; a_data = zbytes (pad 16 []) }

let req_str = function NoOpt -> "-" | OptOnly -> "+" | OptCookie c -> hex_of_bytes c
let tv_str t = Printf.sprintf "%s.%06d" (string_of_z t.tv_sec) (int_of_z t.tv_usec)
let dump c =
  Printf.sprintf "ck=%s:%s:%s:%s/%s:%s:%d:%s" (string_of_z c.ck_state) (hex_of_bytes c.ck_client) (tv_str c.ck_client_ts)
    (string_of_z c.ck_client_ip.a_family) (hex_of_bytes c.ck_client_ip.a_data) (hex_of_bytes c.ck_server)
    (int_of_nat c.ck_server_len) (tv_str c.ck_unsup_ts)

let vk = function
  | V_tcp_cookie -> "tcp_cookie" | V_cookie_missing -> "cookie_missing" | V_malformed_req -> "malformed_req"
  | V_client_unstable -> "client_unstable" | V_echo -> "echo_not_latest" | V_supported_accepts -> "supported_accepts"
  | V_mismatch_accepted -> "mismatch_accepted" | V_valid_dropped -> "valid_dropped" | V_badcookie -> "badcookie"
  | V_badcookie_bound -> "badcookie_bound" | V_unsup_dropped -> "unsup_dropped"

(* a step of the case -> event (needs the model/impl request of the query for '@') *)
type pstep = PBad | PEvent of event

let parse_step step (cur_req : int -> req) =
  match field step "q" with
  | None -> PBad
  | Some qs ->
    (match int_of_string_opt qs with
     | None -> PBad
     | Some qi when qi < 0 || qi >= 4 -> PBad
     | Some qi ->
       let q = nat_of_int qi in
       let starts p = String.length step >= String.length p && String.sub step 0 (String.length p) = p in
       if starts "new " then begin
         let opt = (match field step "opt" with Some s -> (match int_of_string_opt s with Some n -> n <> 0 | None -> false) | None -> false) in
         let uc = (match field step "uc" with Some s when opt && s <> "" && s.[0] <> '-' -> Some (zbytes (take 64 (unhex s))) | _ -> None) in
         PEvent (ENew (q, opt, uc))
       end else if starts "apply " then begin
         match (match field step "t" with Some s -> parse_time s | None -> None) with
         | None -> PBad
         | Some now ->
           let tcp = (match field step "tcp" with Some s -> (match int_of_string_opt s with Some n -> n <> 0 | None -> false) | None -> false) in
           let ip = (match field step "ip" with Some s -> parse_ip s | None -> parse_ip "0") in
           let chunks = (match field step "rnd" with Some s -> List.map (fun h -> zbytes (pad 8 (take 8 (unhex h)))) (take 4 (split_on ',' s)) | None -> []) in
           let rnd n = let i = int_of_nat n in if i < List.length chunks then List.nth chunks i else zbytes (pad 8 []) in
           PEvent (EApply (q, tcp, ip, now, rnd))
       end else if starts "validate " then begin
         match (match field step "t" with Some s -> parse_time s | None -> None), field step "c" with
         | Some now, Some c when c <> "" ->
           let rcode = (match field step "rcode" with Some s -> (match int_of_string_opt s with Some n -> n | None -> 0) | None -> 0) in
           let (rc, rcode) =
             if c.[0] = '-' then (None, if rcode > 15 then 2 else rcode)
             else if c.[0] = '+' then (None, rcode)
             else if c.[0] = '@' then begin
               let cp = (match cookie_of (cur_req qi) with Some x -> pad 8 (take 8 (List.map int_of_z x)) | None -> pad 8 []) in
               (Some (zbytes (cp @ take 64 (unhex (String.sub c 1 (String.length c - 1))))), rcode)
             end else (Some (zbytes (take 72 (unhex c))), rcode) in
           PEvent (EValidate (q, rc, z_of_int rcode, now))
         | _ -> PBad
       end else PBad)

let model_line s o =
  match o with
  | ONew r -> "N req=" ^ req_str r
  | OApply (tcp, st, r, n) -> Printf.sprintf "A tcp=%d st=%s req=%s n=%d %s" (if tcp then 1 else 0) (string_of_z st) (req_str r) (int_of_nat n) (dump s.s_ck)
  | OValidate (st, rq, tr, utcp) ->
    Printf.sprintf "V st=%s rq=%s try=%s tcp=%d %s" (string_of_z st)
      (match rq with Some (a, b) -> string_of_z a ^ "," ^ string_of_z b | None -> "-") (string_of_z tr) (if utcp then 1 else 0) (dump s.s_ck)
  | OIgnored -> "I"

(* implementation line -> observation *)
let parse_req s = if s = "-" then NoOpt else if s = "+" then OptOnly else OptCookie (zbytes (unhex s))
let impl_obs line =
  let f k = field line k in
  let zi s = z_of_int (int_of_string s) in
  try
    if line = "I" then Some OIgnored
    else if String.length line >= 2 && String.sub line 0 2 = "N " then (match f "req" with Some r -> Some (ONew (parse_req r)) | None -> None)
    else if String.length line >= 2 && String.sub line 0 2 = "A " then
      (match f "tcp", f "st", f "req", f "n" with
       | Some t, Some st, Some r, Some n -> Some (OApply (t <> "0", zi st, parse_req r, nat_of_int (int_of_string n)))
       | _ -> None)
    else if String.length line >= 2 && String.sub line 0 2 = "V " then
      (match f "st", f "rq", f "try", f "tcp" with
       | Some st, Some rq, Some tr, Some t ->
         let rq' = if rq = "-" then None else (match split_on ',' rq with [a; b] -> Some (zi a, zi b) | _ -> Some (z_of_int (-1), z_of_int (-1))) in
         Some (OValidate (zi st, rq', zi tr, t <> "0"))
       | _ -> None)
    else None
  with _ -> None

let () =
  let cases = read_lines Sys.argv.(1) in
  let impl = impl_table Sys.argv.(2) in
  let kinds_total = Hashtbl.create 16 in
  List.iteri (fun k line ->
    match String.index_opt line '|' with
    | None -> Printf.printf "CASE %d trivial-badcase\n" k
    | Some i ->
      let steps = List.filter (fun s -> s <> "") (split_on ';' (String.sub line (i + 1) (String.length line - i - 1))) in
      let got = List.filter_map (fun l -> if String.length l > 2 && String.sub l 0 2 = "R " then Some (String.sub l 2 (String.length l - 2)) else None) (impl_lines impl k) in
      let monitor_seen = List.exists (fun l -> String.length l >= 7 && String.sub l 0 7 = "MONITOR") (impl_lines impl k) in
      (* implementation lines by step number *)
      let itbl = Hashtbl.create 16 in
      List.iter (fun l -> match String.index_opt l ' ' with
        | Some j -> (match int_of_string_opt (String.sub l 0 j) with Some n -> Hashtbl.replace itbl n (String.sub l (j + 1) (String.length l - j - 1)) | None -> ())
        | None -> ()) got;
      let s = ref sys_init and g = ref ghost_init in
      (* requests of the implementation, for '@' on the monitor side: same text as the model's
         unless a DIFF is reported anyway *)
      let ub = ref false and diffs = ref [] and fails = ref [] in
      let n_sup = ref 0 and n_unsup = ref 0 and n_bad = ref 0 and n_rot = ref 0 and n_regress = ref 0 and n_live = ref 0 and n_tcp = ref 0 in
      let last_client = ref "" in
      List.iteri (fun idx step ->
        if not !ub then begin
          let il = (match Hashtbl.find_opt itbl idx with Some l -> l | None -> "<missing>") in
          match parse_step step (fun qi -> (!s.s_q (nat_of_int qi)).q_req) with
          | PBad -> if il <> "BADOP" then diffs := Printf.sprintf "step %d model=[BADOP] impl=[%s]" idx il :: !diffs
          | PEvent ev ->
            (match sys_step !s ev with
             | Ok (s', o) ->
               let ml = model_line s' o in
               if ml <> il then diffs := Printf.sprintf "step %d (%s) model=[%s] impl=[%s]" idx step ml il :: !diffs;
               (* statistics for the class *)
               (match o with
                | OIgnored -> ()
                | OApply (tcp, _, r, _) ->
                  incr n_live; if tcp then incr n_tcp;
                  (match r with OptCookie c ->
                     let cp = hex_of_bytes (take 8 c) in
                     if !last_client <> "" && !last_client <> cp then incr n_rot; last_client := cp
                   | _ -> ());
                  if int_of_z !s.s_ck.ck_state = 2 && int_of_z s'.s_ck.ck_state = 1 then incr n_regress
                | OValidate (_, rq, _, _) -> incr n_live; if rq <> None then incr n_bad
                | ONew _ -> ());
               if int_of_z s'.s_ck.ck_state = 2 && int_of_z !s.s_ck.ck_state <> 2 then incr n_sup;
               if int_of_z s'.s_ck.ck_state = 3 && int_of_z !s.s_ck.ck_state <> 3 then incr n_unsup;
               s := s';
               (* the property's oracle on the implementation's observation *)
               (* (only up to the first step it rejects: afterwards its history summary no longer
                  describes what the implementation believes) *)
               (match impl_obs il with
                | Some io when !fails = [] ->
                  let (g', v) = mon_step !g ev io in
                  g := g';
                  List.iter (fun x -> fails := (vk x, Printf.sprintf "step=%d [%s] impl=[%s]" idx step il) :: !fails) v
                | _ -> ())
             | Err _ -> ub := true; diffs := Printf.sprintf "step %d model=Err" idx :: !diffs
             | UB _ -> ub := true; diffs := Printf.sprintf "step %d (%s) model=UB impl=[%s]" idx step il :: !diffs)
        end) steps;
      let cls =
        if !ub then "model-ub"
        else if !n_live < 2 then "trivial"
        else Printf.sprintf "ck%s%s%s%s%s%s" (if !n_sup > 0 then "+sup" else "") (if !n_unsup > 0 then "+unsup" else "")
            (if !n_bad > 0 then "+badcookie" else "") (if !n_rot > 0 then "+rot" else "") (if !n_regress > 0 then "+regress" else "")
            (if !n_tcp > 0 then "+tcp" else "") in
      Printf.printf "CASE %d %s\n" k cls;
      if not monitor_seen then begin
        (match List.rev !diffs with d :: _ -> Printf.printf "DIFF %d %s\n" k d | [] -> ());
        let seen = Hashtbl.create 4 in
        List.iter (fun (kind, d) ->
          if not (Hashtbl.mem seen kind) then begin
            Hashtbl.replace seen kind ();
            Hashtbl.replace kinds_total kind (1 + (try Hashtbl.find kinds_total kind with Not_found -> 0));
            Printf.printf "FAIL %d %s %s\n" k kind d
          end) (List.rev !fails)
      end) cases;
  Hashtbl.iter (fun kind n -> Printf.printf "STAT fail_%s %d\n" kind n) kinds_total
