(* Byte buffer case kind of the container engine (C19): extracted model (Dsa/Buf.v: buf_step,
   buf_observe) + extracted specification monitor (bufs_alts / bufs_monitor_step). *)
open BufModel
(*INCLUDE conv.inc*)

(* decimal string of an arbitrary-size non-negative Z *)
let dec_of_pos p =
  let bits = List.rev (bits_of_pos p) in (* msb first *)
  let digits = ref [0] in (* little endian decimal digits *)
  List.iter (fun b ->
    let carry = ref (if b then 1 else 0) in
    digits := List.map (fun d -> let v = d * 2 + !carry in carry := v / 10; v mod 10) !digits;
    if !carry > 0 then digits := !digits @ [!carry]) bits;
  String.concat "" (List.rev_map string_of_int !digits)
let dec z = match z with Z0 -> "0" | Zpos p -> dec_of_pos p | Zneg p -> "-" ^ dec_of_pos p

let hex_of_bytes l =
  if l = [] then "-" else String.concat "" (List.map (fun z -> Printf.sprintf "%02x" ((int_of_z z) land 255)) l)
let bytes_of_hex s =
  if s = "-" || s = "" then []
  else List.init (String.length s / 2) (fun i -> z_of_int (int_of_string ("0x" ^ String.sub s (2 * i) 2)))

let view_str (v : bview) =
  "@" ^ dec v.bv_len ^ "," ^ dec v.bv_pos ^ "," ^ dec v.bv_tlen ^ "," ^ hex_of_bytes v.bv_rem
let obs_str (o : bobs) =
  dec o.bo_st
  ^ (if o.bo_vals = [] then "" else ":" ^ String.concat "," (List.map dec o.bo_vals))
  ^ String.concat "" (List.map (fun b -> "/" ^ hex_of_bytes b) o.bo_bytes)

let zi s = z_of_int (int_of_string s)
let bi s = s <> "0"
(* decimal string of any size (append_num takes a size_t: up to 2^64-1) *)
let zdec s =
  let ten = z_of_int 10 in
  let acc = ref Z0 in
  String.iter (fun ch -> acc := Z.add (Z.mul !acc ten) (z_of_int (Char.code ch - 48))) s;
  !acc

(* allocation failure injected into the call: none, every request ("!op"), only the n-th
   request counted from 0 ("!<n>op") *)
type failmode = FNone | FAll | FAt of int

let parse_op fm body : buf_op option =
  (* operations with one allocation site (or none): the single oracle *)
  let ok = (match fm with FNone -> true | FAll -> false | FAt n -> n <> 0) in
  (* parse_dns_binstr: request 0 = the temporary buffer, request 1 = its growth / the terminator *)
  let ok1, ok2 = (match fm with FNone -> (true, true) | FAll -> (false, false) | FAt 0 -> (false, true)
                              | FAt 1 -> (true, false) | FAt _ -> (true, true)) in
  match split_on ':' body with
  | ["nd"; n; l] -> Some (BopAppendNumDec (ok, zdec n, zdec l))
  | ["nh"; n; l] -> Some (BopAppendNumHex (ok, zdec n, zdec l))
  | ["pb"; rl; w] -> Some (BopParseBinstr (ok1, ok2, zdec rl, bi w, false))
  | ["ps"; rl; w] -> Some (BopParseBinstr (ok1, ok2, zdec rl, bi w, true))
  | ["sx"; h; fl; m] when (match fm with FAt _ -> true | _ -> false) ->
    (match fm with FAt n -> Some (BopSplitFailAt (z_of_int n, bytes_of_hex h, zi fl, zi m)) | _ -> None)
  | ["a"; h] -> Some (BopAppend (ok, bytes_of_hex h))
  | ["ab"; n] -> Some (BopAppendByte (ok, zi n))
  | ["a16"; n] -> Some (BopAppendBe16 (ok, zi n))
  | ["a32"; n] -> Some (BopAppendBe32 (ok, zi n))
  | ["as"; h] -> Some (BopAppendStr (ok, bytes_of_hex h))
  | ["av"; w; h] -> Some (BopAppendViaStart (ok, zi w, bytes_of_hex h))
  | ["f"; n] -> Some (BopFetchBytes (zi n))
  | ["f16"] -> Some BopFetchBe16
  | ["f32"] -> Some BopFetchBe32
  | ["pb"] -> Some BopPeekByte
  | ["fd"; n; t] -> Some (BopFetchBytesDup (ok, zi n, bi t))
  | ["fs"; n] -> Some (BopFetchStrDup (ok, zi n))
  | ["fi"; n] -> Some (BopFetchIntoBuf (ok, zi n))
  | ["c"; n] -> Some (BopConsume (zi n))
  | ["t"] -> Some BopTag
  | ["tr"] -> Some BopRollback
  | ["tc"] -> Some BopTagClear
  | ["tf"; n] -> Some (BopTagFetchBytes (zi n))
  | ["ts"; n] -> Some (BopTagFetchString (zi n))
  | ["td"] -> Some (BopTagFetchStrdup ok)
  | ["tk"] -> Some (BopTagFetchConstbuf ok)
  | ["sl"; n; f] -> Some (BopSetLength (zi n, zi f))
  | ["sp"; n] -> Some (BopSetPosition (zi n))
  | ["rc"] -> Some BopReclaim
  | ["ws"; i] -> Some (BopWhitespace (bi i))
  | ["nws"] -> Some BopNonWhitespace
  | ["ln"; i] -> Some (BopLine (bi i))
  | ["cs"; h] -> Some (BopCharset (bytes_of_hex h))
  | ["uc"; h; r] -> Some (BopUntilCharset (bytes_of_hex h, bi r))
  | ["bw"; h] -> Some (BopBeginsWith (bytes_of_hex h))
  | ["sx"; h; fl; m] -> Some (BopSplit (ok, bytes_of_hex h, zi fl, zi m))
  | ["fb"] -> Some (BopFinishBin ok)
  | ["fz"] -> Some (BopFinishStr ok)
  | ["N"] -> Some (BopNew ok)
  | ["K"; h] -> Some (BopNewConst (ok, bytes_of_hex h))
  | _ -> None

let starts_with p s = String.length s >= String.length p && String.sub s 0 (String.length p) = p

let run_buf ops =
  let junk _ = z_of_int 0xee in
  let b = ref buf_empty in
  let states = ref (Some [bufs_create]) in   (* None: the specification abstains *)
  let mt = ref [] and st = ref [] in
  let emit_m s = mt := s :: !mt and emit_s s = st := s :: !st in
  let ub = ref false in
  let nontriv = ref 0 in
  let f_contract = ref false and f_enomem = ref false and f_tagreclaim = ref false
  and f_trE = ref false and f_trL = ref false and f_trD = ref false
  and f_split = ref false and f_grow = ref false and f_const = ref false and f_reject = ref false
  and f_num = ref false and f_binstr = ref false and f_splitfail = ref false in
  List.iter (fun optxt ->
    if optxt <> "" && not !ub then begin
      let fail = optxt.[0] = '!' in
      let body = if fail then String.sub optxt 1 (String.length optxt - 1) else optxt in
      (* "!<n>op": digits directly behind the '!' *)
      let nd = ref 0 in
      while !nd < String.length body && body.[!nd] >= '0' && body.[!nd] <= '9' do incr nd done;
      let fm = if not fail then FNone else if !nd = 0 then FAll else FAt (int_of_string (String.sub body 0 !nd)) in
      let body = String.sub body !nd (String.length body - !nd) in
      let broken = match buf_observe !b with Ok v -> buf_view_broken v | _ -> false in
      if broken && not (body = "t" || body = "tc" || starts_with "sp:" body) then
        (emit_m "SKIP"; emit_s "SKIP")
      else match parse_op fm body with
        | None ->
          let vs = (match buf_observe !b with Ok v -> view_str v | _ -> "UB") in
          emit_m ("BADOP" ^ vs); emit_s ("BADOP" ^ vs)
        | Some op ->
          (match buf_step junk !b op with
           | Ok (o, b') ->
             (match buf_observe b' with
              | Ok v ->
                let tok = obs_str o ^ view_str v in
                emit_m tok;
                (* classification *)
                if b' <> !b then incr nontriv;
                if int_of_z o.bo_st = 15 then f_enomem := true;
                (match op with BopSplit _ -> f_split := true | BopNewConst _ -> f_const := true
                          | BopAppendNumDec _ | BopAppendNumHex _ -> f_num := true
                          | BopParseBinstr _ -> f_binstr := true
                          | BopSplitFailAt _ -> f_splitfail := true | _ -> ());
                if b'.cb_alloc <> !b.cb_alloc && !b.cb_alloc <> Z0 && b'.cb_alloc <> Z0 then f_grow := true;
                (* an append-type call that made ensure_space reclaim while a tag was set:
                   E = tag == offset, L = tag < offset, D = a prefix before the tag was discarded *)
                (match op with
                 | BopAppend _ | BopAppendByte _ | BopAppendBe16 _ | BopAppendBe32 _ | BopAppendStr _ | BopAppendViaStart _
                 | BopAppendNumDec _ | BopAppendNumHex _ ->
                   (match (buf_abs !b).bs_tag with
                    | Some t when b'.cb_dlen <> !b.cb_dlen || b'.cb_off <> !b.cb_off ->
                      let reclaimed = int_of_z !b.cb_off - int_of_z b'.cb_off in
                      if reclaimed > 0 || (int_of_z t = 0 && int_of_z !b.cb_alloc <> int_of_z b'.cb_alloc && int_of_z !b.cb_alloc <> 0) then begin
                        f_tagreclaim := true;
                        if int_of_z t = int_of_z !b.cb_off then f_trE := true else f_trL := true;
                        if reclaimed > 0 then f_trD := true
                      end
                    | _ -> ())
                 | _ -> ());
                (* the specification monitor *)
                (match !states with
                 | None -> emit_s tok
                 | Some ss ->
                   if not (List.for_all (fun s -> bufs_contract s op) ss) then
                     (f_contract := true; states := None; emit_s tok)
                   else (match bufs_monitor_step ss op o v with
                       | [] -> f_reject := true; states := None;
                         let alts = List.concat_map (fun s -> List.map (fun (ao, as_) -> obs_str ao ^ view_str (bufs_view as_)) (bufs_alts s op)) ss in
                         emit_s ("REJECT{" ^ String.concat "|" alts ^ "}")
                       | ss' -> states := Some ss'; emit_s tok));
                b := b'
              | _ -> ub := true; emit_m "UB"; emit_s "UB")
           | Err _ -> ub := true; emit_m "OUTOFFUEL"; emit_s "OUTOFFUEL"
           | UB _ -> ub := true; emit_m "UB"; emit_s "UB")
    end) ops;
  let cls =
    if !ub then "model-ub"
    else if !nontriv < 2 then "trivial"
    else "buf" ^ (if !f_reject then "-specreject"
                  else if !f_tagreclaim then "-tagreclaim" ^ (if !f_trE then "E" else "") ^ (if !f_trL then "L" else "") ^ (if !f_trD then "D" else "")
                  else if !f_contract then "-contract"
                  else if !f_splitfail then "-splitfail" else if !f_binstr then "-binstr" else if !f_num then "-num"
                  else if !f_enomem then "-enomem"
                  else if !f_split then "-split"
                  else if !f_grow then "-grow" else if !f_const then "-const" else "") in
  (String.concat " " (List.rev !mt), String.concat " " (List.rev !st), cls)

let () = Dsa_reg.register "buf" run_buf
