(* Byte buffer case kind of the container engine (C19): extracted model (Dsa/Buf.v: buf_step,
   buf_observe) + extracted specification monitor (spec_alts / spec_monitor_step). *)
open BufModel
(*INCLUDE conv.inc*)

(* decimal string of an arbitrary-size non-negative Z *)
let dec_of_pos p =
  let bits = List.rev (bits_of_pos p) in (* msb first *)
  let digits = ref [0] in (* little endian decimal digits *)
  List.iter (fun b ->
    let carry = ref (if b then 1 else 0) in
    digits := List.map (fun d -> let v = d * 2 + !carry in carry := v / 10; v mod 10) !digits;
    if !carry > 0 then digits := !digits @ [!carry]) bits;
  String.concat "" (List.rev_map string_of_int !digits)
let dec z = match z with Z0 -> "0" | Zpos p -> dec_of_pos p | Zneg p -> "-" ^ dec_of_pos p

let hex_of_bytes l =
  if l = [] then "-" else String.concat "" (List.map (fun z -> Printf.sprintf "%02x" ((int_of_z z) land 255)) l)
let bytes_of_hex s =
  if s = "-" || s = "" then []
  else List.init (String.length s / 2) (fun i -> z_of_int (int_of_string ("0x" ^ String.sub s (2 * i) 2)))

let view_str (v : bview) =
  "@" ^ dec v.v_len ^ "," ^ dec v.v_pos ^ "," ^ dec v.v_tlen ^ "," ^ hex_of_bytes v.v_rem
let obs_str (o : bobs) =
  dec o.o_st
  ^ (if o.o_vals = [] then "" else ":" ^ String.concat "," (List.map dec o.o_vals))
  ^ String.concat "" (List.map (fun b -> "/" ^ hex_of_bytes b) o.o_bytes)

let zi s = z_of_int (int_of_string s)
let bi s = s <> "0"

let parse_op ok body : buf_op option =
  match split_on ':' body with
  | ["a"; h] -> Some (OAppend (ok, bytes_of_hex h))
  | ["ab"; n] -> Some (OAppendByte (ok, zi n))
  | ["a16"; n] -> Some (OAppendBe16 (ok, zi n))
  | ["a32"; n] -> Some (OAppendBe32 (ok, zi n))
  | ["as"; h] -> Some (OAppendStr (ok, bytes_of_hex h))
  | ["av"; w; h] -> Some (OAppendViaStart (ok, zi w, bytes_of_hex h))
  | ["f"; n] -> Some (OFetchBytes (zi n))
  | ["f16"] -> Some OFetchBe16
  | ["f32"] -> Some OFetchBe32
  | ["pb"] -> Some OPeekByte
  | ["fd"; n; t] -> Some (OFetchBytesDup (ok, zi n, bi t))
  | ["fs"; n] -> Some (OFetchStrDup (ok, zi n))
  | ["fi"; n] -> Some (OFetchIntoBuf (ok, zi n))
  | ["c"; n] -> Some (OConsume (zi n))
  | ["t"] -> Some OTag
  | ["tr"] -> Some ORollback
  | ["tc"] -> Some OTagClear
  | ["tf"; n] -> Some (OTagFetchBytes (zi n))
  | ["ts"; n] -> Some (OTagFetchString (zi n))
  | ["td"] -> Some (OTagFetchStrdup ok)
  | ["tk"] -> Some (OTagFetchConstbuf ok)
  | ["sl"; n; f] -> Some (OSetLength (zi n, zi f))
  | ["sp"; n] -> Some (OSetPosition (zi n))
  | ["rc"] -> Some OReclaim
  | ["ws"; i] -> Some (OWhitespace (bi i))
  | ["nws"] -> Some ONonWhitespace
  | ["ln"; i] -> Some (OLine (bi i))
  | ["cs"; h] -> Some (OCharset (bytes_of_hex h))
  | ["uc"; h; r] -> Some (OUntilCharset (bytes_of_hex h, bi r))
  | ["bw"; h] -> Some (OBeginsWith (bytes_of_hex h))
  | ["sx"; h; fl; m] -> Some (OSplit (ok, bytes_of_hex h, zi fl, zi m))
  | ["fb"] -> Some (OFinishBin ok)
  | ["fz"] -> Some (OFinishStr ok)
  | ["N"] -> Some (ONew ok)
  | ["K"; h] -> Some (ONewConst (ok, bytes_of_hex h))
  | _ -> None

let starts_with p s = String.length s >= String.length p && String.sub s 0 (String.length p) = p

let run_buf ops =
  let junk _ = z_of_int 0xee in
  let b = ref buf_empty in
  let states = ref (Some [spec_create]) in   (* None: the specification abstains *)
  let mt = ref [] and st = ref [] in
  let emit_m s = mt := s :: !mt and emit_s s = st := s :: !st in
  let ub = ref false in
  let nontriv = ref 0 in
  let f_contract = ref false and f_enomem = ref false and f_tagreclaim = ref false
  and f_split = ref false and f_grow = ref false and f_const = ref false and f_reject = ref false in
  List.iter (fun optxt ->
    if optxt <> "" && not !ub then begin
      let fail = optxt.[0] = '!' in
      let body = if fail then String.sub optxt 1 (String.length optxt - 1) else optxt in
      let broken = match buf_observe !b with Ok v -> buf_view_broken v | _ -> false in
      if broken && not (body = "t" || body = "tc" || starts_with "sp:" body) then
        (emit_m "SKIP"; emit_s "SKIP")
      else match parse_op (not fail) body with
        | None ->
          let vs = (match buf_observe !b with Ok v -> view_str v | _ -> "UB") in
          emit_m ("BADOP" ^ vs); emit_s ("BADOP" ^ vs)
        | Some op ->
          (match buf_step junk !b op with
           | Ok (o, b') ->
             (match buf_observe b' with
              | Ok v ->
                let tok = obs_str o ^ view_str v in
                emit_m tok;
                (* classification *)
                if b' <> !b then incr nontriv;
                if int_of_z o.o_st = 15 then f_enomem := true;
                (match op with OSplit _ -> f_split := true | ONewConst _ -> f_const := true | _ -> ());
                if b'.b_alloc <> !b.b_alloc && !b.b_alloc <> Z0 && b'.b_alloc <> Z0 then f_grow := true;
                (match op with
                 | OAppend _ | OAppendByte _ | OAppendBe16 _ | OAppendBe32 _ | OAppendStr _ | OAppendViaStart _ | OReclaim ->
                   if b'.b_off <> !b.b_off && b'.b_off <> Z0 then f_tagreclaim := true
                 | _ -> ());
                (* the specification monitor *)
                (match !states with
                 | None -> emit_s tok
                 | Some ss ->
                   if not (List.for_all (fun s -> spec_contract s op) ss) then
                     (f_contract := true; states := None; emit_s tok)
                   else (match spec_monitor_step ss op o v with
                       | [] -> f_reject := true; states := None;
                         let alts = List.concat_map (fun s -> List.map (fun (ao, as_) -> obs_str ao ^ view_str (spec_view as_)) (spec_alts s op)) ss in
                         emit_s ("REJECT{" ^ String.concat "|" alts ^ "}")
                       | ss' -> states := Some ss'; emit_s tok));
                b := b'
              | _ -> ub := true; emit_m "UB"; emit_s "UB")
           | Err _ -> ub := true; emit_m "OUTOFFUEL"; emit_s "OUTOFFUEL"
           | UB _ -> ub := true; emit_m "UB"; emit_s "UB")
    end) ops;
  let cls =
    if !ub then "model-ub"
    else if !nontriv < 2 then "trivial"
    else "buf" ^ (if !f_reject then "-specreject" else if !f_contract then "-contract" else if !f_enomem then "-enomem"
                  else if !f_tagreclaim then "-tagreclaim" else if !f_split then "-split"
                  else if !f_grow then "-grow" else if !f_const then "-const" else "") in
  (String.concat " " (List.rev !mt), String.concat " " (List.rev !st), cls)

let () = Dsa_reg.register "buf" run_buf
