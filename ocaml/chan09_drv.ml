(* Model-side driver of the C09 end-to-end engine "chan09": no model replay; the extracted
   monitor (Core/Servers.v mon_step) judges the channel simulator's log of each history:
   destination of every transmission (TX ... srv=), server-state callbacks (SERVERSTATE) and
   list updates (setservers).  In addition the library's own failure counters (QSTATE srv=[..],
   qdump=1) must equal the counters the monitor derives from the callbacks, and the order of
   ares_get_servers_csv (SERVERS) must be (failures, configuration index). *)
open ServersModel
(*INCLUDE conv.inc*)

let zi = z_of_int
let iz = int_of_z
let starts_with p s = String.length s >= String.length p && String.sub s 0 (String.length p) = p
let words s = List.filter (fun w -> w <> "") (split_on ' ' s)
let kv w = match String.index_opt w '=' with
  | Some i -> Some (String.sub w 0 i, String.sub w (i + 1) (String.length w - i - 1)) | None -> None
let field ws key = List.fold_left (fun acc w -> match acc, kv w with
  | None, Some (k, v) when k = key -> Some v | _ -> acc) None ws

(* "10.0.0.7" or "10.0.0.7:53" -> 7 *)
let addr_id s =
  let s = match String.index_opt s ':' with Some i -> String.sub s 0 i | None -> s in
  match split_on '.' s with
  | ["10"; "0"; "0"; k] -> int_of_string_opt k
  | _ -> None

let () =
  let cases = read_lines Sys.argv.(1) in
  let impl = impl_table Sys.argv.(2) in
  let n_tx = ref 0 and n_probe = ref 0 and n_edit = ref 0 and n_connlost = ref 0 and n_deferred = ref 0 and n_early = ref 0 and n_due = ref 0 in
  List.iteri (fun k line ->
    let lines = impl_lines impl k in
    let fails = ref [] in
    let add_fail kind s = if not (List.exists (fun (k', _) -> k' = kind) !fails) then fails := (kind, s) :: !fails in
    match String.index_opt line '|' with
    | None -> Printf.printf "CASE %d trivial-badcase\n" k
    | Some bar ->
      let cfgw = words (String.sub line 0 bar) in
      let nsrv0 = match field cfgw "servers" with Some n -> int_of_string n | None -> 1 in
      let rot = field cfgw "rotate" = Some "1" in
      let tcp = (match field cfgw "flags" with Some f -> List.mem "usevc" (split_on ',' f) | None -> false) in
      (* "nameserver 10.0.0.k" lines of a written resolv.conf (hex) *)
      let nameservers hex =
        let n = String.length hex / 2 in
        let txt = String.init n (fun i -> Char.chr (int_of_string ("0x" ^ String.sub hex (2 * i) 2))) in
        List.filter_map (fun l -> match words l with ["nameserver"; a] -> addr_id a | _ -> None) (split_on '\n' txt) in
      let last_written = ref [] in
      let initial =
        if nsrv0 = 0 then
          (match field cfgw "writefile" with
           | Some v -> (match String.rindex_opt v ':' with
               | Some i -> let l = nameservers (String.sub v (i + 1) (String.length v - i - 1)) in last_written := l; l
               | None -> [])
           | None -> [])
        else List.init nsrv0 (fun i -> i + 1) in
      let nsrv = List.length (List.sort_uniq compare initial) in
      (* simulator's srv index -> address id: configuration order, then new addresses in order of appearance *)
      let srvtab = ref (List.mapi (fun i a -> (i, a)) initial) in
      let mon = ref (Some (mon_init (List.map zi initial) rot)) in
      let tries = match field cfgw "tries" with Some n -> int_of_string n | None -> 3 in
      let bmon = ref (Some (bmon_init (List.map zi initial) (zi tries))) in
      let dmon = ref (Some None) in
      let conns = Hashtbl.create 8 in      (* socket -> (srv index, queries on it) from the last QSTATE *)
      let next_id = ref (match field cfgw "idseq" with Some n -> int_of_string n | None -> 1) in
      let tok_label = Hashtbl.create 16 in
      let user_ids = Hashtbl.create 16 in
      let seen_ids = Hashtbl.create 16 in
      let retx = Hashtbl.create 16 in       (* ids transmitted more than once *)
      let pending_user = ref false in
      (* probe liveness (model: C09_probe_liveness): virtual clock, retry time of each failed server
         (time of its last failure callback + retry delay), probe queries outstanding (last QSTATE:
         no token, no_retries set) *)
      let chance, delay = match field cfgw "failover" with
        | Some v -> (match split_on ',' v with
            | [c; d] -> (try (int_of_string c, int_of_string d) with _ -> (10, 5000))
            | _ -> (10, 5000))
        | None -> (10, 5000) in
      let clock_ms = ref (match field cfgw "clock" with Some v -> (try int_of_string v with _ -> 1000000) | None -> 1000000) in
      let clock_us = ref 0 in
      let now_pair () = (zi (!clock_ms / 1000), zi ((!clock_ms mod 1000) * 1000 + !clock_us)) in
      let retry : (int, z * z) Hashtbl.t = Hashtbl.create 8 in
      let qprobes : string list ref = ref [] in
      let qtry : (int, int) Hashtbl.t = Hashtbl.create 8 in      (* id -> try_count, last QSTATE *)
      let expect_probe : string option ref = ref None in
      (* requests other than send (search, gai, ...): their queries get their ids when they are
         transmitted; they are recognised by the first label of the question name, h<T> for
         token t<T> (generator convention), the first transmission of a (name, type) being the
         user's query and a later id with the same question a probe copy (UDP only) *)
      let tok_kind : (string, string) Hashtbl.t = Hashtbl.create 16 in
      let tok_inner : (string, int * string) Hashtbl.t = Hashtbl.create 16 in   (* token -> last inner id, its name *)
      let questions : (string, unit) Hashtbl.t = Hashtbl.create 16 in
      let id_srv : (int, int) Hashtbl.t = Hashtbl.create 16 in                  (* id -> address of its last transmission *)
      let cur_op = ref "" in
      let reent = ref 0 in
      let probes = ref 0 and edits = ref 0 and edits_inflight = ref 0 and sends = ref 0 and maxfail = ref 0 in
      let live = ref 0 in
      let due_check () =
        match !dmon with
        | Some (Some a) ->
          add_fail "not-demoted" (Printf.sprintf "op [%s]: connection to 10.0.0.%d lost with queries outstanding and no failure callback followed" !cur_op (iz a));
          dmon := None
        | _ -> () in
      (* TCP sockets whose connection is still being established: a query assigned to such a
         connection is written later (next write event), so its TX line is later than the choice
         of the server.  For those deferred writes the choice is accepted if the server was a
         legitimate target at SOME moment since the socket was connected.
         pend: socket -> (address, accepted-as-user-target, accepted-as-probe-target,
                          first write done, a flushing op has been seen) *)
      let pend : (string, int * bool ref * bool ref * bool ref * bool ref) Hashtbl.t = Hashtbl.create 8 in
      let refresh_pending () =
        match !mon with
        | None -> ()
        | Some m ->
          Hashtbl.iter (fun _ (a, oku, okp, _, _) ->
            if fresh_okb m.m_rotate m.m_servers (zi a) then oku := true;
            (match find_addr (zi a) m.m_servers with Some sv when iz sv.sv_fail > 0 -> okp := true | _ -> ())) pend in
      let feed ?(skip_mon = false) ob descr =
        (match !dmon with
         | None -> ()
         | Some d ->
           (match dmon_step d ob with
            | Some d' -> dmon := Some d'
            | None ->
              add_fail "not-demoted"
                (Printf.sprintf "op [%s]: connection to 10.0.0.%s lost with queries outstanding, but the next observation is [%s] instead of its failure callback"
                   !cur_op (match d with Some a -> string_of_z a | None -> "?") descr);
              dmon := None));
        (match !bmon with
         | None -> ()
         | Some b ->
           (match bmon_step b ob with
            | Some b' -> bmon := Some b'
            | None ->
              add_fail "attempt-not-sent"
                (Printf.sprintf "op [%s]: %s although only %d transmission(s) were made for it and the budget is %d server(s) x %d tries"
                   !cur_op descr
                   (match ob with ODone (l, _) -> List.length (List.filter (fun x -> x = l) b.b_txs) | _ -> 0)
                   (int_of_nat b.b_nsrv) (iz b.b_tries));
              bmon := None));
        if skip_mon then () else
        match !mon with
        | None -> ()
        | Some m ->
          (match mon_step m ob with
           | Some m' -> mon := Some m'; (match ob with OTx _ | ODone _ | OConnLost _ -> () | _ -> refresh_pending ())
           | None ->
             add_fail (match ob with
                 | OTx (l, _, true) -> if Hashtbl.mem retx (int_of_nat l) then "probe-moved" else "probe-target"
                 | _ -> "choice")
               (Printf.sprintf "op [%s]: %s rejected; failures by callbacks [%s]" !cur_op descr
                  (String.concat "," (List.map (fun s -> Printf.sprintf "%d:%d:%s" (iz s.sv_addr) (iz s.sv_idx) (string_of_z s.sv_fail)) m.m_servers)));
             mon := None) in
      (* The model's order is: the success of the answering server is recorded, THEN the query
         completes (user callback / next candidate of a search).  Whatever is transmitted from
         inside the completion is therefore judged against a table in which that server is
         already restored: the success is applied when the completion is seen, even if the
         library has not reported it yet (reporting it again afterwards changes nothing). *)
      (* set while the monitor's table is ahead of what the library has reported: its counters are
         compared again (accounting) once the report has arrived *)
      let ahead = ref false in
      let early_good a why =
        match !mon with
        | None -> ()
        | Some m ->
          (match find_addr (zi a) m.m_servers with
           | Some sv when iz sv.sv_fail > 0 ->
             incr n_early; ahead := true;
             (match mon_step m (OGood (zi a)) with Some m' -> mon := Some m'; refresh_pending () | None -> ())
           | _ -> ()) in
      let label_count name = List.length (List.filter (fun x -> x <> "") (split_on '.' name)) in
      List.iter (fun l ->
        let w = words l in
        match w with
        | "RECVFROM" :: sk :: rest when
            (List.mem "eof=1" rest && List.mem "rc=0" rest) ||
            (List.mem "rc=-1" rest && not (List.exists (fun e -> List.mem ("errno=" ^ e) rest) ["EAGAIN"; "EWOULDBLOCK"; "EINTR"])) ->
          (* the transport lost this connection (closed by the peer, reset, ICMP error) *)
          (match Hashtbl.find_opt conns sk with
           | Some (srv, n) when n > 0 ->
             (match List.assoc_opt srv !srvtab with
              | Some a -> incr n_connlost; feed (OConnLost (zi a, true)) (Printf.sprintf "connection %s to 10.0.0.%d lost" sk a)
              | None -> ())
           | _ -> ())
        | "CONNECT" :: _ :: _ :: rest when List.mem "rc=-1" rest && not (List.mem "errno=EAGAIN" rest || List.mem "errno=EINPROGRESS" rest || List.mem "errno=EWOULDBLOCK" rest) ->
          (* see SOCKET fail below *)
          bmon := None; expect_probe := None
        | "CONNECT" :: sk :: a :: _ ->
          (match addr_id a with
           | Some a -> Hashtbl.replace pend sk (a, ref false, ref false, ref false, ref false); refresh_pending ()
           | None -> ())
        | "CLOSE" :: sk :: _ -> Hashtbl.remove pend sk
        | "OP" :: _ :: rest | "CBOP" :: rest ->
          due_check ();
          (* a connection is established once a processing op that follows its creation is over *)
          let gone = Hashtbl.fold (fun sk (_, _, _, _, fl) acc -> if !fl then sk :: acc else acc) pend [] in
          List.iter (Hashtbl.remove pend) gone;
          (match rest with
           | ("run" | "proc" | "proct" | "procsel") :: _ -> Hashtbl.iter (fun _ (_, _, _, _, fl) -> fl := true) pend
           | _ -> ());
          cur_op := String.concat " " rest;
          (match w, rest with "CBOP" :: _, "send" :: _ -> incr reent | _ -> ());
          (match rest with
           | ["setservers"; csv] ->
             incr edits; incr n_edit; if !live > 0 then incr edits_inflight;
             let ids = if csv = "-" then [] else List.filter_map addr_id (split_on ',' csv) in
             List.iter (fun a -> if not (List.exists (fun (_, b) -> b = a) !srvtab) then srvtab := !srvtab @ [(List.length !srvtab, a)]) ids;
             feed (OServers (List.map zi ids)) ("setservers " ^ csv)
           | ["writefile"; _; hex] -> last_written := (try nameservers hex with _ -> [])
           | ["reinit"] ->
             (* ares_reinit re-reads the resolv.conf; a file without nameserver keeps the list *)
             if nsrv0 = 0 && !last_written <> [] then begin
               incr edits; incr n_edit; if !live > 0 then incr edits_inflight;
               List.iter (fun a -> if not (List.exists (fun (_, b) -> b = a) !srvtab) then srvtab := !srvtab @ [(List.length !srvtab, a)]) !last_written;
               feed (OServers (List.map zi !last_written)) "reinit"
             end
           | _ -> ())
        | "REQ" :: t :: api :: _ when api <> "send" ->
          pending_user := true; incr sends; incr live; Hashtbl.replace tok_kind t api
        | "REQ" :: t :: _ ->
          pending_user := true; incr sends; incr live; Hashtbl.replace tok_kind t "send";
          (* query ids are handed out in order (idseq): this request gets the next one *)
          Hashtbl.replace tok_label t !next_id; Hashtbl.replace user_ids !next_id (); incr next_id
        | "RET" :: _ ->
          pending_user := false;
          (match !expect_probe with
           | Some d -> add_fail "probe-missing" d; expect_probe := None
           | None -> ())
        | "NOW" :: t :: _ ->
          (match split_on '.' t with
           | [ms; us] -> (try clock_ms := int_of_string ms; clock_us := int_of_string us with _ -> ())
           | [ms] -> (try clock_ms := int_of_string ms; clock_us := 0 with _ -> ())
           | _ -> ())
        | ("SOCKET" :: "fail" :: _) ->
          (* an attempt failed before anything was transmitted: it consumed a try without a TX
             line (the budget monitor cannot follow), and a probe that was due has been attempted *)
          bmon := None; expect_probe := None
        | (("CONNECT" | "SENDTO") :: rest) when List.mem "rc=-1" rest && not (List.mem "errno=EAGAIN" rest || List.mem "errno=EINPROGRESS" rest || List.mem "errno=EWOULDBLOCK" rest) ->
          bmon := None; expect_probe := None
        | "CB" :: t :: rest ->
          if !live > 0 then decr live;
          (* a send request completes with status 0 only through an accepted answer of the server
             its last transmission went to (the cache is off) *)
          (match Hashtbl.find_opt tok_label t, field rest "status" with
           | Some l, Some "0" when Hashtbl.find_opt tok_kind t = Some "send" ->
             (match Hashtbl.find_opt id_srv l with
              | Some a -> early_good a (Printf.sprintf "completion of %s" t)
              | None -> ())
           | _ -> ());
          (match Hashtbl.find_opt tok_label t, field rest "status" with
           | Some l, Some st -> feed (ODone (nat_of_int l, zi (int_of_string st))) (Printf.sprintf "query %s ended with status %s" t st)
           | _ -> ())
        | "SETSERVERS" :: rc :: _ -> if rc <> "rc=0" then add_fail "setservers-failed" l
        | "TX" :: _ ->
          incr n_tx;
          (match field w "srv", field w "id" with
           | Some srv, Some id ->
             let id = int_of_string id in
             if Hashtbl.mem seen_ids id then Hashtbl.replace retx id ();
             if not (Hashtbl.mem seen_ids id) then begin
               Hashtbl.replace seen_ids id ();
               (* first transmission of this id: a query of a search / getaddrinfo request? *)
               (match field w "qname", field w "qtype" with
                | Some qn, Some qt when not (Hashtbl.mem user_ids id) ->
                  let first = match split_on '.' qn with x :: _ -> x | [] -> "" in
                  let tok = if String.length first >= 2 && first.[0] = 'h' then "t" ^ String.sub first 1 (String.length first - 1) else "" in
                  (match Hashtbl.find_opt tok_kind tok with
                   | Some k when k <> "send" && not (Hashtbl.mem questions (qn ^ "/" ^ qt)) ->
                     Hashtbl.replace user_ids id ();
                     (* not the first candidate: the previous one was answered (NXDOMAIN / no data)
                        by the server it was sent to - unless it was a single label, which also
                        moves on after SERVFAIL / REFUSED *)
                     (match Hashtbl.find_opt tok_inner tok with
                      | Some (p, pname) when label_count pname <> 1 ->
                        incr reent;
                        (match Hashtbl.find_opt id_srv p with
                         | Some a -> early_good a (Printf.sprintf "next candidate of %s" tok)
                         | None -> ())
                      | _ -> ());
                     Hashtbl.replace tok_inner tok (id, qn)
                   | _ -> ());
                  Hashtbl.replace questions (qn ^ "/" ^ qt) ()
                | _ -> ());
               if id >= !next_id then next_id := id + 1   (* a probe copy or a query of a search took this id *)
             end;
             let probe = not (Hashtbl.mem user_ids id) in
             if probe then (incr probes; incr n_probe);
             (match int_of_string_opt srv with
              | None -> add_fail "choice" (Printf.sprintf "op [%s]: transmission to an address that was never configured: %s" !cur_op l)
              | Some i ->
                (match List.assoc_opt i !srvtab with
                 | Some a ->
                   Hashtbl.replace id_srv id a;
                   let sk = match w with _ :: _ :: sk :: _ -> sk | _ -> "" in
                   let deferred_ok = match Hashtbl.find_opt pend sk with
                     | Some (_, oku, okp, first, _) when field w "proto" = Some "tcp" ->
                       if !first then (if probe then !okp else !oku) else (first := true; false)
                     | _ -> false in
                   if deferred_ok then incr n_deferred;
                   let first_tx = not (Hashtbl.mem retx id) in
                   feed ~skip_mon:deferred_ok (OTx (nat_of_int id, zi a, probe)) (Printf.sprintf "TX id=%d -> 10.0.0.%d%s" id a (if probe then " (probe)" else ""));
                   if probe then begin
                     expect_probe := None;
                     (* the CONFIGURED failover options of the case: chance 0 disables probing; a server is
                        probed only once its retry time (last failure + configured delay) has passed *)
                     if chance = 0 then
                       add_fail "probe-unexpected" (Printf.sprintf "op [%s]: TX id=%d -> 10.0.0.%d is a probe copy although the configured retry chance is 0 (probing disabled)" !cur_op id a)
                     else if first_tx then
                       (match Hashtbl.find_opt retry a with
                        | Some (rs, ru) ->
                          let (ns, nu) = now_pair () in
                          (match c_ares_timedout ns rs nu ru with
                           | Ok t when iz t = 0 ->
                             add_fail "probe-unexpected" (Printf.sprintf "op [%s]: TX id=%d -> 10.0.0.%d is a probe copy sent at %d.%03d ms, before the retry time of that server (last failure + configured delay %d ms = %s.%06d s)" !cur_op id a !clock_ms !clock_us delay (string_of_z rs) (iz ru))
                           | _ -> ())
                        | None -> ())
                   end
                   else if first_tx && Hashtbl.find_opt qtry id = Some 0 && !pending_user && chance = 1 && field w "proto" = Some "udp" then begin
                     (* the first attempt of a new request went to a server without failures and every draw
                        says "probe" (chance 1): if some failed server is past its retry time and has no
                        probe outstanding, a probe copy must follow before the call returns *)
                     match !mon with
                     | Some m ->
                       (match find_addr (zi a) m.m_servers with
                        | Some sv when iz sv.sv_fail = 0 ->
                          let servers = List.map (fun s ->
                              { s with sv_retry = (match Hashtbl.find_opt retry (iz s.sv_addr) with Some t -> t | None -> (zi 0, zi 0)) }) m.m_servers in
                          let inflight = List.filter_map (fun sk ->
                              match Hashtbl.find_opt conns sk with
                              | Some (srv, _) ->
                                (match List.assoc_opt srv !srvtab with
                                 | Some pa -> Some { at_label = nat_of_int 0; at_server = zi pa; at_try = zi 0; at_err = zi 0; at_probe = true }
                                 | None -> None)
                              | None -> None) !qprobes in
                          let ch = { ch_servers = servers; ch_rotate = m.m_rotate; ch_tries = zi tries; ch_chance = zi chance;
                                     ch_delay = zi delay; ch_now = now_pair (); ch_inflight = inflight; ch_next_label = nat_of_int 0 } in
                          (match probe_due ch servers with
                           | Ok true ->
                             incr n_due;
                             expect_probe := Some (Printf.sprintf "op [%s]: TX id=%d -> 10.0.0.%d is the first attempt of a request on a server without failures, retry chance 1, a failed server is past its retry time (now %d.%03d ms) with no probe outstanding, yet no probe copy was sent; failures by callbacks [%s]"
                               !cur_op id a !clock_ms !clock_us
                               (String.concat "," (List.map (fun s -> Printf.sprintf "%d:%d:%s" (iz s.sv_addr) (iz s.sv_idx) (string_of_z s.sv_fail)) m.m_servers)))
                           | _ -> ())
                        | _ -> ())
                     | None -> ()
                   end
                 | None -> add_fail "srv-index" (Printf.sprintf "unknown srv index in %s" l)))
           | _ -> ())
        | "SERVERSTATE" :: a :: rest ->
          (match addr_id a, field rest "success" with
           | Some a, Some "0" ->
             (let (sec, usec) = now_pair () in
              match c_timeadd (zi delay) sec usec with Ok t -> Hashtbl.replace retry a t | _ -> Hashtbl.remove retry a);
             feed (OFail (zi a)) (Printf.sprintf "failure of 10.0.0.%d" a)
           | Some a, Some "1" -> ahead := false; feed (OGood (zi a)) (Printf.sprintf "success of 10.0.0.%d" a)
           | _ -> ())
        | "QSTATE" :: rest when
            ((match field rest "q" with
              | Some q when String.length q >= 2 ->
                let body = String.sub q 1 (String.length q - 2) in
                qprobes := [];
                List.iter (fun e -> match split_on '/' e with
                  | [id; tok; sk; _; tr; _; _; noretry] ->
                    (match int_of_string_opt id, int_of_string_opt tr with Some i, Some t -> Hashtbl.replace qtry i t | _ -> ());
                    (match int_of_string_opt id with
                     | Some id when tok <> "-" ->
                       (* the library's own id of a request: corrects the prediction made at REQ
                          (a probe copy that was never transmitted took an id unseen) *)
                       if Hashtbl.find_opt tok_kind tok = Some "send" && Hashtbl.find_opt tok_label tok <> Some id then begin
                         (match Hashtbl.find_opt tok_label tok with Some old -> Hashtbl.remove user_ids old | None -> ());
                         Hashtbl.replace tok_label tok id; Hashtbl.replace user_ids id ();
                         if id >= !next_id then next_id := id + 1
                       end
                     | Some _ when noretry = "1" && sk <> "-" -> qprobes := sk :: !qprobes
                     | _ -> ())
                  | _ -> ()) (if body = "" then [] else split_on ',' body)
              | _ -> ());
             match field rest "conns" with
                                 | Some c when String.length c >= 2 ->
                                   Hashtbl.reset conns;
                                   let body = String.sub c 1 (String.length c - 2) in
                                   List.iter (fun e -> match split_on '/' e with
                                     | [sk; srv; _; n] -> (try Hashtbl.replace conns sk (int_of_string srv, int_of_string n) with _ -> ())
                                     | _ -> ()) (if body = "" then [] else split_on ',' body);
                                   false
                                 | _ -> false) -> ()
        | "QSTATE" :: rest ->
          (match field rest "srv", !mon with
           | Some s, Some m when String.length s >= 2 && not !ahead ->
             let body = String.sub s 1 (String.length s - 2) in
             let ent = if body = "" then [] else split_on ',' body in
             let got = List.sort compare (List.filter_map (fun e -> match split_on '/' e with
               | i :: f :: _ -> (match List.assoc_opt (int_of_string i) !srvtab with Some a -> Some (a, int_of_string f) | None -> Some (-1, int_of_string f))
               | _ -> None) ent) in
             let want = List.sort compare (List.map (fun s -> (iz s.sv_addr, iz s.sv_fail)) m.m_servers) in
             List.iter (fun (_, f) -> if f > !maxfail then maxfail := f) got;
             if got <> want then
               add_fail "accounting" (Printf.sprintf "op [%s]: library counters [%s] but callbacks imply [%s]" !cur_op
                 (String.concat "," (List.map (fun (a, f) -> Printf.sprintf "%d:%d" a f) got))
                 (String.concat "," (List.map (fun (a, f) -> Printf.sprintf "%d:%d" a f) want)))
           | _ -> ())
        | "SERVERS" :: rest ->
          (match !mon with
           | Some m ->
             let order = match rest with [] -> [] | csv :: _ -> List.filter_map addr_id (split_on ',' csv) in
             let keyed = List.map (fun a -> match find_addr (zi a) m.m_servers with
               | Some s -> (iz s.sv_fail, iz s.sv_idx, a) | None -> (-1, -1, a)) order in
             let rec sorted = function
               | (f1, i1, _) :: ((f2, i2, _) :: _ as r) -> (f1 < f2 || (f1 = f2 && i1 < i2)) && sorted r
               | _ -> true in
             if List.length order <> List.length m.m_servers || List.exists (fun (f, _, _) -> f < 0) keyed then
               add_fail "edit-set" (Printf.sprintf "op [%s]: server list [%s] is not the configured set [%s]" !cur_op
                 (String.concat "," (List.map string_of_int order))
                 (String.concat "," (List.map (fun s -> string_of_z s.sv_addr) m.m_servers)))
             else if not (sorted keyed) then
               add_fail "unsorted" (Printf.sprintf "op [%s]: server list [%s] is not ordered by (failures, configuration index) [%s]" !cur_op
                 (String.concat "," (List.map string_of_int order))
                 (String.concat "," (List.map (fun (f, i, a) -> Printf.sprintf "%d:idx%d:f%d" a i f) keyed)))
           | None -> ())
        | _ -> ()) lines;
      due_check ();
      let cls = if !sends = 0 then "trivial-no-query"
        else Printf.sprintf "%s-%s-f%s%s%s%s" (if rot then "rot" else "norot")
            (if nsrv <= 1 then "1srv" else if nsrv <= 3 then "2-3srv" else "4-8srv")
            (if !maxfail = 0 then "0" else if !maxfail <= 2 then "1-2" else "3+")
            (if tcp then "-tcp" else if !reent > 0 then "-reentry" else "") (if !probes > 0 then "-probe" else "")
            (if !edits_inflight > 0 then "-editinflight" else if !edits > 0 then "-edit" else "") in
      Printf.printf "CASE %d %s\n" k cls;
      List.iter (fun (kind, s) -> Printf.printf "FAIL %d %s %s\n" k kind s) (List.rev !fails)) cases;
  Printf.printf "STAT transmissions %d\nSTAT probes %d\nSTAT edits %d\nSTAT connections-lost %d\nSTAT deferred-tcp-writes %d\nSTAT successes-applied-at-completion %d\nSTAT probes-due %d\n" !n_tx !n_probe !n_edit !n_connlost !n_deferred !n_early !n_due
