(* Model-side driver of engine chan20 (C20: outcome independent of how the transport chops or
   delays bytes).  Input: the case file and the output of harness/c20_drv.c, which runs every
   history twice ("seg": with its chunk=/wpat= patterns, "plain": without).

   DIFF  (extracted code-shaped model vs implementation, per variant)
     R   every read event on a socket is replayed through the extracted process_read
         (read_conn_packets + read_answers) with the bytes the virtual server had queued and the
         chunk sizes the log shows; the messages the model hands to process_answer at that read
         event must explain exactly the status=0 callbacks the log shows in that event
         (decision chain: extracted process_answer_decide).
     W2  family "pure": every ares_send / write event / ares_process_pending_write is replayed
         through the extracted conn_query_write / process_write / conn_flush with the socket
         answers of the log; predicted asendto calls (offered length, accepted bytes),
         pending-write notifications and sock-state notifications must equal the log.
     W1  other families: every asendto on a TCP socket must offer a whole number of queued
         frames and the model's flush must put the same bytes on the wire.
   FAIL  (the property's own oracle)
     metamorphic   seg and plain runs: same multiset of callback results; same sequence of
                   messages at the server per connection (one server) / same multiset of
                   messages over all connections (several servers, where the choice of the
                   retry server legitimately depends on when answers are processed)
     framing       the server received something that is not a whole DNS message
     delivery      extracted specification [frames]+[cut] over the bytes read from a TCP
                   socket vs the callbacks attributed to that socket
     tc            truncated UDP answer not retried over TCP (or, with IGNTC, not delivered)
     zerolen       a zero length datagram closed a busy socket or completed a query *)
open FrameModel
(*INCLUDE conv.inc*)

let starts_with p s = String.length s >= String.length p && String.sub s 0 (String.length p) = p
let words s = List.filter (fun w -> w <> "") (split_on ' ' s)
let kv key ws =
  let p = key ^ "=" in
  List.find_map (fun w -> if starts_with p w then Some (String.sub w (String.length p) (String.length w - String.length p)) else None) ws
let kvi key ws = match kv key ws with Some v -> int_of_string_opt v | None -> None
let sock_of w = if String.length w >= 2 && w.[0] = 's' then int_of_string_opt (String.sub w 1 (String.length w - 1)) else None
let tok_of w = if String.length w >= 2 && w.[0] = 't' then int_of_string_opt (String.sub w 1 (String.length w - 1)) else None

let ztab = Array.init 256 z_of_int
let hexv c = match c with '0'..'9' -> Char.code c - 48 | 'a'..'f' -> Char.code c - 87 | 'A'..'F' -> Char.code c - 55 | _ -> 0
let ints_of_hex h =
  let n = String.length h / 2 in
  List.init n (fun i -> hexv h.[2 * i] * 16 + hexv h.[2 * i + 1])
let zl_of_ints l = List.map (fun b -> ztab.(b land 255)) l
let zl_of_hex h = zl_of_ints (ints_of_hex h)
let hex_of_zl l = String.concat "" (List.map (fun z -> Printf.sprintf "%02x" (int_of_z z)) l)
let zl_of_string s = List.init (String.length s) (fun i -> ztab.(Char.code s.[i]))
let string_of_ints l = let b = Buffer.create 64 in List.iter (fun x -> Buffer.add_char b (Char.chr (x land 255))) l; Buffer.contents b
let list_brackets s = (* "[s0,s1]" -> ["s0";"s1"] *)
  let n = String.length s in
  if n < 2 then [] else List.filter (fun w -> w <> "") (split_on ',' (String.sub s 1 (n - 2)))

(* minimal DNS header + question parse: id, flags, lower-cased first question name *)
let dns_info (m : int array) =
  let n = Array.length m in
  if n < 12 then None
  else begin
    let id = m.(0) * 256 + m.(1) and flags = m.(2) * 256 + m.(3) and qd = m.(4) * 256 + m.(5) in
    if qd < 1 then Some (id, flags, "")
    else begin
      let b = Buffer.create 32 in
      let rec go off first =
        if off >= n then None
        else let l = m.(off) in
          if l = 0 then Some (Buffer.contents b)
          else if l > 63 || off + 1 + l > n then None
          else begin
            if not first then Buffer.add_char b '.';
            for i = off + 1 to off + l do Buffer.add_char b (Char.lowercase_ascii (Char.chr m.(i))) done;
            go (off + 1 + l) false
          end in
      match go 12 true with Some name -> Some (id, flags, name) | None -> None
    end
  end

(* Is this buffer exactly ONE DNS message?  Header, qdcount questions, an+ns+ar resource records
   walked by their own lengths; the walk must end exactly at the end of the buffer (no trailing
   octets, nothing cut off). *)
let dns_exact (m : int array) : (unit, string) result =
  let n = Array.length m in
  if n < 12 then Error (Printf.sprintf "%d octets, shorter than a header" n)
  else begin
    let u16 o = m.(o) * 256 + m.(o + 1) in
    let rec skip_name off hops =
      if off >= n || hops > 130 then None
      else let l = m.(off) in
        if l = 0 then Some (off + 1)
        else if l land 0xC0 = 0xC0 then (if off + 2 <= n then Some (off + 2) else None)
        else if l < 64 then skip_name (off + 1 + l) (hops + 1)
        else None in
    let qd = u16 4 and rrs = u16 6 + u16 8 + u16 10 in
    let rec questions off k =
      if k = 0 then Some off
      else match skip_name off 0 with
        | Some o when o + 4 <= n -> questions (o + 4) (k - 1)
        | _ -> None in
    let rec records off k =
      if k = 0 then Some off
      else match skip_name off 0 with
        | Some o when o + 10 <= n ->
          let rdl = u16 (o + 8) in
          if o + 10 + rdl <= n then records (o + 10 + rdl) (k - 1) else None
        | _ -> None in
    match questions 12 qd with
    | None -> Error "question section runs past the end"
    | Some o ->
      (match records o rrs with
       | None -> Error "record sections run past the end"
       | Some e -> if e = n then Ok () else Error (Printf.sprintf "%d trailing octets after the message (%d of %d)" (n - e) e n))
  end

(* Canonical form of a DNS message with every name decoded THROUGH its compression pointers:
   header (without the id), questions, and per RR owner/type/class/ttl/rdata, where names inside
   the rdata of NS/CNAME/PTR/MX/SOA are decoded too.  A pointer must point backwards into the
   message (>= 12) and chains must end; anything else is Error. *)
let dns_canon (m : int array) : (string list, string) result =
  let n = Array.length m in
  let exception Bad of string in
  let u16 o = if o + 2 > n then raise (Bad "cut short") else m.(o) * 256 + m.(o + 1) in
  (* returns (name, offset after the name in the record) *)
  let name_at off0 =
    let b = Buffer.create 32 in
    let after = ref (-1) in
    let rec go off hops =
      if hops > 128 then raise (Bad (Printf.sprintf "pointer loop in the name at %d" off0));
      if off >= n then raise (Bad (Printf.sprintf "name at %d runs past the end" off0));
      let l = m.(off) in
      if l = 0 then (if !after < 0 then after := off + 1)
      else if l land 0xC0 = 0xC0 then begin
        if off + 2 > n then raise (Bad "pointer cut short");
        let target = (l land 0x3F) * 256 + m.(off + 1) in
        if !after < 0 then after := off + 2;
        if target < 12 || target >= off then
          raise (Bad (Printf.sprintf "name at %d: compression pointer at %d points to %d (not backwards into the message)" off0 off target));
        go target (hops + 1)
      end else if l < 64 then begin
        if off + 1 + l > n then raise (Bad (Printf.sprintf "label at %d runs past the end" off));
        if Buffer.length b > 0 then Buffer.add_char b '.';
        for i = off + 1 to off + l do
          let c = m.(i) in
          if c > 32 && c < 127 && c <> 46 then Buffer.add_char b (Char.lowercase_ascii (Char.chr c))
          else Buffer.add_string b (Printf.sprintf "\\%03d" c)
        done;
        go (off + 1 + l) (hops + 1)
      end else raise (Bad (Printf.sprintf "label type %d at %d" l off)) in
    go off0 0;
    ((if Buffer.length b = 0 then "." else Buffer.contents b), !after) in
  let hexsub o l = String.concat "" (List.init l (fun i -> Printf.sprintf "%02x" m.(o + i))) in
  try
    if n < 12 then raise (Bad "shorter than a header");
    let out = ref [Printf.sprintf "hdr flags=%04x qd=%d an=%d ns=%d ar=%d" (u16 2) (u16 4) (u16 6) (u16 8) (u16 10)] in
    let off = ref 12 in
    for _ = 1 to u16 4 do
      let (nm, o) = name_at !off in
      out := Printf.sprintf "q %s %d %d" nm (u16 o) (u16 (o + 2)) :: !out; off := o + 4
    done;
    for _ = 1 to u16 6 + u16 8 + u16 10 do
      let (nm, o) = name_at !off in
      let ty = u16 o and cl = u16 (o + 2) and rdl = u16 (o + 8) in
      let ttl = hexsub (o + 4) 4 in
      let rd = o + 10 in
      if rd + rdl > n then raise (Bad "rdata runs past the end");
      let rdata = match ty with
        | 2 | 5 | 12 -> let (x, e) = name_at rd in if e <> rd + rdl then raise (Bad "name does not fill the rdata") else x
        | 15 when rdl >= 3 -> let (x, e) = name_at (rd + 2) in if e <> rd + rdl then raise (Bad "name does not fill the rdata") else Printf.sprintf "%d %s" (u16 rd) x
        | 6 -> let (a, e1) = name_at rd in let (b2, e2) = name_at e1 in
          if e2 + 20 <> rd + rdl then raise (Bad "SOA rdata length") else a ^ " " ^ b2 ^ " " ^ hexsub e2 20
        | _ -> hexsub rd rdl in
      out := Printf.sprintf "rr %s %d %d %s %s" nm ty cl ttl rdata :: !out;
      off := rd + rdl
    done;
    if !off <> n then raise (Bad (Printf.sprintf "%d trailing octets" (n - !off)));
    Ok (List.rev !out)
  with Bad why -> Error why

(* process_answer accepts (returns ARES_SUCCESS): empty messages are dropped, anything shorter
   than a DNS header is rejected by ares_dns_parse.  The generators only produce well-formed
   longer messages (built by the simulator with the library's writer). *)
let pa (m : z list) = let n = List.length m in n = 0 || n >= 12

type sock = {
  sidx : int; tcp : bool;
  mutable closed : bool; mutable tfo_ok : bool;
  srv_stream : Buffer.t; mutable srv_off : int;          (* TCP: bytes queued by the server *)
  dq : string Queue.t;                                   (* UDP: datagrams queued by the server *)
  mutable mb : buf; mutable m_open : bool;               (* model: in_buf *)
  mutable mc : conn; mutable txq : string list; mutable w_unknown : bool;  (* model: out side *)
  mutable got : Buffer.t;                                (* all bytes read from a TCP socket *)
  mutable cb_seen : int list;                            (* status=0 callbacks in its read events (rev) *)
  mutable sent : Buffer.t;                               (* TCP bytes accepted (hex) *)
}

type ctx = { ck : [ `Enq of int | `Writable of int | `PFlush ]; mutable clines : string list; mutable newsock : int option }

type result = {
  mutable cbs : string list; mutable txs : (int * string) list; mutable endstate : string;
  mutable diffs : string list; mutable fails : (string * string) list;
  mutable nreads : int; mutable nsplit : int; mutable nshort : int; mutable nblocked : int; mutable ntc : int;
  mutable npw : int; mutable crashed : bool; mutable nclosed_bad : int; mutable w2ops : int;
  mutable dup_retry : bool;   (* some query got two retry-causing answers (REFUSED/SERVFAIL/NOTIMP/TC) on one socket *)
  mutable aorder : (int * int * int) list;   (* answers in the order they were handed to process_answer: socket, id, TC bit + rcode *)
  mutable retryish : bool;    (* one of them was retry-causing (SERVFAIL/NOTIMP/REFUSED rcode or TC) *)
}

let canon_ev sscb = function
  | EvSend (off, n) -> Some (Printf.sprintf "SEND len=%d rc=%d hex=%s" (List.length off) (int_of_z n) (hex_of_zl (firstn (nat_of_int (int_of_z n)) off)))
  | EvSendBlocked off -> Some (Printf.sprintf "SEND len=%d EAGAIN" (List.length off))
  | EvSendFailed off -> Some (Printf.sprintf "SEND len=%d FAIL" (List.length off))
  | EvState f -> if sscb then Some (Printf.sprintf "STATE r=%d w=%d" (int_of_z f land 1) ((int_of_z f lsr 1) land 1)) else None
  | EvPendingWrite -> Some "PENDINGWRITE"

let analyze (head : string) (fam : string) (lines : string array) : result =
  let cfgw = words head in
  let flags = match kv "flags" cfgw with Some f -> split_on ',' f | None -> [] in
  let pcb = kv "pendingwritecb" cfgw = Some "1" and sscb = kv "sockstatecb" cfgw = Some "1" in
  let chan_flags = z_of_int ((if List.mem "igntc" flags then int_of_z aRES_FLAG_IGNTC else 0)
                             + (if List.mem "nocheckresp" flags then int_of_z aRES_FLAG_NOCHECKRESP else 0)) in
  let r = { cbs = []; txs = []; endstate = ""; diffs = []; fails = []; nreads = 0; nsplit = 0; nshort = 0;
            nblocked = 0; ntc = 0; npw = 0; crashed = false; nclosed_bad = 0; w2ops = 0; dup_retry = false; aorder = []; retryish = false } in
  let retry_cnt : (int * int, int) Hashtbl.t = Hashtbl.create 8 in
  let diff s = if List.length r.diffs < 4 then r.diffs <- s :: r.diffs in
  let fail k s = if List.length r.fails < 4 then r.fails <- (k, s) :: r.fails in
  let n = Array.length lines in
  let socks : (int, sock) Hashtbl.t = Hashtbl.create 8 in
  let tok_of_name : (string, int) Hashtbl.t = Hashtbl.create 16 in
  let tok_id : (int, int) Hashtbl.t = Hashtbl.create 16 in
  let m_out : (int, unit) Hashtbl.t = Hashtbl.create 16 in          (* outstanding, as the model sees it *)
  let expect_tcp : (int, unit) Hashtbl.t = Hashtbl.create 4 in
  let tok_sock : (int, int) Hashtbl.t = Hashtbl.create 16 in       (* socket of the last transmission *)
  let np = ref false in
  let zero_seen = ref false in      (* a zero length datagram was received on some UDP socket *)
  let last_op = ref "" in
  let pure = (fam = "pure") in
  (* pass 1: messages per socket in transmission order; transmissions (line, socket) per token *)
  let tx_by_sock : (int, string list) Hashtbl.t = Hashtbl.create 8 in
  let tok_tx : (int, (int * int) list) Hashtbl.t = Hashtbl.create 16 in
  let raw_req : (int, string list) Hashtbl.t = Hashtbl.create 8 in
  let slow_sock : (int, unit) Hashtbl.t = Hashtbl.create 8 in   (* sockets that had a short / blocked write *)
  Array.iteri (fun li l ->
    if starts_with "SENDTO " l then (match words l with
        | _ :: s :: rest ->
          (match sock_of s, kvi "len" rest, kvi "rc" rest with
           | Some k, Some len, Some rc when rc < len -> Hashtbl.replace slow_sock k ()
           | Some k, _, None -> Hashtbl.replace slow_sock k ()
           | _ -> ())
        | _ -> ())
    else if starts_with "REQ " l then (match words l with
        | _ :: t :: "sendraw" :: hex :: _ ->
          (* legacy ares_send with caller-built bytes: the question name identifies the token, the
             canonical (pointer-free) form of the request is what every transmission must carry *)
          (match tok_of t, dns_canon (Array.of_list (ints_of_hex hex)) with
           | Some tk, Ok canon ->
             (match List.find_opt (fun x -> starts_with "q " x) canon with
              | Some q -> (match words q with _ :: nm :: _ -> Hashtbl.replace tok_of_name nm tk | _ -> ())
              | None -> ());
             Hashtbl.replace raw_req tk canon
           | _ -> ())
        | _ :: t :: _ :: name :: _ -> (match tok_of t with Some tk -> Hashtbl.replace tok_of_name (String.lowercase_ascii name) tk | None -> ())
        | _ -> ())
    else if starts_with "TX " l then begin
      let w = words l in
      match w with
      | _ :: _ :: s :: _ -> (match sock_of s, kv "hex" w with
          | Some k, Some h ->
            Hashtbl.replace tx_by_sock k ((try Hashtbl.find tx_by_sock k with Not_found -> []) @ [h]);
            (match kv "qname" w with
             | Some qn -> (match Hashtbl.find_opt tok_of_name (String.lowercase_ascii qn) with
                 | Some t -> Hashtbl.replace tok_tx t ((try Hashtbl.find tok_tx t with Not_found -> []) @ [(li, k)])
                 | None -> ())
             | None -> ())
          | _ -> ())
      | _ -> () end) lines;
  (* is the query of token t outstanding on socket k at line q?  `Yes / `No / `Maybe (it is
     being moved: re-queued but the new transmission is not complete yet) *)
  let on_conn t k q =
    let txs = try Hashtbl.find tok_tx t with Not_found -> [] in
    let prev = List.fold_left (fun acc (p, s) -> if p < q then Some s else acc) None txs in
    let next = List.find_map (fun (p, s) -> if p > q then Some s else None) txs in
    (* The order of the TX lines (message complete at the server) is the order in which the query
       moved between connections only when the writes are prompt: behind a short / blocked write a
       frame queued earlier on s1 can complete after the re-transmission queued later on s2.  With
       transmissions on several sockets, one of them slow, the log does not determine where the
       query is: `Maybe for every socket that carried it. *)
    let socks_of_t = List.sort_uniq compare (List.map snd txs) in
    let ambiguous = List.length socks_of_t > 1 && List.mem k socks_of_t && List.exists (fun s -> Hashtbl.mem slow_sock s) socks_of_t in
    if ambiguous then (if List.exists (fun (p, _) -> p < q) txs then `Maybe else `No) else
    match prev, next with
    | None, _ -> `No
    | Some ps, None -> if ps = k then `Yes else `No
    | Some ps, Some ns -> if ps = k && ns = k then `Yes else if ps = k || ns = k then `Maybe else `No in
  let new_sock k tcp =
    let s = { sidx = k; tcp; closed = false; tfo_ok = false; srv_stream = Buffer.create 256; srv_off = 0;
              dq = Queue.create (); mb = buf_create; m_open = true;
              mc = { c_tcp = tcp; c_connected = false; c_tfo_initial = false; c_out = buf_create;
                     c_rw = z_of_int (if tcp then 3 else 1) };
              txq = (try Hashtbl.find tx_by_sock k with Not_found -> []); w_unknown = false;
              got = Buffer.create 256; cb_seen = []; sent = Buffer.create 256 } in
    Hashtbl.replace socks k s; s in
  let cur_tcp () = Hashtbl.fold (fun _ s acc -> if s.tcp && not s.closed then (match acc with Some a when a.sidx > s.sidx -> acc | _ -> Some s) else acc) socks None in
  let ctx : ctx option ref = ref None in
  (* observed items of a context, for socket k *)
  let observed k (ls : string list) =
    let arr = Array.of_list ls in
    let out = ref [] in
    let skip_open_state = ref (match !ctx with
        | Some c -> c.newsock = Some k && (match Hashtbl.find_opt socks k with Some sk -> not sk.mc.c_tfo_initial && not sk.tfo_ok | None -> true)
        | None -> false) in
    Array.iteri (fun i l ->
      let w = words l in
      match w with
      | "SENDTO" :: s :: rest when sock_of s = Some k ->
        let len = match kvi "len" rest with Some v -> v | None -> -1 in
        (match kvi "rc" rest with
         | Some rc when rc >= 0 ->
           let hex = if i + 1 < Array.length arr && starts_with "TCPBYTES " arr.(i + 1) then (match words arr.(i + 1) with _ :: _ :: h :: _ -> h | _ -> "") else "" in
           out := Printf.sprintf "SEND len=%d rc=%d hex=%s" len rc hex :: !out
         | _ -> (match kv "errno" rest with
             | Some "EAGAIN" | Some "EWOULDBLOCK" -> out := Printf.sprintf "SEND len=%d EAGAIN" len :: !out
             | _ -> out := Printf.sprintf "SEND len=%d FAIL" len :: !out))
      | ["PENDINGWRITE"] -> out := "PENDINGWRITE" :: !out
      | "SOCKSTATE" :: s :: rest when sscb && sock_of s = Some k ->
        if !skip_open_state then skip_open_state := false
        else out := Printf.sprintf "STATE r=%d w=%d" (match kvi "r" rest with Some v -> v | None -> -1) (match kvi "w" rest with Some v -> v | None -> -1) :: !out
      | _ -> ()) arr;
    List.rev !out in
  let caps_of k (ls : string list) =
    List.filter_map (fun l -> match words l with
      | "SENDTO" :: s :: rest when sock_of s = Some k ->
        (match kvi "rc" rest with
         | Some rc when rc >= 0 -> Some (Cap (z_of_int rc))
         | _ -> (match kv "errno" rest with Some "EAGAIN" | Some "EWOULDBLOCK" -> Some (Cap Z0) | _ -> Some CapFail))
      | _ -> None) ls in
  let close_ctx () =
    (match !ctx with
     | None -> ()
     | Some c ->
       let ls = List.rev c.clines in
       let target = match c.ck with
         | `Enq _ -> (match c.newsock with Some k -> Hashtbl.find_opt socks k | None -> cur_tcp ())
         | `Writable k -> Hashtbl.find_opt socks k
         | `PFlush -> cur_tcp () in
       (match target with
        | Some s when s.tcp && not s.w_unknown ->
          let caps = caps_of s.sidx ls in
          let obs = observed s.sidx ls in
          let res = match c.ck with
            | `Enq _ ->
              (match s.txq with
               | [] -> s.w_unknown <- true; None
               | h :: rest ->
                 s.txq <- rest;
                 (match conn_query_write s.mc pcb !np (int_of_z (s.mc.c_out.b_off) > 0) (zl_of_hex h) caps with
                  | Ok ((((c', np'), st), evs), left) -> np := np'; Some (c', st, evs, left)
                  | _ -> diff "W2 model: conn_query_write is not Ok"; None))
            | `Writable _ ->
              (match process_write s.mc caps with
               | Ok (((c', st), evs), left) -> Some (c', st, evs, left)
               | _ -> diff "W2 model: process_write is not Ok"; None)
            | `PFlush ->
              if !np then begin
                np := false;
                match conn_flush s.mc caps with
                | Ok (((c', st), evs), left) -> Some (c', st, evs, left)
                | _ -> diff "W2 model: conn_flush is not Ok"; None
              end else Some (s.mc, aRES_SUCCESS, [], caps) in
          (match res with
           | None -> ()
           | Some (c', _st, evs, left) ->
             s.mc <- c';
             r.w2ops <- r.w2ops + 1;
             let pred = List.filter_map (canon_ev sscb) evs in
             if pred <> obs || left <> [] then
               diff (Printf.sprintf "W2 s%d %s: model=[%s] impl=[%s]%s" s.sidx
                       (match c.ck with `Enq t -> Printf.sprintf "send t%d" t | `Writable _ -> "write-event" | `PFlush -> "pending-flush")
                       (String.concat "; " pred) (String.concat "; " obs)
                       (if left <> [] then " (implementation made more asendto calls)" else "")))
        | Some _ -> ()
        | None ->
          (match c.ck with
           | `PFlush -> if !np then np := false
           | _ -> ())));
    ctx := None in
  (* model-side interpretation of the messages handed to process_answer on socket s *)
  let predict (s : sock) (q : int) (obs : int list) (msgs : z list list) : int list * bool * bool =
    let had_tc = ref false in
    let obs = ref obs and okmatch = ref true in
    let toks = List.filter_map (fun m ->
      let arr = Array.of_list (List.map int_of_z m) in
      match dns_info arr with
      | None -> None
      | Some (id, fl, name) ->
        r.aorder <- (s.sidx, id, fl land 0x020f) :: r.aorder;
        if fl land 0x0200 <> 0 || List.mem (fl land 15) [2; 4; 5] then r.retryish <- true;
        (match Hashtbl.find_opt tok_of_name name with
         | None -> None
         | Some t ->
           let found = Hashtbl.mem m_out t && Hashtbl.find_opt tok_id t = Some id in
           (* wire header bits -> ares_dns_flags_t (QR=1 AA=2 TC=4 RD=8 RA=16 AD=32 CD=64) *)
           let rf = (if fl land 0x8000 <> 0 then 1 else 0) + (if fl land 0x0400 <> 0 then 2 else 0) + (if fl land 0x0200 <> 0 then 4 else 0)
                    + (if fl land 0x0100 <> 0 then 8 else 0) + (if fl land 0x0080 <> 0 then 16 else 0) + (if fl land 0x0020 <> 0 then 32 else 0)
                    + (if fl land 0x0010 <> 0 then 64 else 0) in
           let oc = on_conn t s.sidx q in
           let act = process_answer_decide found true (oc <> `No) true false (z_of_int rf) s.tcp chan_flags (z_of_int (fl land 15)) in
           if fl land 0x0200 <> 0 && found then had_tc := true;
           (match act with
            | PaDeliver ->
              (match !obs with
               | o :: rest when o = t -> obs := rest; Hashtbl.remove m_out t; Some t
               | _ -> if oc = `Maybe then None else begin okmatch := false; Hashtbl.remove m_out t; Some t end)
            | PaRetryTcp ->
              (* the query leaves this socket because of this answer: its next transmission must use TCP *)
              let prev_here = (match List.fold_left (fun acc (p, sk') -> if p < q then Some sk' else acc) None (try Hashtbl.find tok_tx t with Not_found -> []) with Some ps -> ps = s.sidx | None -> false) in
              let c = 1 + (try Hashtbl.find retry_cnt (t, s.sidx) with Not_found -> 0) in
              Hashtbl.replace retry_cnt (t, s.sidx) c; if c >= 2 then r.dup_retry <- true;
              if oc = `Yes || prev_here then begin Hashtbl.replace expect_tcp t (); r.ntc <- r.ntc + 1 end; None
            | PaRequeueRcode | PaRetryNoEdns ->
              let c = 1 + (try Hashtbl.find retry_cnt (t, s.sidx) with Not_found -> 0) in
              Hashtbl.replace retry_cnt (t, s.sidx) c; if c >= 2 then r.dup_retry <- true; None
            | _ -> None))) msgs in
    if !obs <> [] then okmatch := false;
    (toks, !had_tc, !okmatch) in
  let i = ref 0 in
  while !i < n do
    let l = lines.(!i) in
    let w = words l in
    (match !ctx with Some c -> c.clines <- l :: c.clines | None -> ());
    (match w with
     | "OP" :: _ :: rest -> last_op := String.concat " " rest
     | "MONITOR" :: _ -> r.crashed <- true
     | "REQ" :: t :: api :: _ :: _ ->
       (match tok_of t with
        | Some tk ->
          Hashtbl.replace m_out tk ();
          if pure && api = "send" then begin close_ctx (); ctx := Some { ck = `Enq tk; clines = []; newsock = None } end
        | None -> ())
     | "RET" :: _ -> (match !ctx with Some { ck = `Enq _; _ } -> close_ctx () | _ -> ())
     | "SOCKET" :: s :: rest ->
       (match sock_of s with
        | Some k ->
          let tcp = kv "type" rest = Some "tcp" in
          ignore (new_sock k tcp);
          (match !ctx with Some c when tcp -> c.newsock <- Some k | _ -> ())
        | None -> ())
     | "SETSOCKOPT" :: s :: "tfo" :: rest ->
       (match sock_of s with
        | Some k -> (match Hashtbl.find_opt socks k with
            | Some sk -> if kv "rc" rest = Some "0" then sk.tfo_ok <- true
            | None -> ())
        | None -> ())
     | "CONNECT" :: s :: rest ->
       (match sock_of s with
        | Some k -> (match Hashtbl.find_opt socks k with
            | Some sk when sk.tcp && sk.tfo_ok && (kv "rc" rest = Some "0" || kv "errno" rest = Some "EINPROGRESS") ->
              (* ARES_CONN_FLAG_TFO_INITIAL; no sock-state notification before the first write *)
              sk.mc <- { sk.mc with c_tfo_initial = true; c_rw = Z0 }
            | _ -> ())
        | None -> ())
     | "TX" :: _ :: s :: rest ->
       (match sock_of s, kv "hex" rest with
        | Some k, Some h ->
          r.txs <- (k, h) :: r.txs;
          if kv "valid" rest <> Some "1" then fail "framing" (Printf.sprintf "s%d received a malformed message: %s" k h);
          (* every buffer handed to the socket is exactly one DNS message (UDP datagram), resp.
             every length-prefixed frame of the stream is (TCP) *)
          (match dns_exact (Array.of_list (ints_of_hex h)) with
           | Ok () -> ()
           | Error why ->
             let cuth = if String.length h > 160 then String.sub h 0 160 ^ ".." else h in
             if kv "proto" rest = Some "udp" then
               fail "udp-datagram-not-one-message" (Printf.sprintf "s%d: datagram of %d octets: %s: %s" k (String.length h / 2) why cuth)
             else fail "tcp-frame-malformed" (Printf.sprintf "s%d: frame of %d octets: %s: %s" k (String.length h / 2) why cuth));
          (* every name of the transmitted message decodes through its compression pointers, and
             a request given as bytes (sendraw) is transmitted with exactly its content *)
          (match dns_canon (Array.of_list (ints_of_hex h)) with
           | Error why ->
             fail "frame-name-decode" (Printf.sprintf "s%d: %s: %s" k why (if String.length h > 200 then String.sub h 0 200 ^ ".." else h))
           | Ok canon ->
             (match List.find_opt (fun x -> starts_with "q " x) canon with
              | Some q ->
                (match words q with
                 | _ :: nm :: _ ->
                   (match Hashtbl.find_opt tok_of_name nm with
                    | Some t ->
                      (match Hashtbl.find_opt raw_req t with
                       | Some want when want <> canon ->
                         let d = List.filter (fun x -> not (List.mem x want)) canon in
                         fail "frame-request-mismatch" (Printf.sprintf "s%d t%d: the transmitted message is not the request: transmitted-only [%s]" k t (String.concat " | " d))
                       | _ -> ())
                    | None -> ())
                 | _ -> ())
              | None -> ()));
          (match kv "qname" rest, kvi "id" rest with
           | Some qn, Some id ->
             (match Hashtbl.find_opt tok_of_name (String.lowercase_ascii qn) with
              | Some t ->
                Hashtbl.replace tok_id t id; Hashtbl.replace tok_sock t k;
                if Hashtbl.mem expect_tcp t then begin
                  if kv "proto" rest = Some "tcp" then Hashtbl.remove expect_tcp t
                  else fail "tc" (Printf.sprintf "t%d: truncated UDP answer, retried over UDP again" t)
                end
              | None -> ())
           | _ -> ())
        | _ -> ())
     | "TCPBYTES" :: s :: h :: _ ->
       (match sock_of s with Some k -> (match Hashtbl.find_opt socks k with Some sk -> Buffer.add_string sk.sent h | None -> ()) | None -> ())
     | "RSP" :: _ :: s :: rest ->
       (match sock_of s, kv "hex" rest with
        | Some k, Some h when not (List.mem "DROPPED=closed" rest) ->
          (match Hashtbl.find_opt socks k with
           | Some sk ->
             let bytes = string_of_ints (ints_of_hex h) in
             let dup = match kvi "dup" rest with Some d -> d | None -> 1 in
             for _ = 1 to dup do
               if sk.tcp then begin
                 let ln = String.length bytes in
                 Buffer.add_char sk.srv_stream (Char.chr (ln lsr 8)); Buffer.add_char sk.srv_stream (Char.chr (ln land 255));
                 Buffer.add_string sk.srv_stream bytes
               end else Queue.add bytes sk.dq
             done
           | None -> ())
        | _ -> ())
     | "RAW" :: s :: rest ->
       (match sock_of s with
        | Some k when not (List.mem "DROPPED=closed" rest) ->
          (match Hashtbl.find_opt socks k with
           | Some sk ->
             let bytes = match words !last_op with
               | ["raw"; _; h] -> string_of_ints (ints_of_hex h)
               | ["rawfrom"; _; _; h] -> string_of_ints (ints_of_hex h)
               | _ -> "" in
             if sk.tcp then Buffer.add_string sk.srv_stream bytes else Queue.add bytes sk.dq
           | None -> ())
        | _ -> ())
     | "PROC" :: _ ->
       close_ctx ();
       if pure then (match kv "w" w with
           | Some ws -> (match list_brackets ws with
               | s :: _ -> (match sock_of s with Some k -> ctx := Some { ck = `Writable k; clines = []; newsock = None } | None -> ())
               | [] -> ())
           | None -> ())
     | "PROCEND" :: _ -> close_ctx ()
     | "FLUSHWRITES" :: "begin" :: _ -> close_ctx (); if pure then ctx := Some { ck = `PFlush; clines = []; newsock = None } else np := false
     | "FLUSHWRITES" :: "end" :: _ -> close_ctx ()
     | "PENDINGWRITE" :: _ -> r.npw <- r.npw + 1; if not pure then np := true
     | "SENDTO" :: s :: rest ->
       (match sock_of s with
        | Some k ->
          (match Hashtbl.find_opt socks k with
           | Some sk when not sk.tcp ->
             (* a blocked UDP send: the frame stays queued, later frames pile up behind it *)
             if kvi "rc" rest = None || kvi "rc" rest = Some (-1) then r.nblocked <- r.nblocked + 1
           | _ -> ());
          (match Hashtbl.find_opt socks k with
           | Some sk when sk.tcp ->
             let len = match kvi "len" rest with Some v -> v | None -> -1 in
             let rc = kvi "rc" rest in
             (match rc with Some v when v >= 0 && v < len -> r.nshort <- r.nshort + 1 | Some v when v >= 0 -> () | _ -> r.nblocked <- r.nblocked + 1);
             if pure then begin
               if !ctx = None && not sk.w_unknown then diff (Printf.sprintf "W2 s%d: asendto outside a modelled operation: %s" k l)
             end else if not sk.w_unknown then begin
               (* W1: offered length must be a whole number of queued frames *)
               let pending () = List.length (remaining sk.mc.c_out) in
               let ok = ref true in
               while !ok && pending () < len do
                 match sk.txq with
                 | [] -> ok := false; sk.w_unknown <- true
                 | h :: tl ->
                   sk.txq <- tl;
                   (match enqueue sk.mc.c_out (int_of_z sk.mc.c_out.b_off > 0) (zl_of_hex h) with
                    | Ok (_, o) -> sk.mc <- { sk.mc with c_out = o }
                    | _ -> ok := false; diff "W1 model: enqueue is not Ok")
               done;
               if !ok then begin
                 if pending () <> len then diff (Printf.sprintf "W1 s%d: asendto offers %d bytes, which is not a whole number of queued frames (model has %d)" k len (pending ()))
                 else begin
                   let cap = match rc with
                     | Some v when v >= 0 -> Cap (z_of_int v)
                     | _ -> (match kv "errno" rest with Some "EAGAIN" | Some "EWOULDBLOCK" -> Cap Z0 | _ -> CapFail) in
                   let c0 = { sk.mc with c_connected = true; c_tfo_initial = false } in
                   match conn_flush c0 [cap] with
                   | Ok (((c', _), evs), _) ->
                     sk.mc <- c';
                     let pred = List.filter_map (fun e -> match e with EvSend _ | EvSendBlocked _ | EvSendFailed _ -> canon_ev false e | _ -> None) evs in
                     let obs = observed k (if !i + 1 < n && starts_with "TCPBYTES " lines.(!i + 1) then [l; lines.(!i + 1)] else [l]) in
                     let obs = List.filter (fun o -> starts_with "SEND" o) obs in
                     if pred <> obs then diff (Printf.sprintf "W1 s%d: model=[%s] impl=[%s]" k (String.concat "; " pred) (String.concat "; " obs))
                   | _ -> diff "W1 model: conn_flush is not Ok"
                 end
               end
             end
           | _ -> ())
        | None -> ())
     | "RECVFROM" :: s :: _ ->
       (match !ctx with Some { ck = `Writable _; _ } -> close_ctx () | _ -> ());
       (match sock_of s with
        | Some k ->
          (match Hashtbl.find_opt socks k with
           | Some sk ->
             (* group of consecutive reads on this socket = one read_conn_packets call *)
             let j = ref !i in
             while !j + 1 < n && (match words lines.(!j + 1) with "RECVFROM" :: s' :: _ -> sock_of s' = Some k | _ -> false) do incr j done;
             let group = Array.to_list (Array.sub lines !i (!j - !i + 1)) in
             let glen = List.length group in
             let zero_only = ref true and any_zero = ref false in
             let rds = List.mapi (fun gi gl ->
               let gw = words gl in
               match kvi "rc" gw with
               | Some rc when rc >= 0 ->
                 if sk.tcp then begin
                   let avail = Buffer.length sk.srv_stream - sk.srv_off in
                   if rc > avail then begin diff (Printf.sprintf "R s%d: recv returned %d bytes, the server had queued %d" k rc avail); RdFail end
                   else begin
                     let bytes = Buffer.sub sk.srv_stream sk.srv_off rc in
                     sk.srv_off <- sk.srv_off + rc;
                     Buffer.add_string sk.got bytes;
                     if rc > 0 then begin zero_only := false; sk.mc <- { sk.mc with c_connected = true } end;   (* WReadOk *)
                     RdBytes (int_of_z sk.mb.b_off > 0, zl_of_string bytes, gi < glen - 1)
                   end
                 end else begin
                   if Queue.is_empty sk.dq then begin diff (Printf.sprintf "R s%d: datagram received, none queued" k); RdFail end
                   else begin
                     let d = Queue.pop sk.dq in
                     if String.length d <> rc then diff (Printf.sprintf "R s%d: datagram length %d, queued %d" k rc (String.length d));
                     if rc > 0 then zero_only := false else begin any_zero := true; zero_seen := true end;
                     RdBytes (int_of_z sk.mb.b_off > 0, zl_of_string d, false)
                   end
                 end
               | _ -> (match kv "errno" gw with Some "EAGAIN" | Some "EWOULDBLOCK" -> RdWouldBlock | _ -> RdFail)) group in
             r.nreads <- r.nreads + 1;
             let before = List.length (remaining sk.mb) in
             (* window: up to the next read or the end of the process call *)
             let e = ref (!j + 1) in
             while !e < n && not (starts_with "RECVFROM " lines.(!e) || starts_with "PROCEND" lines.(!e) || starts_with "END" lines.(!e)) do incr e done;
             let window = Array.to_list (Array.sub lines (!j + 1) (!e - !j - 1)) in
             let obs_cb = List.filter_map (fun wl -> match words wl with
               | "CB" :: t :: st :: _ when st = "status=0" -> tok_of t | _ -> None) window in
             let closed_here = List.exists (fun wl -> match words wl with "CLOSE" :: s' :: _ -> sock_of s' = Some k | _ -> false) window in
             let busy = Hashtbl.fold (fun t sk' acc -> acc || (sk' = k && Hashtbl.mem m_out t)) tok_sock false in
             (match process_read pa sk.tcp sk.mb rds with
              | Ok ((b', msgs), e') ->
                sk.mb <- b';
                if before > 0 && msgs <> [] then r.nsplit <- r.nsplit + 1;
                let (pred, had_tc, okm) = predict sk !i obs_cb msgs in
                if e' = Closed then begin
                  sk.m_open <- false;
                  if msgs <> [] then r.nclosed_bad <- r.nclosed_bad + 1;
                  if not closed_here then diff (Printf.sprintf "R s%d: model closes the connection (rejected message / disconnect), the log shows no CLOSE" k)
                end;
                if not okm then begin
                  let d = Printf.sprintf "s%d read event: model delivers [%s], callbacks [%s]" k
                      (String.concat "," (List.map (fun t -> "t" ^ string_of_int t) pred))
                      (String.concat "," (List.map (fun t -> "t" ^ string_of_int t) obs_cb)) in
                  if (not sk.tcp) && !zero_seen then fail "zerolen" ("after a zero length datagram: " ^ d)
                  else if had_tc && not sk.tcp then fail "tc" d else diff ("R " ^ d)
                end;
                sk.cb_seen <- List.rev_append obs_cb sk.cb_seen;
                if (not sk.tcp) && !any_zero && !zero_only then begin
                  if closed_here && busy then fail "zerolen" (Printf.sprintf "s%d closed by a zero length datagram while queries were outstanding" k);
                  if List.exists (fun wl -> starts_with "CB " wl) window then fail "zerolen" (Printf.sprintf "s%d: callback caused by a zero length datagram" k)
                end
              | Err _ -> diff (Printf.sprintf "R s%d: model ran out of fuel" k)
              | UB _ -> diff (Printf.sprintf "R s%d: model reports undefined behaviour" k));
             i := !j
           | None -> ())
        | None -> ())
     | "CB" :: t :: st :: _ ->
       r.cbs <- String.concat " " (List.tl w) :: r.cbs;
       (match tok_of t with
        | Some tk ->
          if st <> "status=0" then begin
            Hashtbl.remove m_out tk;
            (* a truncated answer must lead to a TCP transmission, never to the end of the query
               (the switch to TCP does not consume a try); destruction / cancellation excepted *)
            if Hashtbl.mem expect_tcp tk && st <> "status=16" && st <> "status=24" then begin
              fail "tc" (Printf.sprintf "t%d: truncated UDP answer, the query ended with %s instead of being retried over TCP" tk st);
              Hashtbl.remove expect_tcp tk
            end
          end
        | None -> ())
     | "CLOSE" :: s :: _ ->
       (match sock_of s with Some k -> (match Hashtbl.find_opt socks k with Some sk -> sk.closed <- true | None -> ()) | None -> ())
     | "ENDSTATE" :: _ -> r.endstate <- l
     | _ -> ());
    incr i
  done;
  close_ctx ();
  (* the TCP byte stream the server received is the sequence of length-prefixed messages the
     simulator reassembled, nothing in between (extracted spec [frames]) *)
  Hashtbl.iter (fun k sk ->
    if sk.tcp && Buffer.length sk.sent > 0 then begin
      let (ms, _tl) = frames (zl_of_hex (Buffer.contents sk.sent)) in
      let got = List.map hex_of_zl ms in
      let exp = try Hashtbl.find tx_by_sock k with Not_found -> [] in
      if got <> exp then
        fail "tcp-frame-mismatch" (Printf.sprintf "s%d: the accepted bytes cut into %d frames, the server reassembled %d messages" k (List.length got) (List.length exp))
    end) socks;
  (* specification-level delivery oracle per TCP socket *)
  Hashtbl.iter (fun k sk ->
    if sk.tcp then begin
      let (ms, _tl) = frames (zl_of_string (Buffer.contents sk.got)) in
      let (dl, _) = cut pa ms in
      (* tokens answered by these messages, first valid answer per token, in order *)
      let seen = Hashtbl.create 8 in
      let exp = List.filter_map (fun m ->
        match dns_info (Array.of_list (List.map int_of_z m)) with
        | Some (id, fl, name) ->
          (match Hashtbl.find_opt tok_of_name name with
           | Some t when not (Hashtbl.mem seen t) && List.mem t sk.cb_seen && Hashtbl.find_opt tok_id t = Some id ->
             let rc = fl land 15 in
             if (rc = 2 || rc = 4 || rc = 5) && not (List.mem "nocheckresp" flags) then None
             else begin Hashtbl.replace seen t (); Some t end
           | _ -> None)
        | None -> None) dl in
      let got = List.rev sk.cb_seen in
      if exp <> got then fail "delivery" (Printf.sprintf "s%d: complete frames of the stream answer [%s] in this order, callbacks were [%s]" k
                                            (String.concat "," (List.map string_of_int exp)) (String.concat "," (List.map string_of_int got)))
    end) socks;
  (* a request that was accepted (RET rc=0) but whose query never reached a server although the
     event loop ran to quiescence afterwards: bytes stuck in an out buffer nobody flushes *)
  if fam = "multi" || fam = "pure" then begin
    let connect_pending = List.mem "connectlater=1" cfgw in
    if not connect_pending then
      Hashtbl.iter (fun name t ->
        if not (Hashtbl.mem tok_tx t) then begin
          let ended16 = List.exists (fun cb -> starts_with (Printf.sprintf "t%d status=16 " t) cb) r.cbs in
          (* only when the application did its part after the request: honoured a pending-write
             notification (flushwrites) and then ran the event loop *)
          let req_at = ref (-1) and flushed_at = ref (-1) and ran = ref false in
          Array.iteri (fun li l ->
            if !req_at < 0 then begin
              if starts_with (Printf.sprintf "REQ t%d " t) l then req_at := li
            end else if !flushed_at < 0 then begin
              if starts_with "FLUSHWRITES begin" l then flushed_at := li
            end else if starts_with "RUN iterations=" l then ran := true) lines;
          if ended16 && !ran then fail "stall" (Printf.sprintf "t%d (%s) was accepted but never transmitted to any server" t name)
        end) tok_of_name
  end;
  Hashtbl.iter (fun t () -> fail (if !zero_seen then "zerolen" else "tc") (Printf.sprintf "t%d: truncated UDP answer was never retried over TCP%s" t (if !zero_seen then " (after a zero length datagram)" else ""))) expect_tcp;
  r.cbs <- List.sort compare r.cbs;
  r.txs <- List.rev r.txs;
  r

(* lines of the implementation log grouped by case index (streaming, no deep recursion:
   a runaway case can print hundreds of thousands of lines) *)
let max_lines = 150000
let group_lines file : (int, string array) Hashtbl.t * (int, int) Hashtbl.t =
  let tbl = Hashtbl.create 1024 and cnt = Hashtbl.create 1024 in
  let ic = open_in file in
  let cur = ref (-1) and acc = ref [] and nacc = ref 0 in
  let flush () = if !cur >= 0 then begin
      let prev = try Array.to_list (Hashtbl.find tbl !cur) with Not_found -> [] in
      Hashtbl.replace tbl !cur (Array.of_list (prev @ List.rev !acc));
      Hashtbl.replace cnt !cur ((try Hashtbl.find cnt !cur with Not_found -> 0) + !nacc) end;
    acc := []; nacc := 0 in
  (try while true do
       let l = input_line ic in
       match String.index_opt l ' ' with
       | None -> ()
       | Some i ->
         (match int_of_string_opt (String.sub l 0 i) with
          | None -> ()
          | Some k ->
            if k <> !cur then begin flush (); cur := k end;
            incr nacc;
            if !nacc <= max_lines then acc := String.sub l (i + 1) (String.length l - i - 1) :: !acc)
     done with End_of_file -> ());
  flush (); close_in ic; (tbl, cnt)

(* CHAN20_ORACLES=C03: the engine also runs under property C03 ("the same holds for the
   length-prefixed frames the library actually hands to sockets"), judged on the frame oracles
   only: no DIFF, no other FAIL kind. *)
let c03_only = (Sys.getenv_opt "CHAN20_ORACLES" = Some "C03")
let frame_kinds = ["udp-datagram-not-one-message"; "tcp-frame-malformed"; "tcp-frame-mismatch"; "framing"; "frame-name-decode"; "frame-request-mismatch"]
let emit (line : string) =
  if not c03_only then print_string line
  else if starts_with "DIFF " line then ()
  else if starts_with "FAIL " line then
    (match words line with
     | _ :: _ :: kind :: _ when List.mem kind frame_kinds -> print_string line
     | _ -> ())
  else print_string line

let () =
  let cases = read_lines Sys.argv.(1) in
  let (impl, implcnt) = group_lines Sys.argv.(2) in
  let tot_reads = ref 0 and tot_split = ref 0 and tot_short = ref 0 and tot_block = ref 0 and tot_tc = ref 0 and tot_w2 = ref 0 and tot_unfair = ref 0 and tot_odep = ref 0 in
  List.iteri (fun k line ->
    match String.index_opt line '|' with
    | None -> Printf.ksprintf emit "CASE %d trivial-badcase\n" k
    | Some bar ->
      let head = String.sub line 0 bar in
      let body = String.sub line (bar + 1) (String.length line - bar - 1) in
      let fam = match split_on ';' body with
        | first :: _ -> (match words first with ["note"; f] when starts_with "fam=" f -> String.sub f 4 (String.length f - 4) | _ -> "other")
        | [] -> "other" in
      let lsa = try Hashtbl.find impl k with Not_found -> [||] in
      let nl = try Hashtbl.find implcnt k with Not_found -> 0 in
      let seg = ref [] and plain = ref [] and nopw = ref [] and cur = ref None in
      Array.iter (fun l ->
        if l = "VARIANT seg" then cur := Some seg
        else if l = "VARIANT plain" then cur := Some plain
        else if l = "VARIANT nopw" then cur := Some nopw
        else match !cur with Some c -> c := l :: !c | None -> ()) lsa;
      let crashed = Array.exists (fun l -> starts_with "MONITOR" l) lsa in
      let has_word wd l = List.mem wd (words l) in
      let stalled = Array.exists (fun l -> starts_with "RUN iterations=" l && has_word "LIMIT" l) lsa in
      (* runw: a socket whose last asendto was short / blocked and that the library does not watch for writability *)
      let unwatched = Array.exists (fun l -> starts_with "RUN iterations=" l &&
                                             (match kv "unwatched" (words l) with Some v -> v <> "[]" | None -> false)) lsa in
      if nl > max_lines || stalled || unwatched then begin
        Printf.ksprintf emit "CASE %d %s:stalled\n" k fam;
        if not crashed then Printf.ksprintf emit "FAIL %d stall the transfer did not complete: %s\n" k
            (if unwatched then "unsent bytes on a socket the library does not watch for writability (runw)"
             else if stalled then "an event loop of the history hit its iteration limit" else Printf.sprintf "%d log lines" nl)
      end else
      (* a variant is a fair history when, after the last stimulus (request, response, raw bytes,
         clock step, timeout processing, single process call), an event loop ran to quiescence: only then has everything the server sent been delivered
         and the outcomes of two variants are comparable (the shrinker may delete the final loops) *)
      let fair (ls : string list) =
        let rec go seen_run = function      (* ls is in reverse order *)
          | [] -> true
          | l :: tl ->
            if starts_with "RUN iterations=" l then go true tl
            else if starts_with "RSP " l || starts_with "REQ " l || starts_with "RAW " l then seen_run
            else if (match words l with "OP" :: _ :: op :: _ -> List.mem op ["adv"; "proct"; "proc"; "eof"; "reset"; "zerolen"] | _ -> false) then seen_run
            else go seen_run tl in
        go false ls in
      let all_fair = fair !seg && fair !plain && (!nopw = [] || fair !nopw) in
      if not all_fair then incr tot_unfair;
      let a = analyze head fam (Array.of_list (List.rev !seg)) in
      (* Several servers: the chunking also changes the order in which answers that are readable
         on DIFFERENT sockets at the same time are processed (unsegmented: everything on the first
         socket, then the second; segmented: interleaved).  When retry-causing answers are among
         them the outcome legitimately depends on that order, as it does on which server answers
         first: e.g. a late REFUSED for a timed-out transmission on s1 is dropped while the query
         sits on s0, but counts as the answer to the re-transmission once the query is back on s1
         (same id, same connection); server failure counts and thereby the next server differ too.
         Such a pair of runs is not a re-segmentation of the same per-connection streams in the
         same order and is not compared (STAT order_dependent); that every request completes is
         still checked. *)
      let order_dep (x : result) (y : result) = (x.retryish || y.retryish) && x.aorder <> y.aorder in
      let completed (x : result) = List.sort compare (List.map (fun c -> match words c with t :: _ -> t | [] -> "") x.cbs) in
      if crashed || !plain = [] then begin
        Printf.ksprintf emit "CASE %d %s:crashed\n" k fam;
        List.iter (fun d -> Printf.ksprintf emit "DIFF %d seg: %s\n" k d) (List.rev a.diffs)
      end else begin
        let headw = List.filter (fun w -> not (starts_with "chunk=" w || starts_with "wpat=" w)) (words head) in
        let b = analyze (String.concat " " headw) fam (Array.of_list (List.rev !plain)) in
        tot_reads := !tot_reads + a.nreads; tot_split := !tot_split + a.nsplit; tot_short := !tot_short + a.nshort;
        tot_block := !tot_block + a.nblocked; tot_tc := !tot_tc + a.ntc; tot_w2 := !tot_w2 + a.w2ops + b.w2ops;
        let nontrivial = a.nsplit > 0 || a.nshort > 0 || a.nblocked > 0 || a.ntc > 0 in
        Printf.ksprintf emit "CASE %d %s%s:%s%s%s%s%s\n" k (if nontrivial then "" else "trivial-") fam
          (if a.nsplit > 0 then "split" else "whole") (if a.nshort > 0 then "+short" else "") (if a.nblocked > 0 then "+block" else "")
          (if a.ntc > 0 then "+tc" else "") (if a.npw > 0 then "+pw" else "");
        List.iter (fun d -> Printf.ksprintf emit "DIFF %d seg: %s\n" k d) (List.rev a.diffs);
        List.iter (fun d -> Printf.ksprintf emit "DIFF %d plain: %s\n" k d) (List.rev b.diffs);
        List.iter (fun (kd, d) -> Printf.ksprintf emit "FAIL %d %s seg: %s\n" k kd d) (List.rev a.fails);
        List.iter (fun (kd, d) -> Printf.ksprintf emit "FAIL %d %s plain: %s\n" k kd d) (List.rev b.fails);
        let servers = match kvi "servers" (words head) with Some v -> v | None -> 1 in
        (* third variant: without the pending-write callback (deferred-write notification must
           not change the outcome either) *)
        if !nopw <> [] then begin
          let headn = List.filter (fun w -> w <> "pendingwritecb=1") (words head) in
          let c = analyze (String.concat " " headn) fam (Array.of_list (List.rev !nopw)) in
          List.iter (fun d -> Printf.ksprintf emit "DIFF %d nopw: %s\n" k d) (List.rev c.diffs);
          List.iter (fun (kd, d) -> Printf.ksprintf emit "FAIL %d %s nopw: %s\n" k kd d) (List.rev c.fails);
          let pkind = if a.dup_retry || c.dup_retry then "metamorphic-dup" else "metamorphic-pw" in
          let servers_ = match kvi "servers" (words head) with Some v -> v | None -> 1 in
          let all_fair = all_fair && not (servers_ > 1 && order_dep a c) in
          if not all_fair then ()
          else if a.cbs <> c.cbs then
            Printf.ksprintf emit "FAIL %d %s callbacks differ with / without the pending-write callback\n" k pkind;
          if not all_fair then ()
          else if servers <= 1 && a.txs <> c.txs then
            Printf.ksprintf emit "FAIL %d %s messages at the server differ with / without the pending-write callback (%d / %d messages)\n" k pkind
              (List.length a.txs) (List.length c.txs)
          else if servers > 1 && (let noid h = if String.length h > 4 then String.sub h 4 (String.length h - 4) else h in
                                  List.sort compare (List.map (fun (_, h) -> noid h) a.txs) <> List.sort compare (List.map (fun (_, h) -> noid h) c.txs)) then
            Printf.ksprintf emit "FAIL %d %s multiset of messages at the servers differs with / without the pending-write callback\n" k pkind
        end;
        (* metamorphic oracle *)
        (* A query that was transmitted twice on one connection and gets two retry-causing answers:
           whether the second one is counted depends on whether it is processed in the same
           read_answers() batch as the first (then the query is detached and the answer dropped)
           or later (then it hits the re-sent query).  Reported under its own kind. *)
        let mkind = if a.dup_retry || b.dup_retry then "metamorphic-dup" else "metamorphic" in
        let odep = servers > 1 && order_dep a b in
        if odep && all_fair then begin
          incr tot_odep;
          if completed a <> completed b then
            Printf.ksprintf emit "FAIL %d %s the sets of completed requests differ: segmented=[%s] unsegmented=[%s]\n" k mkind
              (String.concat "," (completed a)) (String.concat "," (completed b))
        end;
        if not all_fair || odep then ()
        else begin
        if a.cbs <> b.cbs then begin
          let only x y = List.filter (fun c -> not (List.mem c y)) x in
          let cutl s = if String.length s > 160 then String.sub s 0 160 else s in
          Printf.ksprintf emit "FAIL %d %s callbacks differ: segmented-only=[%s] unsegmented-only=[%s]\n" k mkind
            (String.concat " | " (List.map cutl (only a.cbs b.cbs))) (String.concat " | " (List.map cutl (only b.cbs a.cbs)))
        end;
        if servers <= 1 then begin
          (* family idle: a query is started while another one is still outstanding in one variant
             only (the answer is half read), and the ids drawn then differ; the messages are
             compared in order, without the id (also for histories without a family note, e.g.
             shrunk ones) *)
          let noid h = if String.length h > 4 then String.sub h 4 (String.length h - 4) else h in
          let norm l = if fam = "idle" || fam = "other" then List.map (fun (s, h) -> (s, noid h)) l else l in
          if norm a.txs <> norm b.txs then begin
            let show l = String.concat "," (List.map (fun (s, h) -> Printf.sprintf "s%d:%s" s (if String.length h > 24 then String.sub h 0 24 else h)) l) in
            Printf.ksprintf emit "FAIL %d %s messages at the server differ: segmented=[%s] unsegmented=[%s]\n" k mkind (show a.txs) (show b.txs)
          end
        end else begin
          (* without the query id: with rotation the ids come from the same random stream as the
             server choices, whose order depends on when answers are processed *)
          let noid h = if String.length h > 4 then String.sub h 4 (String.length h - 4) else h in
          let ms l = List.sort compare (List.map (fun (_, h) -> noid h) l) in
          if ms a.txs <> ms b.txs then
            Printf.ksprintf emit "FAIL %d %s multiset of messages received by the servers differs: segmented %d messages, unsegmented %d\n" k mkind (List.length a.txs) (List.length b.txs)
        end
        end
      end) cases;
  Printf.ksprintf emit "STAT read_events %d\nSTAT reads_completing_a_buffered_frame %d\nSTAT short_writes %d\nSTAT blocked_writes %d\nSTAT tc_upgrades %d\nSTAT w2_ops %d\nSTAT unfair_histories %d\nSTAT order_dependent %d\n"
    !tot_reads !tot_split !tot_short !tot_block !tot_tc !tot_w2 !tot_unfair !tot_odep
