(* Model-side driver for the container engine (C19): runs the extracted model and the
   extracted specification of the case's container kind (registered by dsa_<kind>.ml) over
   the same cases and compares with the implementation's output.
   Every "R" line the implementation prints for a case (the skip list prints one per RNG seed)
   must equal the model's line (else DIFF) and the specification's line (else FAIL). *)
let read_lines file =
  let ic = open_in file in
  let rec go acc = match input_line ic with l -> go (l :: acc) | exception End_of_file -> close_in ic; List.rev acc in
  go []
let impl_table file =
  let tbl = Hashtbl.create 1024 in
  List.iter (fun l ->
    match String.index_opt l ' ' with
    | None -> ()
    | Some i ->
      (match int_of_string_opt (String.sub l 0 i) with
       | None -> ()
       | Some k -> Hashtbl.add tbl k (String.sub l (i + 1) (String.length l - i - 1)))) (read_lines file);
  tbl
let impl_lines tbl k = List.rev (Hashtbl.find_all tbl k)

(* boundary classes: a class is "<kind>[-<boundary>]*"; every boundary token is counted per kind
   and printed as "STAT <kind>-<boundary> <cases>" so that a generator that stops hitting a
   boundary is visible in the evidence *)
let stats : (string, int) Hashtbl.t = Hashtbl.create 64
let count_class cls =
  match String.split_on_char '-' cls with
  | [] -> ()
  | kind :: toks ->
    let bump k = Hashtbl.replace stats k (1 + (try Hashtbl.find stats k with Not_found -> 0)) in
    bump (kind ^ "-cases");
    List.iter (fun t -> if t <> "" then bump (kind ^ "-" ^ t)) (List.sort_uniq compare toks)

let () =
  let cases = read_lines Sys.argv.(1) in
  let impl = impl_table Sys.argv.(2) in
  List.iteri (fun k line ->
    match String.index_opt line '|' with
    | None -> Printf.printf "CASE %d trivial-badcase\n" k
    | Some i ->
      let kind = String.sub line 0 i in
      let ops = String.split_on_char ';' (String.sub line (i + 1) (String.length line - i - 1)) in
      let (m, s, cls) = match Dsa_reg.find kind with
        | Some run -> run ops
        | None -> ("BADKIND", "BADKIND", "trivial-badkind") in
      Printf.printf "CASE %d %s\n" k cls;
      count_class cls;
      let got = List.filter_map (fun l -> if String.length l > 2 && String.sub l 0 2 = "R " then Some (String.sub l 2 (String.length l - 2)) else None) (impl_lines impl k) in
      (match got with
       | [] -> if not (List.exists (fun l -> String.length l >= 7 && String.sub l 0 7 = "MONITOR") (impl_lines impl k)) then
           Printf.printf "DIFF %d model=[%s] impl=<no result line>\n" k m
       | _ ->
         List.iter (fun g ->
           if g <> m then Printf.printf "DIFF %d model=[%s] impl=[%s]\n" k m g;
           if g <> s then Printf.printf "FAIL %d %s-not-adt spec=[%s] impl=[%s]\n" k kind s g) got)) cases;
  List.iter (fun (k, v) -> Printf.printf "STAT %s %d\n" k v)
    (List.sort compare (Hashtbl.fold (fun k v acc -> (k, v) :: acc) stats []))
