(* Linked-list case kind of the container engine (C19): extracted code-shaped model
   (ll_model_step / ll_observe over the node heap) + extracted reference specification
   (ll_spec_step / ll_spec_observe over plain lists).
   ops (a leading '!' makes the allocation inside the call fail):
     new:<d>  if:<l>:<v> il:<l>:<v> ib:<n>:<v> ia:<n>:<v>
     nf:<l> nl:<l> ni:<l>:<idx> nn:<n> np:<n> nv:<n> par:<n> fv:<l> lv:<l> len:<l>
     cl:<n> nd:<n> rp:<n>:<v> mf:<n>:<l> ml:<n>:<l> clr:<l> des:<l>
   <l> list index in creation order, <n> node index in creation order, '-' = NULL. *)
open LListModel
(*INCLUDE conv.inc*)

let ptr s = if s = "-" then None else (let i = int_of_string s in if i < 0 then failwith "neg" else Some (nat_of_int i))
let ptr_str pre = function None -> "N" | Some n -> pre ^ string_of_int (int_of_nat n)

let res_str = function
  | RSkip -> "skip"
  | RVoid -> "v"
  | RList l -> ptr_str "L" l
  | RNode n -> ptr_str "n" n
  | RVal v -> string_of_z v
  | RLen n -> "#" ^ string_of_int (int_of_nat n)
  | RCalls vs -> "d[" ^ String.concat "," (List.map string_of_z vs) ^ "]"

let view_str (l, v) =
  let f ((n, d), p) = Printf.sprintf "%d.%s.%s" (int_of_nat n) (string_of_z d) (ptr_str "" p) in
  let b (n, d) = Printf.sprintf "%d.%s" (int_of_nat n) (string_of_z d) in
  Printf.sprintf "%d:f=%s;b=%s;c=%d" (int_of_nat l)
    (String.concat "," (List.map f v.lv_fwd)) (String.concat "," (List.map b v.lv_bwd)) (int_of_nat v.lv_len)
let obs_str o = "{" ^ String.concat "|" (List.map view_str o) ^ "}"

let parse_op s =
  let fail, s = if String.length s > 0 && s.[0] = '!' then (true, String.sub s 1 (String.length s - 1)) else (false, s) in
  let ok = not fail in
  let z v = z_of_int (int_of_string v) in
  match split_on ':' s with
  | ["new"; d] -> Some (LCreate (ok, d <> "0"), true)
  | ["if"; l; v] -> Some (LInsFirst (ok, ptr l, z v), true)
  | ["il"; l; v] -> Some (LInsLast (ok, ptr l, z v), true)
  | ["ib"; n; v] -> Some (LInsBefore (ok, ptr n, z v), true)
  | ["ia"; n; v] -> Some (LInsAfter (ok, ptr n, z v), true)
  | ["nf"; l] -> Some (LNodeFirst (ptr l), false)
  | ["nl"; l] -> Some (LNodeLast (ptr l), false)
  | ["ni"; l; i] -> Some (LNodeIdx (ptr l, nat_of_int (int_of_string i)), false)
  | ["nn"; n] -> Some (LNodeNext (ptr n), false)
  | ["np"; n] -> Some (LNodePrev (ptr n), false)
  | ["nv"; n] -> Some (LNodeVal (ptr n), false)
  | ["par"; n] -> Some (LNodeParent (ptr n), false)
  | ["fv"; l] -> Some (LFirstVal (ptr l), false)
  | ["lv"; l] -> Some (LLastVal (ptr l), false)
  | ["len"; l] -> Some (LLen (ptr l), false)
  | ["cl"; n] -> Some (LClaim (ptr n), true)
  | ["nd"; n] -> Some (LNodeDestroy (ptr n), true)
  | ["rp"; n; v] -> Some (LReplace (ptr n, z v), true)
  | ["mf"; n; l] -> Some (LMvFirst (ptr n, ptr l), true)
  | ["ml"; n; l] -> Some (LMvLast (ptr n, ptr l), true)
  | ["clr"; l] -> Some (LClear (ptr l), true)
  | ["des"; l] -> Some (LDestroy (ptr l), true)
  | _ -> None

(* boundaries of the proofs' case splits, judged on the specification state before the
   operation; totals are printed as STAT lines when the driver exits *)
let totals : (string, int) Hashtbl.t = Hashtbl.create 32
let bump seen k =
  Hashtbl.replace seen k ();
  Hashtbl.replace totals k (1 + (try Hashtbl.find totals k with Not_found -> 0))
let () = at_exit (fun () ->
  let ks = List.sort compare (Hashtbl.fold (fun k _ acc -> k :: acc) totals []) in
  List.iter (fun k -> Printf.printf "STAT llist-%s %d\n" k (Hashtbl.find totals k)) ks)

let items_of s l = match ll_sp_list s l with Some sl -> Some sl.sl_items | None -> None
let where s n = match ll_locate s n with
  | Some (l, p) -> (match items_of s l with Some it -> Some (l, int_of_nat p, List.length it) | None -> None)
  | None -> None

let boundaries seen s o (r : ll_res) =
  let b = bump seen in
  let pos p len = if len = 1 then "only" else if p = 0 then "head" else if p = len - 1 then "tail" else "mid" in
  (match o, r with
   | LCreate (false, _), _ | (LInsFirst (false, _, _) | LInsLast (false, _, _) | LInsBefore (false, _, _) | LInsAfter (false, _, _)), RNode None -> b "allocfail"
   | _ -> ());
  (match r with RSkip -> b "skip-dead-arg" | _ -> ());
  match o, r with
  | LInsFirst (_, Some l, _), RNode (Some _) | LInsLast (_, Some l, _), RNode (Some _) ->
    (match items_of s l with Some [] -> b "ins-empty" | _ -> b "ins-end")
  | LInsBefore (_, Some n, _), RNode (Some _) ->
    (match where s n with Some (_, p, len) -> b ("ib-" ^ pos p len) | None -> ())
  | LInsAfter (_, Some n, _), RNode (Some _) ->
    (match where s n with Some (_, p, len) -> b ("ia-" ^ pos p len) | None -> ())
  | (LInsFirst (_, None, _) | LInsLast (_, None, _) | LInsBefore (_, None, _) | LInsAfter (_, None, _)), _ -> b "null-arg"
  | (LInsFirst _ | LInsLast _ | LInsBefore _ | LInsAfter _), RNode None -> b "null-val-or-allocfail"
  | (LClaim (Some n) | LNodeDestroy (Some n)), (RVal _ | RCalls _) ->
    (match where s n with Some (_, p, len) -> b ("rm-" ^ pos p len) | None -> ())
  | (LMvFirst (Some n, Some l2) | LMvLast (Some n, Some l2)), RVoid ->
    (match where s n, items_of s l2 with
     | Some (l1, p, len), Some it2 ->
       b ("mv-" ^ pos p len);
       if l1 = l2 then b "mv-same-list" else if it2 = [] then b "mv-into-empty" else b "mv-other";
       (match o with LMvFirst _ -> b "mv-first" | _ -> b "mv-last")
     | _ -> ())
  | (LNodeFirst (Some l) | LNodeLast (Some l) | LFirstVal (Some l) | LLastVal (Some l) | LLen (Some l)
    | LClear (Some l) | LDestroy (Some l) | LNodeIdx (Some l, _)), _ ->
    (match items_of s l, o with
     | Some [], _ -> b "op-on-empty"
     | Some _, LClear _ -> b "clear-nonempty"
     | Some _, LDestroy _ -> b "destroy-nonempty"
     | _ -> ())
  | (LNodeNext (Some n)), RNode None -> b "next-of-tail"
  | (LNodePrev (Some n)), RNode None -> b "prev-of-head"
  | LReplace (Some _, _), RCalls _ -> b "replace"
  | _ -> ()

let run_llist ops =
  let h = ref ll_heap_empty and s = ref ll_spec_empty in
  let mt = ref [] and st = ref [] in
  let ub = ref false in
  let nontriv = ref 0 in
  let seen = Hashtbl.create 8 in
  let emit_m x = mt := x :: !mt and emit_s x = st := x :: !st in
  let opidx = ref (-1) in
  List.iter (fun op ->
    if op <> "" && not !ub then begin
    incr opidx;
    match (try parse_op op with _ -> None) with
    | None -> emit_m "BADOP"; emit_s "BADOP"
    | Some (o, mutating) ->
      let mutating = mutating && (!opidx < 120 || !opidx mod 8 = 0) in
      let counted = (match o with LCreate _ | LInsFirst _ | LInsLast _ | LInsBefore _ | LInsAfter _ | LClaim _
                                 | LNodeDestroy _ | LReplace _ | LMvFirst _ | LMvLast _ | LClear _ | LDestroy _ -> true
                                 | _ -> false) in
      (* spec *)
      let (s', r) = ll_spec_step !s o in
      emit_s (res_str r);
      boundaries seen !s o r;
      (match o, r with
       | _, (RSkip | RNode None | RList None) -> ()
       | (LMvFirst (None, _) | LMvLast (None, _) | LMvFirst (_, None) | LMvLast (_, None)
         | LClaim None | LNodeDestroy None | LReplace (None, _) | LClear None | LDestroy None), _ -> ()
       | _ -> if counted then incr nontriv);
      s := s';
      if mutating then emit_s (obs_str (ll_spec_observe !s));
      (* model *)
      (match ll_model_step !h o with
       | Ok (h', r) ->
         emit_m (res_str r); h := h';
         if mutating then
           (match ll_observe !h with
            | Ok v -> emit_m (obs_str v)
            | Err _ -> ub := true; emit_m "ERR"
            | UB _ -> ub := true; emit_m "UB")
       | Err _ -> ub := true; emit_m "ERR"
       | UB _ -> ub := true; emit_m "UB") end) ops;
  (match ll_observe !h with
   | Ok v -> emit_m ("end" ^ obs_str v)
   | _ -> ub := true; emit_m "UB");
  emit_s ("end" ^ obs_str (ll_spec_observe !s));
  let has p = Hashtbl.fold (fun k _ acc -> acc || (String.length k >= String.length p && String.sub k 0 (String.length p) = p)) seen false in
  let cls =
    if !ub then "model-ub"
    else if !nontriv < 2 then "trivial"
    else "llist" ^ (if has "mv-" then "-mv" else "")
                 ^ (if has "ib-" || has "ia-" then "-insmid" else "")
                 ^ (if has "rm-" then "-rm" else "") in
  (String.concat " " (List.rev !mt), String.concat " " (List.rev !st), cls)

let () = Dsa_reg.register "llist" run_llist
