(* Linked-list case kind of the container engine (C19): extracted code-shaped model
   (ll_model_step / ll_observe over the node heap) + extracted reference specification
   (ll_spec_step / ll_spec_observe over plain lists).
   ops (a leading '!' makes the allocation inside the call fail):
     new:<d>  if:<l>:<v> il:<l>:<v> ib:<n>:<v> ia:<n>:<v>
     nf:<l> nl:<l> ni:<l>:<idx> nn:<n> np:<n> nv:<n> par:<n> fv:<l> lv:<l> len:<l>
     cl:<n> nd:<n> rp:<n>:<v> mf:<n>:<l> ml:<n>:<l> clr:<l> des:<l>
   <l> list index in creation order, <n> node index in creation order, '-' = NULL. *)
open LListModel
(*INCLUDE conv.inc*)

let ptr s = if s = "-" then None else (let i = int_of_string s in if i < 0 then failwith "neg" else Some (nat_of_int i))
let ptr_str pre = function None -> "N" | Some n -> pre ^ string_of_int (int_of_nat n)

let res_str = function
  | RSkip -> "skip"
  | RVoid -> "v"
  | RList l -> ptr_str "L" l
  | RNode n -> ptr_str "n" n
  | RVal v -> string_of_z v
  | RLen n -> "#" ^ string_of_int (int_of_nat n)
  | RCalls vs -> "d[" ^ String.concat "," (List.map string_of_z vs) ^ "]"

let view_str (l, v) =
  let f ((n, d), p) = Printf.sprintf "%d.%s.%s" (int_of_nat n) (string_of_z d) (ptr_str "" p) in
  let b (n, d) = Printf.sprintf "%d.%s" (int_of_nat n) (string_of_z d) in
  Printf.sprintf "%d:f=%s;b=%s;c=%d" (int_of_nat l)
    (String.concat "," (List.map f v.lv_fwd)) (String.concat "," (List.map b v.lv_bwd)) (int_of_nat v.lv_len)
let obs_str o = "{" ^ String.concat "|" (List.map view_str o) ^ "}"

let parse_op s =
  let fail, s = if String.length s > 0 && s.[0] = '!' then (true, String.sub s 1 (String.length s - 1)) else (false, s) in
  let ok = not fail in
  let z v = z_of_int (int_of_string v) in
  match split_on ':' s with
  | ["new"; d] -> Some (LCreate (ok, d <> "0"), true)
  | ["if"; l; v] -> Some (LInsFirst (ok, ptr l, z v), true)
  | ["il"; l; v] -> Some (LInsLast (ok, ptr l, z v), true)
  | ["ib"; n; v] -> Some (LInsBefore (ok, ptr n, z v), true)
  | ["ia"; n; v] -> Some (LInsAfter (ok, ptr n, z v), true)
  | ["nf"; l] -> Some (LNodeFirst (ptr l), false)
  | ["nl"; l] -> Some (LNodeLast (ptr l), false)
  | ["ni"; l; i] -> Some (LNodeIdx (ptr l, nat_of_int (int_of_string i)), false)
  | ["nn"; n] -> Some (LNodeNext (ptr n), false)
  | ["np"; n] -> Some (LNodePrev (ptr n), false)
  | ["nv"; n] -> Some (LNodeVal (ptr n), false)
  | ["par"; n] -> Some (LNodeParent (ptr n), false)
  | ["fv"; l] -> Some (LFirstVal (ptr l), false)
  | ["lv"; l] -> Some (LLastVal (ptr l), false)
  | ["len"; l] -> Some (LLen (ptr l), false)
  | ["cl"; n] -> Some (LClaim (ptr n), true)
  | ["nd"; n] -> Some (LNodeDestroy (ptr n), true)
  | ["rp"; n; v] -> Some (LReplace (ptr n, z v), true)
  | ["mf"; n; l] -> Some (LMvFirst (ptr n, ptr l), true)
  | ["ml"; n; l] -> Some (LMvLast (ptr n, ptr l), true)
  | ["clr"; l] -> Some (LClear (ptr l), true)
  | ["des"; l] -> Some (LDestroy (ptr l), true)
  | _ -> None

(* boundary classes, judged on the specification state before the operation *)
let bump tbl k = Hashtbl.replace tbl k ()

let run_llist ops =
  let h = ref ll_heap_empty and s = ref ll_spec_empty in
  let mt = ref [] and st = ref [] in
  let ub = ref false in
  let nontriv = ref 0 in
  let seen = Hashtbl.create 8 in
  let emit_m x = mt := x :: !mt and emit_s x = st := x :: !st in
  List.iter (fun op ->
    if op <> "" && not !ub then
    match (try parse_op op with _ -> None) with
    | None -> emit_m "BADOP"; emit_s "BADOP"
    | Some (o, mutating) ->
      (* spec *)
      let (s', r) = ll_spec_step !s o in
      emit_s (res_str r);
      (match o, r with
       | (LMvFirst _ | LMvLast _), RVoid -> bump seen "mv"
       | (LInsBefore _ | LInsAfter _), RNode (Some _) -> bump seen "mid"
       | (LClaim _ | LNodeDestroy _), (RVal _ | RCalls _) -> bump seen "rm"
       | _ -> ());
      (match r with
       | RSkip | RNode None | RList None -> ()
       | _ -> if mutating then incr nontriv);
      s := s';
      if mutating then emit_s (obs_str (ll_spec_observe !s));
      (* model *)
      (match ll_model_step !h o with
       | Ok (h', r) ->
         emit_m (res_str r); h := h';
         if mutating then
           (match ll_observe !h with
            | Ok v -> emit_m (obs_str v)
            | Err _ -> ub := true; emit_m "ERR"
            | UB _ -> ub := true; emit_m "UB")
       | Err _ -> ub := true; emit_m "ERR"
       | UB _ -> ub := true; emit_m "UB")) ops;
  (match ll_observe !h with
   | Ok v -> emit_m ("end" ^ obs_str v)
   | _ -> ub := true; emit_m "UB");
  emit_s ("end" ^ obs_str (ll_spec_observe !s));
  let cls =
    if !ub then "model-ub"
    else if !nontriv < 2 then "trivial"
    else "llist" ^ (if Hashtbl.mem seen "mv" then "-mv" else "")
                 ^ (if Hashtbl.mem seen "mid" then "-mid" else "")
                 ^ (if Hashtbl.mem seen "rm" then "-rm" else "") in
  (String.concat " " (List.rev !mt), String.concat " " (List.rev !st), cls)

let () = Dsa_reg.register "llist" run_llist
