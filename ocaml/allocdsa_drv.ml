(* Model-side driver of the C14 container engine ("allocdsa").
   mdl <casefile> <impl-output>
   Runs the allocation-explicit container models (coq/Alloc/ListAlloc.v, HtableAlloc.v,
   BufAlloc.v, coq/Dsa/Array.v) under the oracle that refuses the n-th request and compares
   with harness/allocfail_dsa_drv.c token by token: result of every operation, number of
   allocation requests so far, number of live blocks, final contents (DIFF).
   Property oracle (FAIL): an abstract replay driven by the results the IMPLEMENTATION
   reported - an operation that reported failure must not have changed the contents, one that
   reported success must have had its effect - and nothing may stay allocated after destroy. *)
open AllocModel
(*INCLUDE conv.inc*)

let starts_with p s = String.length s >= String.length p && String.sub s 0 (String.length p) = p
let kvi key text dflt =
  List.fold_left (fun acc w ->
      let p = key ^ "=" in
      if starts_with p w then int_of_string (String.sub w (String.length p) (String.length w - String.length p)) else acc)
    dflt (String.split_on_char ' ' text)

let cnt h = int_of_nat h.h_next
let live h = List.length h.h_live
let tok res h = Printf.sprintf "%s@%d/%d" res (cnt h) (live h)
let zs l = String.concat "," (List.map string_of_z l)

exception Model_ub of string
let run m h = match m h with
  | Ok (a, h') -> (a, h')
  | Err s -> raise (Model_ub ("Err " ^ string_of_z s))
  | UB _ -> raise (Model_ub "UB")

let rec drop n l = if n <= 0 then l else match l with [] -> [] | _ :: r -> drop (n - 1) r
let rec take n l = if n <= 0 then [] else match l with [] -> [] | x :: r -> x :: take (n - 1) r

(* returns (tokens, dump, end_live, nontrivial ops) *)
let model kind f bits ops =
  let toks = ref [] in
  let emit s = toks := s :: !toks in
  let ok = ref 0 in
  let h = ref heap0 in
  let dump = ref "" in
  (match kind with
   | "llist" ->
     let (lo, h1) = run (llist_create f) !h in h := h1;
     emit (tok (if lo = None then "C0" else "C1") !h);
     (match lo with
      | None -> ()
      | Some l0 ->
        let l = ref l0 in
        let ins pos v =
          let ((r, l'), h1) = run (llist_insert_at f !l pos (z_of_int v)) !h in
          h := h1; l := l'; if r <> None then incr ok; emit (tok (if r = None then "0" else "1") !h) in
        List.iter (fun op -> match String.split_on_char ':' op with
            | ["if"; v] -> ins LHead (int_of_string v)
            | ["il"; v] -> ins LTail (int_of_string v)
            | ["ib"; i; v] ->
              let i = int_of_string i in
              if i < List.length !l.ll_nodes then ins (LBefore (nat_of_int i)) (int_of_string v)
              else emit (tok "0" !h)
            | ["rm"; i] ->
              let i = int_of_string i in
              if i < List.length !l.ll_nodes then begin
                let (l', h1) = run (llist_node_claim !l (nat_of_int i)) !h in
                l := l'; h := h1; incr ok; emit (tok "1" !h) end
              else emit (tok "0" !h)
            | _ -> emit "BADOP") ops;
        dump := zs (ll_abs !l);
        let ((), h1) = run (llist_destroy !l) !h in h := h1)
   | "slist" ->
     let (lo, h1) = run (slist_create f) !h in h := h1;
     emit (tok (if lo = None then "C0" else "C1") !h);
     (match lo with
      | None -> ()
      | Some l0 ->
        let l = ref l0 in
        let rec log2up n = if n <= 1 then 0 else 1 + log2up ((n + 1) / 2) in
        List.iter (fun op -> match String.split_on_char ':' op with
            | ["in"; v] ->
              let c = List.length !l.sl_nodes in
              let maxl = max (if c + 1 <= 16 then 4 else log2up (c + 1)) (int_of_nat !l.sl_levels) in
              let level = if bits = 1 then maxl else 1 in
              let ((r, l'), h1) = run (slist_insert f !l (z_of_int (int_of_string v)) (nat_of_int level)) !h in
              h := h1; l := l'; if r <> None then incr ok; emit (tok (if r = None then "0" else "1") !h)
            | ["rm"; i] ->
              let i = int_of_string i in
              if i < List.length !l.sl_nodes then begin
                let (l', h1) = run (slist_node_destroy !l (nat_of_int i)) !h in
                l := l'; h := h1; incr ok; emit (tok "1" !h) end
              else emit (tok "0" !h)
            | _ -> emit "BADOP") ops;
        dump := zs (sl_abs !l);
        let ((), h1) = run (slist_destroy !l) !h in h := h1)
   | "htab" ->
     let hash k = nat_of_int (int_of_z k) in
     let (to_, h1) = run (ht_create f) !h in h := h1;
     emit (tok (if to_ = None then "C0" else "C1") !h);
     (match to_ with
      | None -> ()
      | Some t0 ->
        let t = ref t0 in
        List.iter (fun op -> match String.split_on_char ':' op with
            | ["in"; k; v] ->
              let ((r, t'), h1) = run (ht_insert hash f !t (z_of_int (int_of_string k)) (z_of_int (int_of_string v))) !h in
              h := h1; t := t'; if r then incr ok; emit (tok (if r then "1" else "0") !h)
            | ["rm"; k] ->
              let ((r, t'), h1) = run (ht_remove hash !t (z_of_int (int_of_string k))) !h in
              h := h1; t := t'; if r then incr ok; emit (tok (if r then "1" else "0") !h)
            | ["get"; k] ->
              (match ht_get hash !t (z_of_int (int_of_string k)) with
               | Some v -> emit (tok (string_of_z v) !h)
               | None -> emit (tok "N" !h))
            | _ -> emit "BADOP") ops;
        let kvs = List.sort compare (List.map (fun (k, v) -> (int_of_z k, int_of_z v)) (ht_abs !t)) in
        dump := String.concat "," (List.map (fun (k, v) -> Printf.sprintf "%d=%d" k v) kvs)
                ^ Printf.sprintf " keys=%d" (int_of_nat !t.ht_keys);
        let ((), h1) = run (ht_destroy !t) !h in h := h1)
   | "buf" ->
     let (bo, h1) = run (buf_create f) !h in h := h1;
     emit (tok (if bo = None then "C0" else "C1") !h);
     (match bo with
      | None -> ()
      | Some (sb, b0) ->
        let b = ref b0 in
        List.iter (fun op -> match String.split_on_char ':' op with
            | ["ap"; n; byte] ->
              let bytes = List.init (int_of_string n) (fun _ -> z_of_int (int_of_string byte)) in
              let ((st, b'), h1) = run (buf_append f !b bytes) !h in
              h := h1; b := b'; if int_of_z st = 0 then incr ok; emit (tok (string_of_z st) !h)
            | ["co"; n] ->
              (match buf_consume !b (nat_of_int (int_of_string n)) with
               | Ok b' -> b := b'; emit (tok "0" !h)
               | Err s -> emit (tok (string_of_z s) !h)
               | UB _ -> raise (Model_ub "UB"))
            | ["tag"] -> b := buf_tag_set !b; emit (tok "0" !h)
            | ["untag"] ->
              (* ares_buf_tag_clear: ARES_EFORMERR when no tag is set *)
              if !b.b_tag = None then emit (tok "2" !h) else (b := buf_tag_clear !b; emit (tok "0" !h))
            | _ -> emit "BADOP") ops;
        let bytes = List.map int_of_z (buf_unread !b) in
        let rec rle = function
          | [] -> []
          | x :: r -> let rec span n = function y :: t when y = x -> span (n + 1) t | t -> (n, t) in
            let (n, t) = span 1 r in Printf.sprintf "%dx%d" x n :: rle t in
        dump := String.concat "," (rle bytes);
        let ((), h1) = run (buf_destroy sb !b) !h in h := h1)
   | "arr" ->
     (* Dsa/Array.v takes the allocator's answer as an argument; requests are counted here:
        the ares_array_t itself, then one per growth of the cell block *)
     let c = ref 0 in
     let ask () = let r = f (nat_of_int !c) in incr c; r in
     let created = ask () in
     let a = ref arr_create in
     let lv () = if not created then 0 else 1 + (if !a.a_cells = [] then 0 else 1) in
     let tk res = Printf.sprintf "%s@%d/%d" res !c (lv ()) in
     emit (tk (if created then "C1" else "C0"));
     if created then begin
       let st = function Ok _ -> "0" | Err s -> string_of_z s | UB _ -> raise (Model_ub "UB") in
       let ins idx v =
         let idx = nat_of_int idx and v = z_of_int v in
         let rt = arr_insertdata_at true !a idx v and rf = arr_insertdata_at false !a idx v in
         let r = if rt = rf then rt else (if ask () then rt else rf) in
         (match r with Ok a' -> a := a'; incr ok | _ -> ());
         emit (tk (st r)) in
       let rem r = (match r with Ok (a', _) -> a := a'; incr ok | _ -> ());
         emit (tk (match r with Ok _ -> "0" | Err s -> string_of_z s | UB _ -> raise (Model_ub "UB"))) in
       List.iter (fun op -> match String.split_on_char ':' op with
           | ["il"; v] -> ins (int_of_nat (arr_len !a)) (int_of_string v)
           | ["if"; v] -> ins 0 (int_of_string v)
           | ["ia"; i; v] -> ins (int_of_string i) (int_of_string v)
           | ["rf"] -> rem (arr_remove_first !a)
           | ["rl"] -> rem (arr_remove_last !a)
           | ["ra"; i] -> rem (arr_remove_at !a (nat_of_int (int_of_string i)))
           | _ -> emit "BADOP") ops;
       dump := zs (arr_abs !a)
     end;
     h := heap0
   | _ -> emit "BADKIND");
  (List.rev !toks, !dump, live !h, !ok)

(* abstract replay driven by the implementation's reported results *)
let replay kind ops (results : string list) =
  let res = Array.of_list results in
  let r i = if i < Array.length res then res.(i) else "?" in
  let succ_bool i = r i = "1" and succ_st i = r i = "0" in
  match kind with
  | "llist" ->
    let l = ref [] in
    List.iteri (fun i op -> match String.split_on_char ':' op with
        | ["if"; v] -> if succ_bool i then l := int_of_string v :: !l
        | ["il"; v] -> if succ_bool i then l := !l @ [int_of_string v]
        | ["ib"; j; v] -> if succ_bool i then
            let j = int_of_string j in l := take j !l @ (int_of_string v :: drop j !l)
        | ["rm"; j] -> if succ_bool i then let j = int_of_string j in l := take j !l @ drop (j + 1) !l
        | _ -> ()) ops;
    String.concat "," (List.map string_of_int !l)
  | "slist" ->
    let l = ref [] in
    List.iteri (fun i op -> match String.split_on_char ':' op with
        | ["in"; v] -> if succ_bool i then
            let v = int_of_string v in
            l := List.filter (fun x -> x < v) !l @ (v :: List.filter (fun x -> x >= v) !l)
        | ["rm"; j] -> if succ_bool i then let j = int_of_string j in l := take j !l @ drop (j + 1) !l
        | _ -> ()) ops;
    String.concat "," (List.map string_of_int !l)
  | "htab" ->
    let m = ref [] in
    List.iteri (fun i op -> match String.split_on_char ':' op with
        | ["in"; k; v] -> if succ_bool i then
            let k = int_of_string k in m := (k, int_of_string v) :: List.remove_assoc k !m
        | ["rm"; k] -> if succ_bool i then m := List.remove_assoc (int_of_string k) !m
        | _ -> ()) ops;
    let kvs = List.sort compare !m in
    String.concat "," (List.map (fun (k, v) -> Printf.sprintf "%d=%d" k v) kvs) ^ Printf.sprintf " keys=%d" (List.length kvs)
  | "buf" ->
    let b = ref [] in
    List.iteri (fun i op -> match String.split_on_char ':' op with
        | ["ap"; n; byte] -> if succ_st i then b := !b @ List.init (int_of_string n) (fun _ -> int_of_string byte)
        | ["co"; n] -> if succ_st i then b := drop (int_of_string n) !b
        | _ -> ()) ops;
    let rec rle = function
      | [] -> []
      | x :: r -> let rec span n = function y :: t when y = x -> span (n + 1) t | t -> (n, t) in
        let (n, t) = span 1 r in Printf.sprintf "%dx%d" x n :: rle t in
    String.concat "," (rle !b)
  | "arr" ->
    let l = ref [] in
    List.iteri (fun i op -> match String.split_on_char ':' op with
        | ["il"; v] -> if succ_st i then l := !l @ [int_of_string v]
        | ["if"; v] -> if succ_st i then l := int_of_string v :: !l
        | ["ia"; j; v] -> if succ_st i then let j = int_of_string j in l := take j !l @ (int_of_string v :: drop j !l)
        | ["rf"] -> if succ_st i then l := drop 1 !l
        | ["rl"] -> if succ_st i then l := take (List.length !l - 1) !l
        | ["ra"; j] -> if succ_st i then let j = int_of_string j in l := take j !l @ drop (j + 1) !l
        | _ -> ()) ops;
    String.concat "," (List.map string_of_int !l)
  | _ -> "?"

let () =
  let cases = read_lines Sys.argv.(1) in
  let impl = impl_table Sys.argv.(2) in
  List.iteri (fun k line ->
    match String.index_opt line '|' with
    | None -> Printf.printf "CASE %d trivial-badcase\n" k
    | Some i ->
      let head = String.sub line 0 i in
      let kind = List.hd (String.split_on_char ' ' head) in
      let n = kvi "n" head 0 and bits = kvi "bits" head 0 in
      let ops = List.filter (fun s -> s <> "") (String.split_on_char ';' (String.sub line (i + 1) (String.length line - i - 1))) in
      let f = if n = 0 then never_fail else fail_at (nat_of_int (n - 1)) in
      if kind = "parse" then begin
        (* no Coq model behind this kind: the legacy reply parsers are enumerated only.  Oracle:
           the call reports failure and hands out nothing, or it reports success and the result
           is, field by field, the result of the run without failure; nothing stays allocated *)
        let kvs key = List.fold_left (fun acc w -> match acc with Some _ -> acc | None ->
            let p = key ^ "=" in if starts_with p w then Some (String.sub w (String.length p) (String.length w - String.length p)) else None)
            None (String.split_on_char ' ' head) in
        let fn = match kvs "fn" with Some f -> f | None -> "?" in
        let base = match kvs "base" with Some b -> b | None -> "?" in
        let got = List.filter_map (fun l -> if starts_with "R " l then Some (String.sub l 2 (String.length l - 2)) else None) (impl_lines impl k) in
        (match got with
         | [g] ->
           let parts = String.split_on_char ' ' g in
           let st = match parts with t :: _ -> (match String.index_opt t '@' with Some j -> String.sub t 0 j | None -> t) | [] -> "?" in
           let idump = match List.find_opt (fun t -> starts_with "dump=" t) parts with
             | Some t -> String.sub t 5 (String.length t - 5) | None -> "?" in
           let iend = match List.find_opt (fun t -> starts_with "end=" t) parts with
             | Some t -> int_of_string (String.sub t 4 (String.length t - 4)) | None -> -1 in
           let api = "ares_parse_" ^ (if fn = "ptr6" then "ptr" else fn) ^ "_reply" in
           Printf.printf "CASE %d %s\n" k
             (if n = 0 then "trivial-no-failure-parse-" ^ fn
              else if st = "0" then "parse-" ^ fn ^ "-proceeds"
              else if st = "15" then "parse-" ^ fn ^ "-enomem" else "parse-" ^ fn ^ "-status-" ^ st);
           if n = 0 && (st <> "0" || idump <> base) then Printf.printf "FAIL %d parse-baseline-unstable:%s status=%s dump=[%s] recorded=[%s]\n" k api st idump base;
           if n > 0 && st = "0" && idump <> base then
             Printf.printf "FAIL %d wrong-result:%s ARES_SUCCESS with a result that differs from the one without failure: [%s] expected [%s]\n" k api idump base;
           if st <> "0" && not (idump = "-" || starts_with "-," idump) then
             Printf.printf "FAIL %d output-on-failure:%s status=%s but a result was handed out: [%s]\n" k api st idump;
           if iend <> 0 then Printf.printf "FAIL %d leak:%s blocks=%d still allocated after the call\n" k api iend
         | _ -> if List.exists (fun l -> starts_with "MONITOR" l) (impl_lines impl k) then Printf.printf "CASE %d sanitizer-report\n" k
           else Printf.printf "CASE %d trivial-no-output\n" k)
      end else
      if kind = "wire" then begin
        (* no Coq model behind this kind: the DNS writer is enumerated only.  Oracle: when
           ares_dns_write reports success the names read back are the names given *)
        let strip s = let l = String.length s in if l > 1 && s.[l - 1] = '.' then String.sub s 0 (l - 1) else s in
        let spec = String.concat "," (List.filter_map (fun op -> match String.split_on_char ':' op with
            | ["q"; a] | ["an"; a] -> Some (strip a)
            | ["ns"; a; b] -> Some (strip a ^ ">" ^ strip b)
            | _ -> None)
            (List.stable_sort (fun x y -> compare (String.sub x 0 1 <> "q" && String.sub x 0 1 <> "a") (String.sub y 0 1 <> "q" && String.sub y 0 1 <> "a")) ops)) in
        let got = List.filter_map (fun l -> if starts_with "R " l then Some (String.sub l 2 (String.length l - 2)) else None) (impl_lines impl k) in
        (match got with
         | [g] ->
           let parts = String.split_on_char ' ' g in
           let st = match parts with t :: _ -> (match String.index_opt t '@' with Some j -> String.sub t 0 j | None -> t) | [] -> "?" in
           let idump = match List.find_opt (fun t -> starts_with "dump=" t) parts with
             | Some t -> String.sub t 5 (String.length t - 5) | None -> "?" in
           let iend = match List.find_opt (fun t -> starts_with "end=" t) parts with
             | Some t -> int_of_string (String.sub t 4 (String.length t - 4)) | None -> -1 in
           Printf.printf "CASE %d %s\n" k (if n = 0 then "trivial-no-failure-wire" else if st = "0" then "wire-write-succeeds" else "wire-refused");
           if st = "0" && idump <> spec then Printf.printf "FAIL %d wire-wrong-name given=[%s] on-the-wire=[%s]\n" k spec idump;
           if iend <> 0 then Printf.printf "FAIL %d leak:wire blocks=%d still allocated after destroy\n" k iend
         | _ -> Printf.printf "CASE %d trivial-no-output\n" k)
      end else
      let got = List.filter_map (fun l -> if starts_with "R " l then Some (String.sub l 2 (String.length l - 2)) else None) (impl_lines impl k) in
      (match (try Stdlib.Ok (model kind f bits ops) with Model_ub s -> Stdlib.Error s) with
       | Stdlib.Error s ->
         Printf.printf "CASE %d model-ub\n" k;
         Printf.printf "DIFF %d model gives %s\n" k s
       | Stdlib.Ok (toks, dump, endlive, nok) ->
         let m = String.concat " " toks ^ " dump=" ^ dump ^ Printf.sprintf " end=%d" endlive in
         let failed_somewhere = List.exists (fun t -> starts_with "0@" t || starts_with "15@" t || starts_with "C0@" t) toks in
         Printf.printf "CASE %d %s\n" k
           (if n = 0 then "trivial-no-failure-" ^ kind
            else if not failed_somewhere then "trivial-failure-not-reached-" ^ kind
            else if nok >= 1 then kind ^ "-refused-then-continues" else kind ^ "-refused");
         (match got with
          | [g] ->
            if g <> m then Printf.printf "DIFF %d model=[%s] impl=[%s]\n" k m g;
            (* the property's oracle on the implementation's own output *)
            let parts = String.split_on_char ' ' g in
            let results = List.filter_map (fun t ->
                match String.index_opt t '@' with
                | Some j when not (starts_with "C" t) -> Some (String.sub t 0 j)
                | _ -> None) parts in
            let created = List.exists (fun t -> starts_with "C1@" t) parts in
            let idump = match List.find_opt (fun t -> starts_with "dump=" t) parts with
              | Some t ->
                let d = String.sub t 5 (String.length t - 5) in
                (match List.find_opt (fun t -> starts_with "keys=" t) parts with Some kk -> d ^ " " ^ kk | None -> d)
              | None -> "?" in
            let iend = match List.find_opt (fun t -> starts_with "end=" t) parts with
              | Some t -> int_of_string (String.sub t 4 (String.length t - 4)) | None -> -1 in
            if created then begin
              let spec = replay kind ops results in
              if spec <> idump then Printf.printf "FAIL %d %s-not-atomic spec=[%s] impl=[%s]\n" k kind spec idump
            end;
            if iend <> 0 then Printf.printf "FAIL %d leak:%s blocks=%d still allocated after destroy\n" k kind iend
          | _ -> if not (List.exists (fun l -> starts_with "MONITOR" l) (impl_lines impl k)) then
              Printf.printf "DIFF %d model=[%s] impl=<no result line>\n" k m))) cases
