(* Model-side driver of the threaded engine (C07 event-thread half, C11 wait-empty).
   Oracle on the implementation's output: every request completes exactly once, within its
   retry budget, with the status its server behaviour implies; the hook trace is accepted by
   the extracted acceptor [trace_accepts]; ares_queue_wait_empty returned success only with
   nothing outstanding. *)
open EventLoopModel
(*INCLUDE conv_z.inc*)
(*INCLUDE conv_io.inc*)

let starts_with p s = String.length s >= String.length p && String.sub s 0 (String.length p) = p

let () =
  let cases = read_lines Sys.argv.(1) in
  let impl = impl_table Sys.argv.(2) in
  List.iteri (fun k line ->
    match String.index_opt line '|' with
    | None -> Printf.printf "CASE %d trivial-badcase\n" k
    | Some i ->
      let head = String.sub line 0 i and body = String.sub line (i + 1) (String.length line - i - 1) in
      let cfg = List.filter_map (fun kv -> match split_on '=' kv with [a; b] -> Some (a, b) | _ -> None) (split_on ' ' head) in
      let geti key d = match List.assoc_opt key cfg with Some v -> (try int_of_string v with _ -> d) | None -> d in
      let timeout = max 10 (min 2000 (geti "timeout" 100)) in
      let base = max timeout 250 in
      (* expected status per token from the name prefix *)
      let expected = List.filter_map (fun st -> match split_on ':' st with
        | ["qc"; tk; name; ftk; fname] ->
          (* both the request and its follow-up; returned as the first, the follow-up is added below *)
          ignore (ftk, fname);
          let s = if starts_with "ans" name then 0 else if starts_with "sil" name then 12 else if starts_with "srvfail" name then 3 else -1 in
          Some (int_of_string tk, s)
        | ["q"; tk; name] | ["qs"; tk; name; _] ->
          let s = if starts_with "ans" name then 0 else if starts_with "sil" name then 12 else if starts_with "srvfail" name then 3 else -1 in
          Some (int_of_string tk, s)
        | _ -> None) (split_on ';' body) in
      let lines = impl_lines impl k in
      let tevs = List.filter_map (fun l ->
        match split_on ' ' l with
        | ["T"; t; "query"; _; _] -> Some (TQuery (z_of_int (int_of_string t)))
        | ["T"; t; "wake"; _; _] -> Some (TWakeSig (z_of_int (int_of_string t)))
        | ["T"; t; "woke"; _; _] -> Some (TWoke (z_of_int (int_of_string t)))
        | ["T"; _; "hint"; sec; usec] -> Some (THint (z_of_int (int_of_string sec), z_of_int (int_of_string usec)))
        | ["T"; t; "wait"; ms; has] -> Some (TWait (z_of_int (int_of_string t), if has = "0" then None else Some (z_of_int (int_of_string ms))))
        | _ -> None) lines in
      let rl = List.filter (fun l -> starts_with "R " l) lines in
      let reuse = List.exists (fun (k', v) -> k' = "flags" && (try ignore (Str.search_forward (Str.regexp_string "stayopen") v 0); true with Not_found -> false)) cfg in
      Printf.printf "CASE %d %s-q%d%s\n" k (match List.assoc_opt "evsys" cfg with Some e -> e | None -> "default")
        (List.length expected) (if reuse then "-stayopen" else "");
      (match rl with
       | [r] ->
         let toks = List.tl (split_on ' ' r) in
         List.iter (fun t ->
           match split_on '=' t with
           | ["bgwait"; v] ->
             (match split_on ':' v with
              | [rc; pending] -> if rc = "0" && pending <> "0" then Printf.printf "FAIL %d waitempty-nonempty a concurrent ares_queue_wait_empty returned success while %s request(s) issued before it returned (from inside a completion callback) had not completed\n" k pending
              | _ -> ())
           | ["waitempty"; v] ->
             (match split_on ':' v with
              | [rc; pending] -> if rc = "0" && pending <> "0" then Printf.printf "FAIL %d waitempty-nonempty rc=0 with %s requests outstanding\n" k pending
              | _ -> ())
           | [tk; v] ->
             (match split_on ':' v with
              | st :: timing :: rest ->
                let tki = int_of_string tk in
                if timing <> "within" then Printf.printf "FAIL %d evthread-missed-deadline token %s completed %s (status %s): %s\n" k tk timing st r;
                if rest <> [] then Printf.printf "FAIL %d callback-count token %s %s\n" k tk (String.concat ":" rest);
                (match List.assoc_opt tki expected with
                 | Some e when e >= 0 && timing = "within" && string_of_int e <> st ->
                   Printf.printf "DIFF %d token %s status model=%d impl=%s\n" k tk e st
                 | _ -> ())
              | _ -> ())
           | _ -> ()) toks;
         if tevs <> [] && not (trace_conversion_ok tevs) then begin
           (* which half failed: an unusable timeout (0 = wait forever / above INT_MAX) is a property
              failure, a usable but different value is a disagreement with the model *)
           let bad = List.exists (function TWait (_, ms) -> not (wait_ms_ok ms) | _ -> false) tevs in
           if bad then Printf.printf "FAIL %d evthread-unusable-timeout the event thread waited with timeout 0 (= no timeout) or above INT_MAX while ares_timeout() reported a pending deadline\n" k
           else Printf.printf "DIFF %d event-thread wait timeout is not ms_of_hint of the logged hint\n" k
         end;
         if tevs <> [] && not (trace_accepts (z_of_int base) (z_of_int 150) tevs) then
           Printf.printf "FAIL %d evthread-no-wake hook trace rejected by the extracted acceptor (a query was enqueued while the event thread slept past its deadline and no wake followed)\n" k
       | _ -> if not (List.exists (fun l -> starts_with "MONITOR" l) lines) then Printf.printf "DIFF %d no result line\n" k)) cases
