(* Array case kind of the container engine (C19): the extracted model step [arr_step] and the
   extracted reference step [aspec_step] (the objects of theorem C19_array_run_refines) are
   run over the same operations; both print the tokens harness/dsa_arr.c prints. *)
open DsaModel
(*INCLUDE conv.inc*)

let opt_str = function None -> "N" | Some v -> string_of_z v
let res_str = function
  | RStatus s -> string_of_z s
  | RRemoved v -> "0:" ^ string_of_z v
  | RVal o -> opt_str o
  | RLen n -> string_of_int (int_of_nat n)
  | RUB -> "UB"

let parse_op op =
  match split_on ':' op with
  | ["il"; v] -> Some (AInsLast (z_of_string v))
  | ["if"; v] -> Some (AInsFirst (z_of_string v))
  | ["ia"; i; v] -> Some (AInsAt (nat_of_int (int_of_string i), z_of_string v))
  | ["rf"] -> Some ARemFirst
  | ["rl"] -> Some ARemLast
  | ["ra"; i] -> Some (ARemAt (nat_of_int (int_of_string i)))
  | ["at"; i] -> Some (AAt (nat_of_int (int_of_string i)))
  | ["first"] -> Some AFirst
  | ["last"] -> Some ALast
  | ["len"] -> Some ALen
  | ["ss"; n] -> Some (ASetSize (nat_of_int (int_of_string n)))
  | ["sort"] -> Some ASort
  | _ -> None

(* the C library's qsort with the harness' comparison of 8-byte integers: any sorting function
   will do, equal integers are indistinguishable *)
let qsort l = List.sort (fun a b -> compare (int_of_z a) (int_of_z b)) l

(* returns (model tokens, spec tokens, class) *)
let run_arr ops =
  let a = ref arr_create and spec = ref [] in
  let mt = ref [] and st = ref [] in
  let ub = ref false and nontriv = ref 0 in
  let drained = ref false and grown = ref 0 and enomem = ref 0 and sorted = ref false in
  let fin = List.mem "fin" ops in
  List.iter (fun op ->
    if op <> "" && op <> "fin" then
    (* "!op": the allocator refuses during this call (container-level C14) *)
    let refuse = op.[0] = '!' in
    let op = if refuse then String.sub op 1 (String.length op - 1) else op in
    match parse_op op with
    | None -> mt := "BADOP" :: !mt; st := "BADOP" :: !st
    | Some o ->
      let before = int_of_nat (arr_len !a) in
      let (a', r) = arr_step qsort (not refuse) !a o in
      (* reference: the list step; under a refusing allocator the only other admissible
         outcome (theorem C19_array_run_alloc_refines) is ARES_ENOMEM with the list unchanged,
         taken exactly when the model takes it *)
      let (l', r') = match aspec_step qsort !spec o, r with
        | (_, RStatus Z0), RStatus s when refuse && s = aRES_ENOMEM -> incr enomem; (!spec, r)
        | sr, _ -> sr in
      (match r with RUB -> ub := true | _ -> ());
      if int_of_nat (arr_len a') <> before then incr nontriv;
      (* the offset would reach alloc_cnt: the state that used to reject every later insert *)
      if before = 1 && int_of_nat (arr_len a') = 0 && int_of_nat (a_off !a) + 1 = List.length (a_cells !a) then drained := true;
      if List.length (a_cells a') > List.length (a_cells !a) then incr grown;
      (match o with ASort when before >= 2 -> sorted := true | _ -> ());
      a := a'; spec := l';
      mt := res_str r :: !mt; st := res_str r' :: !st) ops;
  let dump l = "dump=" ^ String.concat "," (List.map string_of_z l) in
  mt := dump (arr_abs !a) :: !mt; st := dump !spec :: !st;
  (* "fin" anywhere in the case: the array ends with ares_array_finish instead of destroy *)
  if fin then begin
    let f l = "fin=" ^ String.concat "," (List.map string_of_z l) in
    mt := (match arr_finish !a with Ok l -> f l | Err s -> "fin:" ^ string_of_z s | UB _ -> (ub := true; "fin:UB")) :: !mt;
    st := f !spec :: !st
  end;
  (String.concat " " (List.rev !mt), String.concat " " (List.rev !st),
   if !ub then "model-ub" else if !nontriv < 2 then "trivial"
   else "arr" ^ (if !drained then "-drained" else "") ^ (if !grown >= 3 then "-grow3" else "") ^ (if !enomem > 0 then "-enomem" else "") ^ (if !sorted then "-sort" else ""))

let () = Dsa_reg.register "arr" run_arr
