(* Array case kind of the container engine (C19): extracted model + extracted list spec. *)
open DsaModel
(*INCLUDE conv.inc*)

let status_str = function
  | Ok _ -> "0"
  | Err s -> string_of_z s
  | UB _ -> "UB"

(* returns (model tokens, spec tokens, class) *)
let run_arr ops =
  let a = ref arr_create in
  let spec = ref [] in
  let mt = ref [] and st = ref [] in
  let ub = ref false in
  let nontriv = ref 0 in
  let emit_m s = mt := s :: !mt and emit_s s = st := s :: !st in
  let opt_str = function None -> "N" | Some v -> string_of_z v in
  let ins idx v =
    (match arr_insertdata_at true !a (nat_of_int idx) (z_of_int v) with
     | Ok a' -> a := a'; emit_m "0"; incr nontriv
     | Err s -> emit_m (string_of_z s)
     | UB _ -> ub := true; emit_m "UB");
    (match spec_insert !spec (nat_of_int idx) (z_of_int v) with
     | Some l -> spec := l; emit_s "0"
     | None -> emit_s "2") in
  let rem idx =
    (match arr_remove_at !a (nat_of_int idx) with
     | Ok (a', v) -> a := a'; emit_m ("0:" ^ string_of_z v); incr nontriv
     | Err s -> emit_m (string_of_z s)
     | UB _ -> ub := true; emit_m "UB");
    (match spec_remove !spec (nat_of_int idx) with
     | Some (l, v) -> spec := l; emit_s ("0:" ^ string_of_z v)
     | None -> emit_s "2") in
  List.iter (fun op ->
    if op <> "" then
    match split_on ':' op with
    | ["il"; v] -> ins (int_of_nat (arr_len !a)) (int_of_string v)
    | ["if"; v] -> ins 0 (int_of_string v)
    | ["ia"; i; v] -> ins (int_of_string i) (int_of_string v)
    | ["rf"] -> rem 0
    | ["rl"] -> let n = int_of_nat (arr_len !a) in
      if n = 0 then (emit_m "2"; emit_s "2") else rem (n - 1)
    | ["ra"; i] -> rem (int_of_string i)
    | ["at"; i] -> emit_m (opt_str (arr_at !a (nat_of_int (int_of_string i))));
      emit_s (opt_str (nth_error !spec (nat_of_int (int_of_string i))))
    | ["first"] -> emit_m (opt_str (arr_at !a O)); emit_s (opt_str (nth_error !spec O))
    | ["last"] -> let n = int_of_nat (arr_len !a) in
      emit_m (if n = 0 then "N" else opt_str (arr_at !a (nat_of_int (n - 1))));
      let sn = List.length !spec in
      emit_s (if sn = 0 then "N" else opt_str (nth_error !spec (nat_of_int (sn - 1))))
    | ["len"] -> emit_m (string_of_int (int_of_nat (arr_len !a))); emit_s (string_of_int (List.length !spec))
    | _ -> emit_m "BADOP"; emit_s "BADOP") ops;
  let dump l = "dump=" ^ String.concat "," (List.map string_of_z l) in
  emit_m (dump (arr_abs !a)); emit_s (dump !spec);
  (String.concat " " (List.rev !mt), String.concat " " (List.rev !st),
   if !ub then "model-ub" else if !nontriv >= 2 then "arr" else "trivial")

let () = Dsa_reg.register "arr" run_arr
