(* Model-side driver of the end-to-end engine of C13 (channel simulator logs, harness/sim.h).

   For every request of a case (gai / ghbn / ghba / gni, run one after the other) it collects
   from the LOG: the names/types the library queried (TX), the answers the case scripted for
   them (OP rsp/rspall + RSP), and what the callback delivered (CB).  From the CASE it takes
   the configuration (lookups, hosts file).  Then
     DIFF  the extracted code-shaped model (coq/Legacy/Gai.v) predicts another status, node
           list (order only under ARES_AI_NOSORT), canonical name / aliases, or other queries
     FAIL  the extracted specification (spec_gai_nodes, spec_ptr, rfc_ptr4/6) rejects the
           delivered content: addr-invented, addr-dropped, addr-duplicated, wrong-port,
           wrong-ttl, wrong-family, ptr-name-wrong, ptr-targets-wrong *)
open GaiModel
(*INCLUDE conv.inc*)

let ztab = Array.init 256 z_of_int
let zb i = ztab.(i land 255)
let zs = string_of_z
let zi s = z_of_int (int_of_string s)
let bytes_of_string s = List.init (String.length s) (fun i -> zb (Char.code s.[i]))
let string_of_bytes l = String.concat "" (List.map (fun z -> String.make 1 (Char.chr (int_of_z z land 255))) l)
let hex_of_bytes l = String.concat "" (List.map (fun z -> Printf.sprintf "%02x" (int_of_z z land 255)) l)
let starts s p = String.length s >= String.length p && String.sub s 0 (String.length p) = p
exception Bad of string

(* ---------------- textual addresses (the driver's own inet_pton) ---------------- *)
let parse_v4 s =
  match String.split_on_char '.' s with
  | [a; b; c; d] ->
    let part x =
      if x = "" || String.length x > 3 || not (String.for_all (fun ch -> ch >= '0' && ch <= '9') x) then None
      else let v = int_of_string x in if v > 255 then None else Some v in
    (match part a, part b, part c, part d with
     | Some a, Some b, Some c, Some d -> Some (List.map zb [a; b; c; d])
     | _ -> None)
  | _ -> None

let parse_v6 s =
  let hexgroup g =
    if g = "" || String.length g > 4 || not (String.for_all (fun ch -> (ch >= '0' && ch <= '9') || (ch >= 'a' && ch <= 'f') || (ch >= 'A' && ch <= 'F')) g) then None
    else Some (int_of_string ("0x" ^ g)) in
  let groups str = if str = "" then Some [] else
      let l = String.split_on_char ':' str in
      let r = List.map hexgroup l in
      if List.exists (fun x -> x = None) r then None else Some (List.map (function Some v -> v | None -> 0) r) in
  let find_dc s =
    let n = String.length s in
    let rec go i = if i + 1 >= n then None else if s.[i] = ':' && s.[i + 1] = ':' then Some i else go (i + 1) in
    go 0 in
  if not (String.contains s ':') then None else
  let full =
    match find_dc s with
    | Some i ->
      let left = String.sub s 0 i and right = String.sub s (i + 2) (String.length s - i - 2) in
      if (match find_dc right with Some _ -> true | None -> false) || starts right ":" then None else
      (match groups left, groups right with
       | Some l, Some r when List.length l + List.length r <= 7 -> Some (l @ List.init (8 - List.length l - List.length r) (fun _ -> 0) @ r)
       | _ -> None)
    | None -> (match groups s with Some l when List.length l = 8 -> Some l | _ -> None) in
  match full with
  | Some l -> Some (List.concat_map (fun g -> [zb (g lsr 8); zb (g land 255)]) l)
  | None -> None

let parse_ip s = match parse_v4 s with Some a -> Some (4, a) | None -> (match parse_v6 s with Some a -> Some (6, a) | None -> None)
let fam_z f = if f = 4 then lEG_AF_INET else if f = 6 then lEG_AF_INET6 else lEG_AF_UNSPEC
let fam_i z = let v = int_of_z z in if v = int_of_z lEG_AF_INET then 4 else if v = int_of_z lEG_AF_INET6 then 6 else 0

(* ---------------- hosts file text -> lines (ares_parse_hosts tokenising) ---------------- *)
let is_hostname_char c = (c >= 'a' && c <= 'z') || (c >= 'A' && c <= 'Z') || (c >= '0' && c <= '9') || c = '-' || c = '.' || c = '_' || c = '/' || c = '*'
let tokens line =
  List.filter (fun t -> t <> "") (String.split_on_char ' ' (String.map (fun c -> if c = '\t' || c = '\r' || c = '\011' || c = '\012' then ' ' else c) line))
let read_hosts path =
  let lines = try read_lines path with _ -> [] in
  List.filter_map (fun line ->
    match tokens line with
    | [] -> None
    | ip :: rest ->
      if ip.[0] = '#' then None else
      (match parse_ip ip with
       | None -> None
       | Some (f, a) ->
         let rec names = function
           | [] -> []
           | t :: _ when t.[0] = '#' -> []
           | t :: r -> if String.length t < 256 && String.for_all is_hostname_char t then t :: names r else names r in
         (* a first host name longer than the buffer makes the library drop the line; not generated *)
         match names rest with
         | [] -> None
         | ns -> Some { hl_ip = (fam_z f, a); hl_hosts = List.map bytes_of_string ns })) lines

(* ---------------- rsp specs -> abstract answers ---------------- *)
let status_ENODATA = 1 and status_ESERVFAIL = 3 and status_ENOTFOUND = 4 and status_EREFUSED = 6 and status_ETIMEOUT = 12
let split_at_last_char c s = match String.rindex_opt s c with
  | Some i -> (String.sub s 0 i, Some (String.sub s (i + 1) (String.length s - i - 1))) | None -> (s, None)

(* RR = TYPE:rdata[:ttl][@owner] *)
let class_of_string c = match String.uppercase_ascii c with
  | "IN" -> 1 | "CH" | "CHAOS" -> 3 | "HS" | "HESIOD" -> 4 | "NONE" -> 254 | "ANY" -> 255
  | x -> (match int_of_string_opt x with Some v -> v | None -> raise (Bad ("class " ^ c)))
let find_sub s sub =
  let n = String.length s and m = String.length sub in
  let rec go i = if i + m > n then None else if String.sub s i m = sub then Some i else go (i + 1) in go 0

let rr_of_spec qname s =
  let (s, cls) = match find_sub s "@@" with
    | Some i -> (String.sub s 0 i, class_of_string (String.sub s (i + 2) (String.length s - i - 2)))
    | None -> (s, 1) in
  let (body, owner) = match String.index_opt s '@' with
    | Some i -> (String.sub s 0 i, String.sub s (i + 1) (String.length s - i - 1)) | None -> (s, qname) in
  let nodot n = if String.length n > 1 && n.[String.length n - 1] = '.' then String.sub n 0 (String.length n - 1) else n in
  let owner = nodot owner in
  let bytes_of_name n = bytes_of_string (nodot n) in
  let mk ttl d = { rr_name = bytes_of_string owner; rr_class = z_of_int cls; rr_ttl = z_of_int ttl; rr_data = d } in
  let colon = String.index body ':' in
  let typ = String.uppercase_ascii (String.sub body 0 colon) in
  let rest = String.sub body (colon + 1) (String.length body - colon - 1) in
  let num x = match int_of_string_opt x with Some v -> v | None -> raise (Bad ("ttl " ^ s)) in
  match typ with
  | "A" -> (match String.split_on_char ':' rest with
      | [a] -> (match parse_v4 a with Some b -> mk 300 (RD_A b) | None -> raise (Bad s))
      | [a; t] -> (match parse_v4 a with Some b -> mk (num t) (RD_A b) | None -> raise (Bad s))
      | _ -> raise (Bad s))
  | "AAAA" ->
    let (a, t) = if starts rest "[" then
        (let j = String.index rest ']' in
         (String.sub rest 1 (j - 1), if j + 1 < String.length rest then Some (String.sub rest (j + 2) (String.length rest - j - 2)) else None))
      else (match split_at_last_char ':' rest with (a, Some t) -> (a, Some t) | (a, None) -> (a, None)) in
    (match parse_v6 a with Some b -> mk (match t with Some t -> num t | None -> 300) (RD_AAAA b) | None -> raise (Bad s))
  | "CNAME" | "PTR" | "NS" ->
    let (n, ttl) = match String.split_on_char ':' rest with [n] -> (n, 300) | [n; t] -> (n, num t) | _ -> raise (Bad s) in
    mk ttl (match typ with "CNAME" -> RD_CNAME (bytes_of_name n) | "PTR" -> RD_PTR (bytes_of_name n) | _ -> RD_NS (bytes_of_name n))
  | "RAW" ->
    (match String.split_on_char ':' rest with
     | t :: hex :: more ->
       let ttl = match more with [x] -> num x | _ -> 300 in
       let b = List.init (String.length hex / 2) (fun i -> zb (int_of_string ("0x" ^ String.sub hex (2 * i) 2))) in
       (match int_of_string t, List.length b with
        | 1, 4 -> mk ttl (RD_A b)
        | 28, 16 -> mk ttl (RD_AAAA b)
        | tt, _ -> mk ttl (RD_OTHER (z_of_int tt)))
     | _ -> raise (Bad s))
  | "TXT" -> mk 300 (RD_OTHER (z_of_int 16))
  | "MX" -> mk 300 (RD_OTHER (z_of_int 15))
  | _ -> mk 300 (RD_OTHER (z_of_int 0))

(* outcome of a sub-query answered with this spec *)
let qres_of_spec qname qtype spec =
  let items = String.split_on_char ',' spec in
  let get k = List.find_map (fun it -> if starts it (k ^ "=") then Some (String.sub it (String.length k + 1) (String.length it - String.length k - 1)) else None) items in
  let rcode = match get "rcode" with None -> "NOERROR" | Some r -> String.uppercase_ascii r in
  match rcode with
  | "NXDOMAIN" | "3" -> QErr (z_of_int status_ENOTFOUND)
  | "SERVFAIL" | "2" -> QErr (z_of_int status_ESERVFAIL)
  | "REFUSED" | "5" -> QErr (z_of_int status_EREFUSED)
  | "NOERROR" | "0" ->
    (match get "an" with
     | None | Some "" -> QErr (z_of_int status_ENODATA)
     | Some an ->
       let rrs = List.map (rr_of_spec qname) (String.split_on_char '+' an) in
       QOk { r_rcode = z_of_int 0; r_questions = [{ q_name = bytes_of_string (if String.length qname > 1 && qname.[String.length qname - 1] = '.' then String.sub qname 0 (String.length qname - 1) else qname); q_type = z_of_int qtype; q_class = aRES_CLASS_IN }]; r_answers = rrs })
  | r -> raise (Bad ("rcode " ^ r))

(* a record served from the query cache: every TTL reduced by the seconds it sat there *)
let age_qres dec = function
  | QOk r -> QOk { r with r_answers = List.map (fun rr -> { rr with rr_ttl = z_of_int (max 0 (int_of_z rr.rr_ttl - dec)) }) r.r_answers }
  | q -> q
(* lifetime the cache gives an answer: min TTL over all records, capped; 0 = not cached *)
let cache_ttl maxttl = function
  | QOk r -> min maxttl (List.fold_left (fun a rr -> min a (int_of_z rr.rr_ttl)) max_int r.r_answers)
  | QErr st -> if int_of_z st = status_ENODATA then maxttl else 0      (* NOERROR without records; NXDOMAIN without SOA is not cached *)

(* ---------------- log structures ---------------- *)
type tx = { j : int; qname : string; qtype : int; mutable rsp : (int * string) option (* log position, spec *) }
type req = { tok : int; api : string; args : string list; pos : int; mutable txs : tx list; mutable cb : (int * string) option }

let kv toks key =
  let p = key ^ "=" in
  match List.find_opt (fun t -> starts t p) toks with
  | Some t -> String.sub t (String.length p) (String.length t - String.length p)
  | None -> raise (Bad ("missing " ^ key))

let split_list s =
  let n = String.length s in
  if n < 2 || s.[0] <> '[' || s.[n - 1] <> ']' then raise (Bad ("list " ^ s));
  let inner = String.sub s 1 (n - 2) in
  if inner = "" then [] else String.split_on_char ',' inner

let unesc s = if s = "-" then None else if s = "\"\"" then Some "" else Some s

(* delivered node "4:1.2.3.4:80:100" / "6:[2001:db8::1]:80:70[:st..]" -> (fam, bytes, port, ttl) *)
let parse_node s =
  if starts s "6:[" then begin
    let j = String.index s ']' in
    let a = String.sub s 3 (j - 3) in
    match String.split_on_char ':' (String.sub s (j + 2) (String.length s - j - 2)), parse_v6 a with
    | p :: t :: _, Some b -> (6, hex_of_bytes b, int_of_string p, int_of_string t)
    | _ -> raise (Bad ("node " ^ s))
  end else
    match String.split_on_char ':' s with
    | "4" :: a :: p :: t :: _ -> (match parse_v4 a with Some b -> (4, hex_of_bytes b, int_of_string p, int_of_string t) | None -> raise (Bad ("node " ^ s)))
    | _ -> raise (Bad ("node " ^ s))

let node_tuple nd = (fam_i nd.n_family, hex_of_bytes nd.n_addr, int_of_z nd.n_port, int_of_z nd.n_ttl)
let show_node (f, a, p, t) = Printf.sprintf "%d:%s:%d:%d" f a p t
let show_nodes l = "[" ^ String.concat "," (List.map show_node l) ^ "]"

(* ares_name_label_cnt: dots + 1, on the candidate string (which keeps a trailing dot) *)
let label_count name = 1 + List.length (List.filter (fun c -> c = '.') (List.init (String.length name) (String.get name)))

let () =
  let cases = read_lines Sys.argv.(1) in
  let impl = impl_table Sys.argv.(2) in
  List.iteri (fun k case ->
    let lines = Array.of_list (impl_lines impl k) in
    let monitor = Array.exists (fun l -> starts l "MONITOR") lines in
    let diff fmt = Printf.ksprintf (fun s -> Printf.printf "DIFF %d %s\n" k s) fmt in
    let fail kind fmt = Printf.ksprintf (fun s -> Printf.printf "FAIL %d %s %s\n" k kind s) fmt in
    let classes = ref [] in
    try
      let bar = String.index case '|' in
      let cfg = List.filter_map (fun t -> match String.index_opt t '=' with
          | Some i -> Some (String.sub t 0 i, String.sub t (i + 1) (String.length t - i - 1)) | None -> None)
          (String.split_on_char ' ' (String.sub case 0 bar)) in
      let cfgv key d = try List.assoc key cfg with Not_found -> d in
      let lookups = List.filter_map (fun c -> if c = 'b' then Some LB else if c = 'f' then Some LF else None)
          (List.init (String.length (cfgv "lookups" "b")) (String.get (cfgv "lookups" "b"))) in
      let hf = hosts_build (read_hosts (cfgv "hosts" "/dev/null")) in
      (* ---- pass over the log ---- *)
      let reqs = ref [] and lastop = ref "" and txtab = Hashtbl.create 16 and overlap = ref false and ambiguous = ref false in
      let now_ms = ref (int_of_string (cfgv "clock" "1000000")) in
      let time_at = Array.make (Array.length lines + 1) 0 in
      let nodot n = if String.length n > 1 && n.[String.length n - 1] = '.' then String.sub n 0 (String.length n - 1) else n in
      (* which pending request a transmission belongs to: the only pending one, or (requests in
         flight together) the one whose name / reverse-map name it asks for *)
      let claims r (t : tx) =
        match r.api with
        | "gai" | "ghbn" -> (t.qtype = 1 || t.qtype = 28) && String.lowercase_ascii (nodot t.qname) = String.lowercase_ascii (nodot (List.nth r.args 0))
        | _ -> t.qtype = 12 && (match parse_ip (List.nth r.args 0) with
            | Some (f, ab) -> String.lowercase_ascii t.qname = string_of_bytes (if f = 4 then rfc_ptr4 ab else rfc_ptr6 ab)
            | None -> false) in
      Array.iteri (fun pos l ->
        time_at.(pos) <- !now_ms;
        let toks = String.split_on_char ' ' l in
        match toks with
        | "OP" :: _ :: rest -> lastop := String.concat " " rest
        | "NOW" :: t :: _ -> (match String.split_on_char '.' t with ms :: _ -> now_ms := int_of_string ms | [] -> ())
        | "REQ" :: t :: api :: args ->
          if List.exists (fun r -> r.cb = None) !reqs then overlap := true;
          let r = { tok = int_of_string (String.sub t 1 (String.length t - 1)); api; args; pos; txs = []; cb = None } in
          reqs := r :: !reqs
        | "TX" :: x :: _ ->
          let j = int_of_string (String.sub x 1 (String.length x - 1)) in
          let t = { j; qname = kv toks "qname"; qtype = int_of_string (kv toks "qtype"); rsp = None } in
          Hashtbl.replace txtab j t;
          (match List.filter (fun r -> r.cb = None) (List.rev !reqs) with
           | [r] -> r.txs <- r.txs @ [t]
           | [] -> ambiguous := true
           | pend -> (match List.filter (fun r -> claims r t && not (List.exists (fun (u : tx) -> u.qtype = t.qtype) r.txs)) pend with
               | [r] -> r.txs <- r.txs @ [t]
               | _ -> ambiguous := true))
        | "RSP" :: x :: _ ->
          let j = int_of_string (String.sub x 1 (String.length x - 1)) in
          let spec = match String.split_on_char ' ' !lastop with
            | "rsp" :: _ :: s :: _ -> s | "rspall" :: s :: _ -> s | _ -> "" in
          if not (List.exists (fun t -> starts t "DROPPED") toks) then
            (match Hashtbl.find_opt txtab j with Some t when t.rsp = None -> t.rsp <- Some (pos, spec) | _ -> ())
        | "CB" :: t :: _ ->
          let tk = int_of_string (String.sub t 1 (String.length t - 1)) in
          (match List.find_opt (fun r -> r.tok = tk) !reqs with
           | Some r when r.cb = None -> r.cb <- Some (pos, l)
           | _ -> ())
        | _ -> ()) lines;
      let time_at pos = if pos >= 0 && pos < Array.length time_at then time_at.(pos) else !now_ms in
      let qcache = (try int_of_string (cfgv "qcachettl" "3600") with _ -> 3600) in
      let cache : (string * int, int * int * qres) Hashtbl.t = Hashtbl.create 8 in   (* (name, type) -> insert s, expire s, answer *)
      if !ambiguous then (Printf.printf "CASE %d trivial-ambiguous-overlap\n" k)
      else begin
      List.iter (fun r ->
        match r.cb with
        | None -> classes := "pending" :: !classes
        | Some (cbpos, cbl) ->
          let cbt = String.split_on_char ' ' cbl in
          let status = int_of_string (kv cbt "status") in
          (* sub-query outcomes; a transmission not answered before the callback timed out *)
          let outcome t = match t.rsp with
            | Some (p, spec) when p < cbpos -> (p, qres_of_spec t.qname t.qtype spec)
            | _ -> (max_int - 1000 + t.j, QErr (z_of_int status_ETIMEOUT)) in
          match r.api with
          (* ---------------------------------------------------------------- gai / ghbn *)
          | "gai" | "ghbn" ->
            let name = List.nth r.args 0 and family = int_of_string (List.nth r.args 1) in
            let flags = if r.api = "gai" then int_of_string (List.nth r.args 2) else 1 in
            let svc = if r.api = "gai" then (try List.nth r.args 3 with _ -> "-") else "-" in
            let port = if svc = "-" then Some 0 else
                (match int_of_string_opt svc with Some v when v >= 0 && v <= 65535 -> Some v | _ -> None) in
            let nq = if family = 0 then 2 else 1 in
            let rec group = function
              | [] -> []
              | l -> let rec take n l = if n = 0 then ([], l) else (match l with [] -> ([], []) | x :: t -> let (a, b) = take (n - 1) t in (x :: a, b)) in
                let (g, rest) = take nq l in g :: group rest in
            let rounds = List.map (fun g ->
                let os = List.stable_sort (fun (p1, _) (p2, _) -> compare p1 p2) (List.map outcome g) in
                { r_arrivals = List.map snd os;
                  r_single_label = (match g with
                      | t :: _ ->
                        (* the candidate that is the name itself keeps the caller's trailing dot *)
                        let cand = if String.length name > 0 && name.[String.length name - 1] = '.'
                                      && String.lowercase_ascii (String.sub name 0 (String.length name - 1)) = String.lowercase_ascii t.qname
                          then name else t.qname in
                        label_count cand = 1
                      | [] -> false) }) (group r.txs) in
            (* query cache on (cases without search domains: the only candidate is the name itself):
               a sub-query that was not transmitted is answered from the cache, TTLs aged *)
            let lname = String.lowercase_ascii (nodot name) in
            let rounds =
              if qcache <= 0 then rounds else begin
                let req_sec = time_at r.pos / 1000 in
                let arr = List.filter_map (fun ty ->
                    match List.find_opt (fun (t : tx) -> t.qtype = ty) r.txs with
                    | Some t -> Some (outcome t)
                    | None -> (match Hashtbl.find_opt cache (lname, ty) with
                        | Some (ins, exp, q) when exp > req_sec -> Some (r.pos, age_qres (req_sec - ins) q)
                        | _ -> None)) (if family = 0 then [1; 28] else if family = 4 then [1] else [28]) in
                if arr = [] then [] else
                  [{ r_arrivals = List.map snd (List.stable_sort (fun (p1, _) (p2, _) -> compare p1 p2) arr);
                     r_single_label = label_count name = 1 }]
              end in
            if qcache > 0 then
              List.iter (fun (t : tx) -> match t.rsp with
                  | Some (p, spec) when p < cbpos ->
                    let q = qres_of_spec t.qname t.qtype spec in
                    let ttl = cache_ttl qcache q in
                    if ttl > 0 then Hashtbl.replace cache (String.lowercase_ascii (nodot t.qname), t.qtype) (time_at p / 1000, time_at p / 1000 + ttl, q)
                  | _ -> ()) r.txs;
            let nm = bytes_of_string name in
            (* IPv4 literals are decided by the model's own parser (inet_pton4); IPv6 by the driver's *)
            let p4 = (if String.for_all (fun c -> (c >= '0' && c <= '9') || c = '.') name
                         && List.length (String.split_on_char '.' name) = 4 then inet_pton4 nm else None)
            and p6 = parse_v6 name in
            let fz = fam_z family in
            let src = if p4 <> None || p6 <> None then "literal" else if is_localhost nm then "localhost"
              else if qcache > 0 && List.length r.txs < nq && rounds <> [] then "cachehit"
              else if r.txs = [] then "nodns" else Printf.sprintf "dns%d" (min 3 (List.length rounds)) in
            classes := Printf.sprintf "%s:f%d:%s:%s%s" r.api family src (if status = 0 then "ok" else "err") (if !overlap then ":overlap" else "") :: !classes;
            (* a name the query layer cannot encode fails every sub-query at once with EBADNAME
               (nothing is transmitted): one synthetic round *)
            let names_status = 0 in
            let bad_label = name <> "" && (name.[0] = '.' || find_sub name ".." <> None) in
            let rounds = if r.txs = [] && (bad_label || not (String.for_all is_hostname_char name))
              then [{ r_arrivals = List.init nq (fun _ -> QErr (z_of_int 8)); r_single_label = false }] else rounds in
            let m = getaddrinfo_c hf lookups nm fz (match port with Some p -> Some (z_of_int p) | None -> None) (z_of_int flags) p6 (z_of_int names_status) rounds in
            let nosort = flags land 0x80 <> 0 in
            (match m with
             | Err s -> diff "t%d model=Err %s (history shorter than the request?) impl=[%s]" r.tok (zs s) cbl
             | UB _ -> diff "t%d model=UB impl=[%s]" r.tok cbl
             | Ok (mst, mai) ->
               if int_of_z mst <> status then diff "t%d status model=%s impl=%d: %s" r.tok (zs mst) status cbl
               else if r.api = "gai" then begin
                 match mai with
                 | None -> if not (List.mem "ai=-" cbt) then diff "t%d model: no addrinfo, impl=[%s]" r.tok cbl
                 | Some a ->
                   if List.mem "ai=-" cbt then diff "t%d model: addrinfo, impl=[%s]" r.tok cbl else begin
                     let got = List.map parse_node (split_list (kv cbt "nodes")) in
                     let want = List.map node_tuple a.ai_nodes in
                     let strip (f, ad, p, t) = (f, ad, p, t) in
                     let got = List.map strip got in
                     if nosort then (if got <> want then diff "t%d nodes model=%s impl=%s" r.tok (show_nodes want) (show_nodes got))
                     else if List.sort compare got <> List.sort compare want then diff "t%d nodes(multiset) model=%s impl=%s" r.tok (show_nodes want) (show_nodes got);
                     let mname = match a.ai_name with None -> "-" | Some n -> string_of_bytes n in
                     if kv cbt "name" <> mname then diff "t%d name model=%s impl=%s" r.tok mname (kv cbt "name");
                     let mcn = List.map (fun c -> Printf.sprintf "%s>%s:%s"
                                            (match c.c_alias with None -> "-" | Some x -> string_of_bytes x)
                                            (match c.c_name with None -> "-" | Some x -> string_of_bytes x) (zs c.c_ttl)) a.ai_cnames in
                     if split_list (kv cbt "cnames") <> mcn then diff "t%d cnames model=[%s] impl=%s" r.tok (String.concat "," mcn) (kv cbt "cnames")
                   end
               end else begin
                 (* the RFC 6724 sort (not modelled) decides which family leads the list and
                    therefore h_addrtype: put a node of the delivered family first *)
                 let mai = match mai with
                   | Some a when not (List.mem "host=-" cbt) ->
                     let at = (try int_of_string (kv cbt "addrtype") with _ -> 0) in
                     let (x, y) = List.partition (fun nd -> fam_i nd.n_family = at) a.ai_nodes in
                     Some { a with ai_nodes = x @ y }
                   | o -> o in
                 match ghbn_callback mst mai with
                 | Ok (hst, hv) ->
                   (* ghbn status is recomputed by its callback *)
                   ignore hst;
                   (match hv with
                    | Some v when not (List.mem "host=-" cbt) ->
                      let mname = match v.hv_name with None -> "-" | Some n -> string_of_bytes n in
                      if kv cbt "name" <> mname then diff "t%d ghbn name model=%s impl=%s" r.tok mname (kv cbt "name");
                      if split_list (kv cbt "aliases") <> List.map string_of_bytes v.hv_aliases then diff "t%d ghbn aliases model=[%s] impl=%s" r.tok (String.concat "," (List.map string_of_bytes v.hv_aliases)) (kv cbt "aliases");
                      if int_of_string (kv cbt "addrtype") <> fam_i v.hv_addrtype then diff "t%d ghbn addrtype model=%d impl=%s" r.tok (fam_i v.hv_addrtype) (kv cbt "addrtype");
                      let got = List.sort compare (List.map (fun a -> match parse_ip a with Some (_, b) -> hex_of_bytes b | None -> a) (split_list (kv cbt "addrs"))) in
                      let want = List.sort compare (List.map hex_of_bytes v.hv_addrs) in
                      if got <> want then diff "t%d ghbn addrs model=[%s] impl=[%s]" r.tok (String.concat "," want) (String.concat "," got)
                    | Some _ -> diff "t%d ghbn model: hostent, impl=[%s]" r.tok cbl
                    | None -> if not (List.mem "host=-" cbt) then diff "t%d ghbn model: no hostent, impl=[%s]" r.tok cbl)
                 | _ -> diff "t%d ghbn model UB" r.tok
               end);
            (* ---- oracle: delivered content vs the specification ---- *)
            if status = 0 then begin
              match port with
              | None -> fail "addr-invented" "t%d success although the service is not a port: %s" r.tok cbl
              | Some p ->
                let spec = List.map node_tuple (spec_gai_nodes_c hf lookups nm fz (z_of_int p) p6 rounds) in
                let delivered =
                  if r.api = "gai" then (if List.mem "ai=-" cbt then [] else List.map parse_node (split_list (kv cbt "nodes")))
                  else if List.mem "host=-" cbt then []
                  else begin
                    let at = int_of_string (kv cbt "addrtype") in
                    List.map (fun a -> match parse_ip a with Some (f, b) -> ((if f = at then f else -f), hex_of_bytes b, 0, 0) | None -> raise (Bad a)) (split_list (kv cbt "addrs"))
                  end in
                (* a hostent shows one family, no port, no ttl *)
                let spec = if r.api = "gai" then spec else begin
                    let at = (match delivered with (f, _, _, _) :: _ -> abs f | [] -> 0) in
                    List.filter_map (fun (f, a, _, _) -> if f = at then Some (f, a, 0, 0) else None) spec
                  end in
                let key (f, a, _, _) = (f, a) in
                List.iter (fun ((f, a, p', t') as d) ->
                  if family <> 0 && abs f <> family then
                    fail (if p4 <> None || p6 <> None then "wrong-family-literal" else "wrong-family") "t%d node %s although family %d was requested: %s" r.tok (show_node d) family cbl
                  else if f < 0 then fail "wrong-family" "t%d hostent address %s does not match h_addrtype: %s" r.tok a cbl
                  else match List.filter (fun e -> key e = key d) spec with
                    | [] ->
                      if List.exists (fun (_, a2, _, _) -> a2 = a) spec then fail "wrong-family" "t%d %s: %s" r.tok (show_node d) cbl
                      else fail "addr-invented" "t%d node %s is in no accepted answer / source (spec %s): %s" r.tok (show_node d) (show_nodes spec) cbl
                    | es ->
                      if not (List.exists (fun (_, _, p2, _) -> p2 = p') es) then fail "wrong-port" "t%d node %s, spec %s" r.tok (show_node d) (show_nodes es)
                      else if not (List.exists (fun (_, _, p2, t2) -> p2 = p' && t2 = t') es) then fail "wrong-ttl" "t%d node %s, spec %s" r.tok (show_node d) (show_nodes es)
                      else begin
                        let nd = List.length (List.filter (fun e -> e = d) delivered) and ns = List.length (List.filter (fun e -> e = d) spec) in
                        if nd > ns then fail "addr-duplicated" "t%d node %s delivered %d times, answers carry it %d times: %s" r.tok (show_node d) nd ns cbl
                      end) (List.sort_uniq compare delivered);
                List.iter (fun e ->
                  let nd = List.length (List.filter (fun d -> key d = key e) delivered) and ns = List.length (List.filter (fun d -> key d = key e) spec) in
                  if nd < ns then fail "addr-dropped" "t%d %s carried %d times by the winning source, delivered %d times: %s" r.tok (show_node e) ns nd cbl)
                  (List.sort_uniq compare spec)
            end
          (* ---------------------------------------------------------------- ghba / gni *)
          | "ghba" | "gni" ->
            let addr = List.nth r.args 0 in
            (match parse_ip addr with
             | None -> classes := "trivial-badaddr" :: !classes
             | Some (f, ab) ->
               let fz = fam_z f in
               let want_name = string_of_bytes (if f = 4 then rfc_ptr4 ab else rfc_ptr6 ab) in
               List.iter (fun t ->
                 if t.qtype <> 12 || String.lowercase_ascii t.qname <> want_name then
                   fail "ptr-name-wrong" "t%d queried %s type %d for %s, reverse-map name is %s" r.tok t.qname t.qtype addr want_name) r.txs;
               let answers = List.map (fun t -> snd (outcome t)) r.txs in
               classes := Printf.sprintf "%s:v%d:%s:%s" r.api f (if r.txs = [] then "nodns" else "dns") (if status = 0 then "ok" else "err") :: !classes;
               (match gethostbyaddr hf lookups fz ab answers with
                | Ok ((queried, mst), hv) ->
                  if List.length queried <> List.length r.txs then diff "t%d model queries %d names, impl sent %d" r.tok (List.length queried) (List.length r.txs);
                  if r.api = "ghba" then begin
                    if int_of_z mst <> status then diff "t%d ghba status model=%s impl=%d: %s" r.tok (zs mst) status cbl
                    else (match hv with
                        | Some v when status = 0 ->
                          let mname = match v.hv_name with None -> "-" | Some n -> string_of_bytes n in
                          let e = Printf.sprintf "name=%s aliases=[%s] addrtype=%d" mname (String.concat "," (List.map string_of_bytes v.hv_aliases)) (fam_i v.hv_addrtype) in
                          let g = Printf.sprintf "name=%s aliases=%s addrtype=%s" (kv cbt "name") (kv cbt "aliases") (kv cbt "addrtype") in
                          if e <> g then diff "t%d ghba model=[%s] impl=[%s]" r.tok e g;
                          let got = List.map (fun a -> match parse_ip a with Some (_, b) -> hex_of_bytes b | None -> a) (split_list (kv cbt "addrs")) in
                          if got <> List.map hex_of_bytes v.hv_addrs then diff "t%d ghba addrs model=[%s] impl=%s" r.tok (String.concat "," (List.map hex_of_bytes v.hv_addrs)) (kv cbt "addrs")
                        | _ -> ())
                  end else if status = 0 && int_of_z mst = 0 then begin
                    match hv with
                    | Some v -> let mname = match v.hv_name with None -> "-" | Some n -> string_of_bytes n in
                      if kv cbt "node" <> mname then diff "t%d gni node model=%s impl=%s" r.tok mname (kv cbt "node")
                    | None -> ()
                  end
                | _ -> diff "t%d ghba model UB/Err: %s" r.tok cbl);
               (* oracle: the names are the PTR targets of the accepted answer *)
               if status = 0 && r.api = "ghba" then begin
                 match List.rev answers with
                 | QOk rec_ :: _ ->
                   let (_, hv) = spec_ptr rec_ (Some ab) (z_of_int (List.length ab)) fz in
                   (match hv with
                    | VHost v ->
                      let e = Printf.sprintf "name=%s aliases=[%s]" (match v.hv_name with None -> "-" | Some n -> string_of_bytes n) (String.concat "," (List.map string_of_bytes v.hv_aliases)) in
                      let g = Printf.sprintf "name=%s aliases=%s" (kv cbt "name") (kv cbt "aliases") in
                      if e <> g then fail "ptr-targets-wrong" "t%d spec=[%s] impl=[%s]" r.tok e g
                    | _ -> fail "ptr-targets-wrong" "t%d success although the answer has no PTR record: %s" r.tok cbl)
                 | _ -> ()
               end)
          | _ -> classes := "trivial-otherapi" :: !classes) (List.rev !reqs);
      let cls = match List.rev !classes with [] -> "trivial-norequest" | l -> String.concat "+" l in
      Printf.printf "CASE %d %s\n" k (if List.for_all (fun c -> c = "pending" || starts c "trivial") (List.rev !classes) then "trivial-" ^ cls else cls)
      end
    with
    | Bad s -> Printf.printf "CASE %d trivial-bad\nDIFF %d cannot read case/log: %s\n" k k s
    | Failure s -> Printf.printf "CASE %d trivial-bad\nDIFF %d cannot read case/log: %s\n" k k s
    | Invalid_argument s -> Printf.printf "CASE %d trivial-bad\nDIFF %d cannot read case/log: %s\n" k k s
    | Not_found -> if monitor then Printf.printf "CASE %d trivial-monitor\n" k else Printf.printf "CASE %d trivial-bad\nDIFF %d cannot read case/log (missing token)\n" k k) cases
