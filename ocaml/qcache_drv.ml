(* Model-side driver for the query cache engine (C08): extracted model step by step (DIFF against
   harness/qcache_drv.c) and the extracted history checker QCacheSpec.hit_ok on every hit the
   IMPLEMENTATION reports (FAIL). *)
open QCacheModel
(*INCLUDE conv.inc*)

let field step key =
  let toks = split_on ' ' step in
  let kl = String.length key + 1 in
  List.fold_left (fun acc t ->
    match acc with Some _ -> acc | None ->
      if String.length t >= kl && String.sub t 0 kl = key ^ "=" then Some (String.sub t kl (String.length t - kl)) else None) None toks

let types = [ ("A", 1); ("NS", 2); ("CNAME", 5); ("SOA", 6); ("TXT", 16); ("SIG", 24); ("AAAA", 28); ("OPT", 41) ]
let type_name n = try fst (List.find (fun (_, v) -> v = n) types) with Not_found -> "T" ^ string_of_int n

let bytes_of_string s = List.init (String.length s) (fun i -> z_of_int (Char.code s.[i]))

let parse_req spec =
  match split_on '/' spec with
  | [opc; fl; qs] ->
    (match int_of_string_opt opc with
     | None -> None
     | Some o ->
       let bit c v = if String.contains fl c then v else 0 in
       let flags = bit 'r' (int_of_z aRES_FLAG_RD) lor bit 'c' (int_of_z aRES_FLAG_CD) lor bit 'a' 32 in
       let qlist = if qs = "-" then Some [] else
           List.fold_right (fun q acc -> match acc with None -> None | Some l ->
             (match split_on ':' q with
              | [t; c; n] -> (match int_of_string_opt t, int_of_string_opt c with
                  | Some t, Some c -> Some ({ qn_type = z_of_int t; qn_class = z_of_int c; qn_name = bytes_of_string (if n = "@" then "" else n) } :: l)
                  | _ -> None)
              | _ -> None)) (split_on '+' qs) (Some []) in
       (match qlist with Some l -> Some { rq_opcode = z_of_int o; rq_flags = z_of_int flags; rq_qs = l } | None -> None))
  | _ -> None

let parse_rrs spec =
  if spec = "-" then Some ([], [], []) else
    List.fold_left (fun acc r -> match acc with None -> None | Some (an, ns, ar) ->
      if String.length r < 2 then None else
        let sect = r.[0] in
        (match split_on ':' (String.sub r 1 (String.length r - 1)) with
         | ty :: ttl :: rest ->
           (match (try Some (List.assoc ty types) with Not_found -> None), int_of_string_opt ttl with
            | Some tn, Some ttl ->
              let mn = (match rest with [m] -> (match int_of_string_opt m with Some m -> m | None -> 0) | _ -> 0) in
              let rr = { rr_type = z_of_int tn; rr_ttl = z_of_int (if tn = 41 then 0 else ttl); rr_soa_min = z_of_int mn } in
              (match sect with
               | 'n' -> Some (an @ [rr], ns, ar) | 'a' -> Some (an, ns @ [rr], ar) | 'd' -> Some (an, ns, ar @ [rr]) | _ -> None)
            | _ -> None)
         | _ -> None)) (Some ([], [], [])) (split_on ',' spec)

type pop = PBad | PBadRec | POp of op | PServers of int | PReinit | PSet of (string * int * int) list

let parse_op step =
  let starts p = String.length step >= String.length p && String.sub step 0 (String.length p) = p in
  if starts "ins " then
    (match field step "t", field step "req", field step "rc", field step "tc", field step "id", field step "rr" with
     | Some t, Some rq, Some rc, Some tc, Some id, Some rr ->
       (match int_of_string_opt t, parse_req rq, int_of_string_opt rc, int_of_string_opt tc, int_of_string_opt id, parse_rrs rr with
        | Some t, Some rq, Some rc, Some tc, Some id, Some (an, ns, ar) ->
          POp (OIns (z_of_int t, rq, { rs_id = z_of_int id; rs_rcode = z_of_int rc; rs_tc = (tc <> 0); rs_an = an; rs_ns = ns; rs_ar = ar }))
        | Some _, _, Some _, Some _, Some _, _ -> PBadRec
        | _ -> PBad)
     | _ -> PBad)
  else if starts "fetch " then
    (match field step "t", field step "req" with
     | Some t, Some rq -> (match int_of_string_opt t, parse_req rq with Some t, Some rq -> POp (OFetch (z_of_int t, rq)) | Some _, None -> PBadRec | _ -> PBad)
     | _ -> PBad)
  else if step = "flush" then POp OFlush
  else if starts "servers " && String.length step = 9 && step.[8] >= 'A' && step.[8] <= 'C' then PServers (Char.code step.[8] - 65)
  else if step = "reinit" then PReinit
  else if starts "set " then
    (match field step "api", field step "list" with
     | Some api, Some l ->
       let items = if l = "-" then [] else split_on ',' l in
       (try
          PSet (List.map (fun it ->
            if api = "nodes" then (it, 0, 0)
            else if api = "pnodes" then (match split_on '/' it with [a; u; t] -> (a, int_of_string u, int_of_string t) | _ -> failwith "x")
            else if String.length it > 0 && it.[0] = '[' then
              (match String.index_opt it ']' with
               | Some j -> let a = String.sub it 1 (j - 1) in
                 let rest = String.sub it (j + 1) (String.length it - j - 1) in
                 if rest = "" then (a, 0, 0) else let p = int_of_string (String.sub rest 1 (String.length rest - 1)) in (a, p, p)
               | None -> failwith "x")
            else (match split_on ':' it with [a] -> (a, 0, 0) | [a; p] -> (a, int_of_string p, int_of_string p) | _ -> failwith "x")) items)
        with _ -> PBad)
     | _ -> PBad)
  else PBad

(* addresses are abstract numbers in the model *)
let addr_tbl : (string, int) Hashtbl.t = Hashtbl.create 16
let addr_names : (int, string) Hashtbl.t = Hashtbl.create 16
let addr_id a = match Hashtbl.find_opt addr_tbl a with
  | Some n -> n
  | None -> let n = Hashtbl.length addr_tbl + 1 in Hashtbl.replace addr_tbl a n; Hashtbl.replace addr_names n a; n
let srv_str l =
  if l = [] then "srv=-" else
  "srv=" ^ String.concat "," (List.map (fun s -> let ((a, u), t) = s.s_key in
    Printf.sprintf "%s/%s/%s/%d" (try Hashtbl.find addr_names (int_of_z a) with Not_found -> "?") (string_of_z u) (string_of_z t) (int_of_nat s.s_idx)) (sort_idx l))

let ttl_str l = if l = [] then "-" else String.concat "," (List.map (fun (t, v) -> Printf.sprintf "%s:%s/%s" (type_name (int_of_z t)) (string_of_z v) (string_of_z v)) l)

(* implementation hit line -> (id, rc, tc, getter ttls, written ttls) *)
let parse_hit il =
  match field il "id", field il "rc", field il "tc", field il "ttl" with
  | Some id, Some rc, Some tc, Some ttl ->
    (try
       let items = if ttl = "-" then [] else split_on ',' ttl in
       let parsed = List.map (fun it -> match split_on ':' it with
           | [ty; v] -> (match split_on '/' v with
               | [g; w] -> (z_of_int (List.assoc ty types), z_of_string g, z_of_string w)
               | _ -> failwith "x")
           | _ -> failwith "x") items in
       Some (z_of_string id, z_of_string rc, tc <> "0", List.map (fun (t, g, _) -> (t, g)) parsed, List.map (fun (t, _, w) -> (t, w)) parsed)
     with _ -> None)
  | _ -> None

let () =
  let cases = read_lines Sys.argv.(1) in
  let impl = impl_table Sys.argv.(2) in
  let kinds_total = Hashtbl.create 16 in
  List.iteri (fun k line ->
    match String.index_opt line '|' with
    | None -> Printf.printf "CASE %d trivial-badcase\n" k
    | Some i ->
      let head = String.sub line 0 i in
      let maxttl = (match field head "max" with Some s -> (match int_of_string_opt s with Some n -> n | None -> 3600) | None -> 3600) in
      let steps = List.filter (fun s -> s <> "") (split_on ';' (String.sub line (i + 1) (String.length line - i - 1))) in
      let got = List.filter_map (fun l -> if String.length l > 2 && String.sub l 0 2 = "R " then Some (String.sub l 2 (String.length l - 2)) else None) (impl_lines impl k) in
      let monitor_seen = List.exists (fun l -> String.length l >= 7 && String.sub l 0 7 = "MONITOR") (impl_lines impl k) in
      let itbl = Hashtbl.create 16 in
      List.iter (fun l -> match String.index_opt l ' ' with
        | Some j -> (match int_of_string_opt (String.sub l 0 j) with Some n -> Hashtbl.replace itbl n (String.sub l (j + 1) (String.length l - j - 1)) | None -> ())
        | None -> ()) got;
      let c = ref (qc_create (z_of_int maxttl)) in
      let hist = ref [] in
      let cur = ref 0 in
      let hint key = (match field head key with Some s -> (match int_of_string_opt s with Some n -> n | None -> 0) | None -> 0) in
      let cu = z_of_int (hint "udp") and ct = z_of_int (hint "tcp") and primary = hint "primary" <> 0 in
      let sconf_of (a, u, t) = { sc_addr = z_of_int (addr_id a); sc_udp = z_of_int u; sc_tcp = z_of_int t } in
      let (srv0, _) = servers_update cu ct primary [] [sconf_of ("127.0.0.1", 0, 0)] in
      let srvs = ref srv0 in
      let seq = ref (spec_seq_after cu ct primary [sconf_of ("127.0.0.1", 0, 0)]) in
      let ub = ref false and diffs = ref [] and fails = ref [] in
      let n_hit = ref 0 and n_miss = ref 0 and n_ins = ref 0 and n_rej = ref 0 and n_flush = ref 0 and n_aged = ref 0 in
      let do_op ?(spec_flush = true) ?(model_flush = true) ?(suffix = "") idx step il o =
        (match (if o = OFlush && not model_flush then Ok (!c, RFlush) else qc_step !c o) with
         | Ok (c', r) ->
           c := c';
           let ml = (match r with
               | RIns st -> if int_of_z st = 0 then incr n_ins else incr n_rej; "I st=" ^ string_of_z st
               | RFetch None -> incr n_miss; "F st=4"
               | RFetch (Some (rs, dec)) ->
                 incr n_hit; if int_of_z dec > 0 then incr n_aged;
                 Printf.sprintf "F st=0 id=%s rc=%s tc=%d ttl=%s" (string_of_z rs.rs_id) (string_of_z rs.rs_rcode) (if rs.rs_tc then 1 else 0) (ttl_str (visible_ttls rs dec))
               | RFlush -> incr n_flush; "X" ^ suffix) in
           if ml <> il then diffs := Printf.sprintf "step %d (%s) model=[%s] impl=[%s]" idx step ml il :: !diffs
         | Err _ -> ub := true; diffs := Printf.sprintf "step %d model=Err" idx :: !diffs
         | UB _ -> ub := true; diffs := Printf.sprintf "step %d (%s) model=UB impl=[%s]" idx step il :: !diffs);
        (* the property's oracle on what the implementation reported *)
        (match o with
         | OFetch (t, rq) when String.length il >= 6 && String.sub il 0 6 = "F st=0" ->
           (match parse_hit il with
            | Some (id, rc, tc, gt, wt) ->
              let mk l = { h_id = id; h_rcode = rc; h_tc = tc; h_ttls = l } in
              let mx = z_of_int maxttl in
              if not (hit_ok_gen false mx !hist t rq (mk gt)) then
                fails := ("hit_not_justified", Printf.sprintf "step=%d [%s] impl=[%s]" idx step il) :: !fails
              else begin
                if not (hit_ok_gen true mx !hist t rq (mk gt)) then
                  fails := ("ttl_not_aged_getter", Printf.sprintf "step=%d [%s] impl=[%s]" idx step il) :: !fails;
                if not (hit_ok_gen true mx !hist t rq (mk wt)) then
                  fails := ("ttl_not_aged_written", Printf.sprintf "step=%d [%s] impl=[%s]" idx step il) :: !fails
              end
            | None -> fails := ("hit_unparsable", Printf.sprintf "step=%d impl=[%s]" idx il) :: !fails)
         | _ -> ());
        if not (o = OFlush && not spec_flush) then hist := o :: !hist in
      (match List.find_opt (fun l -> String.length l >= 5 && String.sub l 0 5 = "init ") got with
       | Some l -> let ml = "init " ^ srv_str !srvs in if l <> ml then diffs := Printf.sprintf "init model=[%s] impl=[%s]" ml l :: !diffs
       | None -> if not monitor_seen then diffs := "no init line" :: !diffs);
      List.iteri (fun idx step ->
        if not !ub then begin
          let il = (match Hashtbl.find_opt itbl idx with Some l -> l | None -> "<missing>") in
          match parse_op step with
          | PBad -> if il <> "BADOP" then diffs := Printf.sprintf "step %d model=[BADOP] impl=[%s]" idx il :: !diffs
          | PBadRec -> if il <> "BADREC" then diffs := Printf.sprintf "step %d model=[BADREC] impl=[%s]" idx il :: !diffs
          | POp o -> do_op idx step il o
          | PServers n ->
            if n <> !cur then begin cur := n; do_op idx step il OFlush end
            else if il <> "X" then diffs := Printf.sprintf "step %d model=[X] impl=[%s]" idx il :: !diffs
          | PReinit -> do_op idx step il OFlush
          | PSet items ->
            let nw = List.map sconf_of items in
            let (l', changed) = servers_update cu ct primary !srvs nw in
            srvs := l';
            let sq = spec_seq_after cu ct primary nw in
            let spec_changed = not (seq_eqb !seq sq) in
            seq := sq;
            do_op ~spec_flush:spec_changed ~model_flush:changed ~suffix:(" rc=0 " ^ srv_str l') idx step il OFlush
        end) steps;
      let cls =
        if !ub then "model-ub"
        else if !n_ins + !n_hit < 2 then (if !n_rej > 0 && maxttl = 0 then "qc-disabled" else "trivial")
        else Printf.sprintf "qc%s%s%s%s%s%s" (match field head "ek" with Some e -> "+edit:" ^ (List.hd (split_on '+' e)) | None -> "") (if !n_hit > 0 then "+hit" else "") (if !n_aged > 0 then "+aged" else "") (if !n_miss > 0 then "+miss" else "")
            (if !n_rej > 0 then "+rejected" else "") (if !n_flush > 0 then "+flush" else "") in
      Printf.printf "CASE %d %s\n" k cls;
      if not monitor_seen then begin
        (match List.rev !diffs with d :: _ -> Printf.printf "DIFF %d %s\n" k d | [] -> ());
        let seen = Hashtbl.create 4 in
        List.iter (fun (kind, d) ->
          if not (Hashtbl.mem seen kind) then begin
            Hashtbl.replace seen kind ();
            Hashtbl.replace kinds_total kind (1 + (try Hashtbl.find kinds_total kind with Not_found -> 0));
            Printf.printf "FAIL %d %s %s\n" k kind d
          end) (List.rev !fails)
      end) cases;
  Hashtbl.iter (fun kind n -> Printf.printf "STAT fail_%s %d\n" kind n) kinds_total
