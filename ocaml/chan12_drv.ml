(* Model-side driver of the C12 end-to-end engine "chan12": reads the channel simulator's log
   of one request per case (search / gai / ghbn), extracts the sequence of question names the
   virtual server saw and the status given to the callback, and judges them with the extracted
   specification (spec_candidates + spec_queried / spec_status over the scripted per-candidate
   outcomes) - FAIL - and compares them with the extracted code-shaped model (search_int,
   ai_run, ai2_run) - DIFF. *)
open SearchModel
(*INCLUDE conv.inc*)

let n_of_int i = if i <= 0 then N0 else Npos (pos_of_int i)
let int_of_n = function N0 -> 0 | Npos p -> int_of_pos p
let bytes_of_string s : n list = List.init (String.length s) (fun i -> n_of_int (Char.code s.[i]))
let string_of_bytes (b : n list) = String.concat "" (List.map (fun c -> String.make 1 (Char.chr (int_of_n c land 255))) b)
let starts_with p s = String.length s >= String.length p && String.sub s 0 (String.length p) = p
let words s = List.filter (fun w -> w <> "") (split_on ' ' s)
let kv w = match String.index_opt w '=' with
  | Some i -> Some (String.sub w 0 i, String.sub w (i + 1) (String.length w - i - 1)) | None -> None
let field ws key = List.fold_left (fun acc w -> match acc, kv w with
  | None, Some (k, v) when k = key -> Some v | _ -> acc) None ws

let wire_norm (s : string) =
  let n = String.length s in if n > 0 && s.[n - 1] = '.' then String.sub s 0 (n - 1) else s

let flag_bits = [("usevc", 1); ("primary", 2); ("igntc", 4); ("norecurse", 8); ("stayopen", 16); ("nosearch", 32);
                 ("noaliases", 64); ("nocheckresp", 128); ("edns", 256); ("nodfltsvr", 512); ("dns0x20", 1024)]

let status_of_letter = function
  | 'D' | 'C' -> 0 | 'N' -> 1 | 'X' -> 4 | 'S' -> 3 | 'R' -> 6 | 'F' -> 2 | 'T' -> 12 | _ -> 4
let ai_of_letter = function
  | 'D' -> { ao_status = z_of_int 0; ao_addr = true }
  | 'C' -> { ao_status = z_of_int 0; ao_addr = false }
  | l -> { ao_status = z_of_int (status_of_letter l); ao_addr = false }

let sendable (s : string) =
  let s = wire_norm s in
  let labels = split_on '.' s in
  s <> "" && String.length s <= 253 &&
  List.for_all (fun l -> let n = String.length l in n >= 1 && n <= 63 &&
    (let ok = ref true in String.iter (fun c -> if not ((c >= 'a' && c <= 'z') || (c >= 'A' && c <= 'Z') || (c >= '0' && c <= '9') || c = '-' || c = '_') then ok := false) l; !ok)) labels

let read_file path = try let ic = open_in_bin path in let n = in_channel_length ic in let s = really_input_string ic n in close_in ic; Some s with _ -> None

let mirror_tok t =
  if String.length t <> 3 || String.contains t 'T' then t
  else Printf.sprintf "%c%c%c" (if t.[0] = 'a' then 'b' else 'a') t.[2] t.[1]

let () =
  let cases = read_lines Sys.argv.(1) in
  let impl = impl_table Sys.argv.(2) in
  List.iteri (fun k line ->
    let lines = impl_lines impl k in
    let monitor = List.exists (starts_with "MONITOR") lines in
    match String.index_opt line '|' with
    | None -> Printf.printf "CASE %d trivial-badcase\n" k
    | Some bar ->
      let cfgw = words (String.sub line 0 bar) in
      let ops = List.map String.trim (split_on ';' (String.sub line (bar + 1) (String.length line - bar - 1))) in
      let script0 = List.fold_left (fun acc o -> if starts_with "note script=" o then split_on '/' (String.sub o 12 (String.length o - 12)) else acc) [] ops in
      let reqs = List.filter (fun o -> starts_with "search " o || starts_with "gai " o || starts_with "ghbn " o) ops in
      let flags = match field cfgw "flags" with
        | None -> 256
        | Some l -> List.fold_left (fun a f -> a lor (try List.assoc f flag_bits with Not_found -> (match int_of_string_opt f with Some n -> n | None -> 0))) 0 (split_on ',' l) in
      let ndots = match field cfgw "ndots" with Some n -> int_of_string n | None -> 1 in
      let doms = match field cfgw "domains" with Some "-" | None -> [] | Some l -> split_on ',' l in
      let env = match field cfgw "hostaliases" with
        | None -> None
        | Some p -> (match read_file p with Some s -> Some (Ok (bytes_of_string s)) | None -> Some (Err aRES_ENOTFOUND)) in
      let cfg = { c_flags = z_of_int flags; c_ndots = n_of_int ndots; c_domains = List.map bytes_of_string doms } in
      (* log lines of request number r (0-based): from its REQ line to the next REQ *)
      let split_by_req =
        let cur = ref (-1) in
        let tbl = Hashtbl.create 4 in
        List.iter (fun l -> if starts_with "REQ " l then incr cur; if !cur >= 0 then Hashtbl.add tbl !cur l) lines;
        fun r -> List.rev (Hashtbl.find_all tbl r) in
      (* evaluate one request; returns Some (summary of what the implementation did) when it was judged *)
      let eval r req script =
        let rw = words req in
        let api = List.nth rw 0 in
        let tokname = "t" ^ (match List.nth_opt rw 1 with Some t -> t | None -> "1") in
        let nm = (match List.nth_opt rw 2 with Some "-" -> "" | Some s -> s | None -> "") in
        let fam = if api = "search" then 4 else (match List.nth_opt rw 3 with Some f -> int_of_string f | None -> 0) in
        let unspec = api <> "search" && fam = 0 in
        let rlines = split_by_req r in
        let qn = bytes_of_string nm in
        let al = lookup_hostaliases cfg.c_flags qn env in
        let tok i = match List.nth_opt script i with Some t when t <> "" -> t | _ -> (if unspec then "aXX" else "X") in
        let o1 i = let t = tok (int_of_nat i) in ai_of_letter t.[0] in
        let o2 i = let t = tok (int_of_nat i) in
          if String.length t >= 3 then (ai_of_letter t.[1], ai_of_letter t.[2]) else (ai_of_letter 'X', ai_of_letter 'X') in
        let osearch i = let t = tok (int_of_nat i) in z_of_int (status_of_letter t.[0]) in
        let onion = is_onion_domain qn in
        let cands = match al with Ok a -> Some (spec_candidates cfg a qn) | _ -> None in
        (* specification *)
        let ospec c = if api = "search" then osearch
          else if unspec then (fun i -> let (f, l) = o2 i in ai_status (ai2_combine (cand_single c i) f l))
          else (fun i -> ai_status (o1 i)) in
        let spec = if onion then Some ([], aRES_ENOTFOUND)
          else match al, cands with
            | Ok _, Some c -> Some (spec_queried c (ospec c), spec_status c (ospec c))
            | Err s, _ -> Some ([], s)
            | _ -> None in
        (* code-shaped model, with and without the patches *)
        let model fixed =
          if api = "search" then (match search_int true cfg qn env osearch with Ok r -> Some r | _ -> None)
          else if onion then Some ([], aRES_ENOTFOUND)
          else (match search_name_list cfg qn env with
              | Err s -> Some ([], s)
              | Ok l -> (match strip_none l with
                  | Ok names -> (match (if unspec then ai2_run fixed names o2 else ai_run names o1) with Ok r -> Some r | _ -> None)
                  | _ -> None)
              | UB _ -> None) in
        let expand (sent, st) =
          let names = List.map (fun n -> wire_norm (string_of_bytes n)) sent in
          let qs = if unspec then List.concat_map (fun n -> [n ^ "/1"; n ^ "/28"]) names
            else List.map (fun n -> n ^ (if fam = 6 then "/28" else "/1")) names in
          Printf.sprintf "tx=[%s] status=%s" (String.concat "," qs) (string_of_z st) in
        let txs = List.filter_map (fun l -> if starts_with "TX " l then
                      (let w = words l in match field w "qname", field w "qtype" with
                        | Some q, Some t -> Some (wire_norm q ^ "/" ^ t) | _ -> None) else None) rlines in
        let cbs = List.filter (starts_with ("CB " ^ tokname ^ " ")) lines in
        let unsendable = (not onion) && (match cands with Some c -> List.exists (fun n -> not (sendable (string_of_bytes n))) c | None -> false) in
        let shape = match spec, cands with
          | Some (q, s), Some c when not onion ->
            let st = int_of_z s and nq = List.length q and n = List.length c in
            (if nq < n then (if st = 0 then "stop-data" else "stop-hard")
             else if st = 0 then "last-data" else if st = 1 then "exhaust-nodata" else if st = 4 then "exhaust-notfound"
             else if st = 3 || st = 6 then "last-servfail-refused" else "last-hard") ^ (if n = 1 then "-1cand" else "-ncand")
          | _ -> "no-query" in
        let apiname = if api = "search" then "search" else api ^ (string_of_int fam) in
        if unsendable then (if r = 0 then Printf.printf "CASE %d trivial-unsendable-candidate\n" k; None)
        else begin
          if r = 0 then Printf.printf "CASE %d %s-%s%s\n" k apiname shape (match al with Ok (Some _) -> "-alias" | _ -> "");
          match cbs with
          | [] -> if not monitor then Printf.printf "FAIL %d no-callback request %d: %s\n" k (r + 1) (String.concat " / " (List.filter (starts_with "ENDSTATE") lines)); None
          | cb :: rest ->
            let st = match field (words cb) "status" with Some s -> s | None -> "?" in
            let istr = Printf.sprintf "tx=[%s] status=%s" (String.concat "," txs) st in
            (match model true with
             | Some m -> if expand m <> istr then
                 Printf.printf "DIFF %d request %d model=[%s] impl=[%s]%s\n" k (r + 1) (expand m) istr
                   (match model false with Some p when expand p = istr -> " (= model of the code WITHOUT fixes/C12-gai-unspec-nodata.patch)" | _ -> "")
             | None -> Printf.printf "DIFF %d request %d: model has no result; impl=[%s]\n" k (r + 1) istr);
            (match spec with
             | Some s -> if expand s <> istr then Printf.printf "FAIL %d stop-rule request %d script=[%s] spec=[%s] impl=[%s]\n" k (r + 1) (String.concat "/" script) (expand s) istr
             | None -> ());
            if rest <> [] || List.exists (fun l -> starts_with "CB " l && (let n = String.length l in n >= 3 && String.sub l (n - 3) 3 = "DUP")) lines then
              Printf.printf "FAIL %d callback-count more than one callback for request %d\n" k (r + 1);
            Some istr
        end in
      (match reqs with
       | [] -> Printf.printf "CASE %d trivial-norequest\n" k
       | [r1] -> ignore (eval 0 r1 script0)
       | r1 :: r2 :: _ ->
         let a = eval 0 r1 script0 in
         let script1 = List.map mirror_tok script0 in
         let b = eval 1 r2 script1 in
         (match a, b with
          | Some x, Some y when x <> y ->
            Printf.printf "FAIL %d unspec-order the same answers in the opposite arrival order give a different result: script=[%s] -> [%s]; mirrored=[%s] -> [%s]\n"
              k (String.concat "/" script0) x (String.concat "/" script1) y
          | _ -> ()))) cases
