(* Hash-table case kind of the container engine (C19): extracted model of ares_htable.c
   (run with several hash functions) + extracted association-list specification.
   See harness/dsa_ht.c for the case and token format. *)
open HtableModel
(*INCLUDE conv.inc*)

type 'k cfg = {
  keq : 'k -> 'k -> bool;
  hashes : ('k -> z -> z) list;      (* head: the hash function the implementation runs with
                                        when [exact]; all must give the same observable tokens *)
  exact : bool;                       (* compare the unsorted iteration order as well *)
  kparse : string -> 'k;
  kprint : 'k -> string;
  npre : int;                         (* allocations of the typed wrapper before ares_htable_insert *)
  fmt_entry : string -> string -> string;          (* get result: key value -> token *)
  fmt_freed : string -> string -> string list;     (* what the free callbacks report *)
  iter : [ `All | `Keys | `Probe ];
  key_ok : 'k -> bool;                (* ares_htable_dict_insert rejects the empty key *)
  claim : bool;
  keys_requests : int;                (* fa:<n> is meaningful for n <= this (as: 1, dict: 2) *)
}

type 'k item =
  | IOp of ('k, z) ht_op * bool       (* operation, "failure injected" *)
  | IReject                           (* insert rejected by the wrapper before any work *)
  | IProbe of 'k list
  | IBad

let bytes_of_string s = List.init (String.length s) (fun i -> z_of_int (Char.code s.[i]))
let string_of_bytes l = String.concat "" (List.map (fun c -> String.make 1 (Char.chr (int_of_z c))) l)

(* impl "O" lines of the generic modes: case text -> (verdicts, order tokens) *)
let order_tbl : (string, string * string) Hashtbl.t Lazy.t = lazy (
  let t = Hashtbl.create 256 in
  (try
     List.iter (fun l ->
       match String.index_opt l ' ' with
       | None -> ()
       | Some i ->
         let rest = String.sub l (i + 1) (String.length l - i - 1) in
         if String.length rest > 2 && String.sub rest 0 2 = "O " then begin
           let body = String.sub rest 2 (String.length rest - 2) in
           match String.split_on_char '#' body with
           | [ops; v; o] -> Hashtbl.replace t ops (v, o)
           | _ -> ()
         end) (read_lines Sys.argv.(2))
   with _ -> ());
  t)

let oracle_failing n = List.init n (fun _ -> true) @ [false]

let run_cfg (cfg : 'k cfg) (casetext : string) (ops : string list) =
  (* the keys of the case, sorted as strings (for the probe) *)
  let keys = ref [] in
  List.iter (fun op ->
    match split_on ':' op with
    | [("g" | "r" | "c"); k] | ["i"; k; _] -> if not (List.mem k !keys) then keys := k :: !keys
    | ["fi"; _; k; _] -> if not (List.mem k !keys) then keys := k :: !keys
    | _ -> ()) ops;
  let keys = List.sort compare !keys in
  let probe = IProbe (List.map cfg.kparse keys) in
  let hash_dependent = ref false in
  let item op =
    try match split_on ':' op with
    | ["i"; k; v] ->
      let k' = cfg.kparse k in
      if not (cfg.key_ok k') then IReject
      else IOp (HtOpInsert (nat_of_int cfg.npre, [], k', z_of_string v), false)
    | ["fi"; n; k; v] ->
      let k' = cfg.kparse k in
      let n = int_of_string n in
      if n > cfg.npre then hash_dependent := true;
      if not (cfg.key_ok k') then IReject
      else IOp (HtOpInsert (nat_of_int cfg.npre, oracle_failing n, k', z_of_string v), true)
    | ["g"; k] -> IOp (HtOpGet (cfg.kparse k), false)
    | ["r"; k] -> IOp (HtOpRemove (cfg.kparse k), false)
    | ["c"; k] when cfg.claim -> IOp (HtOpClaim (cfg.kparse k), false)
    | ["n"] -> IOp (HtOpNumKeys, false)
    | ["a"] -> (match cfg.iter with `Probe -> probe | _ -> IOp (HtOpAll true, false))
    | ["fa"] -> (match cfg.iter with `All -> IOp (HtOpAll false, false) | _ -> IBad)
    | ["fa"; n] ->
      (* keys() of asvp / dict with one of its first requests refused: NULL *)
      let n = int_of_string n in
      (match cfg.iter with
       | `Keys when n >= 0 && n <= cfg.keys_requests -> IOp (HtOpAll false, false)
       | _ -> IBad)
    | _ -> IBad
    with _ -> IBad in
  let items = List.map item ops @ (match cfg.iter with `Probe -> [probe] | _ -> []) in
  let coq_ops = List.concat_map (function
    | IOp (o, _) -> [o]
    | IProbe ks -> List.map (fun k -> HtOpGet k) ks
    | IReject | IBad -> []) items in
  let pe (k, v) = cfg.fmt_entry (cfg.kprint k) (string_of_z v) in
  let pf (k, v) = cfg.fmt_freed (cfg.kprint k) (string_of_z v) in
  let freed_suffix = function
    | None -> ""
    | Some e -> String.concat "" (List.map (fun t -> "~" ^ t) (pf e)) in
  let bracket pre l = pre ^ "[" ^ String.concat "," l ^ "]" in
  (* tokens of a trace: (R tokens (sorted iteration), O tokens (unsorted), nontrivial count,
     max number of keys, some insert failed) *)
  let render (tr : ('k, z) ht_obs list) =
    let r = ref [] and o = ref [] in
    let nontriv = ref 0 and cnt = ref 0 and maxcnt = ref 0 and failed = ref false in
    let bump d = cnt := !cnt + d; if !cnt > !maxcnt then maxcnt := !cnt; incr nontriv in
    let tr = ref tr in
    let next () = match !tr with x :: t -> tr := t; Some x | [] -> None in
    let one_obs = function
      | Some (HtObsInsert HtInserted) -> bump 1; r := "i1" :: !r
      | Some (HtObsInsert (HtReplaced e)) -> incr nontriv; r := ("i1" ^ freed_suffix (Some e)) :: !r
      | Some (HtObsInsert HtFailed) -> failed := true; r := "i0" :: !r
      | Some (HtObsGet None) -> r := "N" :: !r
      | Some (HtObsGet (Some e)) -> r := pe e :: !r
      | Some (HtObsRemove None) -> r := "r0" :: !r
      | Some (HtObsRemove (Some e)) -> bump (-1); r := ("r1" ^ freed_suffix (Some e)) :: !r
      | Some (HtObsNum n) -> r := ("n" ^ string_of_int (int_of_nat n)) :: !r
      | Some (HtObsAll None) -> r := "aN" :: !r; o := "aN" :: !o
      | Some (HtObsAll (Some [])) when cfg.iter = `Keys ->
        (* the wrappers' keys() functions return NULL for an empty table *)
        r := "aN" :: !r; o := "aN" :: !o
      | Some (HtObsAll (Some l)) ->
        let toks = (match cfg.iter with `Keys -> List.map (fun (k, _) -> cfg.kprint k) l | _ -> List.map pe l) in
        r := bracket "a" (List.sort compare toks) :: !r; o := bracket "a" toks :: !o
      | Some (HtObsClaim (None, _)) -> r := "cN" :: !r
      | Some (HtObsClaim (Some (_, v), fr)) -> bump (-1); r := ("c" ^ string_of_z v ^ freed_suffix fr) :: !r
      | Some (HtObsDestroy _) | None -> r := "TRACE-SHORT" :: !r in
    List.iter (function
      | IOp _ -> one_obs (next ())
      | IReject -> r := "i0" :: !r
      | IBad -> r := "BADOP" :: !r
      | IProbe ks ->
        let toks = List.map (fun k ->
          match next () with
          | Some (HtObsGet None) -> cfg.kprint k ^ "=N"
          | Some (HtObsGet (Some (_, v))) -> cfg.kprint k ^ "=" ^ string_of_z v
          | _ -> "TRACE-SHORT") ks in
        r := bracket "p" toks :: !r) items;
    (match next () with
     | Some (HtObsDestroy l) ->
       let toks = List.concat_map pf l in
       r := bracket "D" (List.sort compare toks) :: !r; o := bracket "D" toks :: !o
     | _ -> r := "TRACE-BAD-END" :: !r);
    (String.concat " " (List.rev !r), String.concat " " (List.rev !o), !nontriv, !maxcnt, !failed) in
  let run_with h =
    match ht_run_model cfg.keq h Z0 (z_of_int 12345) coq_ops with
    | Ok tr -> `Tr tr
    | Err s -> `Bad ("ERR" ^ string_of_z s)
    | UB _ -> `Bad "UB" in
  let ub = ref false in
  let first = run_with (List.hd cfg.hashes) in
  let (m_line, m_order, nontriv, maxcnt, failed, verdicts_model) =
    match first with
    | `Bad s -> ub := true; (s, "", 0, 0, false, [])
    | `Tr tr -> let (r, o, n, mx, f) = render tr in (r, o, n, mx, f, List.map ht_obs_ok tr) in
  (* the other hash functions must give the same observable tokens *)
  let m_line = ref m_line in
  if not !hash_dependent then
    List.iteri (fun i h ->
      if i > 0 then
        match run_with h with
        | `Bad s -> ub := true; m_line := !m_line ^ " HASHDEP#" ^ string_of_int i ^ "=" ^ s
        | `Tr tr -> let (r, _, _, _, _) = render tr in
          if r <> (match first with `Tr t -> let (r0, _, _, _, _) = render t in r0 | `Bad s -> s) then
            m_line := !m_line ^ " HASHDEP#" ^ string_of_int i ^ "=[" ^ r ^ "]") cfg.hashes;
  (* exact iteration order and injected-failure verdicts of the implementation *)
  let impl_verdicts = ref None in
  if cfg.exact then begin
    match Hashtbl.find_opt (Lazy.force order_tbl) casetext with
    | None -> ()
    | Some (v, o) ->
      let o = String.trim o in
      if o <> m_order then m_line := !m_line ^ " ORDER-DIFF model=[" ^ m_order ^ "] impl=[" ^ o ^ "]";
      impl_verdicts := Some v
  end;
  (* verdicts for the specification run: one per model operation; an insert without injected
     failure must succeed; for an injected failure the allocator's verdict is read off the
     implementation (generic modes) or the model *)
  let inj = List.concat_map (function
    | IOp (_, b) -> [b]
    | IProbe ks -> List.map (fun _ -> false) ks
    | _ -> []) items in
  let ninj = List.length (List.filter (fun b -> b) inj) in
  let impl_v = match !impl_verdicts with
    | Some v when String.length v = ninj -> Some v
    | _ -> None in
  let verdicts =
    let j = ref 0 in
    List.mapi (fun i b ->
      if not b then true
      else begin
        let r = (match impl_v with
          | Some v -> v.[!j] = '1'
          | None -> (match List.nth_opt verdicts_model i with Some x -> x | None -> true)) in
        incr j; r
      end) inj in
  let (s_line, _, _, _, _) = render (ht_run_spec cfg.keq Z0 coq_ops verdicts) in
  ignore m_order;
  (!m_line, s_line, nontriv, maxcnt, failed, !ub)

let id_key s = s
let zk = z_of_string
let mask32 x = x land 0xFFFFFFFF

(* mode fnv: the modelled hash functions against the library's (correspondence only: the
   specification says nothing about hash values, so the spec line is the model line) *)
let run_fnv ops =
  let toks = List.map (fun op ->
    match split_on ':' op with
    | ["h"; seed; s] ->
      (try
         let sd = z_of_int (int_of_string seed) and b = bytes_of_string s in
         string_of_z (ht_fnv1a b sd) ^ "/" ^ string_of_z (ht_fnv1a_casecmp b sd)
       with _ -> "BADOP")
    | _ -> "BADOP") (List.filter (fun o -> o <> "") ops) in
  let l = String.concat " " toks in
  (l, l, if List.length toks >= 2 then "ht-fnv" else "trivial")

let run ops =
  match ops with
  | [] -> ("BADMODE", "BADMODE", "trivial-badmode")
  | "fnv" :: rest -> run_fnv rest
  | mode :: rest ->
    let casetext = String.concat ";" ops in
    let rest = List.filter (fun o -> o <> "") rest in
    let num_cfg ~hashes ~exact ~npre ~fmt_entry ~fmt_freed ~iter = {
      keq = ht_szvp_keq; hashes; exact; kparse = zk; kprint = string_of_z; npre;
      fmt_entry; fmt_freed; iter; key_ok = (fun _ -> true); claim = false; keys_requests = 1 } in
    let h_id = (fun k _ -> k) and h_const c = (fun _ _ -> z_of_int c)
    and h_mul = (fun k _ -> z_of_int (mask32 (int_of_z k * 2654435761)))
    and h_lin = (fun k _ -> z_of_int (mask32 (int_of_z k * 31 + 7))) in
    let kv k v = k ^ "=" ^ v and only_v _ v = v in
    let res =
      match mode with
      | "g" -> Some (run_cfg (num_cfg ~hashes:[h_id; h_const 0; h_lin] ~exact:true ~npre:0
                                ~fmt_entry:kv ~fmt_freed:(fun k v -> [kv k v]) ~iter:`All) casetext rest)
      | "gc" -> Some (run_cfg (num_cfg ~hashes:[h_const 5; h_id] ~exact:true ~npre:0
                                 ~fmt_entry:kv ~fmt_freed:(fun k v -> [kv k v]) ~iter:`All) casetext rest)
      | "gm" -> Some (run_cfg (num_cfg ~hashes:[h_mul; h_id] ~exact:true ~npre:0
                                 ~fmt_entry:kv ~fmt_freed:(fun k v -> [kv k v]) ~iter:`All) casetext rest)
      | "sz" -> Some (run_cfg (num_cfg ~hashes:[h_id; h_const 0; (fun k s -> ht_fnv1a [k] s)] ~exact:false
                                 ~npre:(int_of_nat ht_szvp_npre)
                                 ~fmt_entry:only_v ~fmt_freed:(fun _ v -> [v]) ~iter:`Probe) casetext rest)
      | "as" -> Some (run_cfg (num_cfg ~hashes:[h_lin; h_const 0] ~exact:false ~npre:1
                                 ~fmt_entry:only_v ~fmt_freed:(fun _ v -> [v]) ~iter:`Keys) casetext rest)
      | "vv" -> Some (run_cfg (num_cfg ~hashes:[h_id; h_const 0] ~exact:false ~npre:1
                                 ~fmt_entry:only_v ~fmt_freed:(fun k v -> ["k" ^ k; v]) ~iter:`Probe) casetext rest)
      | "vs" -> Some (run_cfg (num_cfg ~hashes:[h_mul; h_const 0] ~exact:false ~npre:2
                                 ~fmt_entry:only_v ~fmt_freed:(fun _ _ -> []) ~iter:`Probe) casetext rest)
      | "str" | "dict" ->
        let sum_lower = (fun k _ -> List.fold_left (fun a c -> z_of_int (int_of_z a + int_of_z (ht_tolower c))) Z0 k) in
        let is_dict = mode = "dict" in
        Some (run_cfg { keq = ht_strcaseeq;
                        hashes = [ht_fnv1a_casecmp; (fun _ _ -> Z0); sum_lower];
                        exact = false; kparse = bytes_of_string; kprint = string_of_bytes;
                        npre = int_of_nat (if is_dict then ht_dict_npre else ht_strvp_npre);
                        fmt_entry = only_v;
                        fmt_freed = (if is_dict then (fun _ _ -> []) else (fun _ v -> [v]));
                        iter = (if is_dict then `Keys else `Probe);
                        key_ok = (if is_dict then ht_dict_key_ok else (fun _ -> true));
                        claim = not is_dict; keys_requests = 2 } casetext rest)
      | _ -> None in
    (match res with
     | None -> ("BADMODE", "BADMODE", "trivial-badmode")
     | Some (m, s, nontriv, maxcnt, failed, ub) ->
       let cls =
         if ub then "model-ub"
         else if nontriv < 2 then "trivial"
         else
           "ht-" ^ mode
           ^ (if maxcnt > 96 then "-grow4" else if maxcnt > 48 then "-grow3" else if maxcnt > 24 then "-grow2"
              else if maxcnt > 12 then "-grow1" else "")
           ^ (if failed then "-allocfail" else "") in
       (m, s, cls))

let () = Dsa_reg.register "ht" run
