(* C17 end to end on the channel simulator (engine chan17).  No model of the whole channel: the
   driver turns the simulator's log into the monitor's vocabulary - every transmission (TX) is an
   "apply" observation for the server it went to (its COOKIE option, UDP or TCP), every response
   handed to the library (RSP) is a "validate" event whose observation is what the channel did with
   it (callback with a record = accepted; same query transmitted again = requeued; nothing =
   dropped) - and runs the extracted CookieSpec.mon_step, one monitor state per server.  The wire
   bytes of each response (rcode, COOKIE option) are read from the RSP line itself. *)
open CookieModel
(*INCLUDE conv.inc*)

let words s = List.filter (fun w -> w <> "") (split_on ' ' s)
let starts s p = String.length s >= String.length p && String.sub s 0 (String.length p) = p
let kv line key =
  let kl = String.length key + 1 in
  List.fold_left (fun acc t -> match acc with Some _ -> acc | None ->
    if String.length t >= kl && String.sub t 0 kl = key ^ "=" then Some (String.sub t kl (String.length t - kl)) else None) None (words line)
let ios s = try int_of_string s with _ -> -1

let hexval c = match c with '0'..'9' -> Char.code c - 48 | 'a'..'f' -> Char.code c - 87 | 'A'..'F' -> Char.code c - 55 | _ -> -1
let unhex s =
  let n = String.length s in
  let rec go i acc = if i + 1 < n && hexval s.[i] >= 0 && hexval s.[i + 1] >= 0 then go (i + 2) ((hexval s.[i] * 16 + hexval s.[i + 1]) :: acc) else List.rev acc in
  Array.of_list (go 0 [])

(* rcode (with the OPT extension) and COOKIE option value of a DNS message *)
let parse_wire (b : int array) : (int * int list option) option =
  let n = Array.length b in
  try
    if n < 12 then raise Exit;
    let u16 i = if i + 1 >= n then raise Exit else b.(i) * 256 + b.(i + 1) in
    let rec skip_name i = if i >= n then raise Exit else
        let l = b.(i) in
        if l = 0 then i + 1 else if l land 0xc0 = 0xc0 then i + 2 else skip_name (i + 1 + l) in
    let qd = u16 4 and rrs = u16 6 + u16 8 + u16 10 in
    let pos = ref 12 in
    for _ = 1 to qd do pos := skip_name !pos + 4 done;
    let rcode = ref (b.(3) land 15) and cookie = ref None in
    for _ = 1 to rrs do
      let p = skip_name !pos in
      let ty = u16 p and rdlen = u16 (p + 8) in
      if ty = 41 then begin
        rcode := !rcode lor (b.(p + 4) lsl 4);
        let q = ref (p + 10) in
        let e = p + 10 + rdlen in
        while !q + 4 <= e do
          let code = u16 !q and len = u16 (!q + 2) in
          if code = 10 then cookie := Some (Array.to_list (Array.sub b (!q + 4) len));
          q := !q + 4 + len
        done
      end;
      pos := p + 10 + rdlen
    done;
    Some (!rcode, !cookie)
  with _ -> None

let vk = function
  | V_tcp_cookie -> "tcp_cookie" | V_cookie_missing -> "cookie_missing" | V_malformed_req -> "malformed_req"
  | V_source_shared -> "source_shared" | V_client_unstable -> "client_unstable" | V_echo -> "echo_not_latest" | V_supported_accepts -> "supported_accepts"
  | V_mismatch_accepted -> "mismatch_accepted" | V_valid_dropped -> "valid_dropped" | V_badcookie -> "badcookie"
  | V_badcookie_bound -> "badcookie_bound" | V_unsup_dropped -> "unsup_dropped"

let tv_of_ms ms = { tv_sec = z_of_int (ms / 1000); tv_usec = z_of_int ((ms mod 1000) * 1000) }
let src_ip = { a_family = aF_INET; a_data = List.map z_of_int [10; 9; 9; 9; 0; 0; 0; 0; 0; 0; 0; 0; 0; 0; 0; 0] }
let no_rnd = fun _ -> []

type tx = { x : int; sock : string; srv : int; id : int; tcp : bool; req : req; tok : int }

let parse_tx l =
  match words l with
  | _ :: xs :: sock :: _ ->
    let x = ios (String.sub xs 1 (String.length xs - 1)) in
    let srv = (match kv l "srv" with Some s -> ios s | None -> -1) in
    let id = (match kv l "id" with Some s -> ios s | None -> -1) in
    let tcp = (kv l "proto" = Some "tcp") in
    let req = (match kv l "opt", kv l "cookie" with
        | Some "0", _ -> NoOpt
        | _, Some "-" | _, None -> OptOnly
        | _, Some h -> OptCookie (List.map z_of_int (Array.to_list (unhex h)))) in
    let tok = (match kv l "qname" with
        | Some q when String.length q > 1 && (q.[0] = 'h' || q.[0] = 'H') ->
          (match String.index_opt q '.' with Some j -> ios (String.sub q 1 (j - 1)) | None -> -1)
        | _ -> -1) in
    Some { x; sock; srv; id; tcp; req; tok }
  | _ -> None

let () =
  let cases = read_lines Sys.argv.(1) in
  let impl = impl_table Sys.argv.(2) in
  let kinds_total = Hashtbl.create 16 in
  List.iteri (fun k line ->
    match String.index_opt line '|' with
    | None -> Printf.printf "CASE %d trivial-badcase\n" k
    | Some i ->
      let head = String.sub line 0 i in
      let ops = split_on ';' (String.sub line (i + 1) (String.length line - i - 1)) in
      let log = impl_lines impl k in
      let monitor_seen = List.exists (fun l -> starts l "MONITOR") log in
      let sect = Hashtbl.create 64 in
      let curop = ref (-1) in
      List.iter (fun l ->
        if starts l "OP " then (match words l with _ :: n :: _ -> curop := (let v = ios n in if v >= 0 then v else !curop) | _ -> ())
        else Hashtbl.replace sect !curop (l :: (try Hashtbl.find sect !curop with Not_found -> []))) log;
      let lines_of n = List.rev (try Hashtbl.find sect n with Not_found -> []) in
      let clock = ref (match kv head "clock" with Some s -> (let v = ios s in if v >= 0 then v else 1000000) | None -> 1000000) in
      (* per server: the SET of monitor states compatible with the log.  Where the log cannot tell whether
         the library looked at a response at all (the answer to a server probe whose own timeout may
         already have removed it - probes end without any callback), both continuations are kept; a
         verdict is given only when every state of the set rejects the step. *)
      let ghosts : (int, ghost list ref) Hashtbl.t = Hashtbl.create 4 in
      let ghost srv = match Hashtbl.find_opt ghosts srv with Some g -> g | None -> let g = ref [ghost_init] in Hashtbl.replace ghosts srv g; g in
      let common (vs : vkind list list) = match vs with
        | [] -> []
        | v0 :: rest -> List.filter (fun x -> List.for_all (List.mem x) rest) v0 in
      let qtbl = Hashtbl.create 16 in
      let qidx id = match Hashtbl.find_opt qtbl id with Some n -> n | None -> let n = Hashtbl.length qtbl in Hashtbl.replace qtbl id n; n in
      let txs : (int, tx) Hashtbl.t = Hashtbl.create 32 in
      let q_servers = Hashtbl.create 16 in       (* query id -> servers it was sent to *)
      let pending = ref [] in                    (* responses queued, oldest first: (x, rcode, cookie) *)
      let fails = ref [] in
      let stopped = Hashtbl.create 4 in          (* servers whose monitor already rejected a step *)
      let n_apply = ref 0 and n_val = ref 0 and n_acc = ref 0 and n_drop = ref 0 and n_rq = ref 0 and n_tcp = ref 0
      and n_sup = ref 0 and n_unsup = ref 0 and n_rot = ref 0 in
      let report srv vs text =
        List.iter (fun v ->
          let kind = vk v in
          fails := (kind, text) :: !fails;
          Hashtbl.replace stopped srv ()) vs in
      let dbg = Sys.getenv_opt "C17DEBUG" <> None in
      let do_apply (t : tx) text =
        if dbg then Printf.eprintf "%d APPLY clock=%d x%d srv=%d id=%d tcp=%b %s\n" k !clock t.x t.srv t.id t.tcp (match t.req with NoOpt -> "noopt" | OptOnly -> "optonly" | OptCookie c -> String.concat "" (List.map (fun z -> Printf.sprintf "%02x" (int_of_z z)) c));
        incr n_apply; if t.tcp then incr n_tcp;
        Hashtbl.replace q_servers t.id (t.srv :: (try Hashtbl.find q_servers t.id with Not_found -> []));
        if t.srv >= 0 && not (Hashtbl.mem stopped t.srv) then begin
          let gs = ghost t.srv in
          let before = List.hd !gs in
          let res = List.map (fun g -> mon_step g (EApply (nat_of_int (qidx t.id), t.tcp, src_ip, tv_of_ms !clock, no_rnd))
                                 (OApply (t.tcp, aRES_SUCCESS, t.req, O))) !gs in
          gs := List.map fst res;
          (match before.g_last, (List.hd !gs).g_last with Some a, Some b when a <> b -> incr n_rot | _ -> ());
          report t.srv (common (List.map snd res)) text
        end in
      let sock_tcp = Hashtbl.create 8 in
      let tx_clock : (int, int) Hashtbl.t = Hashtbl.create 16 in   (* id -> clock of its most recent transmission *)
      let timeout_ms = (match kv head "timeout" with Some s -> (let v = ios s in if v > 0 then v else 2000) | None -> 2000) in
      let latest : (int, tx) Hashtbl.t = Hashtbl.create 16 in   (* id -> its most recent transmission *)
      let waiting = Hashtbl.create 4 in          (* ids requeued in the current read batch, not yet transmitted again *)
      let completed = Hashtbl.create 16 in       (* ids of queries whose callback has run (before the current section) *)
      let primary_id = Hashtbl.create 16 in      (* token -> id of its first transmission *)
      let validate (x, rcode, cookie, rtext) ls sec_txs consumed =
        match Hashtbl.find_opt txs x with
        | None -> ()
        | Some t when Hashtbl.mem completed t.id || Hashtbl.mem waiting t.id
                      || (match Hashtbl.find_opt latest t.id with Some (l : tx) -> l.sock <> t.sock | None -> false) ->
          if Sys.getenv_opt "C17DEBUG" <> None then Printf.eprintf "%d SKIP x%d srv=%d id=%d completed=%b waiting=%b\n" k x t.srv t.id (Hashtbl.mem completed t.id) (Hashtbl.mem waiting t.id)
          (* the query is gone, sits in the requeue list (not on a connection), or is by now outstanding on
             another connection: nobody looks at this response *)
        | Some t when t.tcp -> incr n_val   (* a TCP request carries no cookie: the cookie code has nothing to decide *)
        | Some t ->
          incr n_val;
          (* a response to an earlier transmission of a query that has been transmitted again on the same
             socket is looked at by the library, but which of several responses to one query in a batch
             caused the callback / the resend cannot be told from the log: its verdict is not used *)
          let stale = (match Hashtbl.find_opt latest t.id with Some (l : tx) -> l.x <> t.x | None -> false) in
          (* if the query's timeout has run out by the time of this read, a retransmission seen in the same
             section may be the timeout's doing: the verdict for this response is not used either *)
          let overdue = (match Hashtbl.find_opt tx_clock t.id with Some c -> !clock - c >= timeout_ms | None -> false) in
          let is_probe = (match Hashtbl.find_opt primary_id t.tok with Some id -> id <> t.id | None -> false) in
          let maybe_gone = is_probe && overdue in
          let probe = stale || overdue || is_probe in
          let cb_seen = List.exists (fun l -> starts l (Printf.sprintf "CB t%d " t.tok) && kv l "rcode" <> None) ls in
          let later_tx = List.find_opt (fun (t2, _) -> t2.id = t.id && t2.x > (match Hashtbl.find_opt latest t.id with Some l -> max l.x x | None -> x)
                                                      && not (Hashtbl.mem consumed t2.x)) sec_txs in
          (* for a stale response assume the outcome the property allows (requeue / accept / drop, in this
             order, as far as the log does not exclude it) so that "who is waiting / done" stays aligned *)
          let stale_outcome =
            if not stale || t.srv < 0 then `None else begin
              let g = ref (List.hd !(ghost t.srv)) in
              let q = nat_of_int (qidx t.id) in
              let n = int_of_z (!g.g_bad q) + 1 in
              let ev = EValidate (q, (match cookie with Some c -> Some (List.map z_of_int c) | None -> None), z_of_int rcode, tv_of_ms !clock) in
              let clean o = (snd (mon_step !g ev o) = []) in
              if later_tx <> None &&
                 (if rcode = 23 then clean (OValidate (aRES_EBADRESP, Some (aRES_SUCCESS, aRES_FALSE), z_of_int n, int_of_z cOOKIE_RESEND_MAX <= n))
                  else clean (OValidate (aRES_SUCCESS, None, z_of_int n, false))) then `Requeue
              else if cb_seen && clean (OValidate (aRES_SUCCESS, None, z_of_int n, false)) then `Accept
              else `Drop
            end in
          let accepted = (not probe) && cb_seen in
          let resend = if stale then (if stale_outcome = `Requeue then later_tx else None)
            else List.find_opt (fun (t2, _) -> t2.id = t.id && t2.x > x && not (Hashtbl.mem consumed t2.x)) sec_txs in
          (match resend with Some (t2, _) -> Hashtbl.replace consumed t2.x (); Hashtbl.replace waiting t.id () | None -> ());
          if accepted || stale_outcome = `Accept then Hashtbl.replace completed t.id ();
          if accepted then incr n_acc else if resend <> None then incr n_rq else if not probe then incr n_drop;
          if t.srv >= 0 && not (Hashtbl.mem stopped t.srv) then begin
            let gs = ghost t.srv in
            let q = nat_of_int (qidx t.id) in
            let ev = EValidate (q, (match cookie with Some c -> Some (List.map z_of_int c) | None -> None), z_of_int rcode, tv_of_ms !clock) in
            let step g =
              let n = int_of_z (g.g_bad q) + 1 in
              (* what ares_cookie_validate must have said, read off the consequences: a BADCOOKIE reply is
                 re-sent by the cookie code itself (status EBADRESP + requeue); for every other rcode ANY
                 consequence - a callback carrying the record, or a retransmission of the query (without
                 EDNS after FORMERR, over TCP after TC, to the next try after SERVFAIL/NOTIMP/REFUSED) -
                 shows that the reply passed the cookie checks; no consequence at all = dropped *)
              if rcode = 23 then
                mon_step g ev (OValidate ((if accepted then aRES_SUCCESS else aRES_EBADRESP),
                                          (match resend with Some _ -> Some (aRES_SUCCESS, aRES_FALSE) | None -> None),
                                          z_of_int n,
                                          (match resend with Some (t2, _) -> t2.tcp | None -> false)))
              else
                mon_step g ev (OValidate ((if accepted || resend <> None then aRES_SUCCESS else aRES_EBADRESP), None, z_of_int n, false)) in
            let g0 = List.hd !gs in
            if dbg then Printf.eprintf "%d VALIDATE clock=%d x%d srv=%d id=%d %s probe=%b gone?=%b accepted=%b resend=%b sup=%b reset_ok=%b states=%d\n" k !clock x t.srv t.id rtext probe maybe_gone accepted (resend <> None) g0.g_sup g0.g_reset_ok (List.length !gs);
            let was_sup = g0.g_sup and was_reset = g0.g_reset_ok in
            let res = List.map step !gs in
            (* a probe that is past its own timeout may be gone (it ends silently): keep both worlds *)
            gs := (if maybe_gone then !gs @ List.map fst res else List.map fst res);
            if List.length !gs > 16 then Hashtbl.replace stopped t.srv ();
            let g' = List.hd (List.map fst res) in
            let v = common (List.map snd res) in
            if g'.g_sup && not was_sup then incr n_sup;
            if g'.g_reset_ok && not was_reset then incr n_unsup;
            (* the answer to a probe of a failed server never reaches a callback: what the channel did
               with it is not observable, only the monitor's state moves on *)
            let v = if probe then [] else v in
            (* the resend bound is counted per query by the library; a query that has visited several
               servers is outside what one server's monitor can count *)
            let multi = List.length (List.sort_uniq compare (try Hashtbl.find q_servers t.id with Not_found -> [])) > 1 in
            let v = if multi then List.filter (fun x -> x <> V_badcookie_bound) v else v in
            report t.srv v (Printf.sprintf "x%d srv=%d %s -> %s" x t.srv rtext
                              (if accepted then "accepted" else match resend with
                                  | Some (t2, _) -> Printf.sprintf "resent as x%d proto=%s%s" t2.x (if t2.tcp then "tcp" else "udp")
                                                      (match t2.req with NoOpt -> " WITHOUT EDNS and cookie" | OptOnly -> " without cookie" | OptCookie _ -> "")
                                  | None -> "dropped"))
          end in
      let process_section ls =
        let all_txs = List.filter_map (fun l -> if starts l "TX " then parse_tx l else None) ls in
        List.iter (fun t -> Hashtbl.replace txs t.x t; if not (Hashtbl.mem primary_id t.tok) then Hashtbl.replace primary_id t.tok t.id) all_txs;
        let apply_line l =
          match parse_tx l with
          | Some t -> Hashtbl.remove waiting t.id; Hashtbl.replace latest t.id t; Hashtbl.replace tx_clock t.id !clock;
            do_apply t (String.sub l 0 (min 160 (String.length l)))
          | None -> () in
        (* The library reads a socket until EAGAIN, then processes the datagrams in order, then flushes the
           requeue list.  So the section is cut into read batches: the RECVFROM lines of one socket, followed
           by their consequences (callbacks, retransmissions) up to the next RECVFROM.  The consequences of a
           response are looked for in the window of its own batch only. *)
        let arr = Array.of_list ls in
        let nl = Array.length arr in
        let consumed = Hashtbl.create 4 in
        (* callbacks are looked for in the batch's own window [a, b); a retransmission may come later in
           the section (a TCP connection has to be set up first): TX lines from a to the end *)
        let flush batch a b =
          let window = Array.to_list (Array.sub arr a (b - a)) in
          let later = Array.to_list (Array.sub arr a (nl - a)) in
          let sec_txs = List.filter_map (fun l -> if starts l "TX " then (match parse_tx l with Some t -> Some (t, l) | None -> None) else None) later in
          List.iter (fun r -> validate r window sec_txs consumed) (List.rev batch);
          List.iter (fun l -> if starts l "TX " then apply_line l) window in
        let batch = ref [] and wstart = ref (-1) in
        Array.iteri (fun idx l ->
          if starts l "SOCKET s" then
            (match words l with _ :: sk :: _ -> Hashtbl.replace sock_tcp sk (kv l "type" = Some "tcp") | _ -> ());
          if starts l "RECVFROM s" then begin
            if !wstart >= 0 then begin flush !batch !wstart idx; batch := []; wstart := -1 end;
            match words l, kv l "rc" with
            | _ :: sk :: _, Some rc when ios rc > 0 ->
              let tcp = (try Hashtbl.find sock_tcp sk with Not_found -> false) in
              let mine, rest = List.partition (fun (_, s, _) -> s = sk) !pending in
              (match mine with
               | [] -> ()
               | first :: _ ->
                 if tcp then begin
                   pending := rest;
                   List.iter (fun (r, _, _) -> batch := r :: !batch) mine
                 end else begin
                   pending := List.filter (fun p -> p != first) !pending;
                   (match first with (r, _, _) -> batch := r :: !batch)
                 end)
            | _ -> ()
          end else if !wstart >= 0 then ()
          else if !batch <> [] then wstart := idx
          else if starts l "TX " then apply_line l) arr;
        if !wstart >= 0 then flush !batch !wstart nl
        else if !batch <> [] then flush !batch nl nl;
        Hashtbl.reset waiting;
        List.iter (fun l ->
          if starts l "CB t" then
            (match words l with
             | _ :: tt :: _ -> (match Hashtbl.find_opt primary_id (ios (String.sub tt 1 (String.length tt - 1))) with Some id -> Hashtbl.replace completed id () | None -> ())
             | _ -> ())) ls in
      List.iteri (fun n op ->
        let ws = words op in
        let ls = lines_of n in
        (match ws with
         | "adv" :: ms :: _ -> (let v = ios ms in if v > 0 then clock := !clock + v)
         | _ -> ());
        (* responses queued by this op *)
        List.iter (fun l ->
          if starts l "RSP " && not (List.exists (fun w -> starts w "DROPPED") (words l)) then
            (match words l, kv l "hex" with
             | _ :: xs :: sk :: _, Some h ->
               (match parse_wire (unhex h) with
                | Some (rcode, cookie) ->
                  pending := !pending @ [ ((ios (String.sub xs 1 (String.length xs - 1)), rcode, cookie,
                                            Printf.sprintf "rsp rcode=%d cookie=%s" rcode (match cookie with Some c -> String.concat "" (List.map (Printf.sprintf "%02x") c) | None -> "-")), sk, ()) ]
                | None -> ())
             | _ -> ())) ls;
        process_section ls;
        List.iter (fun l -> if starts l "NOW " then (match words l with _ :: v :: _ -> (match split_on '.' v with ms :: _ -> (let x = ios ms in if x >= 0 then clock := x) | _ -> ()) | _ -> ())) ls) ops;
      let cls =
        if !n_apply + !n_val < 2 then "trivial"
        else Printf.sprintf "chan17%s%s%s%s%s%s%s" (if !n_sup > 0 then "+sup" else "") (if !n_unsup > 0 then "+unsup" else "")
            (if !n_rq > 0 then "+badcookie" else "") (if !n_drop > 0 then "+drop" else "") (if !n_rot > 0 then "+rot" else "")
            (if !n_tcp > 0 then "+tcp" else "") (if Hashtbl.length ghosts > 1 then "+multi" else "") in
      Printf.printf "CASE %d %s\n" k cls;
      if not monitor_seen then begin
        let seen = Hashtbl.create 4 in
        List.iter (fun (kind, d) ->
          if not (Hashtbl.mem seen kind) then begin
            Hashtbl.replace seen kind ();
            Hashtbl.replace kinds_total kind (1 + (try Hashtbl.find kinds_total kind with Not_found -> 0));
            Printf.printf "FAIL %d %s %s\n" k kind d
          end) (List.rev !fails)
      end) cases;
  Hashtbl.iter (fun kind n -> Printf.printf "STAT fail_%s %d\n" kind n) kinds_total
