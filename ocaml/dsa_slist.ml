(* Skip-list case kind of the container engine (C19): extracted code-shaped model (run with
   several level choices, which must all agree) + extracted sorted-list specification.
   ops:  i:K:P  !Si:K:P  f:K  fi la  nx:I pv:I v:I  fv lv len  c:I d:I  r:I:K  pf
   (I = creation index of a node; !S = allocation request S = 0..2 of this insert is refused)
   After every mutating op the full forward and backward traversal and len are printed. *)
open SListModel
(*INCLUDE conv.inc*)

let kp (d : z * z) = string_of_z (fst d) ^ ":" ^ string_of_z (snd d)
let node_tok = function None -> "N" | Some n -> "n" ^ string_of_int (int_of_nat n)
let dump_tok f b len =
  let l x = String.concat "," (List.map (fun (_, d) -> kp d) x) in
  "[" ^ l f ^ "|" ^ l b ^ "|" ^ string_of_int (int_of_nat len) ^ "]"

(* parsed operation: (op for the model/spec given the heads choice, printer flavour, mutating?) *)
type pop =
  | PIns of int * int * int          (* key payload failing-site (-1: none) *)
  | PRe of int * int                 (* node, new key *)
  | POp of (z * z) sl_op * bool      (* op, mutating *)
  | PDestroyNode of int
  | PBad

let parse op =
  let i = int_of_string in
  try
    match split_on ':' op with
    | ["i"; k; p] -> PIns (i k, i p, -1)
    | [s; k; p] when String.length s >= 3 && s.[0] = '!' && s.[String.length s - 1] = 'i' ->
      let site = i (String.sub s 1 (String.length s - 2)) in
      if site >= 0 && site <= 2 then PIns (i k, i p, site) else PBad
    | ["f"; k] -> POp (SlFind (z_of_int (i k), Z0), false)
    | ["fi"] -> POp (SlFirst, false)
    | ["la"] -> POp (SlLast, false)
    | ["nx"; n] -> POp (SlNext (nat_of_int (i n)), false)
    | ["pv"; n] -> POp (SlPrev (nat_of_int (i n)), false)
    | ["v"; n] -> POp (SlVal (nat_of_int (i n)), false)
    | ["fv"] -> POp (SlFirstVal, false)
    | ["lv"] -> POp (SlLastVal, false)
    | ["len"] -> POp (SlLen, false)
    | ["c"; n] -> POp (SlClaim (nat_of_int (i n)), true)
    | ["d"; n] -> PDestroyNode (i n)
    | ["r"; n; k] -> PRe (i n, i k)
    | ["pf"] -> POp (SlPopFirst, true)
    | _ -> PBad
  with _ -> PBad

let res_tok prefix = function
  | SlRNode r -> node_tok r
  | SlRVal None -> "N"
  | SlRVal (Some d) -> prefix ^ kp d
  | SlRLen n -> string_of_int (int_of_nat n)
  | SlRDone -> "ok"
  | SlRDead -> "D"
  | SlRDump (f, b, n) -> dump_tok f b n

(* generic runner over a step function; [heads k] = level choice for the k-th op *)
let run_with (step : 'st -> (z * z) sl_op -> ('st * (z * z) sl_res) option) (st0 : 'st)
    (finish : 'st -> string) (heads : int -> int) ops =
  let st = ref st0 in
  let toks = ref [] in
  let emit s = toks := s :: !toks in
  let ub = ref false in
  let changed = ref 0 in
  let payload : (int, int) Hashtbl.t = Hashtbl.create 16 in
  let do_op prefix o =
    if !ub then (emit "UB"; None)
    else match step !st o with
      | None -> ub := true; emit "UB"; None
      | Some (st', r) -> st := st'; emit (res_tok prefix r); Some r in
  let dump () = ignore (do_op "" SlDump) in
  List.iteri (fun k op ->
    if op <> "" then
    match parse op with
    | PIns (key, p, site) ->
      let o = SlInsert ((z_of_int key, z_of_int p), nat_of_int (heads k),
                        site <> 0, site <> 1, site <> 2, true) in
      (match do_op "" o with
       | Some (SlRNode (Some n)) -> Hashtbl.replace payload (int_of_nat n) p; incr changed
       | _ -> ());
      dump ()
    | PRe (n, key) ->
      let p = try Hashtbl.find payload n with Not_found -> 0 in
      (match do_op "" (SlReinsert (nat_of_int n, (z_of_int key, z_of_int p))) with
       | Some SlRDone -> incr changed
       | _ -> ());
      dump ()
    | PDestroyNode n ->
      (match do_op "~" (SlDestroyNode (nat_of_int n)) with
       | Some (SlRVal (Some _)) -> incr changed
       | _ -> ());
      dump ()
    | POp (o, mut) ->
      (match do_op "" o with
       | Some (SlRVal (Some _)) when mut -> incr changed
       | _ -> ());
      if mut then dump ()
    | PBad -> emit "BADOP") ops;
  emit (if !ub then "end=UB" else finish !st);
  (String.concat " " (List.rev !toks), !ub, !changed, !st)

let end_tok l = "end=" ^ String.concat "," (List.map kp l)

let run_model heads ops =
  match sl_z_create with
  | None -> ("NOCREATE", true, 0, 4)
  | Some s0 ->
    let maxlev = ref 4 in
    let step s o = match sl_z_step_model s o with
      | Ok (s', r) -> let l = int_of_nat (sl_z_levels s') in if l > !maxlev then maxlev := l; Some (s', r)
      | _ -> None in
    let finish s = match sl_z_destroy s with Ok l -> end_tok l | _ -> "end=UB" in
    let (t, ub, ch, _) = run_with step s0 finish heads ops in
    (t, ub || (String.length t >= 6 && String.sub t (String.length t - 6) 6 = "end=UB"), ch, !maxlev)

let run_spec ops =
  let step sp o = Some (sl_z_step_spec sp o) in
  let finish sp = end_tok (List.map snd (sp_l sp)) in
  let (t, _, _, _) = run_with step sl_z_spec_create finish (fun _ -> 0) ops in
  t

let run ops =
  (* level choices: always 1; pseudo-random 1..9 from the op index; always the maximum *)
  let (m1, ub1, ch, _) = run_model (fun _ -> 0) ops in
  let (m2, ub2, _, lev2) = run_model (fun k -> (k * 7 + 3) mod 9) ops in
  let (m3, ub3, _, lev3) = run_model (fun _ -> 64) ops in
  let s = run_spec ops in
  let m =
    if m2 <> m1 then "LEVEL-DEPENDENT[" ^ m2 ^ "]"
    else if m3 <> m1 then "LEVEL-DEPENDENT[" ^ m3 ^ "]"
    else m1 in
  let has_prefix p x = String.length x >= String.length p && String.sub x 0 (String.length p) = p in
  let nfind = List.length (List.filter (has_prefix "f:") ops) in
  let cls =
    if ub1 || ub2 || ub3 then "model-ub"
    else if ch < 2 then "trivial"
    else if max lev2 lev3 > 4 then "slist-grow" ^ string_of_int (max lev2 lev3)
    else if nfind > 0 then "slist-find"
    else "slist" in
  (m, s, cls)

let () = Dsa_reg.register "slist" run
