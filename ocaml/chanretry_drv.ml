(* C06, history engine on the channel simulator (harness/sim.c + chan_drv.c, see harness/SIM.md):
   SEVERAL queries through one real channel, sharing UDP connections.  For every query the
   log is turned into the event trace of coq/Core/Retry.v (docs/C06.md, "Building the trace
   from the channel simulator's log") and replayed through the extracted machine / acceptor.
   Vocabulary of the generator (gen/chanretrygen.py): send, adv, proc, rsp/rspall (error rcodes,
   FORMERR with/without OPT, answers, dup=n, replies to old transmissions = stale replies),
   fail recvfrom (read error closes the shared connection), setservers (add / remove one).
   All waits are exactly maxtimeout ms (maxtimeout <= 250 <= timeout), so every deadline is
   known to this driver.  TCP (TC replies, flags=usevc): a write to a connection that is not yet
   connected is not visible in the log when the model emits it; it is treated as a deferred frame
   and matched with the TX line that the next write event produces.  No BADCOOKIE here (that
   needs the per-server cookie state; covered by the single-query engine). *)
open TimeModel
(*INCLUDE conv_z.inc*)
(*INCLUDE conv_io.inc*)

let zi = z_of_int
let starts_with p s = String.length s >= String.length p && String.sub s 0 (String.length p) = p
let words s = List.filter (fun w -> w <> "") (split_on ' ' s)
let field key ws = List.find_map (fun w -> let p = key ^ "=" in if starts_with p w then Some (String.sub w (String.length p) (String.length w - String.length p)) else None) ws
let sock_of s = if String.length s > 1 && s.[0] = 's' then int_of_string (String.sub s 1 (String.length s - 1)) else -1
let list_of_brackets s = (* "[s0,s1]" *)
  let s = String.trim s in
  if String.length s < 2 then [] else
    List.filter (fun x -> x <> "") (split_on ',' (String.sub s 1 (String.length s - 2)))

let diffs = ref [] and fails = ref []
let st_queries = ref 0 and st_events = ref 0 and st_tx = ref 0 and st_done = ref 0
let diff k fmt = Printf.ksprintf (fun s -> diffs := (k, s) :: !diffs) fmt
let fail k kind fmt = Printf.ksprintf (fun s -> fails := (k, kind, s) :: !fails) fmt

type obs = ObsTx of int * bool * bool * bool (* socket, tcp, opt, cookie *) | ObsCb of int (* status *)

type query = {
  token : int; qid : int; q0 : qstate;
  mutable q : qstate;
  mutable trace : event list;          (* reversed *)
  mutable sock : int;                  (* socket of the last transmission *)
  mutable deadline : int;              (* microseconds *)
  mutable obs : obs list;              (* implementation outputs of the current block, in order *)
  mutable bad : bool;
  mutable ntx : int;
  mutable ncb : int;                   (* callbacks seen before the tear-down *)
  mutable bad_pending : bool;          (* a BADCOOKIE reply was acted upon: the next transmission is its re-send *)
  mutable nbad : int;
  mutable virt : int;                  (* TCP frames accepted by ares_conn_query_write but not yet on the wire *)
}

let case_chan k line lines =
  let bar = String.index line '|' in
  let cfgw = words (String.sub line 0 bar) in
  let geti key d = match field key cfgw with Some v -> (try int_of_string v with _ -> d) | None -> d in
  let servers0 = geti "servers" 1 and tries = geti "tries" 3 and maxt = geti "maxtimeout" 0 in
  let idseq = geti "idseq" (-1) in
  let flags = match field "flags" cfgw with Some f -> split_on ',' f | None -> [] in
  (* two modes.  exact: maxtimeout <= 250 <= timeout, every wait is exactly maxtimeout ms.
     extreme: no maxtimeout (or a huge one): the waits are the saturating doubling (jittered),
     only their lower bound - the base timeout - is known; such histories never advance the
     clock as far as that, so nothing may time out, and a history that does gets no verdict *)
  let timeout_cfg = geti "timeout" 2000 in
  let extreme = maxt <= 0 || maxt > 250 in
  let base_lb = if not extreme then maxt else min (max timeout_cfg 250) (if maxt > 0 then maxt else 5000) in
  let unjudged = ref false in
  if idseq < 0 then "trivial-unsupported-config" else begin
    let s_now = ref servers0 in
    let smax = ref servers0 in
    (* pre-scan for the largest server count *)
    List.iter (fun l -> match words l with
      | "OP" :: _ :: "setservers" :: csv :: _ -> let n = if csv = "-" then 0 else List.length (split_on ',' csv) in if n > !smax then smax := n
      | _ -> ()) lines;
    let cfg = { cfg_tries = zi tries; cfg_smax = zi !smax; cfg_nocheckresp = List.mem "nocheckresp" flags;
                cfg_igntc = List.mem "igntc" flags; cfg_strict = true } in
    let now = ref (geti "clock" 1000000 * 1000) in
    let queries : (int, query) Hashtbl.t = Hashtbl.create 16 in     (* by token *)
    let by_qid : (int, query) Hashtbl.t = Hashtbl.create 16 in
    let nreq = ref 0 in
    let nremoved = ref 0 in   (* re-queues caused by the removal of the server a query was waiting on *)
    let sock_tcp : (int, bool) Hashtbl.t = Hashtbl.create 16 in
    let sock_closed : (int, bool) Hashtbl.t = Hashtbl.create 16 in
    let sock_srv : (int, int) Hashtbl.t = Hashtbl.create 16 in
    let supported : (int, unit) Hashtbl.t = Hashtbl.create 4 in   (* servers that have shown a server cookie *)
    let pending : (int, (int * reply_kind option * string) Queue.t) Hashtbl.t = Hashtbl.create 16 in  (* socket -> (id, reply, cookie form none|echo|bad) *)
    let tx_sock : (int, int * int * bool) Hashtbl.t = Hashtbl.create 64 in   (* x<j> -> socket, qid, opt *)
    let ntx_total = ref 0 in
    let feats = Hashtbl.create 8 in
    let alive qu = qu.q.q_ended = None in
    let in_flight qu = alive qu && qu.q.q_conn <> None in
    (* feed one input; outputs are matched against the block's observed outputs of that query *)
    let rec feed qu i =
      qu.trace <- EvIn i :: qu.trace;
      let ((ok, q'), outs) = step cfg qu.q i in
      if not ok then qu.bad <- true;
      qu.q <- q';
      List.iter (fun o ->
        match qu.obs with
        | ObsTx (s, tcp, opt, _) :: r when (match o with OTx _ -> true | _ -> false) ->
          if qu.bad_pending then begin
            (* C06: at most COOKIE_RESEND_MAX re-sends come from BADCOOKIE replies, the last one over TCP *)
            qu.bad_pending <- false; qu.nbad <- qu.nbad + 1;
            Hashtbl.replace feats "badcookie-resend" ();
            if Z.ltb cOOKIE_RESEND_MAX (zi qu.nbad) then fail k "badcookie-resends-exceed" "query t%d: %d re-sends caused by BADCOOKIE replies (at most %s)" qu.token qu.nbad (string_of_z cOOKIE_RESEND_MAX)
            else if Z.eqb (zi qu.nbad) cOOKIE_RESEND_MAX && not tcp then fail k "badcookie-no-tcp-fallback" "query t%d: re-send number %d after BADCOOKIE still over UDP" qu.token qu.nbad
          end;
          qu.obs <- r; qu.trace <- EvOut (OTx (tcp, opt)) :: qu.trace; qu.sock <- s;
          qu.deadline <- !now + base_lb * 1000
        | ObsCb st :: r when (match o with ODone _ -> true | _ -> false) ->
          qu.obs <- r; qu.trace <- EvOut (ODone (zi st)) :: qu.trace
        | _ -> qu.bad <- true (* the implementation did not show what the model predicts *)) outs;
      drive qu
    (* after any input: if the machine is inside ares_send_query, the outcome is what the log shows next *)
    and drive qu =
      if alive qu && qu.q.q_sending then
        match qu.obs with
        | ObsTx (_, _, _, cookie) :: _ -> feed qu (ISend (zi !s_now, SoWriteOk cookie))
        | _ when qu.q.q_using_tcp ->
          (* the TCP connection is not connected yet: the frame sits in its output buffer and
             reaches the network at the next write event (its TX line is matched then) *)
          Hashtbl.replace feats "tcp-deferred" ();
          qu.virt <- qu.virt + 1;
          (* with a single server (the only configuration in which the generator uses TCP) the
             frame sits on that server's one TCP connection: the newest open TCP socket *)
          let cur = Hashtbl.fold (fun s tcp acc -> if tcp && not (Hashtbl.mem sock_closed s) && s > acc then s else acc) sock_tcp (-2) in
          qu.obs <- [ObsTx (cur, true, qu.q.q_has_opt, false)];
          feed qu (ISend (zi !s_now, SoWriteOk false))
        | _ -> qu.bad <- true
    in
    let flush qu = let g = ref 0 in
      while qu.q.q_queued <> O && not qu.q.q_sending && !g < 4 do incr g; feed qu IFlush done in
    let rec take n l = if n <= 0 then [] else match l with [] -> [] | x :: r -> x :: take (n - 1) r in
    (* ---- blocks ---- *)
    let collect_obs block =
      Hashtbl.iter (fun _ qu -> qu.obs <- []) queries;
      List.iter (fun l ->
        match words l with
        | "TX" :: x :: s :: rest ->
          incr ntx_total;
          let id = match field "id" rest with Some v -> int_of_string v | None -> -1 in
          let opt = field "opt" rest = Some "1" and cookie = (match field "cookie" rest with Some "-" | None -> false | _ -> true) in
          let tcp = field "proto" rest = Some "tcp" in
          Hashtbl.replace tx_sock (int_of_string (String.sub x 1 (String.length x - 1))) (sock_of s, id, opt);
          (match field "srv" rest with Some v when v <> "-" -> Hashtbl.replace sock_srv (sock_of s) (int_of_string v) | _ -> ());
          if tcp then Hashtbl.replace feats "tcp" ();
          (match Hashtbl.find_opt by_qid id with
           | Some qu ->
             qu.ntx <- qu.ntx + 1;
             if tcp && qu.virt > 0 then begin
               qu.virt <- qu.virt - 1;
               if qu.sock <> sock_of s then Hashtbl.replace feats "tcp-sock-mismatch" ()
             end else qu.obs <- qu.obs @ [ObsTx (sock_of s, tcp, opt, cookie)]
           | None -> ())
        | "CB" :: t :: rest ->
          let tok = int_of_string (String.sub t 1 (String.length t - 1)) in
          let st = match field "status" rest with Some v -> int_of_string v | None -> -1 in
          (match Hashtbl.find_opt queries tok with
           | Some qu -> qu.obs <- qu.obs @ [ObsCb st]; qu.ncb <- qu.ncb + 1
           | None -> ())
        | "SOCKET" :: s :: rest when sock_of s >= 0 -> Hashtbl.replace sock_tcp (sock_of s) (field "type" rest = Some "tcp")
        | _ -> ()) block in
    let end_block what =
      Hashtbl.iter (fun _ qu ->
        if qu.obs <> [] then begin
          List.iter (function ObsTx (_, tcp, opt, _) -> qu.trace <- EvOut (OTx (tcp, opt)) :: qu.trace
                            | ObsCb st -> qu.trace <- EvOut (ODone (zi st)) :: qu.trace) qu.obs;
          if not qu.bad then diff k "query t%d: %d implementation outputs during %s not predicted by the model" qu.token (List.length qu.obs) what;
          qu.bad <- true; qu.obs <- []
        end) queries in
    let closes block = List.filter_map (fun l -> match words l with ["CLOSE"; s] | "CLOSE" :: s :: _ -> Some (sock_of s) | _ -> None) block in
    let mark_closed block = List.iter (fun s -> Hashtbl.replace sock_closed s true) (closes block) in
    let queries_in_order () = List.sort (fun a b -> compare a.token b.token) (Hashtbl.fold (fun _ qu acc -> qu :: acc) queries []) in
    let do_proc head block =
      collect_obs block;
      (* C06 "each attempt waits no less than the base timeout", judged on the log alone: a query that
         is outstanding with its deadline still ahead may be re-sent or completed in this call only
         for a reason the log shows - a message for it arrived on its connection, the socket layer
         reported an error on its connection (failed read, message that does not parse) - never
         because some OTHER query timed out *)
      let snapshot = List.map (fun qu -> (qu, in_flight qu, qu.sock, qu.deadline, List.length qu.obs)) (Hashtbl.fold (fun _ qu acc -> qu :: acc) queries []) in
      let excused_q : (int, int) Hashtbl.t = Hashtbl.create 8 in
      let excuse qu = Hashtbl.replace excused_q qu.token (1 + (match Hashtbl.find_opt excused_q qu.token with Some n -> n | None -> 0)) in
      if extreme && List.exists (fun (qu, fl, _, dl, _) -> ignore qu; fl && dl <= !now) snapshot then unjudged := true;
      let hw = words head in
      let rl = match List.find_opt (starts_with "r=") hw with Some r -> List.map sock_of (list_of_brackets (String.sub r 2 (String.length r - 2))) | None -> [] in
      (* read phase, socket by socket *)
      List.iter (fun s ->
        let recvs = List.filter_map (fun l -> match words l with "RECVFROM" :: s' :: rest when sock_of s' = s -> Some rest | _ -> None) block in
        let err = List.exists (fun rest -> match field "rc" rest, field "errno" rest with Some "-1", Some e -> e <> "EAGAIN" && e <> "EWOULDBLOCK" | _ -> false) recvs in
        let is_tcp = (match Hashtbl.find_opt sock_tcp s with Some b -> b | None -> false) in
        let nread = List.length (List.filter (fun rest -> match field "rc" rest with Some "-1" -> false | Some _ -> true | None -> false) recvs) in
        let nread = if is_tcp && nread > 0 then max_int else nread in
        let fifo = match Hashtbl.find_opt pending s with Some f -> f | None -> Queue.create () in
        let consumed = take nread (List.of_seq (Queue.to_seq fifo)) in
        for _ = 1 to List.length consumed do ignore (Queue.pop fifo) done;
        begin
          let tcp = (match Hashtbl.find_opt sock_tcp s with Some b -> b | None -> false) in
          let touched = ref [] in
          let stopped = ref false in
          (* the walk of read_answers: message by message, until one does not parse *)
          let rec walk_msgs = function
            | [] -> ()
            | (id, Some kind, cform) :: rest ->
              (match Hashtbl.find_opt by_qid id with
               | Some qu ->
                 if qu.sock = s then excuse qu;
                 let same = in_flight qu && qu.sock = s in
                 if alive qu && not same then Hashtbl.replace feats "stale" ();
                 (* ares_cookie_validate, for a reply that reached it (outstanding on this connection).
                    reqc: the request carries a cookie.  In the order of the code: no request cookie ->
                    nothing to check; client cookie not echoed -> dropped; a server cookie marks the
                    server as supporting cookies; BADCOOKIE without any cookie -> dropped, with one ->
                    the re-send rule; no cookie from a server that supports them -> dropped *)
                 let reqc = qu.q.q_req_cookie in
                 let srv = (match Hashtbl.find_opt sock_srv s with Some i -> i | None -> -1) in
                 let kind =
                   if not same || not reqc then { kind with r_cookie_bad = kind.r_cookie_bad && cform = "echo" }
                   else if cform = "bad" || cform = "raw" then { kind with r_drop = true }
                   else begin
                     if cform = "echo" then Hashtbl.replace supported srv ();
                     if kind.r_cookie_bad then (if cform = "echo" then kind else { kind with r_drop = true })
                     else if cform = "none" && Hashtbl.mem supported srv then (Hashtbl.replace feats "dropped-expected-cookie" (); { kind with r_drop = true })
                     else kind
                   end in
                 if same && reqc && kind.r_cookie_bad && not kind.r_drop then qu.bad_pending <- true;
                 feed qu (IReply (zi !s_now, tcp, same, kind));
                 if not (List.memq qu !touched) then touched := qu :: !touched
               | None -> ());
              walk_msgs rest
            | (_, None, _) :: rest ->
              (* process_answer fails: the connection is closed, every query still outstanding on it
                 is re-queued; the messages behind it are lost *)
              stopped := true;
              Hashtbl.replace feats "malformed" ();
              if rest <> [] then Hashtbl.replace feats "malformed-not-last" ();
              if !touched <> [] then Hashtbl.replace feats "malformed-after-requeue" ();
              List.iter (fun qu -> if in_flight qu && qu.sock = s then (excuse qu; feed qu (IConnClosed (zi !s_now, aRES_EBADRESP)))) (queries_in_order ()) in
          if List.length consumed > 1 then Hashtbl.replace feats "batch" ();
          walk_msgs consumed;
          (* the read itself failed: what was read before the failure has been processed above,
             now the connection is closed and every query still outstanding on it is re-queued *)
          if err then begin
            Hashtbl.replace feats "readerr" ();
            if consumed <> [] then Hashtbl.replace feats "readerr-after-data" ();
            if not !stopped then
              List.iter (fun qu -> if in_flight qu && qu.sock = s then (excuse qu; feed qu (IConnClosed (zi !s_now, aRES_ECONNREFUSED)))) (queries_in_order ())
          end;
          (* ... and on every way out the requeue array is flushed *)
          List.iter flush (List.rev !touched)
        end) rl;
      (* timeout phase: every outstanding query whose deadline has passed, earliest first *)
      let due = List.filter (fun qu -> in_flight qu && qu.deadline <= !now) (queries_in_order ()) in
      let due = List.stable_sort (fun a b -> compare a.deadline b.deadline) due in
      if due <> [] then Hashtbl.replace feats "timeouts" ();
      List.iter (fun qu -> if in_flight qu && qu.deadline <= !now then feed qu (ITimeout (zi !s_now))) due;
      List.iter (fun (qu, was_in_flight, sock0, deadline0, nout) ->
        (* every message for the query on its connection, and a socket error there, accounts for at
           most one new transmission / completion; so does its own deadline having passed *)
        let allowed = (match Hashtbl.find_opt excused_q qu.token with Some n -> n | None -> 0)
                      + (if deadline0 <= !now then 1 else 0) in
        if was_in_flight && nout > allowed && not !unjudged then
          fail k "attempt-cut-short" "query t%d: attempt ended %d us before its deadline (base timeout %d ms) without a reply or a socket error on its connection s%d (%d new transmissions/completions, %d accounted for)"
            qu.token (deadline0 - !now) base_lb sock0 nout allowed) snapshot;
      mark_closed block;
      end_block "proc" in
    (* ---- walk the log ---- *)
    let rec until_tag tag acc = function
      | [] -> (List.rev acc, [])
      | l :: r -> if starts_with tag l then (List.rev acc, r) else until_tag tag (l :: acc) r in
    let cur_spec = ref ("", "") in   (* op name, spec of the last rsp/rspall op *)
    let kind_of_spec spec query_opt =
      let items = split_on ',' spec in
      let get key = List.find_map (fun it -> match split_on '=' it with [a; b] when a = key -> Some b | _ -> None) items in
      let rcode = match get "rcode" with Some r -> String.uppercase_ascii r | None -> "NOERROR" in
      let noopt = get "noopt" = Some "1" in
      Hashtbl.replace feats ("rsp-" ^ String.lowercase_ascii rcode) ();
      let cform = match get "cookie" with
        | None | Some "none" -> "none"
        | Some c when starts_with "echo" c -> "echo"
        | Some c when starts_with "bad" c -> "bad"
        | Some _ -> "raw" in
      if cform <> "none" then Hashtbl.replace feats ("cookie-" ^ cform) ();
      let is_badcookie = (rcode = "23" || rcode = "BADCOOKIE") in
      (fun x -> (x, cform)) @@
      if get "trunc" <> None then None else
      let tc = get "tc" = Some "1" in
      if tc then Hashtbl.replace feats "rsp-tc" ();
      { r_drop = false; r_cookie_bad = is_badcookie;     (* finalised when the reply is processed *)
        r_formerr = (rcode = "FORMERR" || rcode = "1");
        r_has_opt = (query_opt || cform <> "none" || is_badcookie) && not noopt;
        r_tc = tc;
        r_err = (match rcode with
            | "SERVFAIL" | "2" -> Some aRES_ESERVFAIL
            | "NOTIMP" | "4" -> Some aRES_ENOTIMP
            | "REFUSED" | "5" -> Some aRES_EREFUSED
            | _ -> None) } |> Option.some in
    let rec walk = function
      | [] -> ()
      | l :: rest ->
        (match words l with
         | "NOW" :: t :: _ ->
           (match split_on '.' t with
            | [ms; us] -> now := int_of_string ms * 1000 + int_of_string us
            | _ -> ());
           walk rest
         | "OP" :: _ :: "rsp" :: args -> cur_spec := ("rsp", (match args with _ :: spec :: _ -> spec | _ -> "")); walk rest
         | "OP" :: _ :: "rspall" :: args -> cur_spec := ("rspall", (match args with spec :: _ -> spec | _ -> "")); walk rest
         | "OP" :: _ :: "setservers" :: args ->
           let n = (match args with csv :: _ -> if csv = "-" then 0 else List.length (split_on ',' csv) | _ -> 0) in
           let (block, rest') = until_tag "SETSERVERS" [] rest in
           Hashtbl.replace feats "setservers" ();
           collect_obs block;
           s_now := n;
           (* queries outstanding on a connection of a removed server are re-queued (status SUCCESS) *)
           List.iter (fun s ->
             List.iter (fun qu -> if in_flight qu && qu.sock = s then begin
                 Hashtbl.replace feats "server-removed-inflight" ();
                 incr nremoved;
                 if !nremoved > !smax * tries then Hashtbl.replace feats "removals-over-budget" ();
                 feed qu (IConnClosed (zi n, aRES_SUCCESS)) end) (queries_in_order ())) (closes block);
           mark_closed block;
           end_block "setservers";
           walk rest'
         | "RSP" :: x :: s :: ws when not (List.mem "DROPPED=closed" ws) ->
           let j = int_of_string (String.sub x 1 (String.length x - 1)) in
           let id = match field "id" ws with Some v -> int_of_string v | None -> -1 in
           let dup = match field "dup" ws with Some v -> int_of_string v | None -> 1 in
           let qopt = match Hashtbl.find_opt tx_sock j with Some (_, _, o) -> o | None -> true in
           let (kind, cform) = kind_of_spec (snd !cur_spec) qopt in
           if dup > 1 then Hashtbl.replace feats "dup" ();
           let fifo = match Hashtbl.find_opt pending (sock_of s) with Some f -> f | None -> let f = Queue.create () in Hashtbl.replace pending (sock_of s) f; f in
           for _ = 1 to dup do Queue.push (id, kind, cform) fifo done;
           walk rest
         | "REQ" :: t :: "send" :: args ->
           let tok = int_of_string (String.sub t 1 (String.length t - 1)) in
           let (block, rest') = until_tag "RET" [] rest in
           (* query ids are drawn sequentially (idseq): one per request - also when it fails with
              "no servers" - and one per server probe (ares_probe_failed_server sends a copy of the
              query, under a fresh id, to a server that is marked failed; it shows up as a second TX
              inside this REQ block).  The request's own query is the FIRST transmission of the
              block; without one (TCP write deferred) it is the next id in sequence. *)
           let first_tx = List.find_map (fun l -> match words l with "TX" :: _ :: _ :: ws -> (match field "id" ws with Some v -> Some (int_of_string v) | None -> None) | _ -> None) block in
           let qid = match first_tx with Some id -> id | None -> (idseq + !nreq) land 0xffff in
           nreq := ((qid - idseq) land 0xffff) + 1;
           List.iter (fun l -> match words l with
             | "TX" :: _ :: _ :: ws ->
               (match field "id" ws with
                | Some v when int_of_string v <> qid ->
                  Hashtbl.replace feats "probe" ();
                  nreq := max !nreq (((int_of_string v - idseq) land 0xffff) + 1)
                | _ -> ())
             | _ -> ()) block;
           if !s_now = 0 then begin
             (* ares_send_nolock: an id is drawn, then "no servers": ENOSERVER callback, no query *)
             Hashtbl.replace feats "noserver" ();
             if not (List.exists (fun l -> match words l with "CB" :: t' :: ws -> t' = t && field "status" ws = Some "26" | _ -> false) block) then
               diff k "request t%d with an empty server list: no ENOSERVER callback" tok;
             walk rest'
           end else
           let q0 = q_init (List.mem "usevc" flags) (List.exists (starts_with "edns") args) false in
           let qu = { token = tok; qid; q0; q = q0;
                      trace = []; sock = -1; deadline = 0; obs = []; bad = false; ntx = 0; ncb = 0; virt = 0; bad_pending = false; nbad = 0 } in
           Hashtbl.replace queries tok qu; Hashtbl.replace by_qid qid qu;
           collect_obs block;
           drive qu;
           mark_closed block;
           end_block "send";
           walk rest'
         | "PROC" :: _ ->
           let (block, rest') = until_tag "PROCEND" [] rest in
           do_proc l block;
           walk rest'
         | "DESTROY" :: "begin" :: _ -> ()     (* the rest is tear-down: EDESTRUCTION callbacks *)
         | _ -> walk rest) in
    walk lines;
    (* ---- verdicts ---- *)
    let b = bound cfg in
    let nq = Hashtbl.length queries in
    let unfinished = ref 0 in
    Hashtbl.iter (fun _ qu ->
      let tr = List.rev qu.trace in
      incr st_queries; st_events := !st_events + List.length tr; st_tx := !st_tx + qu.ntx;
      if not (alive qu) then incr st_done;
      if qu.bad then begin
        diff k "query t%d (id %d): implementation and model disagree (trace of %d events)" qu.token qu.qid (List.length tr);
        if Sys.getenv_opt "CHANRETRY_DEBUG" <> None then
          prerr_endline (Printf.sprintf "case %d t%d: %s" k qu.token (String.concat " " (List.map (function
            | EvIn (ISend (_, SoWriteOk c)) -> if c then "send+c" else "send"
            | EvIn (ISend _) -> "sendfail"
            | EvIn (ITimeout _) -> "TIMEOUT"
            | EvIn (IConnClosed _) -> "CONNCLOSED"
            | EvIn (IReply (_, tcp, same, kd)) -> Printf.sprintf "reply(%s,%s,%s)" (if tcp then "tcp" else "udp") (if same then "same" else "stale")
                (String.concat "" [(if kd.r_drop then "drop" else ""); (if kd.r_formerr then "formerr" else ""); (if kd.r_has_opt then "+opt" else "-opt");
                                   (if kd.r_tc then "+tc" else ""); (match kd.r_err with Some _ -> "+err" | None -> "")])
            | EvIn IFlush -> "flush"
            | EvOut (OTx (tcp, opt)) -> Printf.sprintf "<TX %s%s>" (if tcp then "tcp" else "udp") (if opt then "+opt" else "")
            | EvOut (ODone st) -> Printf.sprintf "<CB %s>" (string_of_z st)) tr)))
      end;
      if Z.ltb b (zi qu.ntx) then
        fail k "transmissions-exceed-bound" "query t%d: transmissions=%d bound=%s (servers<=%d tries=%d)" qu.token qu.ntx (string_of_z b) !smax tries;
      if List.length (completions tr) > 1 then fail k "callback-count" "query t%d completed %d times" qu.token (List.length (completions tr));
      if qu.ncb = 0 then incr unfinished;
      if qu.ncb > 1 then fail k "callback-count" "query t%d: %d callbacks" qu.token qu.ncb) queries;
    (* the acceptor itself, on every query whose replay went through *)
    Hashtbl.iter (fun _ qu ->
      if not qu.bad then begin
        let tr = List.rev qu.trace in
        if not (retry_accepts cfg qu.q0 tr) then
          diff k "query t%d: extracted acceptor rejects the trace (%d events)" qu.token (List.length tr)
      end) queries;
    (* termination clause: the history ends with enough adv+proc rounds to use up every retry
       budget; before the tear-down nothing may be outstanding *)
    (* ... which only makes sense when the history really ends with those rounds (a shrunk or
       hand-written case may not): count the trailing "adv >= maxtimeout; proc" pairs *)
    let ops = List.rev (List.map String.trim (split_on ';' (String.sub line (bar + 1) (String.length line - bar - 1)))) in
    let ops = (match ops with "qlen" :: r -> r | r -> r) in
    let rec tail_rounds n = function
      | ("proc" | "proct") :: a :: r when starts_with "adv " a && (try int_of_string (String.sub a 4 (String.length a - 4)) >= base_lb with _ -> false) -> tail_rounds (n + 1) r
      | _ -> n in
    let budget_exhausting_tail = not extreme && tail_rounds 0 ops >= !smax * tries + 2 in
    if budget_exhausting_tail then Hashtbl.replace feats "fulltail" ();
    if budget_exhausting_tail then
    (match List.rev (List.filter_map (fun l -> match words l with ["QLEN"; n] -> Some n | _ -> None) lines) with
     | n :: _ when n <> "0" -> fail k "query-never-terminates" "ares_queue_active_queries() = %s after the final rounds" n
     | _ -> ());
    if budget_exhausting_tail && !unfinished > 0 && List.exists (fun l -> starts_with "ENDSTATE" l) lines then begin
      (* the generator always ends with enough processing rounds for every query to use up its budget *)
      let pend = List.find_map (fun l -> match words l with "ENDSTATE" :: ws -> field "pending_tokens" ws | _ -> None) lines in
      ignore pend;
      fail k "query-never-terminates" "%d of %d queries still outstanding after the final rounds" !unfinished nq
    end;
    if extreme then Hashtbl.replace feats "extreme" ();
    let fl = List.sort compare (Hashtbl.fold (fun key () acc -> key :: acc) feats []) in
    let fl = List.filter (fun f -> not (starts_with "rsp-" f)) fl @ (if List.exists (starts_with "rsp-") fl then ["replies"] else []) in
    if !unjudged then begin
      (* extreme mode and the clock reached the base timeout: the real deadlines are not known *)
      diffs := List.filter (fun (k', _) -> k' <> k) !diffs;
      fails := List.filter (fun (k', _, _) -> k' <> k) !fails;
      "trivial-extreme-clock-advanced"
    end else
    if nq = 0 then "trivial-norequest"
    else Printf.sprintf "chan-q%s-s%d-%s" (if nq = 1 then "1" else if nq <= 4 then "few" else "many") !smax
        (if fl = [] then "idle" else String.concat "+" fl)
  end

let () =
  let cases = read_lines Sys.argv.(1) in
  let impl = impl_table Sys.argv.(2) in
  List.iteri (fun k line ->
    let lines = impl_lines impl k in
    let monitor = List.exists (starts_with "MONITOR") lines in
    let cls =
      if monitor then "chan-monitor"
      else if not (String.contains line '|') then "trivial-badcase"
      else (try case_chan k line lines with e -> diff k "model driver exception %s" (Printexc.to_string e); "trivial-exception") in
    Printf.printf "CASE %d %s\n" k cls) cases;
  Printf.printf "STAT queries %d\nSTAT trace_events %d\nSTAT transmissions %d\nSTAT completed_before_teardown %d\n" !st_queries !st_events !st_tx !st_done;
  List.iter (fun (k, s) -> Printf.printf "DIFF %d %s\n" k s) (List.rev !diffs);
  List.iter (fun (k, kind, s) -> Printf.printf "FAIL %d %s %s\n" k kind s) (List.rev !fails)
