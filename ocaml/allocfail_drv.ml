(* Model/oracle-side driver of the C14 enumeration engine.
   mdl <casefile> <impl-output>
   For every case: fill the observation record of coq/Alloc/Oracle.v from the simulator log and
   apply the extracted [judge]; print FAIL lines for its verdicts.  For cases whose failing
   allocation lies inside the modelled request-submission path (ares_send_nolock ->
   ares_send_query -> ares_open_connection) run the extracted model with the failure in the
   same allocation group and compare the predicted outcome with the log (DIFF). *)
open AllocModel
(*INCLUDE conv.inc*)

let starts_with p s = String.length s >= String.length p && String.sub s 0 (String.length p) = p
let after p s = String.sub s (String.length p) (String.length s - String.length p)
let md5_8 s = String.sub (Digest.to_hex (Digest.string s)) 0 8

let find_sub s sub =
  let n = String.length s and m = String.length sub in
  let rec go i = if i + m > n then None else if String.sub s i m = sub then Some i else go (i + 1) in
  go 0

(* value of key= in a blank separated text *)
let kv key text =
  let ws = String.split_on_char ' ' text in
  let p = key ^ "=" in
  List.fold_left (fun acc w -> match acc with Some _ -> acc | None -> if starts_with p w then Some (after p w) else None) None ws

type tok = { mutable reqs : int; mutable cbs : (int * ((string * string) * string list)) list; mutable ret : string option;
             mutable req_line : int; mutable api : string; mutable pays : (int * string) list }

(* frames that are containers / string helpers: not the place where an unwinding bug lives *)
let generic_frame f =
  List.exists (fun p -> starts_with p f)
    ["ares_buf_"; "ares_array_"; "ares_llist_"; "ares_slist_"; "ares_htable_"; "ares_str"; "ares_free"]

let site_key stack =
  let frames = String.split_on_char '<' stack in
  match List.filter (fun f -> not (generic_frame f)) frames with
  | f :: _ -> f
  | [] -> (match frames with f :: _ -> f | [] -> "?")

let last_frame stack =
  match List.rev (String.split_on_char '<' stack) with f :: _ -> f | [] -> "?"

(* cb payload: text after "status=N timeouts=M " without the simulator's markers *)
let cb_parse rest =
  match kv "status" rest with
  | None -> None
  | Some st ->
    let pay = match find_sub rest "timeouts=" with
      | None -> ""
      | Some i ->
        (match String.index_from_opt rest i ' ' with
         | None -> ""
         | Some j -> String.sub rest (j + 1) (String.length rest - j - 1)) in
    let rec strip s =
      let cut suf = let n = String.length s and m = String.length suf in
        if n >= m && String.sub s (n - m) m = suf then Some (String.sub s 0 (n - m)) else None in
      match cut " DUP", cut " UNKNOWN", cut " AFTERDESTROY" with
      | Some x, _, _ | _, Some x, _ | _, _, Some x -> strip x
      | _ -> s in
    Some (int_of_string st, strip pay)

(* what is compared with the baseline (same as gen/allocgen.py payload_norm): no case, no
   message id of a legacy answer buffer, no value of the EDNS COOKIE option (code 10) - all
   three come from the random stream *)
let strip_cookie s =
  let n = String.length s in
  let b = Buffer.create n in
  let is_hex c = (c >= '0' && c <= '9') || (c >= 'a' && c <= 'f') || (c >= 'A' && c <= 'F') in
  let i = ref 0 in
  while !i < n do
    if !i > 0 && (s.[!i - 1] = '{' || s.[!i - 1] = ',') && !i + 3 <= n && String.sub s !i 3 = "10~" then begin
      Buffer.add_string b "10~*"; i := !i + 3;
      while !i < n && is_hex s.[!i] do incr i done
    end else begin Buffer.add_char b s.[!i]; incr i end
  done;
  Buffer.contents b

let payload_norm pay =
  let pay = strip_cookie pay in
  String.lowercase_ascii (String.concat " " (List.filter (fun w -> not (starts_with "id=" w)) (String.split_on_char ' ' pay)))

(* members of a result set that a partial answer could be missing (same as gen/allocgen.py) *)
let payload_items pay =
  let between a b =
    match find_sub pay a with
    | None -> None
    | Some i ->
      let st = i + String.length a in
      (match b with
       | None -> if String.length pay > st && pay.[String.length pay - 1] = ']' then Some (String.sub pay st (String.length pay - st - 1)) else None
       | Some bb ->
         let rec last_sub j best = if j + String.length bb > String.length pay then best
           else last_sub (j + 1) (if String.sub pay j (String.length bb) = bb then Some j else best) in
         (match last_sub st None with Some j -> Some (String.sub pay st (j - st)) | None -> None)) in
  let body =
    if starts_with "kind=addrinfo " pay then between "nodes=[" (Some "] name=")
    else if starts_with "kind=hostent " pay then between "addrs=[" None
    else None in
  match body with
  | None | Some "" -> []
  | Some b -> List.map (fun x -> String.sub (Digest.to_hex (Digest.string x)) 0 4) (String.split_on_char ',' b)

(* baseline expectations: i<rc>,t<T>/<ret>/<st>.<payload digest>:<dialogue digest>~<item>~..+...,a<NAME>.<rc> *)
let split_dg dg = match String.index_opt dg ':' with
  | Some i -> (String.sub dg 0 i, String.sub dg (i + 1) (String.length dg - i - 1))
  | None -> (dg, "?")

type expect = { e_init : int; e_toks : (int * (string * (int * ((string * string) * string list)) list)) list; e_api : (string * int) list;
                e_dlg : string list }

let parse_expect s =
  let items = String.split_on_char ',' s in
  let init = ref 0 and toks = ref [] and api = ref [] and dlg = ref [] in
  List.iter (fun it ->
    if it = "" then ()
    else if it.[0] = 'd' then begin
      let b = after "d" it in
      dlg := List.init (String.length b / 4) (fun i -> String.sub b (4 * i) 4)
    end
    else if it.[0] = 'i' then init := int_of_string (after "i" it)
    else if it.[0] = 't' then begin
      match String.split_on_char '/' (after "t" it) with
      | [t; ret; cbs] ->
        let cbl = if cbs = "-" then [] else
            List.map (fun c -> match String.split_on_char '.' c with
                | [st; d] -> (match String.split_on_char '~' d with
                    | dg :: items -> (int_of_string st, (split_dg dg, items))
                    | [] -> (int_of_string st, (split_dg d, [])))
                | _ -> (-999, (("", "?"), []))) (String.split_on_char '+' cbs) in
        toks := (int_of_string t, (ret, cbl)) :: !toks
      | _ -> ()
    end else if it.[0] = 'a' then begin
      match String.split_on_char '.' (after "a" it) with
      | [k; rc] -> api := (k, int_of_string rc) :: !api
      | _ -> ()
    end) items;
  { e_init = !init; e_toks = List.rev !toks; e_api = List.rev !api; e_dlg = !dlg }


(* ---------------- DIFF: the request-submission model (coq/Alloc/SendAlloc.v) ---------------- *)
type grp = GKey | GQuery | GDup | G0x20 | GAll | GQid | GConn | GCq | GBuf | GCnode | GSock | GWrite | GTmo | GCqn

let grp_name = function
  | GKey -> "G_key" | GQuery -> "G_query" | GDup -> "G_dup" | G0x20 -> "G_0x20" | GAll -> "G_all"
  | GQid -> "G_qid" | GConn -> "G_conn" | GCq -> "G_cq" | GBuf -> "G_out/in" | GCnode -> "G_cnode"
  | GSock -> "G_sock" | GWrite -> "G_write" | GTmo -> "G_tmo" | GCqn -> "G_cqn"

(* allocation group of a failing call stack (innermost frame first), if the failing allocation
   belongs to a fresh submission through ares_send_nolock *)
let nprobe = ref 0
let group_of_stack stack =
  let fr = Array.of_list (String.split_on_char '<' stack) in
  let idx name = let r = ref (-1) in Array.iteri (fun i f -> if !r < 0 && f = name then r := i) fr; !r in
  let callee i = if i > 0 then Some fr.(i - 1) else None in
  let i = idx "ares_send_nolock" in
  (* a server probe (ares_probe_failed_server, started by ares_send_query once the request is
     fully registered) is a submission of its own nested in the caller's: its return code is
     dropped and its callback is the library's no-op, so neither shows in the log; RET/CB of the
     window belong to the OUTER request, which must simply proceed (judged by the oracle).  Its
     allocations come after the outer submission's last group and are not the outer request's *)
  if Array.exists (fun f -> f = "ares_probe_failed_server") fr then (incr nprobe; None) else
  if i < 0 || Array.exists (fun f -> f = "~") fr then None
  else match callee i with
    | None -> Some GQuery
    | Some "ares_qcache_fetch" -> Some GKey
    | Some "ares_dns_record_duplicate_ex" -> Some GDup
    | Some "ares_apply_dns0x20" -> Some G0x20
    | Some "ares_llist_insert_last" -> Some GAll
    | Some "ares_htable_szvp_insert" -> Some GQid
    | Some "ares_send_query" ->
      (match callee (i - 1) with
       | Some "ares_open_connection" ->
         (match callee (i - 2) with
          | None -> Some GConn
          | Some "ares_llist_create" -> Some GCq
          | Some "ares_buf_create" -> Some GBuf
          | Some "ares_llist_insert_first" | Some "ares_llist_insert_last" -> Some GCnode
          | Some "ares_htable_asvp_insert" -> Some GSock
          | _ -> None)
       | Some "ares_conn_query_write" -> Some GWrite
       | Some "ares_slist_insert" -> Some GTmo
       | Some "ares_llist_insert_last" -> Some GCqn
       | _ -> None)
    | _ -> None

let cfg_flag cfg name =
  match kv "flags" cfg with
  | None -> false
  | Some v -> List.mem name (String.split_on_char ',' v)

let ntolerated = ref 0
(* returns Some (description of the disagreement) *)
let send_model_diff cfg g ~reuse ~impl_ret ~impl_cbs ~impl_close =
  let nocache = (kv "qcachettl" cfg = Some "0") in
  let usevc = cfg_flag cfg "usevc" and x20 = cfg_flag cfg "dns0x20" in
  let seq = (if nocache then [] else [GKey]) @ [GQuery; GDup]
            @ (if x20 && not usevc then [G0x20] else []) @ [GAll; GQid]
            @ (if reuse then [] else [GConn; GCq; GBuf; GBuf; GCnode; GSock]) @ [GWrite; GTmo; GCqn] in
  let rec pos i = function [] -> None | x :: r -> if x = g then Some i else pos (i + 1) r in
  match pos 0 seq with
  | None -> Some (Printf.sprintf "group %s is not on the model's path for this configuration" (grp_name g))
  | Some k ->
    let zi = z_of_int in
    let ok = zi 0 in
    let e = { e_nservers = nat_of_int 1; e_tries = nat_of_int 2; e_nocache = nocache; e_noretry = false;
              e_cache = zi 4; e_dup = ok; e_usevc = usevc; e_0x20 = x20; e_0x20_status = ok;
              e_server = (fun _ -> true); e_reuse = (fun _ -> if reuse then Some O else None);
              e_sock = (fun _ -> ok); e_write = (fun _ -> ok) } in
    let n = nat_of_int in
    let c0 = { cn_blk = n 100; cn_cq = n 101; cn_out = n 102; cn_in = n 103; cn_node = n 104; cn_sock = n 105;
               cn_tcp = usevc; cn_queries = []; cn_total = O } in
    let ch = { ch_all = []; ch_byqid = []; ch_bytmo = []; ch_conns = (if reuse then [c0] else []); ch_closed = O } in
    let h = { h_next = n 200; h_live = (if reuse then List.map n [105; 104; 103; 102; 101; 100] else []) } in
    (match send_nolock (fail_at (n (200 + k))) e ch (zi 1) h with
     | Ok (r, h') ->
       let m_ret = int_of_z r.r_status and m_cbs = List.map int_of_z r.r_cbs in
       let m_close = int_of_nat r.r_chan.ch_closed > 0 in
       let m_leak = List.length h'.h_live - List.length h.h_live
                    - 6 * (List.length r.r_chan.ch_conns - List.length ch.ch_conns) in
       (* a callee may tolerate a refused allocation (e.g. the name-compression bookkeeping of
          the DNS writer): then the group as a whole succeeds and the submission goes on, which
          is the model's outcome for the oracle that does not refuse this group *)
       let tolerated = (impl_ret = Some 0 && impl_cbs = []) in
       let problems =
         if tolerated then (incr ntolerated; []) else
         (if r.r_query <> None then ["model says the request proceeds"] else [])
         @ (if m_leak <> 0 then [Printf.sprintf "model ledger off by %d" m_leak] else [])
         @ (if Some m_ret <> impl_ret then [Printf.sprintf "return model=%d impl=%s" m_ret
                                              (match impl_ret with Some v -> string_of_int v | None -> "-")] else [])
         @ (if m_cbs <> impl_cbs then [Printf.sprintf "callbacks model=[%s] impl=[%s]"
                                         (String.concat "," (List.map string_of_int m_cbs))
                                         (String.concat "," (List.map string_of_int impl_cbs))] else [])
         @ (if m_close <> impl_close then [Printf.sprintf "socket closed by the unwind: model=%b impl=%b" m_close impl_close] else []) in
       if problems = [] then None else Some (grp_name g ^ ": " ^ String.concat "; " problems)
     | Err s -> Some (Printf.sprintf "model error %s" (string_of_z s))
     | UB _ -> Some "model UB")

let () = ()
let grp_rank g =
  let order = [GKey; GQuery; GDup; G0x20; GAll; GQid; GConn; GCq; GBuf; GCnode; GSock; GWrite; GTmo; GCqn] in
  let rec pos i = function [] -> -1 | x :: r -> if x = g then i else pos (i + 1) r in pos 0 order

let fresh_token = 900

let () =
  let cases = read_lines Sys.argv.(1) in
  let impl = impl_table Sys.argv.(2) in
  let sites = Hashtbl.create 997 in
  let scen_seen = Hashtbl.create 97 in
  let nfail = ref 0 and nmodel = ref 0 in
  let last_grp : (string * int, int * grp) Hashtbl.t = Hashtbl.create 97 in
  List.iteri (fun k line ->
    let lines = impl_lines impl k in
    if String.length line > 0 && line.[0] = '#' then Printf.printf "CASE %d trivial-comment\n" k
    else begin
      let cfg = match String.index_opt line '|' with Some i -> String.sub line 0 i | None -> line in
      let baseline = kv "failalloc" cfg = None in
      let toks : (int, tok) Hashtbl.t = Hashtbl.create 17 in
      let order = ref [] in
      let get t = match Hashtbl.find_opt toks t with
        | Some x -> x
        | None -> let x = { reqs = 0; cbs = []; ret = None; req_line = -1; api = "?"; pays = [] } in
          Hashtbl.add toks t x; order := t :: !order; x in
      let init = ref None and expect = ref None and scen = ref "?" in
      let reinit_stuck = ref false in
      let failline = ref (-1) and failsite = ref "" and leaks = ref [] in
      let live = ref None and pending = ref 0 and dups = ref 0 in
      let api = ref [] and monitor = ref false and ended = ref false in
      (* the network dialogue so far: questions put on the wire, datagrams / segments read
         (the same items and digest as gen/allocgen.py dialogue_item) *)
      let dlg = ref [] in
      let dlg_add it = dlg := String.sub (Digest.to_hex (Digest.string it)) 0 4 :: !dlg in
      List.iteri (fun li l ->
        if starts_with "TX " l then begin
          let g k = match kv k l with Some v -> v | None -> "?" in
          dlg_add (Printf.sprintf "T%s/%s/%s/%s" (g "srv") (g "proto") (String.lowercase_ascii (g "qname")) (g "qtype"))
        end else if starts_with "RECVFROM " l then begin
          match kv "rc" l with
          | Some v -> (match int_of_string_opt v with Some n when n > 0 -> dlg_add ("R" ^ v) | _ -> ())
          | None -> ()
        end;
        if starts_with "INIT rc=" l then init := Some (int_of_string (after "INIT rc=" l))
        else if starts_with "OP " l && find_sub l " note s=" <> None then begin
          (match kv "s" l with Some s -> scen := s | None -> ());
          (match kv "expect" l with Some "?" | None -> () | Some e -> expect := Some (parse_expect e))
        end
        else if starts_with "REQ t" l then begin
          let ws = String.split_on_char ' ' (after "REQ t" l) in
          let t = int_of_string (List.hd ws) in
          let x = get t in x.reqs <- x.reqs + 1; if x.req_line < 0 then x.req_line <- li;
          (match ws with _ :: a :: _ -> x.api <- a | _ -> ())
        end
        else if starts_with "RET t" l then begin
          match String.split_on_char ' ' (after "RET t" l) with
          | t :: rc :: _ -> (get (int_of_string t)).ret <- Some (after "rc=" rc)
          | _ -> ()
        end
        else if starts_with "CB t" l then begin
          let r = after "CB t" l in
          match String.index_opt r ' ' with
          | None -> ()
          | Some i ->
            let t = int_of_string (String.sub r 0 i) in
            (match cb_parse (String.sub r (i + 1) (String.length r - i - 1)) with
             | Some (st, pay) -> let x = get t in x.cbs <- x.cbs @ [(st, ((md5_8 (payload_norm pay), String.concat "" (List.rev !dlg)), payload_items pay))];
               x.pays <- x.pays @ [(st, pay)]
             | None -> ())
        end
        else if starts_with "REINIT " l && (match kv "stuck" l with Some "1" -> true | _ -> false) then reinit_stuck := true
        else if starts_with "ALLOCFAIL" l then (if !failline < 0 then failline := li)
        else if starts_with "FAILSITE " l then (if !failsite = "" then failsite := after "FAILSITE " l)
        else if starts_with "LEAK " l then
          (match kv "site" l with Some s -> leaks := s :: !leaks | None -> ())
        else if starts_with "ALLOCS " l then begin
          match kv "live" l with
          | Some v -> (match String.split_on_char '/' v with
              | [b; n] -> live := Some (int_of_string b, int_of_string n) | _ -> ())
          | None -> ()
        end
        else if starts_with "ENDSTATE " l then begin
          ended := true;
          (match kv "pending_tokens" l with
           | Some "[]" | None -> ()
           | Some s -> pending := List.length (String.split_on_char ',' s));
          (match kv "cb_dups" l with Some d -> dups := int_of_string d | None -> ())
        end
        else if starts_with "MONITOR" l then monitor := true
        else List.iter (fun key ->
            if starts_with (key ^ " rc=") l then
              let v = List.hd (String.split_on_char ' ' (after (key ^ " rc=") l)) in
              api := (key, int_of_string v) :: !api) ["SETSERVERS"; "SETSORTLIST"; "REINIT"; "SETSOCKFUNCS"; "SETSERVERSL"; "SETSERVERSP";
                                                                      "SETSERVERSCSV"; "GETSERVERS"; "GETSERVERSP"; "DUP"]) lines;
      let api = List.rev !api in
      (* the request whose submission call contains the failure: REQ tT .. ALLOCFAIL .. RET tT *)
      let window =
        if !failline < 0 then None else begin
          let arr = Array.of_list lines in
          let start = ref (-1) and tok = ref (-1) in
          for li = 0 to !failline - 1 do
            if starts_with "REQ t" arr.(li) then begin
              start := li; tok := int_of_string (List.hd (String.split_on_char ' ' (after "REQ t" arr.(li)))) end
            else if starts_with "RET t" arr.(li) then start := -1
          done;
          if !start < 0 then None else begin
            let stop = ref (Array.length arr) in
            (try for li = !failline to Array.length arr - 1 do
                 if starts_with (Printf.sprintf "RET t%d " !tok) arr.(li) then (stop := li; raise Exit) done
             with Exit -> ());
            if !stop >= Array.length arr then None
            else Some (!tok, Array.sub arr !start (!failline - !start), Array.sub arr !failline (!stop - !failline + 1))
          end
        end in
      if !failsite <> "" then Hashtbl.replace sites !failsite ();
      Hashtbl.replace scen_seen !scen ();
      if !monitor || not !ended then
        Printf.printf "CASE %d %s\n" k (if !monitor then "sanitizer-report" else "trivial-no-output")
      else begin
        match !expect, !init, !live with
        | Some e, Some ini, Some (bytes, blocks) ->
          let zi = z_of_int in
          let mk t =
            let x = Hashtbl.find toks t in
            let (bret, bcbs) = match List.assoc_opt t e.e_toks with Some v -> v | None -> ("v", []) in
            let same = List.for_all (fun (st, ((d, _), _)) ->
                st <> 0 || List.exists (fun (bs, ((bd, _), _)) -> bs = 0 && bd = d) bcbs) x.cbs in
            (* every successful callback was reached without asking a question or reading a datagram
               that the baseline run did not ask / read before its callback *)
            let items b = List.init (String.length b / 4) (fun i -> String.sub b (4 * i) 4) in
            let rec take n l = if n <= 0 then [] else match l with [] -> [] | y :: r -> y :: take (n - 1) r in
            let rec subseq a b = match a, b with
              | [], _ -> true
              | _, [] -> false
              | y :: ra, z :: rb -> if y = z then subseq ra rb else subseq a rb in
            let same_dlg = List.for_all (fun (st, ((_, dl), _)) ->
                st <> 0 || List.exists (fun (bs, ((_, bn), _)) ->
                    bs = 0 && (match int_of_string_opt bn with
                        | Some n -> subseq (items dl) (take n e.e_dlg)
                        | None -> false)) bcbs) x.cbs in
            let strict_part a b = a <> b && List.for_all (fun i -> List.mem i b) a
                                  && List.length a < List.length b in
            let partial = List.exists (fun (st, (_, items)) ->
                st = 0 && List.exists (fun (bs, (_, bitems)) -> bs = 0 && bitems <> [] && strict_part items bitems) bcbs
                && not (List.exists (fun (bs, (_, bitems)) -> bs = 0 && bitems = items) bcbs)) x.cbs in
            let ropt r = match r with Some "void" | Some "v" | None -> None | Some v -> Some (zi (int_of_string v)) in
            (* a scenario that scripts socket-call failures ("fail sendto 1 ..": the NEXT call
               fails) has another network once the allocation failure moves the calls: the
               statuses are then judged for being reported at all (no teardown status, exactly
               one callback, ledger), not against the baseline *)
            let scripted = find_sub line "fail " <> None in
            let base_cbs = List.map (fun (s, _) -> s) bcbs
                           @ (if scripted then List.filter (fun s -> s <> 16 && s <> 24) (List.map fst x.cbs) else []) in
            { t_id = zi t; t_reqs = nat_of_int x.reqs; t_cb = List.map (fun (s, _) -> zi s) x.cbs;
              t_ret = ropt x.ret; t_base_cb = List.map zi base_cbs;
              t_base_ret = (if scripted then ropt x.ret else ropt (Some bret)); t_payload_same = same; t_partial = partial;
              t_after_failure = (not scripted) && (t = fresh_token) && (!failline < 0 || !failline < x.req_line);
              t_same_dialogue = same_dlg } in
          (* set-up calls log their status only when they fail, so the failing run may show
             more lines than the baseline: the surplus comes first and is judged against 0 *)
          let extras = max 0 (List.length api - List.length e.e_api) in
          let rec zipapi i a b = match a, b with
            | (_, v1) :: ra, _ when i < extras -> (zi v1, zi 0) :: zipapi (i + 1) ra b
            | (_, v1) :: ra, (_, v2) :: rb -> (zi v1, zi v2) :: zipapi (i + 1) ra rb
            | _, _ -> [] in
          let o = { o_init = zi ini; o_base_init = zi e.e_init;
                    o_live_blocks = zi blocks; o_live_bytes = zi bytes;
                    o_pending = nat_of_int !pending; o_dups = nat_of_int !dups;
                    o_api = zipapi 0 api e.e_api;
                    o_toks = List.map mk (List.rev !order) } in
          let vs = judge o in
          let fkey = if !failsite = "" then "nofail" else site_key !failsite in
          let detail extra = Printf.sprintf "%s scenario=%s failsite=%s" extra !scen (if !failsite = "" then "-" else !failsite) in
          let tok_api t = match Hashtbl.find_opt toks (int_of_z t) with Some x -> x.api | None -> "?" in
          let seen = Hashtbl.create 7 in
          let emit kind det =
            if not (Hashtbl.mem seen kind) then begin
              Hashtbl.add seen kind (); incr nfail;
              Printf.printf "FAIL %d %s %s\n" k kind det end in
          (* "the channel remains usable": a reload whose helper thread never cleared the pending
             mark leaves the channel unable to be reconfigured ever again *)
          if !reinit_stuck then emit ("reinit-stuck:" ^ fkey) (detail "ares_reinit: the reload never finished (reinit_pending still set 2 s later); every later ares_reinit is a no-op");
          List.iter (fun v -> match v with
            | VLeak (b, by) ->
              let ls = if !leaks = [] then ["?"] else List.sort_uniq compare !leaks in
              List.iter (fun s -> emit ("leak:" ^ site_key s)
                            (detail (Printf.sprintf "blocks=%s bytes=%s allocated-at=%s" (string_of_z b) (string_of_z by) s))) ls
            | VLostCallback t -> emit ("lost-callback:" ^ fkey) (detail ("token=t" ^ string_of_z t))
            | VDupCallback t -> emit ("dup-callback:" ^ fkey) (detail ("token=t" ^ string_of_z t))
            | VOrphan (t, st) -> emit ("orphan:" ^ fkey) (detail (Printf.sprintf "token=t%s ends only at teardown with status=%s" (string_of_z t) (string_of_z st)))
            | VBadStatus (t, st) -> emit (Printf.sprintf "bad-status-%s:%s" (string_of_z st) (tok_api t)) (detail ("token=t" ^ string_of_z t))
            | VBadReturn (t, st) -> emit (Printf.sprintf "bad-return-%s:%s" (string_of_z st) (tok_api t)) (detail ("token=t" ^ string_of_z t))
            | VPartialResult t ->
              let a = tok_api t in
              emit ("partial-result:" ^ (if a = "gai" || a = "ghbn" then "getaddrinfo" else a)) (detail ("token=t" ^ string_of_z t ^ " api=" ^ a))
            | VWrongResult t ->
              let x = Hashtbl.find toks (int_of_z t) in
              let a = x.api in
              let fam = if a = "gai" || a = "ghbn" then "getaddrinfo" else a in
              emit ("wrong-result:" ^ fam) (detail (Printf.sprintf "token=t%s api=%s: ARES_SUCCESS with a result other than without failure, although the run asked no question and read no datagram beyond those of the run without failure: [%s]" (string_of_z t) a
                                                      (String.concat " / " (List.filter_map (fun (st, p) -> if st = 0 then Some p else None) x.pays))))
            | VUnusable t -> emit ("unusable:" ^ fkey) (detail ("token=t" ^ string_of_z t))
            | VBadInit st -> emit (Printf.sprintf "bad-init-%s:%s" (string_of_z st) fkey) (detail "")
            | VBadApi (st, b) -> emit ("bad-api:" ^ fkey) (detail (Printf.sprintf "rc=%s baseline=%s" (string_of_z st) (string_of_z b)))
            | VCounters (p, d) -> emit ("callback-count:" ^ fkey) (detail (Printf.sprintf "pending=%d dups=%d" (int_of_nat p) (int_of_nat d)))) vs;
          (* class: where the failure was injected and what became of it *)
          let cls =
            if baseline then "trivial-baseline"
            else if !failline < 0 then "trivial-no-failure-reached"
            else begin
              let apif = last_frame !failsite in
              let sts = List.concat_map (fun t -> List.map fst (Hashtbl.find toks t).cbs) (List.rev !order) in
              let same_all = List.for_all (fun t -> let x = Hashtbl.find toks t in
                  match List.assoc_opt t e.e_toks with
                  | Some (_, bcbs) -> List.map (fun (s, ((d, _), _)) -> (s, d)) x.cbs = List.map (fun (s, ((d, _), _)) -> (s, d)) bcbs
                  | None -> false) (List.rev !order) in
              let bsts = List.concat_map (fun (_, (_, cbs)) -> List.map fst cbs) e.e_toks in
              let news = List.filter (fun st -> not (List.mem st bsts)) sts in
              let outcome =
                if ini <> 0 then "init-fails"
                else if List.mem 15 news then "request-enomem"
                else if List.mem 12 news then "request-timeout"
                else if news <> [] then Printf.sprintf "masked-status-%d" (List.hd news)
                else if same_all then "proceeds"
                else "proceeds-other-payload" in
              apif ^ "/" ^ outcome
            end in
          Printf.printf "CASE %d %s\n" k cls;
          (* model of the submission path at the same allocation group *)
          (match window, (if !failsite = "" then None else group_of_stack !failsite) with
           | Some (t, before, afterw), Some g ->
             let x = Hashtbl.find toks t in
             (* scenarios that script socket-call failures have an environment the comparison
                does not reconstruct *)
             let scripted_socket_failure = find_sub line "fail " <> None in
             if (x.api = "send" || x.api = "query") && not scripted_socket_failure then begin
               let has p a = Array.exists (fun l -> starts_with p l) a in
               let reuse = (match g with GWrite | GTmo | GCqn -> not (has "SOCKET " before) | _ -> false) in
               let cbs = Array.fold_left (fun acc l ->
                   if starts_with (Printf.sprintf "CB t%d " t) l then
                     (match kv "status" l with Some st -> acc @ [int_of_string st] | None -> acc) else acc) [] afterw in
               let ret = match x.ret with Some v when v <> "void" -> Some (int_of_string v) | _ -> None in
               incr nmodel;
               (match send_model_diff cfg g ~reuse ~impl_ret:ret ~impl_cbs:cbs ~impl_close:(has "CLOSE " afterw) with
                | Some d -> Printf.printf "DIFF %d submission model: %s failsite=%s\n" k d !failsite
                | None -> ());
               (* allocation order inside one submission follows the model's group order *)
               let key = (!scen, t) in
               (match Hashtbl.find_opt last_grp key with
                | Some (pk, pg) when pk < k && grp_rank pg > grp_rank g ->
                  Printf.printf "DIFF %d submission model: group order: %s (case %d) before %s\n" k (grp_name pg) pk (grp_name g)
                | _ -> ());
               Hashtbl.replace last_grp key (k, g)
             end
           | _ -> ())
        | _ ->
          (* no expectations (baseline crashed at generation time) or incomplete log *)
          Printf.printf "CASE %d trivial-unjudged\n" k
      end
    end) cases;
  Printf.printf "STAT distinct_failing_call_stacks %d\n" (Hashtbl.length sites);
  Printf.printf "STAT scenarios %d\n" (Hashtbl.length scen_seen);
  Printf.printf "STAT oracle_rejections %d\n" !nfail;
  Printf.printf "STAT submission_model_comparisons %d\n" !nmodel;
  Printf.printf "STAT submission_refusals_tolerated_by_callee %d\n" !ntolerated;
  Printf.printf "STAT failures_inside_nested_server_probe_not_compared_with_submission_model %d\n" !nprobe
