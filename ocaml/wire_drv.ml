(* Model-side driver of the wire engine (C02 / C04 / C03).
   Runs the extracted model (coq/Wire/Parse.v, Name.v) on every case, prints the same canonical
   text as harness/wire_drv.c and compares (DIFF).  The property oracles (FAIL) are selected by
   the environment variable WIRE_ORACLES (comma separated subset of C02,C03,C04; default all). *)
open WireModel
(*INCLUDE conv.inc*)

let oracles =
  match Sys.getenv_opt "WIRE_ORACLES" with
  | None | Some "" -> ["C02"; "C03"; "C04"]
  | Some s -> split_on ',' s
let oracle o = List.mem o oracles

(* WIRE_VARIANT=pinned: run the model of the PINNED tree (no fixes/*.patch) instead of the fixed one;
   used to show that the faithful model corresponds to the unpatched library *)
let pinned = (Sys.getenv_opt "WIRE_VARIANT" = Some "pinned")

let dns_parse bs fl = if pinned then WireModel.dns_parse_pinned bs fl else WireModel.dns_parse bs fl
let dns_write d = if pinned then WireModel.dns_write_pinned d else WireModel.dns_write d
let wfixed = if pinned then WireModel.wpinned else WireModel.wfixed

let n_of_int i = if i = 0 then N0 else Npos (pos_of_int i)
let int_of_n = function N0 -> 0 | Npos p -> int_of_pos p

let hexval c = match c with
  | '0'..'9' -> Char.code c - 48 | 'a'..'f' -> Char.code c - 87 | 'A'..'F' -> Char.code c - 55 | _ -> 0
let bytes_of_hex s =
  let n = String.length s / 2 in
  let rec go i acc = if i < 0 then acc else go (i - 1) (n_of_int ((hexval s.[2 * i] lsl 4) lor hexval s.[2 * i + 1]) :: acc) in
  go (n - 1) []
let hex_of_bytes l =
  let b = Buffer.create 64 in
  List.iter (fun x -> Buffer.add_string b (Printf.sprintf "%02x" (int_of_n x))) l;
  Buffer.contents b

let status_of = function Ok _ -> "0" | Err s -> string_of_z s | UB _ -> "UB"

let str_hex = function None -> "~" | Some l -> "s:" ^ hex_of_bytes l

let dump_fval = function
  | FAddr b | FAddr6 b -> hex_of_bytes b
  | FU8 z | FU16 z | FU32 z -> string_of_z z
  | FName s | FStr s -> str_hex s
  | FBin None -> "~"
  | FBin (Some b) -> "b:" ^ hex_of_bytes b
  | FAbin l -> "a:" ^ String.concat "|" (List.map hex_of_bytes l)
  | FOpt l -> "o:" ^ String.concat "|" (List.map (fun (o, v) -> string_of_z o ^ ":" ^ hex_of_bytes v) l)

let dump_rr r =
  Printf.sprintf "s:%s/%s/%s/%s{%s}" (hex_of_bytes r.rr_name) (string_of_z r.rr_type) (string_of_z r.rr_class)
    (string_of_z r.rr_ttl)
    (String.concat ";" (List.map (fun (k, v) -> string_of_z k ^ "=" ^ dump_fval v) r.rr_fields))

let dump_rec d =
  Printf.sprintf "id=%s fl=%s op=%s rc=%s qd=[%s] an=[%s] ns=[%s] ar=[%s]"
    (string_of_z d.d_id) (string_of_z d.d_flags) (string_of_z d.d_opcode) (string_of_z d.d_rcode)
    (String.concat "," (List.map (fun q -> Printf.sprintf "s:%s/%s/%s" (hex_of_bytes q.q_name) (string_of_z q.q_type) (string_of_z q.q_class)) d.d_qd))
    (String.concat "," (List.map dump_rr d.d_an))
    (String.concat "," (List.map dump_rr d.d_ns))
    (String.concat "," (List.map dump_rr d.d_ar))

let starts_with p s = String.length s >= String.length p && String.sub s 0 (String.length p) = p
let after p s = String.sub s (String.length p) (String.length s - String.length p)

let contains sub s =
  let n = String.length sub and m = String.length s in
  let rec go i = i + n <= m && (String.sub s i n = sub || go (i + 1)) in
  go 0

module Str_replace = struct
  let all pat rep s =
    let n = String.length pat in
    let b = Buffer.create (String.length s) in
    let i = ref 0 in
    while !i < String.length s do
      if !i + n <= String.length s && String.sub s !i n = pat then (Buffer.add_string b rep; i := !i + n)
      else (Buffer.add_char b s.[!i]; incr i)
    done;
    Buffer.contents b
end

let counts = Hashtbl.create 16
let bump k = Hashtbl.replace counts k (1 + (try Hashtbl.find counts k with Not_found -> 0))

let rec truncate_nul = function [] -> [] | N0 :: _ -> [] | x :: t -> x :: truncate_nul t


(* ---- dump text -> record (inverse of dump_rec), to feed the extracted oracle record_eqb ---- *)
let split_top sep s =   (* split on sep, no nesting in our format except [] {} handled by callers *)
  if s = "" then [] else String.split_on_char sep s
let unhex_opt t = if t = "~" then None else Some (bytes_of_hex (if starts_with "s:" t || starts_with "b:" t then after (String.sub t 0 2) t else t))
let undump_fval key v =
  let dt = int_of_z (key_datatype (z_of_int key)) in
  match dt with
  | 1 -> FAddr (bytes_of_hex v)
  | 2 -> FAddr6 (bytes_of_hex v)
  | 3 -> FU8 (z_of_string v) | 4 -> FU16 (z_of_string v) | 5 -> FU32 (z_of_string v)
  | 6 -> FName (unhex_opt v)
  | 7 -> FStr (unhex_opt v)
  | 8 | 9 -> FBin (unhex_opt v)
  | 11 -> let body = after "a:" v in
    FAbin (if body = "" && not (String.contains v '|') then [] else List.map bytes_of_hex (String.split_on_char '|' body))
  | 10 -> let body = after "o:" v in
    FOpt (if body = "" then [] else List.map (fun e -> match String.index_opt e ':' with
        | Some i -> (z_of_string (String.sub e 0 i), bytes_of_hex (String.sub e (i + 1) (String.length e - i - 1)))
        | None -> (z_of_int 0, [])) (String.split_on_char '|' body))
  | _ -> FU8 (z_of_int 0)
let undump_rr t =
  (* s:HEX/type/class/ttl{k=v;k=v} *)
  let ob = String.index t '{' in
  let hd = String.sub t 0 ob and fl = String.sub t (ob + 1) (String.length t - ob - 2) in
  match String.split_on_char '/' hd with
  | [nm; ty; cl; ttl] ->
    let fields = List.filter_map (fun kv -> match String.index_opt kv '=' with
        | Some i -> let k = int_of_string (String.sub kv 0 i) in
          Some (z_of_int k, undump_fval k (String.sub kv (i + 1) (String.length kv - i - 1)))
        | None -> None) (split_top ';' fl) in
    { rr_name = (match unhex_opt nm with Some x -> x | None -> []); rr_type = z_of_string ty; rr_class = z_of_string cl;
      rr_ttl = z_of_string ttl; rr_fields = fields }
  | _ -> failwith "undump_rr"
let undump_rec t =
  (* id=.. fl=.. op=.. rc=.. qd=[..] an=[..] ns=[..] ar=[..] *)
  let field name =
    let key = name ^ "=" in
    let rec find i = if i + String.length key > String.length t then failwith ("undump " ^ name)
      else if String.sub t i (String.length key) = key && (i = 0 || t.[i - 1] = ' ') then i + String.length key else find (i + 1) in
    let st = find 0 in
    if st < String.length t && t.[st] = '[' then
      let en = String.index_from t st ']' in String.sub t (st + 1) (en - st - 1)
    else
      let en = try String.index_from t st ' ' with Not_found -> String.length t in String.sub t st (en - st) in
  let qd = List.map (fun q -> match String.split_on_char '/' q with
      | [nm; ty; cl] -> { q_name = (match unhex_opt nm with Some x -> x | None -> []); q_type = z_of_string ty; q_class = z_of_string cl }
      | _ -> failwith "undump_q") (split_top ',' (field "qd")) in
  let rrs name = List.map undump_rr (split_top ',' (field name)) in
  { d_id = z_of_string (field "id"); d_flags = z_of_string (field "fl"); d_opcode = z_of_string (field "op");
    d_rcode = z_of_string (field "rc"); d_raw_rcode = z_of_int 0; d_qd = qd; d_an = rrs "an"; d_ns = rrs "ns"; d_ar = rrs "ar" }

let get_lines p lines = List.filter_map (fun l -> if starts_with p l then Some (after p l) else None) lines
let has_monitor lines = List.exists (fun l -> starts_with "MONITOR" l) lines

(* first difference between two records, for the FAIL text *)
let record_diff a b =
  let hdr = Printf.sprintf "id=%s fl=%s op=%s rc=%s" (string_of_z a.d_id) (string_of_z a.d_flags) (string_of_z a.d_opcode) (string_of_z a.d_rcode)
  and hdr' = Printf.sprintf "id=%s fl=%s op=%s rc=%s" (string_of_z b.d_id) (string_of_z b.d_flags) (string_of_z b.d_opcode) (string_of_z b.d_rcode) in
  if hdr <> hdr' then Printf.sprintf "header %s vs %s" hdr hdr'
  else if not (qds_eqb a.d_qd b.d_qd) then "question"
  else
    let rec go sect i la lb = match la, lb with
      | [], [] -> None
      | x :: ta, y :: tb -> if rr_eqb x y then go sect (i + 1) ta tb else Some (Printf.sprintf "%s[%d] %s vs %s" sect i (dump_rr x) (dump_rr y))
      | _ -> Some (Printf.sprintf "%s count %d vs %d" sect (i + List.length la) (i + List.length lb)) in
    match go "an" 0 a.d_an b.d_an with Some s -> s | None ->
    match go "ns" 0 a.d_ns b.d_ns with Some s -> s | None ->
    match go "ar" 0 a.d_ar b.d_ar with Some s -> s | None -> "none"

let canonical_name t = match unescape t with Some ls -> escape_name ls = t | None -> false
let rr_names r =
  r.rr_name :: List.filter_map (fun (k, v) -> match v with
      | FName (Some n) when int_of_z (key_datatype k) = 6 && int_of_z k <> 25603 -> Some n
      | _ -> None) r.rr_fields
let record_canonical d =
  List.for_all (fun q -> canonical_name q.q_name) d.d_qd
  && List.for_all (fun r -> List.for_all canonical_name (rr_names r)) (d.d_an @ d.d_ns @ d.d_ar)
(* text fields the writer emits unchecked but the parser refuses: non-printable or (CAA tag) empty *)
let record_text_unparseable d =
  List.exists (fun r -> List.exists (fun (k, v) -> match v with
      | FStr (Some s) | FName (Some s) when int_of_z (key_datatype k) = 7 || int_of_z k = 25603 ->
        List.exists (fun b -> let c = int_of_n b in c < 0x20 || c > 0x7e) s || (int_of_z k = 25702 && s = [])
      | _ -> false) r.rr_fields) (d.d_an @ d.d_ns @ d.d_ar)

(* a TXT string longer than 255 octets: split by the writer (findings/C03.json) *)
let record_has_long_txt d =
  List.exists (fun r -> List.exists (fun (_, v) -> match v with
      | FAbin l -> List.exists (fun s -> List.length s > 255) l
      | _ -> false) r.rr_fields) (d.d_an @ d.d_ns @ d.d_ar)

(* a name that is not a valid presentation name (empty label: leading or doubled dot) *)
let record_has_invalid_name d =
  List.exists (fun q -> unescape q.q_name = None) d.d_qd
  || List.exists (fun r -> List.exists (fun n -> unescape n = None) (rr_names r)) (d.d_an @ d.d_ns @ d.d_ar)

(* an RCODE above 15 in a record without an OPT RR in the additional section: cannot be written *)
let record_rcode_needs_opt d =
  int_of_z d.d_rcode > 15 && not (List.exists (fun r -> int_of_z r.rr_type = 41) d.d_ar)
let with_rcode d rc = { d with d_rcode = rc }

(* C03 oracle on the implementation's own output: r = dump of the record that was written,
   then the W / V / X lines *)
let roundtrip_oracle k r lines =
  match get_lines "W " lines with
  | [w] when starts_with "0 " w ->
    let wbytes = after "0 " w in
    bump "roundtrip-written";
    if String.length wbytes / 2 > 65535 then
      Printf.printf "FAIL %d roundtrip-too-long written message has %d octets\n" k (String.length wbytes / 2);
    let dr = try Some (undump_rec r) with _ -> None in
    (match get_lines "V " lines with
     | [v] when starts_with "0 " v ->
       let dv = try Some (undump_rec (after "0 " v)) with _ -> None in
       (match dr, dv with
        | Some a, Some b ->
          if not (record_eqb a b) then
            Printf.printf "FAIL %d %s %s :: written=[%s] reparsed=[%s]\n" k
              (if record_has_long_txt a then "roundtrip-fields-txt-over-255"
               else if record_has_invalid_name a then "roundtrip-invalid-name-accepted"
               else if record_rcode_needs_opt a && record_eqb (with_rcode a b.d_rcode) b then "roundtrip-rcode-needs-opt"
               else "roundtrip-fields") (record_diff a b) r (after "0 " v)
          else if record_canonical a then
            (* names in canonical presentation form: re-serialising must give the same octets *)
            (match get_lines "X " lines with
             | [x] -> if x <> w then Printf.printf "FAIL %d roundtrip-rewrite first=[%s] second=[%s]\n" k w x
             | _ -> Printf.printf "FAIL %d roundtrip-rewrite no second write\n" k)
          else bump "roundtrip-noncanonical-names(rewrite-not-judged)"
        | _ -> Printf.printf "FAIL %d roundtrip-fields undumpable written=[%s] reparsed=[%s]\n" k r (after "0 " v))
     | [v] ->
       let kind = match dr with
         | Some a when List.length a.d_qd <> 1 -> "roundtrip-question-count"
         | Some a when record_text_unparseable a -> "roundtrip-text-unparseable"
         | _ -> "roundtrip-reparse" in
       Printf.printf "FAIL %d %s status=%s written=[%s]\n" k kind v wbytes
     | _ -> Printf.printf "FAIL %d roundtrip-reparse no reparse line\n" k)
  | [_] -> bump "roundtrip-write-refused"
  | _ -> ()

(* model side of write / re-parse / re-write *)
let model_wvx d =
  match dns_write d with
  | Ok bs ->
    let w = "0 " ^ hex_of_bytes bs in
    (match dns_parse bs (z_of_int 0) with
     | Ok d2 -> let v = "0 " ^ dump_rec d2 in
       (match dns_write d2 with
        | Ok bs2 -> (w, Some v, Some ("0 " ^ hex_of_bytes bs2))
        | Err s -> (w, Some v, Some (string_of_z s ^ " "))
        | UB _ -> (w, Some v, Some "UB"))
     | Err s -> (w, Some (string_of_z s), None)
     | UB _ -> (w, Some "UB", None))
  | Err s -> (string_of_z s ^ " ", None, None)
  | UB _ -> ("UB", None, None)

let compare_lines k tag model lines =
  match get_lines (tag ^ " ") lines, model with
  | [g], Some m -> if g <> m then Printf.printf "DIFF %d %s model=[%s] impl=[%s]\n" k tag m g
  | [], None -> ()
  | [g], None -> Printf.printf "DIFF %d %s model=<none> impl=[%s]\n" k tag g
  | [], Some m -> if not (has_monitor lines) then Printf.printf "DIFF %d %s model=[%s] impl=<none>\n" k tag m
  | _ -> ()

(* ---- build case: a record made through the public setters ---- *)
let run_build k head body lines =
  let ints = List.map int_of_string (List.tl (split_on ':' head)) in
  let (id, fl, op, rc, pre) = match ints with
    | [a; b; c; d] -> (a, b, c, d, -1) | [a; b; c; d; e] -> (a, b, c, d, e) | _ -> (0, 0, 0, 0, -1) in
  let stats = ref [] in
  let note p s = stats := (p ^ (match s with Ok _ -> "0" | Err e -> string_of_z e | UB _ -> "UB")) :: !stats in
  let res = match record_create (z_of_int id) (z_of_int fl) (z_of_int op) (z_of_int rc) with
    | Ok d0 ->
      let d = ref d0 in
      List.iter (fun unit_ ->
          match split_on ',' unit_ with
          | "q" :: nm :: ty :: cl :: _ ->
            let r = query_add !d (bytes_of_hex nm) (z_of_string ty) (z_of_string cl) in
            note "q" r; (match r with Ok d' -> d := d' | _ -> ())
          | "r" :: se :: nm :: ty :: cl :: ttl :: kvs ->
            let r0 = rr_add (bytes_of_hex nm) (z_of_string se) (z_of_string ty) (z_of_string cl) (z_of_string ttl) in
            note "r" r0;
            (match r0 with
             | Ok rr0 ->
               let rr = ref rr0 in
               List.iter (fun kv ->
                   match String.index_opt kv '=' with
                   | None -> ()
                   | Some i ->
                     let key = int_of_string (String.sub kv 0 i) in
                     let v = String.sub kv (i + 1) (String.length kv - i - 1) in
                     let zk = z_of_int key in
                     let dt = int_of_z (key_datatype zk) in
                     let tl1 s = String.sub s 1 (String.length s - 1) in
                     let set x = let r = rr_set !rr zk x in (match r with Ok r' -> rr := r' | _ -> ()); r in
                     let r = match dt with
                       | 1 -> let b = bytes_of_hex v in if List.length b = 4 then set (FAddr b) else Err (z_of_int 2)
                       | 2 -> let b = bytes_of_hex v in if List.length b = 16 then set (FAddr6 b) else Err (z_of_int 2)
                       | 3 -> set (FU8 (z_of_int (int_of_string v land 255)))
                       | 4 -> set (FU16 (z_of_int (int_of_string v land 65535)))
                       | 5 -> set (FU32 (z_of_string v))
                       | 6 -> set (FName (Some (bytes_of_hex (tl1 v))))
                       | 7 -> set (FStr (Some (bytes_of_hex (tl1 v))))
                       | 8 | 9 -> set (FBin (Some (bytes_of_hex (tl1 v))))
                       | 11 ->
                         List.fold_left (fun acc e -> match acc with
                             | Ok _ -> let r = rr_add_abin !rr zk (bytes_of_hex e) in (match r with Ok r' -> rr := r' | _ -> ()); r
                             | x -> x) (Ok !rr) (String.split_on_char '|' (tl1 v))
                       | 10 ->
                         List.fold_left (fun acc e -> match acc with
                             | Ok _ -> if e = "" then acc else
                                 (match String.index_opt e ':' with
                                  | Some j ->
                                    let r = rr_set_opt !rr zk (z_of_string (String.sub e 0 j)) (bytes_of_hex (String.sub e (j + 1) (String.length e - j - 1))) in
                                    (match r with Ok r' -> rr := r' | _ -> ()); r
                                  | None -> acc)
                             | x -> x) (Ok !rr) (String.split_on_char '|' (tl1 v))
                       | _ -> Err (z_of_int 2) in
                     note "f" r) kvs;
               d := section_append !d (z_of_string se) !rr
             | _ -> ())
          | _ -> ()) (List.filter (fun u -> u <> "") (split_on ';' body));
      Ok !d
    | Err e -> Err e
    | UB u -> UB u in
  let model = match res with Ok d -> "0 " ^ dump_rec d | Err s -> string_of_z s | UB _ -> "UB" in
  (* the harness prints "q0,r0,f0,f0,r0": a comma before every f, units joined by commas *)
  let mstats = String.concat "," (List.rev !stats) in
  Printf.printf "CASE %d %s\n" k (match res with Ok d -> Printf.sprintf "build-rr%d" (min 4 (List.length d.d_an + List.length d.d_ns + List.length d.d_ar)) | _ -> "build-refused");
  compare_lines k "R" (Some model) lines;
  compare_lines k "S" (Some mstats) lines;
  (match res with
   | Ok d ->
     let (w, v, x) = model_wvx d in
     compare_lines k "W" (Some w) lines; compare_lines k "V" v lines; compare_lines k "X" x lines;
     if oracle "C03" then (match get_lines "R " lines with [r] when starts_with "0 " r -> roundtrip_oracle k (after "0 " r) lines | _ -> ());
     (* the same record as a TCP frame behind [pre] octets that are already in the buffer *)
     if pre >= 0 then begin
       let junk = List.init pre (fun i -> n_of_int ((i * 7 + 1) land 255)) in
       let b0 = if pre = 0 then wb_empty else wb_of_live junk [] false in
       let rec skipn n l = if n <= 0 then l else match l with [] -> [] | _ :: t -> skipn (n - 1) t in
       let (f, g) = match write_buf_tcp wfixed d b0 with
         | Ok (s, b') when int_of_z s = 0 ->
           let frame = skipn pre (w_live b') in
           ("0 " ^ hex_of_bytes frame,
            Some (match dns_parse (skipn 2 frame) (z_of_int 0) with Ok d2 -> "0 " ^ dump_rec d2 | Err e -> string_of_z e | UB _ -> "UB"))
         | Ok (s, _) -> (string_of_z s ^ " ", None)
         | Err s -> (string_of_z s ^ " ", None)
         | UB _ -> ("UB", None) in
       compare_lines k "F" (Some f) lines; compare_lines k "G" g lines;
       if oracle "C03" then
         (match get_lines "R " lines, get_lines "F " lines with
          | [r], [t] when starts_with "0 " r && starts_with "0 " t ->
            bump "tcp-frames-built";
            let nmsg = (String.length t - 2) / 2 - 2 in
            if contains "BUFFER-CHANGED-ON-ERROR" t || contains "SHORT" t then Printf.printf "FAIL %d tcp-frame %s\n" k (String.sub t 0 (min 80 (String.length t)))
            else begin
            if nmsg > 65535 then Printf.printf "FAIL %d tcp-frame-too-long frame carries %d message octets behind %d buffered octets\n" k nmsg pre;
            (match get_lines "G " lines with
                | [v] when starts_with "0 " v ->
                  let a = try Some (undump_rec (after "0 " r)) with _ -> None and b = try Some (undump_rec (after "0 " v)) with _ -> None in
                  (match a, b with
                   | Some a, Some b ->
                     if not (record_eqb a b) && not (record_has_long_txt a) && not (record_has_invalid_name a)
                        && not (record_rcode_needs_opt a && record_eqb (with_rcode a b.d_rcode) b) then
                       Printf.printf "FAIL %d tcp-frame-fields behind %d buffered octets: %s\n" k pre (record_diff a b)
                   | _ -> Printf.printf "FAIL %d tcp-frame-fields undumpable\n" k)
                | [v] when contains "frame-length-mismatch" v -> Printf.printf "FAIL %d tcp-frame-length-mismatch %s (behind %d buffered octets)\n" k v pre
                | [v] ->
                  let known = (match (try Some (undump_rec (after "0 " r)) with _ -> None) with
                      | Some a -> List.length a.d_qd <> 1 || record_text_unparseable a | None -> false) in
                  if not known then Printf.printf "FAIL %d tcp-frame-reparse behind %d buffered octets: status=%s\n" k pre v
                | _ -> Printf.printf "FAIL %d tcp-frame-reparse no reparse line\n" k)
            end
          | _ -> ())
     end
   | _ -> ())

(* ---- tcp case ---- *)
let run_tcp k nframes consume hex lines =
  let bs = bytes_of_hex hex in
  let res = dns_parse bs (z_of_int 0) in
  let model = match res with Ok d -> "0 " ^ dump_rec d | Err s -> string_of_z s | UB _ -> "UB" in
  Printf.printf "CASE %d %s\n" k (match res with Ok _ -> Printf.sprintf "tcp-%d" (min nframes 3) | _ -> "tcp-unparsed");
  compare_lines k "R" (Some model) lines;
  (match res with
   | Ok d ->
     let rec skipn n l = if n <= 0 then l else match l with [] -> [] | _ :: t -> skipn (n - 1) t in
     let b = ref wb_empty and st = ref "0" in
     for _ = 1 to nframes do
       if !st = "0" then match write_buf_tcp wfixed d !b with
         | Ok (s, b') -> st := string_of_z s; b := b'
         | Err s -> st := string_of_z s
         | UB _ -> st := "UB"
     done;
     if !st = "0" then begin
       let live = skipn consume (w_live !b) in
       let b0 = wb_of_live live !b.w_shadow !b.w_fresh in
       let start = List.length live in
       let (t, v) = match write_buf_tcp wfixed d b0 with
         | Ok (s, b') when int_of_z s = 0 ->
           let frame = skipn start (w_live b') in
           let msg = skipn 2 frame in
           ("0 " ^ hex_of_bytes frame,
            Some (match dns_parse msg (z_of_int 0) with Ok d2 -> "0 " ^ dump_rec d2 | Err e -> string_of_z e | UB _ -> "UB"))
         | Ok (s, _) -> (string_of_z s ^ " ", None)
         | Err s -> (string_of_z s ^ " ", None)
         | UB _ -> ("UB", None) in
       compare_lines k "T" (Some t) lines; compare_lines k "V" v lines
     end else compare_lines k "T" (Some (!st ^ " PREFILL")) lines;
     if oracle "C03" then
       (match get_lines "R " lines, get_lines "T " lines with
        | [r], [t] when starts_with "0 " r && starts_with "0 " t ->
          bump "tcp-frames";
          if contains "BUFFER-CHANGED-ON-ERROR" t || contains "SHORT" t then Printf.printf "FAIL %d tcp-frame %s\n" k t
          else (match get_lines "V " lines with
              | [v] when starts_with "0 " v ->
                let ok = try record_eqb (undump_rec (after "0 " r)) (undump_rec (after "0 " v)) with _ -> false in
                if not ok then Printf.printf "FAIL %d tcp-frame-fields after %d earlier frame(s), %d consumed: written=[%s] reparsed=[%s] frame=[%s]\n" k nframes consume (after "0 " r) (after "0 " v) t
              | [v] -> Printf.printf "FAIL %d tcp-frame-reparse after %d earlier frame(s), %d consumed: status=%s frame=[%s]\n" k nframes consume v t
              | _ -> Printf.printf "FAIL %d tcp-frame-reparse no reparse line\n" k)
        | _ -> ())
   | _ -> ())

(* ---- legacy query builders ---- *)
let run_create_query k cls ty id rd maxudp namehex lines =
  let name = bytes_of_hex namehex in
  let mu = if maxudp = -1 then 0 else maxudp in
  let res = create_query wfixed name (z_of_int cls) (z_of_int ty) (z_of_int id) (z_of_int rd) (z_of_int mu) in
  let model = match res with Ok bs -> "0 " ^ hex_of_bytes bs | Err s -> string_of_z s ^ " " | UB _ -> "UB" in
  Printf.printf "CASE %d %s\n" k (match res with Ok _ -> "query-built" | Err s -> "query-err" ^ string_of_z s | UB _ -> "model-ub");
  compare_lines k "R" (Some model) lines;
  (match res with
   | Ok bs -> compare_lines k "V" (Some (match dns_parse bs (z_of_int 0) with Ok d2 -> "0 " ^ dump_rec d2 | Err e -> string_of_z e | UB _ -> "UB")) lines
   | _ -> ());
  if oracle "C03" then
    match get_lines "R " lines with
    | [r] when starts_with "0 " r ->
      bump "queries-built";
      if contains "RESULT-ON-ERROR" r then Printf.printf "FAIL %d query-result-on-error %s\n" k r;
      let nbytes = (String.length r - 2) / 2 in
      if nbytes > 65535 then Printf.printf "FAIL %d query-too-long %d octets\n" k nbytes;
      (* the record the builder is specified to make: one question, optional OPT *)
      (match record_create_query name (z_of_int cls) (z_of_int ty) (z_of_int (id land 65535)) (z_of_int (if rd = 0 then 0 else 8))
               (if mu < 0 then z_of_string "18446744073709551615" else z_of_int mu), get_lines "V " lines with
       | Ok want, [v] when starts_with "0 " v ->
         let ok = try record_eqb want (undump_rec (after "0 " v)) with _ -> false in
         if not ok then Printf.printf "FAIL %d query-fields wanted=[%s] reparsed=[%s]\n" k (dump_rec want) (after "0 " v)
       | _, [v] -> Printf.printf "FAIL %d query-reparse status=%s bytes=[%s]\n" k v r
       | _, _ -> Printf.printf "FAIL %d query-reparse no reparse line\n" k)
    | _ -> ()

(* ---- parse case ---- *)
let run_parse k flags hex lines =
  let bs = bytes_of_hex hex in
  let res = dns_parse bs (z_of_int flags) in
  let model = match res with
    | Ok d -> "0 " ^ dump_rec d
    | Err s -> string_of_z s
    | UB _ -> "UB" in
  let cls = match res with
    | Ok d -> Printf.sprintf "ok-rr%d" (min 4 (List.length d.d_an + List.length d.d_ns + List.length d.d_ar))
    | Err s -> let s = int_of_z s in
      if List.length bs < 12 then "trivial-short" else Printf.sprintf "err%d" s
    | UB _ -> "model-ub" in
  Printf.printf "CASE %d %s\n" k cls;
  let get p = List.filter_map (fun l -> if starts_with p l then Some (after p l) else None) lines in
  (match get "R " with
   | [g] ->
     if g <> model then Printf.printf "DIFF %d model=[%s] impl=[%s]\n" k model g;
     if oracle "C02" then begin
       (match res with UB _ -> Printf.printf "FAIL %d model-ub the model of the parser reaches undefined behaviour on this input\n" k | _ -> ());
       (* the implementation accepts a message whose names the model refuses (EBADNAME: a pointer that
          does not go strictly backward, a reserved label type, a truncated name) *)
       (match res with
        | Err s when int_of_z s = 8 && starts_with "0 " g ->
          Printf.printf "FAIL %d forward-pointer-accepted the parser accepts a message in which the model refuses a name (EBADNAME): impl=[%s]\n" k g
        | _ -> ());
       (* error with a result / success without one is printed by the harness *)
       if not (starts_with "0 " g) && String.length g > 3 && contains "RESULT-ON-ERROR" g then
         Printf.printf "FAIL %d error-with-result %s\n" k g
     end
   | _ ->
     if not (List.exists (fun l -> starts_with "MONITOR" l) lines) then
       Printf.printf "DIFF %d model=[%s] impl=<no result line>\n" k model);
  (* C04: the implementation's report against the independent RFC reference decoder *)
  if oracle "C04" && flags = 0 then begin
    let norm_null t = Str_replace.all "=~" "=b:" t in
    match get "R " with
    | [g] ->
      let impl_ok = starts_with "0 " g in
      (match ref_decode bs with
       | Some rf ->
         if impl_ok then begin
           (* the RCODEs the library has enumerators for, written down here from ares_dns_record.h /
              the IANA registry (0..11 and 16..23) - NOT taken from the generated tables, so that a
              change of ares_dns_rcode_isvalid() cannot move the expectation along with it *)
           let known_rcode rc = (rc >= 0 && rc <= 11) || (rc >= 16 && rc <= 23) in
           let nr = norm_ref rf.rf_rec in
           let raw = int_of_z rf.rf_rec.d_rcode in
           let nr = { nr with d_rcode = z_of_int (if known_rcode raw then raw else 2) } in
           let want = dump_rec nr in
           let got = norm_null (after "0 " g) in
           bump "ref-compared";
           if got <> want then Printf.printf "FAIL %d ref-mismatch impl=[%s] ref=[%s]\n" k got want
         end else if ref_strict bs then
           Printf.printf "FAIL %d ref-accepts status=%s but the message is well-formed in the supported subset: ref=[%s]\n" k g (dump_rec (norm_ref rf.rf_rec))
         else bump "both-reject-or-unsupported"
       | None -> if impl_ok then (bump "parser-lenient(ref-rejects)"; if Sys.getenv_opt "WIRE_DEBUG" <> None then Printf.printf "NOTE %d lenient %s\n" k g) else bump "both-reject")
    | _ -> ()
  end;
  (* write / re-parse / re-write of what the parser produced: model vs implementation, and the
     C03 oracle on the implementation's own lines *)
  (match res with
   | Ok d ->
     let (w, v, x) = model_wvx d in
     let v = if flags = 0 then v else None and x = if flags = 0 then x else None in
     compare_lines k "W" (Some w) lines;
     if flags = 0 then (compare_lines k "V" v lines; compare_lines k "X" x lines)
   | _ -> ());
  if oracle "C03" && flags = 0 then
    (match get "R " with [r] when starts_with "0 " r -> roundtrip_oracle k (after "0 " r) lines | _ -> ())

(* follow the name at [start] the way any decoder must, with no rule about direction, and report the
   first pointer that does not target strictly below every label / pointer octet read before it
   (or a walk that does not end): what "compression pointers can never loop or run forward" forbids *)
let pointer_discipline (bytes : int array) start =
  let n = Array.length bytes in
  let minpos = ref max_int in
  let rec go pos steps =
    if steps > 4 * n + 64 then Some "the walk does not terminate"
    else if pos < 0 || pos >= n then None
    else begin
      let b = bytes.(pos) in
      if pos < !minpos then minpos := pos;
      if b land 0xC0 = 0xC0 then begin
        if pos + 1 >= n then None else
        let tgt = ((b land 0x3F) lsl 8) lor bytes.(pos + 1) in
        if tgt >= !minpos then Some (Printf.sprintf "pointer at %d targets %d, not below the lowest offset read so far (%d)" pos tgt !minpos)
        else go tgt (steps + 1)
      end
      else if b land 0xC0 <> 0 then None
      else if b = 0 then None
      else go (pos + 1 + b) (steps + 1)
    end in
  go start 0

(* ---- legacy expand_name / expand_string ---- *)
let run_expand k is_name enc alen want hex lines =
  let bs = bytes_of_hex hex in
  let len = List.length bs in
  let rec firstn n l = if n <= 0 then [] else match l with [] -> [] | x :: t -> x :: firstn (n - 1) t in
  let blk, alen = if alen > 0 && alen <= len then firstn alen bs, alen else bs, (if alen > 0 then len else alen) in
  let res = (if is_name then expand_name else expand_string) blk (z_of_int enc) (z_of_int alen) want in
  let model = match res with
    | Ok (s, enclen) ->
      Printf.sprintf "0 %s %s" (string_of_z enclen) (if want then "s:" ^ hex_of_bytes (truncate_nul s) else "~")
    | Err s -> Printf.sprintf "%s 0 ~" (string_of_z s)
    | UB _ -> "UB" in
  let cls = match res with
    | Ok _ -> if is_name then "name-ok" else "str-ok"
    | Err s -> Printf.sprintf "%s-err%d" (if is_name then "name" else "str") (int_of_z s)
    | UB _ -> "model-ub" in
  Printf.printf "CASE %d %s\n" k cls;
  (match List.filter_map (fun l -> if starts_with "R " l then Some (after "R " l) else None) lines with
   | [g] -> if g <> model then Printf.printf "DIFF %d model=[%s] impl=[%s]\n" k model g
   | _ -> if not (List.exists (fun l -> starts_with "MONITOR" l) lines) then
       Printf.printf "DIFF %d model=[%s] impl=<no result line>\n" k model);
  if oracle "C02" then begin
    (match res with UB _ -> Printf.printf "FAIL %d model-ub the model reaches undefined behaviour on this input\n" k | _ -> ());
    if is_name then
      match List.filter_map (fun l -> if starts_with "R " l then Some (after "R " l) else None) lines with
      | [g] when starts_with "0 " g ->
        bump "names-accepted";
        let arr = Array.of_list (List.map int_of_n blk) in
        (match pointer_discipline arr enc with
         | Some why -> Printf.printf "FAIL %d forward-pointer-accepted ares_expand_name returned success although %s: %s\n" k why g
         | None -> ());
        (match res with
         | Err s -> Printf.printf "FAIL %d forward-pointer-accepted ares_expand_name returned success, the model refuses the name (status %s): %s\n" k (string_of_z s) g
         | _ -> ())
      | _ -> ()
  end

let () =
  let cases = read_lines Sys.argv.(1) in
  let impl = impl_table Sys.argv.(2) in
  List.iteri (fun k line ->
    match String.index_opt line '|' with
    | None -> Printf.printf "CASE %d trivial-badcase\n" k
    | Some i ->
      let head = String.sub line 0 i in
      let body = String.sub line (i + 1) (String.length line - i - 1) in
      let lines = impl_lines impl k in
      List.iter (fun l -> if starts_with "H " l then
                    Printf.printf "FAIL %d hang the call did not return within 2 s (%s)\n" k head) lines;
      (* the value an out-parameter held BEFORE the call was handed to free()/realloc() or written through *)
      List.iter (fun l -> if starts_with "P " l then
                    Printf.printf "FAIL %d out-parameter-read the library used what the caller's out-parameter held before the call: %s (%s)\n" k (after "P " l) head) lines;
      if oracle "C02" then
        List.iter (fun l -> if starts_with "L " l then
                      Printf.printf "FAIL %d leak %s allocation(s) of the library still live after the call (%s)\n" k (after "L " l) head) lines;
      (match split_on ':' head with
       | ["p"; fl] -> run_parse k (int_of_string fl) body lines
       | "b" :: _ -> run_build k head body lines
       | ["t"; n; c] -> run_tcp k (int_of_string n) (int_of_string c) body lines
       | ["c"; cl; ty; id; rd; mu] -> run_create_query k (int_of_string cl) (int_of_string ty) (int_of_string id) (int_of_string rd) (int_of_string mu) body lines
       | ["n"; enc; alen; want] -> run_expand k true (int_of_string enc) (int_of_string alen) (want = "1") body lines
       | ["s"; enc; alen; want] -> run_expand k false (int_of_string enc) (int_of_string alen) (want = "1") body lines
       | _ -> Printf.printf "CASE %d trivial-badkind\n" k)) cases;
  Hashtbl.iter (fun k v -> Printf.printf "STAT %s %d\n" k v) counts
