(* Model-side driver of the wire engine (C02 / C04 / C03).
   Runs the extracted model (coq/Wire/Parse.v, Name.v) on every case, prints the same canonical
   text as harness/wire_drv.c and compares (DIFF).  The property oracles (FAIL) are selected by
   the environment variable WIRE_ORACLES (comma separated subset of C02,C03,C04; default all). *)
open WireModel
(*INCLUDE conv.inc*)

let oracles =
  match Sys.getenv_opt "WIRE_ORACLES" with
  | None | Some "" -> ["C02"; "C03"; "C04"]
  | Some s -> split_on ',' s
let oracle o = List.mem o oracles

let n_of_int i = if i = 0 then N0 else Npos (pos_of_int i)
let int_of_n = function N0 -> 0 | Npos p -> int_of_pos p

let hexval c = match c with
  | '0'..'9' -> Char.code c - 48 | 'a'..'f' -> Char.code c - 87 | 'A'..'F' -> Char.code c - 55 | _ -> 0
let bytes_of_hex s =
  let n = String.length s / 2 in
  let rec go i acc = if i < 0 then acc else go (i - 1) (n_of_int ((hexval s.[2 * i] lsl 4) lor hexval s.[2 * i + 1]) :: acc) in
  go (n - 1) []
let hex_of_bytes l =
  let b = Buffer.create 64 in
  List.iter (fun x -> Buffer.add_string b (Printf.sprintf "%02x" (int_of_n x))) l;
  Buffer.contents b

let status_of = function Ok _ -> "0" | Err s -> string_of_z s | UB _ -> "UB"

let str_hex = function None -> "~" | Some l -> "s:" ^ hex_of_bytes l

let dump_fval = function
  | FAddr b | FAddr6 b -> hex_of_bytes b
  | FU8 z | FU16 z | FU32 z -> string_of_z z
  | FName s | FStr s -> str_hex s
  | FBin None -> "~"
  | FBin (Some b) -> "b:" ^ hex_of_bytes b
  | FAbin l -> "a:" ^ String.concat "|" (List.map hex_of_bytes l)
  | FOpt l -> "o:" ^ String.concat "|" (List.map (fun (o, v) -> string_of_z o ^ ":" ^ hex_of_bytes v) l)

let dump_rr r =
  Printf.sprintf "s:%s/%s/%s/%s{%s}" (hex_of_bytes r.rr_name) (string_of_z r.rr_type) (string_of_z r.rr_class)
    (string_of_z r.rr_ttl)
    (String.concat ";" (List.map (fun (k, v) -> string_of_z k ^ "=" ^ dump_fval v) r.rr_fields))

let dump_rec d =
  Printf.sprintf "id=%s fl=%s op=%s rc=%s qd=[%s] an=[%s] ns=[%s] ar=[%s]"
    (string_of_z d.d_id) (string_of_z d.d_flags) (string_of_z d.d_opcode) (string_of_z d.d_rcode)
    (String.concat "," (List.map (fun q -> Printf.sprintf "s:%s/%s/%s" (hex_of_bytes q.q_name) (string_of_z q.q_type) (string_of_z q.q_class)) d.d_qd))
    (String.concat "," (List.map dump_rr d.d_an))
    (String.concat "," (List.map dump_rr d.d_ns))
    (String.concat "," (List.map dump_rr d.d_ar))

let starts_with p s = String.length s >= String.length p && String.sub s 0 (String.length p) = p
let after p s = String.sub s (String.length p) (String.length s - String.length p)

let contains sub s =
  let n = String.length sub and m = String.length s in
  let rec go i = i + n <= m && (String.sub s i n = sub || go (i + 1)) in
  go 0

module Str_replace = struct
  let all pat rep s =
    let n = String.length pat in
    let b = Buffer.create (String.length s) in
    let i = ref 0 in
    while !i < String.length s do
      if !i + n <= String.length s && String.sub s !i n = pat then (Buffer.add_string b rep; i := !i + n)
      else (Buffer.add_char b s.[!i]; incr i)
    done;
    Buffer.contents b
end

let counts = Hashtbl.create 16
let bump k = Hashtbl.replace counts k (1 + (try Hashtbl.find counts k with Not_found -> 0))

let rec truncate_nul = function [] -> [] | N0 :: _ -> [] | x :: t -> x :: truncate_nul t

(* ---- parse case ---- *)
let run_parse k flags hex lines =
  let bs = bytes_of_hex hex in
  let res = dns_parse bs (z_of_int flags) in
  let model = match res with
    | Ok d -> "0 " ^ dump_rec d
    | Err s -> string_of_z s
    | UB _ -> "UB" in
  let cls = match res with
    | Ok d -> Printf.sprintf "ok-rr%d" (min 4 (List.length d.d_an + List.length d.d_ns + List.length d.d_ar))
    | Err s -> let s = int_of_z s in
      if List.length bs < 12 then "trivial-short" else Printf.sprintf "err%d" s
    | UB _ -> "model-ub" in
  Printf.printf "CASE %d %s\n" k cls;
  let get p = List.filter_map (fun l -> if starts_with p l then Some (after p l) else None) lines in
  (match get "R " with
   | [g] ->
     if g <> model then Printf.printf "DIFF %d model=[%s] impl=[%s]\n" k model g;
     if oracle "C02" then begin
       (match res with UB _ -> Printf.printf "FAIL %d model-ub the model of the parser reaches undefined behaviour on this input\n" k | _ -> ());
       (* error with a result / success without one is printed by the harness *)
       if not (starts_with "0 " g) && String.length g > 3 && contains "RESULT-ON-ERROR" g then
         Printf.printf "FAIL %d error-with-result %s\n" k g
     end
   | _ ->
     if not (List.exists (fun l -> starts_with "MONITOR" l) lines) then
       Printf.printf "DIFF %d model=[%s] impl=<no result line>\n" k model);
  (* C04: the implementation's report against the independent RFC reference decoder *)
  if oracle "C04" && flags = 0 then begin
    let norm_null t = Str_replace.all "=~" "=b:" t in
    match get "R " with
    | [g] ->
      let impl_ok = starts_with "0 " g in
      (match ref_decode bs with
       | Some rf ->
         if impl_ok then begin
           let want = dump_rec (norm_ref rf.rf_rec) in
           let got = norm_null (after "0 " g) in
           bump "ref-compared";
           if got <> want then Printf.printf "FAIL %d ref-mismatch impl=[%s] ref=[%s]\n" k got want
         end else if ref_strict bs then
           Printf.printf "FAIL %d ref-accepts status=%s but the message is well-formed in the supported subset: ref=[%s]\n" k g (dump_rec (norm_ref rf.rf_rec))
         else bump "both-reject-or-unsupported"
       | None -> if impl_ok then (bump "parser-lenient(ref-rejects)"; if Sys.getenv_opt "WIRE_DEBUG" <> None then Printf.printf "NOTE %d lenient %s\n" k g) else bump "both-reject")
    | _ -> ()
  end;
  (* C03: implementation-only round trip of what the parser produced *)
  if oracle "C03" then begin
    match get "R ", get "W " with
    | [r], [w] when starts_with "0 " r ->
      (match String.index_opt w ' ' with
       | Some i when String.sub w 0 i = "0" ->
         let wbytes = after "0 " w in
         bump "roundtrip-written";
         if String.length wbytes / 2 > 65535 then Printf.printf "FAIL %d roundtrip-too-long written message has %d octets\n" k (String.length wbytes / 2);
         (match get "V " with
          | [v] when starts_with "0 " v ->
            if v <> r then Printf.printf "FAIL %d roundtrip-fields parsed=[%s] reparsed=[%s]\n" k r v
            else (match get "X " with
                | [x] -> if x <> w then Printf.printf "FAIL %d roundtrip-rewrite first=[%s] second=[%s]\n" k w x
                | _ -> Printf.printf "FAIL %d roundtrip-rewrite no second write\n" k)
          | [v] -> Printf.printf "FAIL %d roundtrip-reparse status=%s written=[%s]\n" k v wbytes
          | _ -> Printf.printf "FAIL %d roundtrip-reparse no reparse line\n" k)
       | _ -> bump "roundtrip-write-refused")
    | _ -> ()
  end

(* ---- legacy expand_name / expand_string ---- *)
let run_expand k is_name enc alen want hex lines =
  let bs = bytes_of_hex hex in
  let len = List.length bs in
  let rec firstn n l = if n <= 0 then [] else match l with [] -> [] | x :: t -> x :: firstn (n - 1) t in
  let blk, alen = if alen > 0 && alen <= len then firstn alen bs, alen else bs, (if alen > 0 then len else alen) in
  let res = (if is_name then expand_name else expand_string) blk (z_of_int enc) (z_of_int alen) want in
  let model = match res with
    | Ok (s, enclen) ->
      Printf.sprintf "0 %s %s" (string_of_z enclen) (if want then "s:" ^ hex_of_bytes (truncate_nul s) else "~")
    | Err s -> Printf.sprintf "%s 0 ~" (string_of_z s)
    | UB _ -> "UB" in
  let cls = match res with
    | Ok _ -> if is_name then "name-ok" else "str-ok"
    | Err s -> Printf.sprintf "%s-err%d" (if is_name then "name" else "str") (int_of_z s)
    | UB _ -> "model-ub" in
  Printf.printf "CASE %d %s\n" k cls;
  (match List.filter_map (fun l -> if starts_with "R " l then Some (after "R " l) else None) lines with
   | [g] -> if g <> model then Printf.printf "DIFF %d model=[%s] impl=[%s]\n" k model g
   | _ -> if not (List.exists (fun l -> starts_with "MONITOR" l) lines) then
       Printf.printf "DIFF %d model=[%s] impl=<no result line>\n" k model);
  if oracle "C02" then
    match res with UB _ -> Printf.printf "FAIL %d model-ub the model reaches undefined behaviour on this input\n" k | _ -> ()

let () =
  let cases = read_lines Sys.argv.(1) in
  let impl = impl_table Sys.argv.(2) in
  List.iteri (fun k line ->
    match String.index_opt line '|' with
    | None -> Printf.printf "CASE %d trivial-badcase\n" k
    | Some i ->
      let head = String.sub line 0 i in
      let body = String.sub line (i + 1) (String.length line - i - 1) in
      let lines = impl_lines impl k in
      if oracle "C02" then
        List.iter (fun l -> if starts_with "L " l then
                      Printf.printf "FAIL %d leak %s allocation(s) of the library still live after the call (%s)\n" k (after "L " l) head) lines;
      (match split_on ':' head with
       | ["p"; fl] -> run_parse k (int_of_string fl) body lines
       | ["n"; enc; alen; want] -> run_expand k true (int_of_string enc) (int_of_string alen) (want = "1") body lines
       | ["s"; enc; alen; want] -> run_expand k false (int_of_string enc) (int_of_string alen) (want = "1") body lines
       | _ -> Printf.printf "CASE %d trivial-badkind\n" k)) cases;
  Hashtbl.iter (fun k v -> Printf.printf "STAT %s %d\n" k v) counts
