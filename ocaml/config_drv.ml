(* Model-side driver of the configuration engine (C15, C16): runs the extracted model
   (coq/Config) on the cases of harness/config_drv.c, compares with the implementation (DIFF)
   and applies the properties' own oracles to the implementation's output (FAIL):
     leak                 allocations outstanding after a case (counted by the harness)
     junk-dependent       same files with / without lines that the extracted grammar
                          (Spec.junk_class_raw / junk_db_line) calls junk give different channels
     range                timeout / tries zero, ndots beyond the documented 0-15 from system config
     user-overridden      a field whose option bit the application set differs from its value
                          (after init and after reinit)
     save-init-loss       init(save(A)) differs from A
     dup-loss / dup-failed
     csv-not-fixpoint     set(csv(A)) does not reproduce csv(A)
     linklocal-unsettable the channel has no interface lookup functions although the OS has them *)
open ConfigModel
(*INCLUDE conv.inc*)

let n_of_int i = if i <= 0 then N0 else Npos (pos_of_int i)
let int_of_n = function N0 -> 0 | Npos p -> int_of_pos p
let bytes_of_str s = List.init (String.length s) (fun i -> n_of_int (Char.code s.[i]))
let str_of_bytes l = let b = Buffer.create 16 in List.iter (fun c -> Buffer.add_char b (Char.chr (int_of_n c land 255))) l; Buffer.contents b
let hexval c = match c with '0'..'9' -> Char.code c - 48 | 'a'..'f' -> Char.code c - 87 | 'A'..'F' -> Char.code c - 55 | _ -> -1
let unhex s =
  let b = Buffer.create 16 in
  let n = String.length s in
  let rec go i = if i + 1 < n then begin
      let a = hexval s.[i] and c = hexval s.[i + 1] in
      if a >= 0 && c >= 0 then (Buffer.add_char b (Char.chr (a * 16 + c)); go (i + 2)) end in
  go 0; Buffer.contents b
let hex s = String.concat "" (List.init (String.length s) (fun i -> Printf.sprintf "%02x" (Char.code s.[i])))
let hexstr_opt = function None -> "-" | Some s -> if s = "" then "." else hex s
let starts_with p s = String.length s >= String.length p && String.sub s 0 (String.length p) = p
let contains sub s =
  let n = String.length sub and m = String.length s in
  let rec go i = i + n <= m && (String.sub s i n = sub || go (i + 1)) in go 0

(* ---- case text ---- *)
type case = { kind : string; params : (string * string) list; units : (char * string) list }

let parse_case line =
  match String.index_opt line '|' with
  | None -> None
  | Some i ->
    let head = String.sub line 0 i and body = String.sub line (i + 1) (String.length line - i - 1) in
    let kind, ps = match String.index_opt head ',' with
      | None -> head, ""
      | Some j -> String.sub head 0 j, String.sub head (j + 1) (String.length head - j - 1) in
    let params = List.filter_map (fun kv -> if kv = "" then None else
        match String.index_opt kv '=' with
        | None -> Some (kv, "")
        | Some e -> Some (String.sub kv 0 e, String.sub kv (e + 1) (String.length kv - e - 1))) (split_on '&' ps) in
    let units = List.filter_map (fun u -> if u = "" then None else Some (u.[0], unhex (String.sub u 1 (String.length u - 1)))) (split_on ';' body) in
    Some { kind; params; units }

let pget c k = List.assoc_opt k c.params
let pstr c k = match pget c k with None -> None | Some v -> Some (unhex v)
let pint c k = match pget c k with None -> None | Some v -> (try Some (int_of_string v) with _ -> Some 0)

let file_of c keep junk with_junk =
  let exists = List.exists (fun (t, _) -> t = keep || t = junk) c.units in
  if not exists then None
  else begin
    let ls = List.filter_map (fun (t, d) -> if t = keep || (with_junk && t = junk) then Some d else None) c.units in
    let txt = String.concat "\n" ls in
    Some (if ls <> [] && pget c "noeol" = None then txt ^ "\n" else txt)
  end

(* ---- model values ---- *)
let ob = function None -> None | Some s -> Some (bytes_of_str s)
let addr_of_hex h = let b = unhex h in if String.length b = 4 then A4 (bytes_of_str b) else A6 (bytes_of_str (let p = b ^ String.make 16 '\000' in String.sub p 0 16))
let addr_hex = function A4 b -> hex (str_of_bytes b) | A6 b -> hex (str_of_bytes b)

let bit c k b = match pget c k with Some _ -> 1 lsl b | None -> 0

let i32_of_int v = let v = v land 0xffffffff in if v >= 0x80000000 then v - 0x100000000 else v
let strtol_c v = (* strtol(v, NULL, 0) then cast to int, as the C driver does *)
  i32_of_int (try int_of_string v with _ -> 0)

let build_options c =
  let geti k = match pget c k with Some v -> z_of_int (strtol_c v) | None -> Z0 in
  let getu16 k = match pget c k with Some v -> z_of_int ((strtol_c v) land 0xffff) | None -> Z0 in
  let lst k f = match pget c k with None -> [] | Some v -> List.filter_map (fun x -> if x = "" then None else Some (f x)) (split_on ',' v) in
  let timeout = if pget c "timeout" <> None then geti "timeout" else geti "timeoutms" in
  let retry_c, retry_d = match pget c "retry" with
    | None -> Z0, Z0
    | Some v -> (match split_on ':' v with
        | [a; b] -> z_of_int ((strtol_c a) land 0xffff), z_of_int (try int_of_string b with _ -> 0)
        | [a] -> z_of_int ((strtol_c a) land 0xffff), Z0
        | _ -> Z0, Z0) in
  let o = { o_flags = geti "flags"; o_timeout = timeout; o_tries = geti "tries"; o_ndots = geti "ndots";
            o_udp = getu16 "udp"; o_tcp = getu16 "tcp"; o_sndbuf = geti "sndbuf"; o_rcvbuf = geti "rcvbuf";
            o_servers = lst "servers" (fun h -> bytes_of_str (unhex h));
            o_domains = (match pget c "domains" with None -> [] | Some v -> if v = "" then [] else List.map (fun h -> bytes_of_str (unhex h)) (split_on ',' v));
            o_lookups = (match pget c "lookups" with None -> None | Some "-" -> None | Some v -> Some (bytes_of_str (unhex v)));
            o_sscb = (if pget c "sscb" <> None then Zpos XH else Z0);
            o_sortlist = lst "sortlist" (fun e -> match split_on '/' e with
                | [a; m] -> { ap_addr = addr_of_hex a; ap_mask = z_of_int ((try int_of_string m with _ -> 0) land 255) }
                | _ -> { ap_addr = addr_of_hex e; ap_mask = Z0 });
            o_ednspsz = geti "ednspsz"; o_udpmaxq = geti "udpmaxq"; o_maxtimeout = geti "maxtimeout";
            o_qcache = (match pget c "qcache" with Some v -> z_of_int ((try int_of_string v with _ -> 0) land 0xffffffff) | None -> Z0);
            o_retry_chance = retry_c; o_retry_delay = retry_d } in
  let mask = bit c "flags" 0 lor bit c "timeout" 1 lor bit c "tries" 2 lor bit c "ndots" 3 lor bit c "udp" 4
             lor bit c "tcp" 5 lor bit c "servers" 6 lor bit c "domains" 7 lor bit c "lookups" 8 lor bit c "sscb" 9
             lor bit c "sortlist" 10 lor bit c "sndbuf" 11 lor bit c "rcvbuf" 12 lor bit c "timeoutms" 13
             lor bit c "rotate" 14 lor bit c "ednspsz" 15 lor bit c "norotate" 16 lor (1 lsl 17)
             lor bit c "udpmaxq" 19 lor bit c "maxtimeout" 20 lor bit c "qcache" 21 lor bit c "retry" 23 in
  (o, mask)

let env_of c ~with_junk ~reinit ~defifs =
  let resolv = if reinit then file_of c 'R' 'r' with_junk else file_of c 'L' 'J' with_junk in
  { e_files = { f_resolv = ob resolv; f_nsswitch = ob (file_of c 'N' 'n' with_junk);
                f_netsvc = ob (file_of c 'V' 'v' with_junk); f_svc = ob (file_of c 'S' 's' with_junk) };
    e_localdomain = ob (match pstr c "jenv.L" with Some v when with_junk -> Some v | Some _ -> None | None -> pstr c "env.L");
    e_res_options = ob (match pstr c "jenv.R" with Some v when with_junk -> Some v | Some _ -> None | None -> pstr c "env.R");
    (* gethostname(buf, 256) of the harness truncates to 255 characters *)
    e_hostname = bytes_of_str (match pstr c "host" with Some h -> if String.length h > 255 then String.sub h 0 255 else h | None -> "localhost");
    e_defifs = defifs }

(* ---- rendering exactly like harness/config_drv.c ---- *)
let zs z = string_of_int (int_of_z z)
let zx z = Printf.sprintf "%x" (int_of_z z)
let csv_text = function
  | Ok b -> let s = str_of_bytes b in if s = "" then "." else s
  | _ -> "(null)"

let render_chan st (c : chan) =
  let sortl l = if l = [] then "-" else String.concat "," (List.map (fun p -> addr_hex p.ap_addr ^ "/" ^ zs p.ap_mask) l) in
  Printf.sprintf "st=%d mask=%s flags=%s timeout=%s tries=%s ndots=%s maxtimeout=%s rotate=%d udp=%s tcp=%s sndbuf=%s rcvbuf=%s ednspsz=%s udpmaxq=%s qcache=%s retry=%s:%s sscb=%s aif=%d lookups=%s domains=%s sortlist=%s servers=%s ldev=%s lip4=%s lip6=%s"
    st (zx c.c_optmask) (zx c.c_flags) (zs c.c_timeout) (zs c.c_tries) (zs c.c_ndots) (zs c.c_maxtimeout)
    (if c.c_rotate then 1 else 0) (zs c.c_udp) (zs c.c_tcp) (zs c.c_sndbuf) (zs c.c_rcvbuf) (zs c.c_ednspsz)
    (zs c.c_udpmaxq) (zs c.c_qcache) (zs c.c_retry_chance) (zs c.c_retry_delay) (zs c.c_sscb)
    (match c.c_ifs with Some _ -> 1 | None -> 0)
    (hexstr_opt (match c.c_lookups with None -> None | Some b -> Some (str_of_bytes b)))
    (if c.c_domains = [] then "-" else String.concat "," (List.map (fun d -> hexstr_opt (Some (str_of_bytes d))) c.c_domains))
    (sortl c.c_sortlist)
    (csv_text (get_servers_csv inet_fns c.c_servers))
    (hexstr_opt (Some (str_of_bytes c.c_ldev))) (zx c.c_lip4) (hex (str_of_bytes c.c_lip6))

let render_saved (o : options) m =
  let mi = int_of_z m in
  let b = Buffer.create 128 in
  let has k = mi land (1 lsl k) <> 0 in
  let add s = Buffer.add_string b s in
  add (Printf.sprintf "st=0 mask=%x" (mi land 0xffffffff));
  if has 0 then add (" flags=" ^ Printf.sprintf "%x" ((int_of_z o.o_flags) land 0xffffffff));
  if has 13 then add (" timeout=" ^ zs o.o_timeout);
  if has 2 then add (" tries=" ^ zs o.o_tries);
  if has 3 then add (" ndots=" ^ zs o.o_ndots);
  if has 20 then add (" maxtimeout=" ^ zs o.o_maxtimeout);
  if has 4 then add (" udp=" ^ zs o.o_udp);
  if has 5 then add (" tcp=" ^ zs o.o_tcp);
  if has 11 then add (" sndbuf=" ^ zs o.o_sndbuf);
  if has 12 then add (" rcvbuf=" ^ zs o.o_rcvbuf);
  if has 15 then add (" ednspsz=" ^ zs o.o_ednspsz);
  if has 19 then add (" udpmaxq=" ^ zs o.o_udpmaxq);
  if has 21 then add (" qcache=" ^ zs o.o_qcache);
  if has 23 then add (" retry=" ^ zs o.o_retry_chance ^ ":" ^ zs o.o_retry_delay);
  if has 9 then add (" sscb=" ^ zs o.o_sscb);
  if has 8 then add (" lookups=" ^ hexstr_opt (match o.o_lookups with None -> None | Some x -> Some (str_of_bytes x)));
  if has 7 then add (" domains=" ^ (if o.o_domains = [] then "-" else String.concat "," (List.map (fun d -> hexstr_opt (Some (str_of_bytes d))) o.o_domains)));
  if has 10 then add (" sortlist=" ^ (if o.o_sortlist = [] then "-" else String.concat "," (List.map (fun p -> addr_hex p.ap_addr ^ "/" ^ zs p.ap_mask) o.o_sortlist)));
  if has 6 then add (" servers=" ^ (if o.o_servers = [] then "-" else String.concat "," (List.map (fun s -> hex (str_of_bytes s)) o.o_servers)));
  Buffer.contents b

(* key=value fields of a dump line *)
let fields s = List.filter_map (fun t -> match String.index_opt t '=' with
    | None -> None | Some i -> Some (String.sub t 0 i, String.sub t (i + 1) (String.length t - i - 1))) (split_on ' ' s)
let fget fs k = match List.assoc_opt k fs with Some v -> v | None -> ""

exception Model_ub
exception Model_unmodelled
let un = function
  | Ok x -> Stdlib.Ok x
  | Err s -> if int_of_z s = -2 then raise Model_unmodelled else Stdlib.Error (int_of_z s)
  | UB _ -> raise Model_ub

(* ---- per case ---- *)
let garbage = z_of_int 0x5a5a5a5a
let out = Buffer.create 65536
let pr fmt = Printf.bprintf out fmt

let jclass_name j = match int_of_n (jclass_id j) with
  | 0 -> "comment" | 1 -> "unknown-keyword" | 2 -> "no-argument" | 3 -> "unprintable" | 4 -> "overlong"
  | 5 -> "nameserver-tokens" | 6 -> "sortlist-token" | 7 -> "options-plain" | 8 -> "options-numeric"
  | 9 -> "search-empty" | 10 -> "lookup-noword" | _ -> "sortlist-mask"

(* A "nameserver" line all of whose entries are URIs that cannot name a server: another scheme, or a
   dns:// URI that violates RFC 3986 / the rules of ares_uri.h in a way that does not depend on the
   parser - empty host, host that is not an IP address, bad percent escape, characters that may
   not appear in a URI, non-numeric or too large port, an empty query pair or a pair without key.
   General URIs are not modelled (robustness only): this class has no theorem behind it, but the
   metamorphic oracle applies - such a line must be ignored like any other junk. *)
let uri_cannot_name_server (t : string) =
  let lower = String.lowercase_ascii t in
  let find_sub s sub = let n = String.length s and m = String.length sub in
    let rec go i = if i + m > n then None else if String.sub s i m = sub then Some i else go (i + 1) in go 0 in
  match find_sub t "://" with
  | None ->
    (* plain form: an address with a numeric port above 65535 *)
    (match String.rindex_opt t ':' with
     | Some j when j > 0 && j < String.length t - 1 ->
       let a = String.sub t 0 j and d = String.sub t (j + 1) (String.length t - j - 1) in
       let a_ok = if a.[0] = '[' then a.[String.length a - 1] = ']' && pton_unspec (bytes_of_str (String.sub a 1 (String.length a - 2))) <> None
         else String.contains a '.' && not (String.contains a ':') && pton_unspec (bytes_of_str a) <> None in
       a_ok && String.for_all (fun ch -> ch >= '0' && ch <= '9') d && (String.length d > 5 || int_of_string d > 65535)
     | _ -> false)
  | Some i ->
    let scheme = String.sub lower 0 i and rest = String.sub t (i + 3) (String.length t - i - 3) in
    if scheme <> "dns" then true else begin
      let cut s chars = let n = String.length s in
        let rec go i = if i >= n then n else if String.contains chars s.[i] then i else go (i + 1) in
        let j = go 0 in (String.sub s 0 j, String.sub s j (n - j)) in
      let (auth, tail) = cut rest "/?#" in
      let query = if tail <> "" && tail.[0] = '?' then Some (fst (cut (String.sub tail 1 (String.length tail - 1)) "#")) else None in
      let is_hex ch = (ch >= '0' && ch <= '9') || (ch >= 'a' && ch <= 'f') || (ch >= 'A' && ch <= 'F') in
      let bad_pct_in str = let n = String.length str in
        let rec go i = if i >= n then false
          else if str.[i] = '%' && not (i + 2 <= n - 1 && is_hex str.[i + 1] && is_hex str.[i + 2]) then true else go (i + 1) in go 0 in
      (* a zone id "%eth0" inside [..] is not an escape *)
      let bad_pct = bad_pct_in tail || (not (String.contains auth '[') && bad_pct_in auth) in
      let bad_char = String.exists (fun ch -> ch <= ' ' || ch > '~' || String.contains "\"<>\\^`{|}" ch) rest in
      let auth_full = auth in
      let auth = match String.rindex_opt auth '@' with Some j -> String.sub auth (j + 1) (String.length auth - j - 1) | None -> auth in
      let (host, port) =
        if auth <> "" && auth.[0] = '[' then
          (match String.index_opt auth ']' with
           | Some j -> (String.sub auth 1 (j - 1), String.sub auth (j + 1) (String.length auth - j - 1))
           | None -> ("", "x"))
        else (match String.rindex_opt auth ':' with
            | Some j -> (String.sub auth 0 j, String.sub auth j (String.length auth - j))
            | None -> (auth, "")) in
      let host = match String.index_opt host '%' with Some j -> String.sub host 0 j | None -> host in
      let bad_port = port <> "" && port <> ":" &&
                     (port.[0] <> ':' || (let d = String.sub port 1 (String.length port - 1) in
                                          not (String.for_all (fun ch -> ch >= '0' && ch <= '9') d) || String.length d > 5 || int_of_string d > 65535)) in
      let not_ip = host = "" || (pton_unspec (bytes_of_str host) = None) in
      let bad_query = match query with
        | Some q when q <> "" ->
          q.[0] = '&' || find_sub q "&&" <> None || q.[0] = '=' || find_sub q "&=" <> None
        | _ -> false in
      auth_full = "" || bad_pct || bad_char || bad_port || not_ip || bad_query
    end

let uri_junk_line (raw : string) =
  let t = String.trim raw in
  let kw = "nameserver" in
  let n = String.length kw in
  if String.length t <= n + 1 || String.sub t 0 n <> kw || not (t.[n] = ' ' || t.[n] = '\t') then false
  else begin
    let arg = String.trim (String.sub t n (String.length t - n)) in
    let toks = List.filter (fun x -> x <> "") (List.concat_map (split_on ' ') (split_on ',' arg)) in
    toks <> [] && String.length arg < 512 && String.for_all (fun ch -> ch >= ' ' && ch <= '~') arg &&
    List.for_all uri_cannot_name_server toks
  end

(* judge the junk-marked units with the extracted grammar: Some classes when every marked line is
   junk (and there is one), None otherwise *)
let junk_verdict c =
  let marked = List.filter (fun (t, _) -> List.mem t ['J'; 'r'; 'n'; 'v'; 's']) c.units in
  let marked = marked @ (match pstr c "jenv.L" with Some v -> [('E', v)] | None -> []) @ (match pstr c "jenv.R" with Some v -> [('O', v)] | None -> []) in
  if marked = [] then None
  else begin
    let cls = List.map (fun (t, d) ->
        let b = bytes_of_str d in
        match t with
        | 'J' | 'r' -> (match junk_class_raw b with Some j -> Some (jclass_name j) | None -> if uri_junk_line d then Some "uri-malformed" else None)
        | 'E' -> if junk_localdomain b then Some "env-localdomain" else None
        | 'O' -> if junk_res_options b then Some "env-resoptions" else None
        | 'n' -> if junk_db_line (n_of_int 58) (bytes_of_str " \t") b then Some "nsswitch" else None
        | _ -> if junk_db_line (n_of_int 61) (bytes_of_str ",") b then Some "svcconf" else None) marked in
    if List.for_all (fun x -> x <> None) cls then
      Some (List.sort_uniq compare (List.filter_map (fun x -> x) cls))
    else None
  end

let impl_line impl k tag =
  let p = "R " ^ tag ^ " " in
  List.find_map (fun l -> if starts_with p l then Some (String.sub l (String.length p) (String.length l - String.length p)) else None) (impl_lines impl k)

let diff k tag m i = pr "DIFF %d %s model=[%s] impl=[%s]\n" k tag m (match i with Some x -> x | None -> "<missing>")
let cmp k tag m impl = let i = impl_line impl k tag in if i <> Some m then diff k tag m i

(* the application's own settings must be found in the channel (user wins) *)
let user_wins k c tag (d : string) =
  let fs = fields d in
  if fget fs "st" = "0" then begin
    let m = try int_of_string ("0x" ^ fget fs "mask") with _ -> 0 in
    let has b = m land (1 lsl b) <> 0 in
    let chk bitn field expected =
      if has bitn && fget fs field <> expected then
        pr "FAIL %d user-overridden at=%s field=%s user=%s channel=%s\n" k tag field expected (fget fs field) in
    let num k' = match pget c k' with Some v -> Some (strtol_c v) | None -> None in
    (match num "flags" with Some v -> chk 0 "flags" (Printf.sprintf "%x" (v land 0xffffffff)) | None -> ());
    (match num "timeoutms" with Some v when v > 0 -> chk 13 "timeout" (string_of_int v) | _ -> ());
    (match num "timeout" with Some v when v > 0 && pget c "timeoutms" = None -> chk 13 "timeout" (string_of_int (if v > 2147483 then 2147483647 else v * 1000)) | _ -> ());
    (match num "tries" with Some v when v > 0 -> chk 2 "tries" (string_of_int v) | _ -> ());
    (match num "ndots" with Some v when v >= 0 -> chk 3 "ndots" (string_of_int v) | _ -> ());
    (match num "maxtimeout" with Some v when v > 0 -> chk 20 "maxtimeout" (string_of_int v) | _ -> ());
    (match num "udp" with Some v -> chk 4 "udp" (string_of_int (v land 0xffff)) | None -> ());
    (match num "tcp" with Some v -> chk 5 "tcp" (string_of_int (v land 0xffff)) | None -> ());
    (match num "sndbuf" with Some v when v > 0 -> chk 11 "sndbuf" (string_of_int v) | _ -> ());
    (match num "rcvbuf" with Some v when v > 0 -> chk 12 "rcvbuf" (string_of_int v) | _ -> ());
    (match num "ednspsz" with Some v when v > 0 -> chk 15 "ednspsz" (string_of_int v) | _ -> ());
    (match num "udpmaxq" with Some v when v > 0 -> chk 19 "udpmaxq" (string_of_int v) | _ -> ());
    (match pget c "qcache" with Some v -> chk 21 "qcache" (string_of_int ((try int_of_string v with _ -> 0) land 0xffffffff)) | None -> ());
    if has 16 then chk 16 "rotate" "0" else if has 14 then chk 14 "rotate" "1";
    (match pget c "domains" with Some v when v <> "" -> chk 7 "domains" (String.concat "," (List.map (fun h -> hexstr_opt (Some (unhex h))) (split_on ',' v))) | _ -> ());
    (match pget c "lookups" with Some v when v <> "-" -> chk 8 "lookups" (hexstr_opt (Some (unhex v))) | _ -> ());
    (match pget c "sortlist" with Some v when v <> "" && pget c "sortstr" = None -> chk 10 "sortlist" v | _ -> ());
    (* servers given as options and not replaced later: the address sequence must be theirs *)
    (match pget c "servers" with
     | Some v when v <> "" && pget c "csv" = None && pget c "ports" = None && has 6 ->
       let flags = match num "flags" with Some f -> f | None -> 0 in
       let want = List.sort_uniq compare (List.map (fun h -> let b = unhex h in Printf.sprintf "%d.%d.%d.%d" (Char.code b.[0]) (Char.code b.[1]) (Char.code b.[2]) (Char.code b.[3])) (split_on ',' v)) in
       let got = fget fs "servers" in
       let got_addrs = List.sort_uniq compare (List.map (fun e ->
           let e = if starts_with "dns://" e then String.sub e 6 (String.length e - 6) else e in
           match String.index_opt e ':' with Some i -> String.sub e 0 i | None -> e) (split_on ',' got)) in
       if flags land 2 = 0 && want <> got_addrs then
         pr "FAIL %d user-overridden at=%s field=servers user=%s channel=%s\n" k tag (String.concat "," want) got
     | _ -> ())
  end

let ranges k c tag d =
  let fs = fields d in
  if fget fs "st" = "0" then begin
    let geti f = try int_of_string (fget fs f) with _ -> 0 in
    if geti "timeout" <= 0 then pr "FAIL %d range at=%s field=timeout value=%s\n" k tag (fget fs "timeout");
    if geti "tries" <= 0 then pr "FAIL %d range at=%s field=tries value=%s\n" k tag (fget fs "tries");
    (* ARES_CONFIG_CHECK: a channel configured from the system has at least one server *)
    if fget fs "servers" = "." && pget c "csv" = None && pget c "ports" = None then
      pr "FAIL %d range at=%s field=servers value=none\n" k tag;
    if pget c "ndots" = None && geti "ndots" > int_of_z ndots_documented_max then
      pr "FAIL %d range at=%s field=ndots value=%s documented-max=%d\n" k tag (fget fs "ndots") (int_of_z ndots_documented_max);
    (* lookup order read from the system (not given by the application as ARES_OPT_LOOKUPS, which is
       copied verbatim): the documented range is a string over 'b' (DNS) and 'f' (hosts file) naming
       every source at most once - "lookup file bind file" must not yield "fbf" *)
    (match pget c "lookups" with
     | Some v when v <> "-" -> ()
     | _ ->
       let lk = fget fs "lookups" in
       if lk <> "" && lk <> "." && lk <> "(null)" then begin
         let raw = try unhex lk with _ -> "?" in
         let ok_chars = (let r = ref true in String.iter (fun ch -> if ch <> 'b' && ch <> 'f' then r := false) raw; !r) in
         let nodup = String.length raw <= 2 && not (String.length raw = 2 && raw.[0] = raw.[1]) in
         if not (ok_chars && nodup) then
           pr "FAIL %d range at=%s field=lookups value=%s (%s)\n" k tag lk (String.escaped raw)
       end)
  end

let aif_of impl k tag = match impl_line impl k tag with
  | Some l -> if fget (fields l) "aif" = "1" then Some vif else None
  | None -> None

let init_model c env = let (o, m) = build_options c in un (init_options inet_fns env o (z_of_int m))

let run_rc k c impl =
  let judged = junk_verdict c in
  let has_re = List.exists (fun (t, _) -> t = 'R' || t = 'r') c.units || pget c "reinit" <> None in
  let unmodelled = ref false in
  List.iter (fun with_junk -> try
      let tag = if with_junk then "full" else "nojunk" in
      let defifs = aif_of impl k tag in
      (match init_model c (env_of c ~with_junk ~reinit:false ~defifs) with
       | Stdlib.Ok ch ->
         cmp k tag (render_chan 0 ch) impl;
         if has_re then begin
           let env2 = env_of c ~with_junk ~reinit:(List.exists (fun (t, _) -> t = 'R' || t = 'r') c.units) ~defifs in
           match un (reinit inet_fns env2 ch) with
           | Stdlib.Ok ch2 -> cmp k ("re" ^ tag) (render_chan 0 ch2) impl
           | Stdlib.Error _ -> ()
         end
       | Stdlib.Error s -> cmp k tag (Printf.sprintf "st=%d" s) impl)
      with Model_unmodelled -> unmodelled := true) [true; false];
  (* oracles on the implementation's output (also when the model has no prediction: a general
     URI among the servers) *)
  List.iter (fun tag -> match impl_line impl k tag with Some d -> user_wins k c tag d; ranges k c tag d | None -> ())
    ["full"; "nojunk"; "refull"; "renojunk"];
  (match judged with
   | Some classes ->
     let pair a b = match impl_line impl k a, impl_line impl k b with
       | Some x, Some y when x <> y ->
         let fx = fields x and fy = fields y in
         let differing = List.filter_map (fun (key, v) -> if fget fy key <> v then Some (key ^ ":" ^ v ^ "!=" ^ fget fy key) else None) fx in
         pr "FAIL %d junk-dependent classes=%s at=%s %s\n" k (String.concat "," classes) a (String.concat " " differing)
       | _ -> () in
     pair "full" "nojunk"; pair "refull" "renojunk"
   | None -> ());
  if !unmodelled then raise Model_unmodelled;
  let marked = List.exists (fun (t, _) -> List.mem t ['J'; 'r'; 'n'; 'v'; 's']) c.units || pget c "jenv.L" <> None || pget c "jenv.R" <> None in
  let opts = List.exists (fun (key, _) -> not (List.mem key ["env.L"; "env.R"; "jenv.L"; "jenv.R"; "host"; "noeol"; "reinit"])) c.params in
  (if marked then (match judged with Some cl -> "rc-junk:" ^ String.concat "+" cl | None -> "rc-junk-unjudged") else "rc-plain")
  ^ (if opts then "+useropts" else "") ^ (if has_re then "+reinit" else "")

let sconf_of_ports v =
  List.filter_map (fun e -> if e = "" then None else
      match split_on '/' e with
      | a :: rest ->
        let p i = match List.nth_opt rest i with Some x -> (try int_of_string x with _ -> 0) land 0xffff | None -> 0 in
        Some { sc_addr = addr_of_hex a; sc_udp = z_of_int (p 0); sc_tcp = z_of_int (p 1); sc_iface = []; sc_scope = Z0 }
      | [] -> None) (split_on ',' v)

let apply_setters k c impl ch =
  let ch = ref ch in
  if pget c "poke" <> None then ch := chan_set_local !ch !ch.c_ldev !ch.c_lip4 !ch.c_lip6 (Some vif);
  (match pstr c "csv" with
   | Some s -> (match un (chan_set_csv inet_fns !ch (bytes_of_str s)) with
       | Stdlib.Ok c2 -> ch := c2; cmp k "setcsv" "st=0" impl
       | Stdlib.Error st -> cmp k "setcsv" (Printf.sprintf "st=%d" st) impl)
   | None -> ());
  (match pget c "ports" with
   | Some v -> ch := chan_set_ports !ch (sconf_of_ports v); cmp k "setports" "st=0" impl
   | None -> ());
  (match pstr c "sortstr" with
   | Some s -> (match un (chan_set_sortlist inet_fns !ch (bytes_of_str s)) with
       | Stdlib.Ok (st, c2) -> ch := c2; cmp k "setsort" (Printf.sprintf "st=%d" (int_of_z st)) impl
       | Stdlib.Error _ -> ())
   | None -> ());
  let ldev = match pstr c "ldev" with Some s -> bytes_of_str (if String.length s > 31 then String.sub s 0 31 else s) | None -> !ch.c_ldev in
  let lip4 = match pget c "lip4" with Some v -> z_of_int ((try int_of_string v with _ -> 0) land 0xffffffff) | None -> !ch.c_lip4 in
  let lip6 = match pget c "lip6" with Some v -> bytes_of_str (let b = unhex v ^ String.make 16 '\000' in String.sub b 0 16) | None -> !ch.c_lip6 in
  chan_set_local !ch ldev lip4 lip6 !ch.c_ifs

let run_opt k c impl =
  let defifs = if pget c "poke" <> None then None else aif_of impl k "A" in
  (* the channel is poked after init: ares_set_socket_functions_def's result is read off B,
     which is never poked *)
  let defifs = if pget c "poke" <> None then aif_of impl k "B" else defifs in
  let env = env_of c ~with_junk:true ~reinit:false ~defifs in
  let cls = ref "opt" in
  (match init_model c env with
   | Stdlib.Error s -> cmp k "A" (Printf.sprintf "st=%d" s) impl; cls := "trivial-opt-initfail"
   | Stdlib.Ok a0 ->
     let a = apply_setters k c impl a0 in
     cmp k "A" (render_chan 0 a) impl;
     (match un (save_options garbage a) with
      | Stdlib.Error s -> cmp k "S" (Printf.sprintf "st=%d" s) impl
      | Stdlib.Ok (o, m) ->
        cmp k "S" (render_saved o m) impl;
        (match un (init_options inet_fns env o m) with
         | Stdlib.Ok b ->
           cmp k "B" (render_chan 0 b) impl;
           (match un (save_options garbage b) with
            | Stdlib.Ok (o2, m2) -> cmp k "S2" (render_saved o2 m2) impl
            | Stdlib.Error s -> cmp k "S2" (Printf.sprintf "st=%d" s) impl)
         | Stdlib.Error s -> cmp k "B" (Printf.sprintf "st=%d" s) impl));
     (match un (dup inet_fns garbage env a) with
      | Stdlib.Ok d -> cmp k "C" (render_chan 0 d) impl
      | Stdlib.Error s -> cmp k "C" (Printf.sprintf "st=%d" s) impl);
     let a' = ref a in
     (match get_servers_csv inet_fns a.c_servers with
      | Ok csv ->
        (match init_model c env with
         | Stdlib.Ok e0 ->
           let e0 = if pget c "poke" <> None then chan_set_local e0 e0.c_ldev e0.c_lip4 e0.c_lip6 (Some vif) else e0 in
           (match un (chan_set_csv inet_fns e0 csv) with
            | Stdlib.Ok e1 -> cmp k "D" ("st=0 servers=" ^ csv_text (get_servers_csv inet_fns e1.c_servers)) impl
            | Stdlib.Error s -> cmp k "D" (Printf.sprintf "st=%d servers=%s" s (csv_text (get_servers_csv inet_fns e0.c_servers))) impl)
         | Stdlib.Error s -> cmp k "D" (Printf.sprintf "st=%d" s) impl);
        (match un (chan_set_csv inet_fns a csv) with
         | Stdlib.Ok a1 -> a' := a1; cmp k "E" ("st=0 servers=" ^ csv_text (get_servers_csv inet_fns a1.c_servers)) impl
         | Stdlib.Error s -> cmp k "E" (Printf.sprintf "st=%d servers=%s" s (csv_text (get_servers_csv inet_fns a.c_servers))) impl)
      | _ -> cmp k "D" "st=-1 servers=(null)" impl);
     let has_r = List.exists (fun (t, _) -> t = 'R' || t = 'r') c.units in
     (match un (reinit inet_fns (env_of c ~with_junk:true ~reinit:has_r ~defifs) !a') with
      | Stdlib.Ok f -> cmp k "F" (render_chan 0 f) impl
      | Stdlib.Error _ -> ());
     (* spec: the OS knows the virtual interfaces; a channel without lookup functions loses
        link-local servers the application configured *)
     (if pget c "poke" = None && a0.c_ifs = None then
        match pstr c "csv" with
        | Some s ->
          let with_os = chan_set_local a0 a0.c_ldev a0.c_lip4 a0.c_lip6 (Some vif) in
          (match un (chan_set_csv inet_fns with_os (bytes_of_str s)), un (chan_set_csv inet_fns a0 (bytes_of_str s)) with
           | Stdlib.Ok x, Stdlib.Ok y when csv_text (get_servers_csv inet_fns x.c_servers) <> csv_text (get_servers_csv inet_fns y.c_servers) ->
             pr "FAIL %d linklocal-unsettable wanted=%s got=%s\n" k (csv_text (get_servers_csv inet_fns x.c_servers))
               (match impl_line impl k "A" with Some d -> fget (fields d) "servers" | None -> "?")
           | _ -> ())
        | None -> ()));
  (* oracles on the implementation's output *)
  let la = impl_line impl k "A" in
  (match la with
   | Some da when fget (fields da) "st" = "0" ->
     let fa = fields da in
     user_wins k c "A" da; ranges k c "A" da;
     let cmp_fields what other keys =
       let fo = fields other in
       if fget fo "st" <> "0" then begin
         (* init(save(A)) may legitimately fail with ARES_ENOSERVER when the legacy struct cannot
            carry A's servers and ARES_FLAG_NO_DFLT_SVR forbids the default *)
         if not (what = "save-init-loss" && fget fo "st" = "26" && not (List.mem "servers" keys)) then
           pr "FAIL %d %s st=%s\n" k (if what = "dup-loss" then "dup-failed" else what) (fget fo "st")
       end else begin
         let norm key v =
           (* without expressible servers the legacy struct may drop ARES_OPT_SERVERS *)
           if key = "mask" && not (List.mem "servers" keys) then
             (try Printf.sprintf "%x" ((int_of_string ("0x" ^ v)) land (lnot 0x40)) with _ -> v)
           else v in
         let bad = List.filter (fun key -> norm key (fget fa key) <> norm key (fget fo key)) keys in
         let show key =
           if key = "mask" then begin
             let a = (try int_of_string ("0x" ^ fget fa key) with _ -> 0) and b = (try int_of_string ("0x" ^ fget fo key) with _ -> 0) in
             let bits x = String.concat "+" (List.filter_map (fun i -> if x land (1 lsl i) <> 0 then Some (string_of_int i) else None) (List.init 31 (fun i -> i))) in
             let ign = if List.mem "servers" keys then 0 else 0x40 in
             Printf.sprintf "mask:lost=%s,gained=%s" (bits ((a land (lnot b)) land (lnot ign))) (bits ((b land (lnot a)) land (lnot ign)))
           end else key ^ ":" ^ fget fa key ^ "->" ^ fget fo key in
         if bad <> [] then pr "FAIL %d %s %s\n" k what (String.concat " " (List.map show bad))
       end in
     let base = ["mask"; "flags"; "timeout"; "tries"; "ndots"; "maxtimeout"; "rotate"; "udp"; "tcp"; "sndbuf"; "rcvbuf";
                 "ednspsz"; "udpmaxq"; "qcache"; "retry"; "sscb"; "lookups"; "domains"; "sortlist"] in
     (* save -> init: servers only when the legacy struct can express them *)
     let srv = fget fa "servers" in
     if srv = "(null)" then
       (* ares_get_servers_csv() returned NULL for a channel that has servers *)
       pr "FAIL %d csv-unrenderable dup-st=%s ifaces=%s\n" k (match impl_line impl k "C" with Some dc -> fget (fields dc) "st" | None -> "?")
         (match impl_line impl k "Ai" with
          | Some l -> String.concat "," (List.map (fun h -> String.map (fun ch -> if ch <= ' ' || ch > '~' then '?' else ch) (unhex h)) (split_on ',' (fget (fields l) "ifaces")))
          | None -> "?")
     else if srv <> "." then begin
     let effp f = let v = fget fa f in if v = "0" then "53" else v in
     let expressible = not (contains "[" srv) && not (contains "dns:" srv) && effp "udp" = effp "tcp" &&
                       List.for_all (fun e -> match String.rindex_opt e ':' with
                           | Some i -> String.sub e (i + 1) (String.length e - i - 1) = effp "udp" | None -> false) (split_on ',' srv) in
     (match impl_line impl k "B" with
      | Some db -> cmp_fields "save-init-loss" db (if expressible then base @ ["servers"] else base)
      | None -> ());
     (* the legacy struct holds the IPv4 servers only: what ares_save_options() writes must be the
        IPv4 servers of the source, in the source's order, and the channel initialised from it must
        have exactly those servers (the first one under ARES_FLAG_PRIMARY) *)
     (let entry_v4 e =
        let e = if starts_with "dns://" e then String.sub e 6 (String.length e - 6) else e in
        if e = "" || e.[0] = '[' then None
        else begin
          let a = match String.index_opt e ':' with Some i -> String.sub e 0 i | None -> e in
          match List.map int_of_string_opt (split_on '.' a) with
          | [Some w; Some x; Some y; Some z] -> Some (a, Printf.sprintf "%02x%02x%02x%02x" w x y z)
          | _ -> None
        end in
      let v4 = List.filter_map entry_v4 (split_on ',' srv) in
      let mask_a = try int_of_string ("0x" ^ fget fa "mask") with _ -> 0 in
      if mask_a land 0x40 <> 0 then begin
        let want = if v4 = [] then "-" else String.concat "," (List.map snd v4) in
        (match impl_line impl k "S" with
         | Some ds when fget (fields ds) "st" = "0" ->
           let got = fget (fields ds) "servers" in
           if got <> want then pr "FAIL %d save-loss servers:%s saved=%s want=%s\n" k srv got want
         | _ -> ());
        (match impl_line impl k "B" with
         | Some db when fget (fields db) "st" = "0" && v4 <> [] ->
           let got = List.filter_map (fun e -> match entry_v4 e with Some (a, _) -> Some a | None -> Some ("?" ^ e)) (split_on ',' (fget (fields db) "servers")) in
           let flags = try int_of_string ("0x" ^ fget fa "flags") with _ -> 0 in
           let want = List.map fst v4 in
           let want = if flags land 2 <> 0 then [List.hd want] else want in
           (* ares_servers_update() drops duplicates *)
           let rec dedup seen = function [] -> [] | x :: r -> if List.mem x seen then dedup seen r else x :: dedup (x :: seen) r in
           if got <> dedup [] want then
             pr "FAIL %d save-loss servers:%s reinit=%s want=%s\n" k srv (String.concat "," got) (String.concat "," (dedup [] want))
         | _ -> ())
      end);
     (match impl_line impl k "C" with
      | Some dc -> cmp_fields "dup-loss" dc (base @ ["servers"; "ldev"; "lip4"; "lip6"; "aif"])
      | None -> ());
     (* the text form shows interface names only: the duplicate's servers must also carry the
        source's scope ids *)
     (match impl_line impl k "As", impl_line impl k "Cs", impl_line impl k "C" with
      | Some x, Some y, Some dc when x <> y && fget (fields dc) "servers" = srv ->
        pr "FAIL %d dup-loss servers:iface/scope:%s->%s\n" k (fget (fields x) "scopes") (fget (fields y) "scopes")
      | _ -> ());
     (match impl_line impl k "C2" with
      | Some l when fget (fields l) "sf" <> "1" -> pr "FAIL %d dup-loss sockfuncs:not-copied\n" k
      | _ -> ());
     List.iter (fun t -> match impl_line impl k t with
         | Some dd -> let fd = fields dd in
           if fget fd "st" <> "0" || fget fd "servers" <> srv then
             pr "FAIL %d csv-not-fixpoint at=%s st=%s csv=%s reparsed=%s\n" k t (fget fd "st") srv (fget fd "servers")
         | None -> ()) ["D"; "E"];
     (match impl_line impl k "F" with
      | Some df -> user_wins k c "F" df; ranges k c "F" df;
        (* setters are user settings too *)
        let ff = fields df in
        let m = try int_of_string ("0x" ^ fget fa "mask") with _ -> 0 in
        if m land (1 lsl 10) <> 0 && fget ff "sortlist" <> fget fa "sortlist" then
          pr "FAIL %d user-overridden at=F field=sortlist user=%s channel=%s\n" k (fget fa "sortlist") (fget ff "sortlist");
        if fget ff "servers" <> srv && (match impl_line impl k "E" with Some de -> fget (fields de) "st" = "0" | None -> false) then
          pr "FAIL %d user-overridden at=F field=servers user=%s channel=%s\n" k srv (fget ff "servers")
      | None -> ())
     end
   | _ -> ());
  !cls

let run_fn k c impl =
  let arg = match c.units with (_, d) :: _ -> d | [] -> "" in
  match pget c "f" with
  | Some "setopt" ->
    (match un (set_options sys_init (bytes_of_str arg)) with
     | Stdlib.Ok s -> cmp k "setopt" (Printf.sprintf "st=0 ndots=%s tries=%s timeout=%s rotate=%d usevc=%d" (zs s.s_ndots) (zs s.s_tries) (zs s.s_timeout_ms) (if s.s_rotate then 1 else 0) (if s.s_usevc then 1 else 0)) impl
     | Stdlib.Error st ->
       (* the C function may have applied earlier options before failing; only ENOMEM on the empty
          string exists in the model, where nothing was applied *)
       cmp k "setopt" (Printf.sprintf "st=%d ndots=1 tries=0 timeout=0 rotate=0 usevc=0" st) impl);
    (* the implementation against resolv.conf(5) / ares_init_options(3) alone, for a single
       "name:N" with N a plain decimal number of at most nine digits: ndots:N gives min(N,15),
       attempts/retry:N gives N, timeout/retrans:N gives N seconds; N = 0 (and a timeout that does
       not fit 32 bits of milliseconds) leaves the defaults.  Catches a value narrowed before use. *)
    (match String.index_opt arg ':' with
     | Some i when i > 0 ->
       let name = String.sub arg 0 i and v = String.sub arg (i + 1) (String.length arg - i - 1) in
       let isnum = v <> "" && String.length v <= 9 && String.for_all (fun ch -> ch >= '0' && ch <= '9') v in
       if isnum && List.mem name ["ndots"; "attempts"; "retry"; "timeout"; "retrans"] then begin
         let n = int_of_string v in
         let want_ndots = if name = "ndots" then min n 15 else 1
         and want_tries = if (name = "attempts" || name = "retry") && n > 0 then n else 0
         and want_to = if (name = "timeout" || name = "retrans") && n > 0 && n <= 4294967 then n * 1000 else 0 in
         match impl_line impl k "setopt" with
         | Some l -> let f = fields l in
           let got key = try int_of_string (fget f key) with _ -> -1 in
           if got "ndots" <> want_ndots || got "tries" <> want_tries || got "timeout" <> want_to then
             pr "FAIL %d option-value opt=%s ndots=%d/%d tries=%d/%d timeout=%d/%d\n" k arg (got "ndots") want_ndots (got "tries") want_tries (got "timeout") want_to
         | None -> ()
       end
     | _ -> ());
    "fn-setopt"
  | Some "sortlist" ->
    (match un (parse_sortlist inet_fns (bytes_of_str arg)) with
     | Stdlib.Ok l -> cmp k "sortlist" ("st=0 list=" ^ (if l = [] then "-" else String.concat "," (List.map (fun p -> addr_hex p.ap_addr ^ "/" ^ zs p.ap_mask) l))) impl
     | Stdlib.Error st -> cmp k "sortlist" (Printf.sprintf "st=%d list=-" st) impl);
    "fn-sortlist"
  | Some "setsort" ->
    let env = env_of c ~with_junk:true ~reinit:false ~defifs:None in
    let show (ch : chan) = if ch.c_sortlist = [] then "-" else String.concat "," (List.map (fun p -> addr_hex p.ap_addr ^ "/" ^ zs p.ap_mask) ch.c_sortlist) in
    (match init_model { c with params = [] } env with
     | Stdlib.Ok ch ->
       (match un (chan_set_sortlist inet_fns ch (bytes_of_str "10.0.0.0/8 192.168.0.0/255.255.0.0")) with
        | Stdlib.Ok (st0, ch1) ->
          (match un (chan_set_sortlist inet_fns ch1 (bytes_of_str arg)) with
           | Stdlib.Ok (st, ch2) ->
             cmp k "setsort" (Printf.sprintf "st0=%s st=%s bit=%d sortlist=%s" (zs st0) (zs st)
                                (if (int_of_z ch2.c_optmask) land (1 lsl 10) <> 0 then 1 else 0) (show ch2)) impl
           | Stdlib.Error _ -> ())
        | Stdlib.Error _ -> ())
     | Stdlib.Error _ -> ());
    (* the implementation against the specification alone: a prefix length above 128 or of more
       than three digits is refused and the sortlist the channel had stays *)
    if sortlist_has_bad_mask (bytes_of_str arg) then
      (match impl_line impl k "setsort" with
       | Some l -> let f = fields l in
         if fget f "st" = "0" || fget f "sortlist" <> "0a000000/8,c0a80000/16" then
           pr "FAIL %d sortlist-accepted st=%s sortlist=%s arg=%s\n" k (fget f "st") (fget f "sortlist")
             (String.map (fun ch -> if ch <= ' ' || ch > '~' then '?' else ch) arg)
       | None -> ());
    "fn-setsort"
  | Some ("srv" | "srvstrict" as f) ->
    let aif = match impl_line impl k "srv" with Some l -> fget (fields l) "aif" = "1" | None -> false in
    let ifs = if pget c "poke" <> None || aif then Some vif else None in
    let env = env_of c ~with_junk:true ~reinit:false ~defifs:None in
    (match init_model { c with params = [] } env with
     | Stdlib.Ok ch ->
       let run ifs =
         match un (sconfig_append_fromstr inet_fns ifs None (bytes_of_str arg) (f = "srv")) with
         | Stdlib.Ok l -> (0, servers_update ch.c_flags ch.c_udp ch.c_tcp ch.c_servers (match l with Some x -> x | None -> []))
         | Stdlib.Error st -> (st, ch.c_servers) in
       let (st, servers) = run ifs in
       cmp k "srv" (Printf.sprintf "st=%d aif=%d servers=%s" st (if ifs <> None then 1 else 0) (csv_text (get_servers_csv inet_fns servers))) impl;
       if ifs = None then begin
         let (st2, s2) = run (Some vif) in
         if st2 = st && csv_text (get_servers_csv inet_fns s2) <> csv_text (get_servers_csv inet_fns servers) then
           pr "FAIL %d linklocal-unsettable wanted=%s got=%s\n" k (csv_text (get_servers_csv inet_fns s2)) (csv_text (get_servers_csv inet_fns servers))
       end
     | Stdlib.Error _ -> ());
    "fn-" ^ f
  | Some "addr" ->
    let m = match pton_unspec (bytes_of_str arg) with
      | None -> "fail"
      | Some a ->
        let t = ntop a in
        Printf.sprintf "ok a=%s text=%s back=%s" (addr_hex a) (hexstr_opt (Some (str_of_bytes t)))
          (match pton_unspec t with Some b -> addr_hex b | None -> "fail") in
    cmp k "addr" m impl;
    (* the premise addr_good of C16_csv_fixpoint, checked on the real ares_inet_ntop / ares_inet_pton *)
    (match impl_line impl k "addr" with
     | Some l when starts_with "ok" l ->
       let fs = fields l in
       let a = fget fs "a" and t = unhex (fget fs "text") in
       if fget fs "back" <> a then pr "FAIL %d pton-ntop-roundtrip a=%s text=%s back=%s\n" k a t (fget fs "back");
       let ok_char c = (c >= '0' && c <= '9') || (c >= 'a' && c <= 'f') || c = ':' || c = '.' in
       let shape = t <> "" && String.length t <= 45 && String.for_all ok_char t &&
                   (String.length a <> 8 || (String.for_all (fun c -> (c >= '0' && c <= '9') || c = '.') t && String.length t <= 15
                                             && (match String.index_opt t '.' with Some i -> i > 0 && i < 4 | None -> false))) in
       if not shape then pr "FAIL %d ntop-shape a=%s text=%s\n" k a t
     | _ -> ());
    "fn-addr"
  | Some "alias" ->
    let name = match pstr c "name" with Some n -> n | None -> "" in
    List.iter (fun with_junk ->
        let tag = if with_junk then "alias-full" else "alias-nojunk" in
        let m = if String.contains name '.' then None
          else match file_of c 'A' 'a' with_junk with
            | None -> None
            | Some content -> lookup_hostaliases (bytes_of_str name) (bytes_of_str content) in
        match m with
        | Some a -> cmp k tag ("st=0 alias=" ^ hexstr_opt (Some (str_of_bytes a))) impl
        | None -> cmp k tag "st=4 alias=-" impl) [true; false];
    (* junk for the alias file, by the extracted grammar (Spec.junk_alias_line): every line that does
       not define the alias looked up, the same alias with an unusable target included *)
    let marked = List.filter (fun (t, _) -> t = 'a') c.units in
    let is_junk d = junk_alias_line (bytes_of_str name) (bytes_of_str d) in
    if marked <> [] && List.for_all (fun (_, d) -> not (String.contains d '\n') && is_junk d) marked then
      (match impl_line impl k "alias-full", impl_line impl k "alias-nojunk" with
       | Some x, Some y when x <> y -> pr "FAIL %d junk-dependent classes=hostaliases at=alias %s != %s\n" k x y
       | _ -> ());
    "fn-alias"
  | _ -> "trivial-badfn"

let run_hosts k c impl =
  (* model: coq/Config/Hosts.v; junk lines judged by HostsSpec.junk_hosts_line *)
  let names = match pget c "names" with None -> [] | Some v -> List.filter (fun x -> x <> "") (split_on ',' v) in
  let file with_junk = match file_of c 'H' 'h' with_junk with Some f -> f | None -> "" in
  let strl l = if l = [] then "-" else String.concat "," (List.map (fun b -> hexstr_opt (Some (str_of_bytes b))) l) in
  List.iter (fun with_junk ->
      let tag = if with_junk then "hosts-full" else "hosts-nojunk" in
      match un (parse_hosts inet_fns (bytes_of_str (file with_junk))) with
      | Stdlib.Ok hf ->
        List.iteri (fun i nh ->
            let name = unhex nh in
            let m = match un (hosts_search_host hf (bytes_of_str name)) with
              | Stdlib.Ok (Some e) -> Printf.sprintf "st=0 ips=%s hosts=%s" (strl e.he_ips) (strl e.he_hosts)
              | Stdlib.Ok None -> "st=4"
              | Stdlib.Error st -> Printf.sprintf "st=%d" st in
            cmp k (Printf.sprintf "%s.%d" tag i) m impl) names
      | Stdlib.Error _ -> ()) [true; false];
  let marked = List.filter (fun (t, _) -> t = 'h') c.units in
  if marked <> [] && List.for_all (fun (_, d) -> junk_hosts_line inet_fns (bytes_of_str d)) marked then begin
    List.iteri (fun i _ ->
        match impl_line impl k (Printf.sprintf "hosts-full.%d" i), impl_line impl k (Printf.sprintf "hosts-nojunk.%d" i) with
        | Some x, Some y when x <> y -> pr "FAIL %d junk-dependent classes=hosts at=hosts.%d %s != %s\n" k i x y
        | _ -> ()) names;
    "hosts-junk"
  end else if marked <> [] then "hosts-junk-unjudged" else "hosts-plain"

let () =
  let cases = read_lines Sys.argv.(1) in
  let impl = impl_table Sys.argv.(2) in
  let nub = ref 0 and nun = ref 0 in
  List.iteri (fun k line ->
      Buffer.clear out;
      let cls =
        match parse_case line with
        | None -> "trivial-badcase"
        | Some c when List.exists (fun l -> starts_with "R HANG" l) (impl_lines impl k) ->
          (* the C driver's watchdog fired: the case did not finish within its CPU-time limit *)
          let stage = match List.rev (List.filter (fun l -> starts_with "R " l && not (starts_with "R HANG" l)) (impl_lines impl k)) with
            | l :: _ -> (match split_on ' ' l with _ :: t :: _ -> "after-" ^ t | _ -> "start") | [] -> "start" in
          pr "FAIL %d init-hang kind=%s stage=%s %s\n" k c.kind stage
            (match List.find_opt (fun l -> starts_with "R HANG" l) (impl_lines impl k) with Some l -> String.sub l 7 (String.length l - 7) | None -> "");
          "hang"
        | Some c ->
          (try
             (match c.kind with
              | "rc" -> run_rc k c impl
              | "opt" -> run_opt k c impl
              | "fn" -> run_fn k c impl
              | "hosts" -> run_hosts k c impl
              | _ -> "trivial-badkind")
           with
           | Model_ub -> incr nub;
             (* the model reached C undefined behaviour (atoi overflow): no prediction *)
             let b = Buffer.contents out in
             Buffer.clear out;
             List.iter (fun l -> if starts_with "FAIL" l then (Buffer.add_string out l; Buffer.add_char out '\n')) (split_on '\n' b);
             pr "FAIL %d model-ub atoi-overflow\n" k;
             "model-ub"
           | Model_unmodelled -> incr nun;
             let b = Buffer.contents out in
             Buffer.clear out;
             List.iter (fun l -> if starts_with "FAIL" l then (Buffer.add_string out l; Buffer.add_char out '\n')) (split_on '\n' b);
             "unmodelled-uri") in
      List.iter (fun l -> if starts_with "LEAK" l then Printf.bprintf out "FAIL %d leak %s\n" k l) (impl_lines impl k);
      Printf.printf "CASE %d %s\n" k cls;
      print_string (Buffer.contents out)) cases;
  Printf.printf "STAT model_ub %d\nSTAT unmodelled %d\n" !nub !nun
