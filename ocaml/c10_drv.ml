(* Model-side driver of engine chan10 (C10: sockets are opened, announced, used and closed in a
   consistent protocol).  Input: case file + log of harness/chan_drv.c (channel simulator).

   FAIL  the extracted socket-protocol monitor (Conn.mon_step) rejects the implementation's
         socket-layer log; kinds = the monitor's reject reasons:
           use-after-close double-close bad-order udp-limit notify-repeat notify-after-stop
           notify-closed notify-no-callback close-watched unwatched-read leak after-destroy
           bad-descriptor
         plus  fds / getsock : ares_fds / ares_getsock do not report exactly the open sockets
                               that matter (extracted mon_fds over the monitor state)
               busy-unwatched: at an operation boundary a socket that has transmitted a query
                               is not announced readable, or one with unsent data / pending
                               connect is not announced writable (sock_state_cb registered)
   DIFF  the extracted model of ares_open_connection (and of the sortaddrinfo probe) predicts,
         from the results of the socket calls seen in the log, the exact sequence of socket
         calls including the unwind; any other sequence is a correspondence failure. *)
open ConnModel
(*INCLUDE conv.inc*)

let starts_with p s = String.length s >= String.length p && String.sub s 0 (String.length p) = p
let words s = List.filter (fun w -> w <> "") (split_on ' ' s)
let kv key ws =
  let p = key ^ "=" in
  List.find_map (fun w -> if starts_with p w then Some (String.sub w (String.length p) (String.length w - String.length p)) else None) ws
let kvi key ws = match kv key ws with Some v -> int_of_string_opt v | None -> None
let sock_of w = if String.length w >= 2 && w.[0] = 's' then int_of_string_opt (String.sub w 1 (String.length w - 1)) else None
let list_brackets s =
  let n = String.length s in
  if n < 2 then [] else List.filter (fun w -> w <> "") (split_on ',' (String.sub s 1 (n - 2)))
let socks_of_list s = List.filter_map sock_of (list_brackets s)

let hexv c = match c with '0'..'9' -> Char.code c - 48 | 'a'..'f' -> Char.code c - 87 | 'A'..'F' -> Char.code c - 55 | _ -> 0
let ints_of_hex h = List.init (String.length h / 2) (fun i -> hexv h.[2 * i] * 16 + hexv h.[2 * i + 1])

(* Is this buffer exactly ONE DNS message?  Header, qdcount questions, an+ns+ar resource records
   walked by their own lengths; the walk must end exactly at the end of the buffer (no trailing
   octets, nothing cut off). *)
let dns_exact (m : int array) : (unit, string) result =
  let n = Array.length m in
  if n < 12 then Error (Printf.sprintf "%d octets, shorter than a header" n)
  else begin
    let u16 o = m.(o) * 256 + m.(o + 1) in
    let rec skip_name off hops =
      if off >= n || hops > 130 then None
      else let l = m.(off) in
        if l = 0 then Some (off + 1)
        else if l land 0xC0 = 0xC0 then (if off + 2 <= n then Some (off + 2) else None)
        else if l < 64 then skip_name (off + 1 + l) (hops + 1)
        else None in
    let qd = u16 4 and rrs = u16 6 + u16 8 + u16 10 in
    let rec questions off k =
      if k = 0 then Some off
      else match skip_name off 0 with
        | Some o when o + 4 <= n -> questions (o + 4) (k - 1)
        | _ -> None in
    let rec records off k =
      if k = 0 then Some off
      else match skip_name off 0 with
        | Some o when o + 10 <= n ->
          let rdl = u16 (o + 8) in
          if o + 10 + rdl <= n then records (o + 10 + rdl) (k - 1) else None
        | _ -> None in
    match questions 12 qd with
    | None -> Error "question section runs past the end"
    | Some o ->
      (match records o rrs with
       | None -> Error "record sections run past the end"
       | Some e -> if e = n then Ok () else Error (Printf.sprintf "%d trailing octets after the message (%d of %d)" (n - e) e n))
  end

let reject_name = function
  | RjAfterDestroy -> "after-destroy" | RjBadDescriptor -> "bad-descriptor" | RjUseAfterClose -> "use-after-close"
  | RjDoubleClose -> "double-close" | RjBadOrder -> "bad-order" | RjUdpLimit -> "udp-limit"
  | RjNotifyNoCallback -> "notify-no-callback" | RjNotifyRepeat -> "notify-repeat" | RjNotifyAfterStop -> "notify-after-stop"
  | RjNotifyClosed -> "notify-closed" | RjCloseWatched -> "close-watched" | RjUnwatchedRead -> "unwatched-read" | RjLeak -> "leak"

let ev_str = function
  | ESocket (k, t) -> Printf.sprintf "SOCKET s%d %s" (int_of_nat k) (if t then "tcp" else "udp")
  | ESocketFail -> "SOCKET fail"
  | ESetsockopt k -> Printf.sprintf "SETSOCKOPT s%d" (int_of_nat k)
  | EBind k -> Printf.sprintf "BIND s%d" (int_of_nat k)
  | EConnect (k, ok) -> Printf.sprintf "CONNECT s%d %s" (int_of_nat k) (if ok then "ok" else "fail")
  | EGetsockname k -> Printf.sprintf "GETSOCKNAME s%d" (int_of_nat k)
  | ESendto k -> Printf.sprintf "SENDTO s%d" (int_of_nat k)
  | ERecvfrom k -> Printf.sprintf "RECVFROM s%d" (int_of_nat k)
  | ETx k -> Printf.sprintf "TX s%d" (int_of_nat k)
  | EClose k -> Printf.sprintf "CLOSE s%d" (int_of_nat k)
  | ESockState (k, f) -> Printf.sprintf "SOCKSTATE s%d r=%d w=%d" (int_of_nat k) (int_of_z f land 1) ((int_of_z f lsr 1) land 1)
  | EDestroyed -> "DESTROYED"

let connect_ok ws = match kvi "rc" ws with
  | Some 0 -> true
  | _ -> (match kv "errno" ws with Some ("EINPROGRESS" | "EWOULDBLOCK" | "EAGAIN") -> true | _ -> false)

(* socket-layer event of a log line *)
let event_of (w : string list) : sevent option =
  match w with
  | "SOCKET" :: "fail" :: _ -> Some ESocketFail
  | "SOCKET" :: s :: rest -> (match sock_of s with Some k -> Some (ESocket (nat_of_int k, kv "type" rest = Some "tcp")) | None -> None)
  | "SETSOCKOPT" :: s :: _ -> Option.map (fun k -> ESetsockopt (nat_of_int k)) (sock_of s)
  | "BIND" :: s :: _ -> Option.map (fun k -> EBind (nat_of_int k)) (sock_of s)
  | "CONNECT" :: s :: rest -> Option.map (fun k -> EConnect (nat_of_int k, connect_ok rest)) (sock_of s)
  | "RECONNECT" :: s :: _ -> Option.map (fun k -> EConnect (nat_of_int k, true)) (sock_of s)
  | "GETSOCKNAME" :: s :: _ -> Option.map (fun k -> EGetsockname (nat_of_int k)) (sock_of s)
  | "SENDTO" :: s :: _ -> Option.map (fun k -> ESendto (nat_of_int k)) (sock_of s)
  | "RECVFROM" :: s :: _ -> Option.map (fun k -> ERecvfrom (nat_of_int k)) (sock_of s)
  | "TX" :: _ :: s :: _ -> Option.map (fun k -> ETx (nat_of_int k)) (sock_of s)
  | "CLOSE" :: s :: _ -> Option.map (fun k -> EClose (nat_of_int k)) (sock_of s)
  | "DOUBLECLOSE" :: s :: _ -> Option.map (fun k -> EClose (nat_of_int k)) (sock_of s)
  | "USEAFTERCLOSE" :: s :: call :: _ ->
    Option.map (fun k -> let k = nat_of_int k in
                 match call with
                 | "setsockopt" -> ESetsockopt k | "bind" -> EBind k | "connect" -> EConnect (k, false)
                 | "getsockname" -> EGetsockname k | "recvfrom" -> ERecvfrom k | "close" -> EClose k | _ -> ESendto k) (sock_of s)
  | "SOCKSTATE" :: s :: rest ->
    (match sock_of s, kvi "r" rest, kvi "w" rest with
     | Some k, Some r, Some wv -> Some (ESockState (nat_of_int k, z_of_int (r + 2 * wv)))
     | _ -> None)
  | ["DESTROY"; "end"] -> Some EDestroyed
  | _ -> None

let () =
  let cases = read_lines Sys.argv.(1) in
  let impl = impl_table Sys.argv.(2) in
  let n_events = ref 0 and n_opens = ref 0 and n_unwinds = ref 0 and n_probes = ref 0 and n_fds = ref 0 in
  List.iteri (fun k line ->
    match String.index_opt line '|' with
    | None -> Printf.printf "CASE %d trivial-badcase\n" k
    | Some bar ->
      let head = String.sub line 0 bar in
      let cfgw = words head in
      let flags = match kv "flags" cfgw with Some f -> split_on ',' f | None -> [] in
      let has k' = kv k' cfgw <> None in
      let cfg4 = { udp_max = z_of_int (match kvi "udpmaxq" cfgw with Some v -> v | None -> 0);
                   has_cb = (kv "sockstatecb" cfgw = Some "1");
                   stayopen = List.mem "stayopen" flags;
                   opt_sndbuf = has "sndbuf"; opt_rcvbuf = has "rcvbuf"; opt_dev = has "localdev"; opt_bind = has "localip4";
                   has_gsn = (match kv "sockfuncs" cfgw with Some ("nogsn" | "legacy") -> false | _ -> true);
                   has_bind = (kv "sockfuncs" cfgw <> Some "legacy");
                   sockopt_visible = (kv "sockfuncs" cfgw <> Some "legacy") } in
      let cfg6 = { cfg4 with opt_bind = has "localip6" } in
      let lines = Array.of_list (impl_lines impl k) in
      let n = Array.length lines in
      let crashed = Array.exists (fun l -> starts_with "MONITOR" l) lines in
      let fails = ref [] and diffs = ref [] in
      let fail kd d = if List.length !fails < 3 then fails := (kd, d) :: !fails in
      let diff d = if List.length !diffs < 3 then diffs := d :: !diffs in
      let m = ref mon_init in
      let dead = ref false in     (* the monitor has rejected: stop feeding it *)
      let active = ref None in    (* last QLEN *)
      let af6 : (int, bool) Hashtbl.t = Hashtbl.create 8 in
      let sent_ok : (int, bool) Hashtbl.t = Hashtbl.create 8 in        (* a query left through k *)
      let want_w : (int, bool) Hashtbl.t = Hashtbl.create 8 in         (* last asendto short / blocked, or connect pending *)
      let feats = Hashtbl.create 8 in
      let feat f = Hashtbl.replace feats f () in
      let sock_state k' = List.nth_opt !m.mn_socks k' in
      let i = ref 0 in
      while !i < n do
        let l = lines.(!i) in
        let w = words l in
        (* ---- DIFF: predicted call sequence of an open / a probe ---- *)
        (match w with
         | "SOCKET" :: s :: rest when sock_of s <> None || s = "fail" ->
           let kk = match sock_of s with Some v -> v | None -> -1 in
           let tcp = kv "type" rest = Some "tcp" in
           let is6 = kv "af" rest = Some "6" in
           if kk >= 0 then Hashtbl.replace af6 kk is6;
           (* the run of socket-layer calls on this descriptor that belongs to the open *)
           let j = ref (!i + 1) in
           let seen_io = ref false in
           while !j < n && not !seen_io && (match words lines.(!j) with
               | ("SETSOCKOPT" | "BIND" | "CONNECT" | "GETSOCKNAME" | "CLOSE") :: s' :: _ -> sock_of s' = Some kk
               | "SOCKSTATE" :: s' :: _ -> sock_of s' = Some kk && (match words lines.(!j - 1) with "GETSOCKNAME" :: _ -> true | "CONNECT" :: _ -> not cfg4.has_gsn | _ -> false)
               | _ -> false) do
             (match words lines.(!j) with "CLOSE" :: _ | "SOCKSTATE" :: _ -> seen_io := true | _ -> ());
             incr j
           done;
           let seg = Array.to_list (Array.sub lines !i (!j - !i)) in
           let observed = List.filter_map (fun x -> event_of (words x)) seg in
           let find_line p = List.find_opt (fun x -> p (words x)) seg in
           let rc_ok ws = kvi "rc" ws = Some 0 in
           let is_probe = (not tcp) && (match find_line (fun ws -> match ws with "CONNECT" :: _ -> true | _ -> false) with
               | Some c -> (match words c with _ :: _ :: addr :: _ -> let la = String.length addr in la >= 2 && String.sub addr (la - 2) 2 = ":0" | _ -> false)
               | None -> false) in
           if kk < 0 then begin
             (* asocket failed: nothing else may follow for it; model = [ESocketFail] in both roles *)
             ()
           end else if is_probe then begin
             incr n_probes; feat "probe";
             let connects = List.filter (fun x -> match words x with "CONNECT" :: _ -> true | _ -> false) seg in
             let intr = List.length (List.filter (fun x -> kv "errno" (words x) = Some "EINTR") connects) in
             let cok = (match List.filter (fun x -> kv "errno" (words x) <> Some "EINTR") connects with c :: _ -> connect_ok (words c) | [] -> false) in
             let pred = probe cfg4 (nat_of_int kk) true (nat_of_int intr) cok in
             (* getsockname failure and success both end in close *)
             if List.map ev_str pred <> List.map ev_str observed then
               diff (Printf.sprintf "probe s%d: model=[%s] impl=[%s]" kk (String.concat "; " (List.map ev_str pred)) (String.concat "; " (List.map ev_str observed)))
           end else begin
             incr n_opens;
             let sres_of name = match find_line (fun ws -> match ws with "SETSOCKOPT" :: _ :: nm :: _ -> nm = name | _ -> false) with
               | Some x -> let ws = words x in if rc_ok ws then SrOk else if kv "errno" ws = Some "ENOSYS" then SrNosys else SrFail
               | None -> SrOk in
             let connects = List.filter (fun x -> match words x with "CONNECT" :: _ -> true | _ -> false) seg in
             let intr = List.length (List.filter (fun x -> kv "errno" (words x) = Some "EINTR") connects) in
             let final = List.filter (fun x -> kv "errno" (words x) <> Some "EINTR") connects in
             let env = { oe_socket_ok = true; oe_sndbuf = sres_of "sndbuf"; oe_rcvbuf = sres_of "rcvbuf";
                         oe_bind_ok = (match find_line (fun ws -> match ws with "BIND" :: _ -> true | _ -> false) with Some x -> rc_ok (words x) | None -> true);
                         oe_tfo_ok = (sres_of "tfo" = SrOk) && (find_line (fun ws -> match ws with "SETSOCKOPT" :: _ :: "tfo" :: _ -> true | _ -> false) <> None);
                         oe_intr = nat_of_int intr;
                         oe_connect = (match final with
                             | x :: _ -> let ws = words x in if kvi "rc" ws = Some 0 then CnOk else if connect_ok ws then CnInProgress else CnFail
                             | [] -> CnOk);
                         oe_getsockname_ok = (match find_line (fun ws -> match ws with "GETSOCKNAME" :: _ -> true | _ -> false) with Some x -> rc_ok (words x) | None -> true) } in
             let cfg = if is6 then cfg6 else cfg4 in
             let (pred, res) = open_connection cfg (nat_of_int kk) tcp env in
             (match res with OpenFailedClosed -> incr n_unwinds; feat "unwind" | _ -> ());
             if env.oe_intr <> O then feat "eintr";
             if env.oe_tfo_ok then feat "tfo";
             if not cfg4.has_gsn then feat (if cfg4.sockopt_visible then "nogsn" else "legacy");
             (* an interrupted connect that is followed by nothing (list exhausted) cannot be told apart: compare as is *)
             if List.map ev_str pred <> List.map ev_str observed then
               diff (Printf.sprintf "open s%d: model=[%s] impl=[%s]" kk (String.concat "; " (List.map ev_str pred)) (String.concat "; " (List.map ev_str observed)))
           end
         | _ -> ());
        (* ---- FAIL: the monitor ---- *)
        (match w with
         | "TX" :: _ :: s :: rest when kv "proto" rest = Some "udp" ->
           (* what the library hands to asendto on a UDP socket is exactly one DNS message *)
           (match kv "hex" rest with
            | Some h -> (match dns_exact (Array.of_list (ints_of_hex h)) with
                | Ok () -> ()
                | Error why -> fail "udp-datagram-not-one-message" (Printf.sprintf "line %d: %s: datagram of %d octets: %s" !i s (String.length h / 2) why))
            | None -> ())
         | _ -> ());
        (match w with
         | "BADFD" :: _ -> fail "bad-descriptor" l
         | "CBOP" :: _ -> feat "cbop"
         | "QLEN" :: v :: _ -> active := (match int_of_string_opt v with Some q -> Some (q > 0) | None -> None)
         | "SENDTO" :: s :: rest ->
           (match sock_of s with
            | Some kk ->
              let len = kvi "len" rest and rc = kvi "rc" rest in
              (match rc, len with
               | Some r, Some ln when r >= 0 -> Hashtbl.replace sent_ok kk true; Hashtbl.replace want_w kk (r < ln)
               | _ -> Hashtbl.replace want_w kk (match kv "errno" rest with Some ("EAGAIN" | "EWOULDBLOCK") -> true | _ -> false))
            | None -> ())
         | "CLOSE" :: s :: _ -> (match sock_of s with Some kk -> Hashtbl.remove sent_ok kk; Hashtbl.remove want_w kk | None -> ())
         | _ -> ());
        (match w with
         | "ENDSTATE" :: rest ->
           (match kv "open_sockets" rest with
            | Some v when v <> "[]" -> fail "leak" (Printf.sprintf "sockets still open at the end of the history (after ares_destroy): %s" v)
            | _ -> ())
         | _ -> ());
        (match event_of w with
         | Some e when not !dead ->
           incr n_events;
           (match e with ESockState _ -> feat "notify" | ETx _ -> () | _ -> ());
           (match mon_step cfg4 !m e with
            | Accept m' -> m := m'
            | Reject r -> dead := true; fail (reject_name r) (Printf.sprintf "line %d: %s" !i (if String.length l > 120 then String.sub l 0 120 else l)))
         | _ -> ());
        (* ---- fds / getsock exactness ---- *)
        (match w with
         | "FDS" :: rest when not !dead ->
           incr n_fds; feat "fds";
           let r = socks_of_list (match kv "r" rest with Some x -> x | None -> "[]") in
           let wv = socks_of_list (match kv "w" rest with Some x -> x | None -> "[]") in
           (match !active with
            | Some a ->
              let exp = List.map int_of_nat (mon_fds !m a) in
              if List.sort compare r <> exp then
                fail "fds" (Printf.sprintf "line %d: ares_fds read set [%s], open sockets that matter [%s] (active queries: %b)" !i
                              (String.concat "," (List.map string_of_int r)) (String.concat "," (List.map string_of_int exp)) a)
            | None -> ());
           if cfg4.has_cb then begin
             let expw = List.filter (fun kk -> match sock_state kk with Some s -> int_of_z s.ms_watch land 2 <> 0 | None -> false) r in
             if List.sort compare wv <> List.sort compare expw then
               fail "fds" (Printf.sprintf "line %d: ares_fds write set [%s], sockets announced writable [%s]" !i
                             (String.concat "," (List.map string_of_int wv)) (String.concat "," (List.map string_of_int expw)))
           end
         | "GETSOCK" :: rest when not !dead ->
           feat "getsock";
           let r = socks_of_list (match kv "r" rest with Some x -> x | None -> "[]") in
           (match !active with
            | Some a ->
              let exp = List.map int_of_nat (mon_fds !m a) in
              let ok = if List.length exp <= 16 then List.sort compare r = exp
                else List.length r = 16 && List.for_all (fun x -> List.mem x exp) r in
              if not ok then
                fail "getsock" (Printf.sprintf "line %d: ares_getsock read set [%s], open sockets that matter [%s]" !i
                                  (String.concat "," (List.map string_of_int r)) (String.concat "," (List.map string_of_int exp)))
            | None -> ())
         | "OP" :: _ when cfg4.has_cb && not !dead ->
           (* operation boundary: busy sockets must be watched; a socket the application was told
              to stop watching must have been closed *)
           List.iteri (fun kk s ->
             if s.ms_phase <> PClosed && s.ms_stopped then
               fail "stopped-not-closed" (Printf.sprintf "line %d: the application was told to stop watching s%d but the socket was never closed" !i kk);
             if s.ms_phase = PConnected then begin
               if Hashtbl.mem sent_ok kk && int_of_z s.ms_watch land 1 = 0 then
                 fail "busy-unwatched" (Printf.sprintf "line %d: s%d has transmitted a query but is not announced readable" !i kk);
               if (try Hashtbl.find want_w kk with Not_found -> false) && int_of_z s.ms_watch land 2 = 0 then
                 fail "busy-unwatched" (Printf.sprintf "line %d: s%d has unsent data but is not announced writable" !i kk)
             end) !m.mn_socks
         | _ -> ());
        incr i
      done;
      let fl = List.sort compare (Hashtbl.fold (fun f () acc -> f :: acc) feats []) in
      let nsock = List.length !m.mn_socks in
      Printf.printf "CASE %d %s%s\n" k (if nsock = 0 then "trivial-nosocket" else if crashed then "crashed" else "socks" ^ (if nsock <= 2 then "1-2" else if nsock <= 8 then "3-8" else "9+"))
        (if fl = [] then "" else ":" ^ String.concat "+" fl);
      List.iter (fun d -> Printf.printf "DIFF %d %s\n" k d) (List.rev !diffs);
      List.iter (fun (kd, d) -> Printf.printf "FAIL %d %s %s\n" k kd d) (List.rev !fails)) cases;
  Printf.printf "STAT socket_events %d\nSTAT opens %d\nSTAT unwinds %d\nSTAT probes %d\nSTAT fds_probes %d\n" !n_events !n_opens !n_unwinds !n_probes !n_fds
