(* Model-side driver of the C12 engine "search": runs the extracted model (Core/Search.v) on
   each case and compares with the implementation's output (DIFF); judges the implementation's
   output with the extracted specification spec_candidates / spec_queried / spec_status (FAIL). *)
open SearchModel
(*INCLUDE conv.inc*)

let n_of_int i = if i <= 0 then N0 else Npos (pos_of_int i)
let int_of_n = function N0 -> 0 | Npos p -> int_of_pos p

let unhex s : n list =
  let l = String.length s / 2 in
  List.init l (fun i -> n_of_int (int_of_string ("0x" ^ String.sub s (2 * i) 2)))

let hex (nm : n list) =
  if nm = [] then "-" else String.concat "" (List.map (fun c -> Printf.sprintf "%02x" (int_of_n c)) nm)

(* a question name as it comes back from the wire: one trailing dot is not represented *)
let wire_norm (nm : n list) =
  match List.rev nm with
  | c :: r when int_of_n c = 46 -> List.rev r
  | _ -> nm

type case = { mode : char; flags : int; ndots : int option; doms : n list list; qname : n list;
              alias : n list outcome option; outs : string }

let parse_case line =
  match String.index_opt line '|' with
  | None -> None
  | Some i when i <> 1 -> None
  | Some i ->
    let units = split_on ';' (String.sub line (i + 1) (String.length line - i - 1)) in
    let c = ref { mode = line.[0]; flags = 0; ndots = None; doms = []; qname = []; alias = None; outs = "" } in
    List.iter (fun u ->
      if String.length u >= 2 && u.[1] = '=' then begin
        let v = String.sub u 2 (String.length u - 2) in
        match u.[0] with
        | 'f' -> c := { !c with flags = (try int_of_string v with _ -> 0) }
        | 'n' -> c := { !c with ndots = (try Some (int_of_string v) with _ -> None) }
        | 'd' -> if List.length !c.doms < 64 then c := { !c with doms = !c.doms @ [unhex v] }
        | 'q' -> c := { !c with qname = unhex v }
        | 'a' ->
          c := { !c with alias =
            (if v = "!missing" then Some (Err aRES_ENOTFOUND)
             else if v = "!notdir" then Some (Err (z_of_int 14))
             else Some (Ok (unhex v))) }
        | 'o' -> c := { !c with outs = v }
        | _ -> ()
      end) units;
    Some !c

let status_of_letter_search = function
  | 'D' | 'C' | 'Y' -> 0 | 'N' -> 1 | 'X' -> 4 | 'S' -> 3 | 'R' -> 6 | 'F' -> 2 | 'I' -> 5 | 'T' -> 12
  | _ -> 4

let ai_of_letter = function
  | 'D' -> { ao_status = z_of_int 0; ao_addr = true }
  | 'C' | 'Y' -> { ao_status = z_of_int 0; ao_addr = false }
  | l -> { ao_status = z_of_int (status_of_letter_search l); ao_addr = false }

let letter outs i = if i < String.length outs then outs.[i] else 'X'

(* a candidate the scripted server can be asked about: non-empty labels of host-name characters,
   at most 63 bytes each, 253 in total; anything else makes ares_send_nolock fail before a
   datagram exists (bad name; over-long names are property C01's defect) and is not judged *)
let sendable (nm : n list) =
  let nm = List.map int_of_n (wire_norm nm) in
  let ok_ch c = (c >= 97 && c <= 122) || (c >= 65 && c <= 90) || (c >= 48 && c <= 57) || c = 45 || c = 95 in
  let rec labels cur acc = function
    | [] -> List.rev (cur :: acc)
    | 46 :: r -> labels 0 (cur :: acc) r
    | c :: r -> if ok_ch c then labels (cur + 1) acc r else [0] in
  nm <> [] && List.length nm <= 253 && List.for_all (fun l -> l >= 1 && l <= 63) (labels 0 [] nm)

let names_str l = String.concat "," (List.map (fun n -> hex (wire_norm n)) l)

let () =
  let cases = read_lines Sys.argv.(1) in
  let impl = impl_table Sys.argv.(2) in
  let stats = Hashtbl.create 16 in
  let bump k = Hashtbl.replace stats k (1 + (try Hashtbl.find stats k with Not_found -> 0)) in
  List.iteri (fun k line ->
    let lines = impl_lines impl k in
    let find pfx = List.find_opt (fun l -> String.length l >= String.length pfx && String.sub l 0 (String.length pfx) = pfx) lines in
    let monitor = find "MONITOR" <> None in
    match parse_case line with
    | None -> Printf.printf "CASE %d trivial-badcase\n" k
    | Some c ->
      (* effective configuration as read back from the channel *)
      (match find "E " with
       | None ->
         Printf.printf "CASE %d trivial-noinit\n" k;
         if not monitor then Printf.printf "DIFF %d no effective-configuration line: %s\n" k (String.concat " / " lines)
       | Some e ->
         let toks = List.filter (fun s -> s <> "") (split_on ' ' e) in
         let (endots, eflags, edoms) = match toks with
           | _ :: nd :: fl :: _ :: ds -> (int_of_string nd, int_of_string fl, List.map (fun h -> if h = "-" then [] else unhex h) ds)
           | _ -> (-1, -1, []) in
         let want_ndots = match c.ndots with Some n when n >= 0 -> n | _ -> 1 in
         if endots <> want_ndots || eflags <> c.flags || (c.doms <> [] && edoms <> c.doms) then
           Printf.printf "DIFF %d effective configuration differs from the requested one: %s\n" k e;
         let cfg = { c_flags = z_of_int eflags; c_ndots = n_of_int endots; c_domains = edoms } in
         let al = lookup_hostaliases cfg.c_flags c.qname c.alias in
         let dots = int_of_nat (count_dots c.qname) in
         (match c.mode with
          | 'L' ->
            let m = search_name_list cfg c.qname c.alias in
            let render_list l = Printf.sprintf "L 0 %d %s" (List.length l) (String.concat " " l) in
            let mstr = match m with
              | Ok l -> render_list (List.map (function Some n -> hex n | None -> "NULL") l)
              | Err s -> "L " ^ string_of_z s
              | UB _ -> "L UB" in
            let sstr = match al with
              | Ok a -> render_list (List.map hex (spec_candidates cfg a c.qname))
              | Err s -> "L " ^ string_of_z s
              | UB _ -> "L UB" in
            let cls = match al with
              | Ok (Some _) -> "L-alias"
              | Err _ | UB _ -> "L-alias-error"
              | Ok None ->
                if ends_with_dot c.qname then "L-only-trailing-dot"
                else if eflags land 32 <> 0 then "L-only-nosearch"
                else if dots >= endots then (if dots = endots then "L-asis-first-boundary" else "L-asis-first")
                else (if dots = endots - 1 then "L-asis-last-boundary" else "L-asis-last") in
            let cls = if List.exists (fun d -> d = [n_of_int 46]) edoms then cls ^ "+root" else cls in
            Printf.printf "CASE %d %s\n" k cls; bump "L";
            (match find "R L" with
             | Some g ->
               let g = String.sub g 2 (String.length g - 2) in
               if g <> mstr then Printf.printf "DIFF %d model=[%s] impl=[%s]\n" k mstr g;
               if g <> sstr then Printf.printf "FAIL %d candidates spec=[%s] impl=[%s]\n" k sstr g
             | None -> if not monitor then Printf.printf "DIFF %d model=[%s] impl=<no result> %s\n" k mstr (String.concat " / " lines))
          | 'S' | 'A' ->
            let tag = String.make 1 c.mode in
            let unsendable = match al with
              | Ok a -> not (is_onion_domain c.qname) && List.exists (fun n -> not (sendable n)) (spec_candidates cfg a c.qname)
              | _ -> false in
            (match find ("R " ^ tag ^ " BADNAME"), find ("R " ^ tag ^ " STUCK") with
             | Some _, _ -> Printf.printf "CASE %d trivial-badname\n" k
             | _, _ when unsendable -> Printf.printf "CASE %d trivial-unsendable-candidate\n" k
             | _, Some g -> Printf.printf "CASE %d %s-stuck\n" k tag;
               Printf.printf "FAIL %d no-callback %s\n" k g
             | None, None ->
               let osearch i = z_of_int (status_of_letter_search (letter c.outs (int_of_nat i))) in
               let oai i = ai_of_letter (letter c.outs (int_of_nat i)) in
               (* model *)
               let m =
                 if c.mode = 'S' then search_int true cfg c.qname c.alias osearch
                 else if is_onion_domain c.qname then Ok ([], aRES_ENOTFOUND)
                 else (match search_name_list cfg c.qname c.alias with
                     | Err s -> Ok ([], s)
                     | UB u -> UB u
                     | Ok l -> (match strip_none l with Ok names -> ai_run names oai | Err s -> Err s | UB u -> UB u)) in
               let pinned =
                 if c.mode = 'S' then search_int false cfg c.qname c.alias osearch else m in
               (* specification *)
               let ospec = if c.mode = 'S' then osearch else (fun i -> ai_status (oai i)) in
               let spec =
                 if is_onion_domain c.qname then Some ([], aRES_ENOTFOUND, 0)
                 else match al with
                   | Ok a -> let cands = spec_candidates cfg a c.qname in
                     Some (spec_queried cands ospec, spec_status cands ospec, List.length cands)
                   | Err s -> Some ([], s, 0)
                   | UB _ -> None in
               let render (sent, st) = Printf.sprintf "sent=[%s] status=%s" (names_str sent) (string_of_z st) in
               let mstr = match m with Ok r -> render r | Err s -> "ERR " ^ string_of_z s | UB _ -> "UB" in
               let pstr = match pinned with Ok r -> render r | Err s -> "ERR " ^ string_of_z s | UB _ -> "UB" in
               let sstr = match spec with Some (q, s, _) -> render (q, s) | None -> "UB" in
               let cls = match spec with
                 | Some (q, s, n) ->
                   let st = int_of_z s in
                   let nq = List.length q in
                   let shape =
                     if n = 0 then "trivial-no-query"
                     else if nq < n then (if st = 0 then "stop-data" else "stop-hard")
                     else if st = 0 then "last-data"
                     else if st = 1 then "exhaust-nodata"
                     else if st = 4 then "exhaust-notfound"
                     else if st = 3 || st = 6 then "last-servfail-refused"
                     else "last-hard" in
                   if n = 0 then shape else Printf.sprintf "%s-%s-%s" tag shape (if n = 1 then "1cand" else "ncand")
                 | None -> tag ^ "-ub" in
               Printf.printf "CASE %d %s\n" k cls; bump tag;
               let q = match find "Q" with Some q when String.length q > 2 -> String.sub q 2 (String.length q - 2) | _ -> "" in
               (match find ("R " ^ tag ^ " ") with
                | Some g ->
                  (match List.filter (fun s -> s <> "") (split_on ' ' g) with
                   | [_; _; st; cbs; _] ->
                     let istr = Printf.sprintf "sent=[%s] status=%s" q st in
                     if istr <> mstr then
                       Printf.printf "DIFF %d model=[%s] impl=[%s]%s\n" k mstr istr
                         (if istr = pstr then " (= model of the code WITHOUT fixes/C12-search-nodata-final.patch)" else "");
                     if istr <> sstr then Printf.printf "FAIL %d stop-rule spec=[%s] impl=[%s]\n" k sstr istr;
                     if cbs <> "1" then Printf.printf "FAIL %d callback-count %s callbacks for one request\n" k cbs
                   | _ -> Printf.printf "DIFF %d unparsable result line [%s]\n" k g)
                | None -> if not monitor then Printf.printf "DIFF %d model=[%s] impl=<no result> %s\n" k mstr (String.concat " / " lines)))
          | _ -> Printf.printf "CASE %d trivial-badmode\n" k))) cases;
  Hashtbl.iter (fun k v -> Printf.printf "STAT cases-%s %d\n" k v) stats
