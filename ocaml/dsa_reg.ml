(* Registry of case kinds of the container engine: kind -> runner.
   A runner maps the op list of a case to (model tokens, spec tokens, class). *)
let tbl : (string, string list -> string * string * string) Hashtbl.t = Hashtbl.create 8
let register (k : string) f = Hashtbl.replace tbl k f
let find k = Hashtbl.find_opt tbl k
