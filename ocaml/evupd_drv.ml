(* Model-side driver of the event-handle registration engine.  Runs the extracted model on the
   same operations, compares statuses, backend calls and the table dump line by line (DIFF),
   and runs the extracted monitor on the IMPLEMENTATION's trace: after every drain every key
   must be coherent (watched as the socket open now with the flags asked for, absent when
   closed, no impossible backend call) -> FAIL stale-registration. *)
open EvUpdatesModel
(*INCLUDE conv_z.inc*)
(*INCLUDE conv_io.inc*)

let key_of_string s =
  let n = z_of_int (int_of_string (String.sub s 1 (String.length s - 1))) in
  if s.[0] = 'c' then KCust n else KSock n
let string_of_key = function KSock n -> "s" ^ string_of_z n | KCust n -> "c" ^ string_of_z n
let string_of_call = function
  | CAdd (k, f) -> "add:" ^ string_of_key k ^ ":" ^ string_of_z f
  | CMod (k, f) -> "mod:" ^ string_of_key k ^ ":" ^ string_of_z f
  | CDel k -> "del:" ^ string_of_key k
let call_of_string s = match split_on ':' s with
  | ["add"; k; f] -> Some (CAdd (key_of_string k, z_of_int (int_of_string f)))
  | ["mod"; k; f] -> Some (CMod (key_of_string k, z_of_int (int_of_string f)))
  | ["del"; k] -> Some (CDel (key_of_string k))
  | _ -> None

let () =
  let cases = read_lines Sys.argv.(1) in
  let impl = impl_table Sys.argv.(2) in
  List.iteri (fun k line ->
    match String.index_opt line '|' with
    | None -> Printf.printf "CASE %d trivial-badcase\n" k
    | Some i ->
      let body = String.sub line (i + 1) (String.length line - i - 1) in
      let toks = List.filter (fun s -> s <> "") (split_on ';' body) in
      let ops = List.filter_map (fun t -> match split_on ' ' t with
        | ["s"; fd; r; w] -> Some (OUpd (KSock (z_of_int (int_of_string fd)), z_of_int ((if r <> "0" then 1 else 0) + (if w <> "0" then 2 else 0)), false))
        | ["x"; kind; id; fl; cbn] -> Some (OUpd ((if kind = "c" then KCust (z_of_int (int_of_string id)) else KSock (z_of_int (int_of_string id))), z_of_int (int_of_string fl), cbn <> "0"))
        | ["d"] -> Some ODrain
        | _ -> None) toks in
      let keys = List.sort_uniq compare (List.filter_map (function OUpd (k, _, _) -> Some k | ODrain -> None) ops) in
      let lines = List.filter_map (fun l -> if String.length l > 2 && String.sub l 0 2 = "R " then Some (String.sub l 2 (String.length l - 2)) else None) (impl_lines impl k) in
      (* implementation output by op index *)
      let at i pfx = List.find_map (fun l -> match split_on ' ' l with
        | [n; v] when int_of_string_opt n = Some i && String.length v >= String.length pfx && String.sub v 0 (String.length pfx) = pfx ->
          Some (String.sub v (String.length pfx) (String.length v - String.length pfx))
        | _ -> None) lines in
      let reuse = ref false and ndrain = ref 0 in
      let ms = ref init and mon = ref init in
      let diffs = ref 0 in
      List.iteri (fun i o ->
        let (s', out) = step true !ms o in
        (match o, out with
         | OUpd (key, fl, _), RStatus st ->
           (* descriptor reuse pending: an update for a key whose removal is still queued *)
           if fl <> Z0 && List.exists (fun u -> u.u_key = key && u.u_flags = Z0) !ms.pending then reuse := true;
           (match at i "st=" with
            | Some v ->
              if v <> string_of_z st && !diffs < 3 then (incr diffs; Printf.printf "DIFF %d op %d status model=%s impl=%s\n" k i (string_of_z st) v);
              mon := mon_update !mon key fl (z_of_int (int_of_string v))
            | None -> if !diffs < 3 then (incr diffs; Printf.printf "DIFF %d op %d no status line\n" k i))
         | ODrain, RCalls cs ->
           incr ndrain;
           let mcalls = String.concat "," (List.map string_of_call cs) in
           let mtbl = String.concat "," (List.filter_map (fun key -> match s'.handles key with Some f -> Some (string_of_key key ^ "=" ^ string_of_z f) | None -> None)
                                           (List.filter (function KSock _ -> true | _ -> false) keys @ List.filter (function KCust _ -> true | _ -> false) keys)) in
           (match at i "calls=", at i "tbl=" with
            | Some ic, Some it ->
              if ic <> mcalls && !diffs < 3 then (incr diffs; Printf.printf "DIFF %d op %d backend calls model=[%s] impl=[%s]\n" k i mcalls ic);
              let norm s = String.concat "," (List.sort compare (List.filter (fun x -> x <> "") (split_on ',' s))) in
              if norm it <> norm mtbl && !diffs < 3 then (incr diffs; Printf.printf "DIFF %d op %d table model=[%s] impl=[%s]\n" k i mtbl it);
              (* monitor on the implementation's own trace *)
              let icalls = List.filter_map call_of_string (List.filter (fun x -> x <> "") (split_on ',' ic)) in
              let itbl = List.filter_map (fun e -> match split_on '=' e with [kk; f] -> Some (key_of_string kk, z_of_int (int_of_string f)) | _ -> None)
                           (List.filter (fun x -> x <> "") (split_on ',' it)) in
              mon := mon_table (mon_calls !mon icalls) itbl;
              List.iter (fun key ->
                if not (coherent_at !mon key) then
                  Printf.printf "FAIL %d stale-registration after the drain at op %d key %s is not watched as the socket open now with the flags asked for (want=%s table=%s backend=%s impossible-call=%b)\n"
                    k i (string_of_key key) (string_of_z (!mon.want key))
                    (match !mon.handles key with Some f -> string_of_z f | None -> "-")
                    (match !mon.reg key with Some (g, f) -> Printf.sprintf "gen%s:%s (now gen%s)" (string_of_z g) (string_of_z f) (string_of_z (!mon.gen key)) | None -> "-")
                    (!mon.bad key)) keys
            | _ -> if !diffs < 3 then (incr diffs; Printf.printf "DIFF %d op %d no calls/tbl line\n" k i))
         | _ -> ());
        ms := s') ops;
      Printf.printf "CASE %d %s\n" k (if ops = [] || !ndrain = 0 then "trivial" else if !reuse then "fd-reuse-before-drain" else "plain");
      if !reuse then Printf.printf "STAT fd-reuse-before-drain 1\n") cases
