(* Model-side driver of the "time" engine (C06 / C07): runs the extracted models
   (generated leaf functions, timeout_int, metrics, calc_spec, the retry machine) over the same
   cases as harness/time_drv.c, compares (DIFF) and applies the extracted statements of the
   properties to what the implementation did (FAIL). *)
open TimeModel
(*INCLUDE conv_nat.inc*)
(*INCLUDE conv_z.inc*)
(*INCLUDE conv_io.inc*)

(* arbitrary-size decimal <-> Z (values reach 2^64) *)
let z10 = z_of_int 10
let zd s =
  let s = String.trim s in
  let neg = String.length s > 0 && s.[0] = '-' in
  let acc = ref Z0 in
  String.iteri (fun i c -> if not (neg && i = 0) then
    acc := Z.add (Z.mul !acc z10) (z_of_int (Char.code c - 48))) s;
  if neg then Z.opp !acc else !acc
let rec dz z =
  match z with
  | Z0 -> "0"
  | Zneg p -> "-" ^ dz (Zpos p)
  | Zpos _ ->
    let rec go z acc = if z = Z0 then acc else
        go (Z.div z z10) (string_of_int (int_of_z (Z.modulo z z10)) ^ acc) in
    go z ""
let zi = z_of_int
let zle a b = Z.leb a b
let zlt a b = Z.ltb a b
let tv s u = { tv_sec = zd s; tv_usec = zd u }
let tv_of_pair s = match split_on ',' s with [a; b] -> tv a b | _ -> failwith "tv"
let starts_with p s = String.length s >= String.length p && String.sub s 0 (String.length p) = p
let words s = List.filter (fun w -> w <> "") (split_on ' ' s)

let diffs = ref [] and fails = ref []
let diff k fmt = Printf.ksprintf (fun s -> diffs := (k, s) :: !diffs) fmt
let fail k kind fmt = Printf.ksprintf (fun s -> fails := (k, kind, s) :: !fails) fmt

let payload lines tag =
  List.filter_map (fun l -> if starts_with (tag ^ " ") l then Some (String.sub l (String.length tag + 1) (String.length l - String.length tag - 1))
                    else if l = tag then Some "" else None) lines

(* ------------------------------------------------------------------ component cases *)
let case_direct k kind args lines =
  match split_on ',' args with
  | [a; b; c; d] ->
    let x = tv a b and y = tv c d in
    let got = match payload lines "R" with [g] -> g | _ -> "<none>" in
    (match kind with
     | "td" ->
       let m = match timedout x y with Ok b -> if b then "1" else "0" | Err _ -> "ERR" | UB _ -> "UB" in
       if m <> got then diff k "timedout model=%s impl=%s" m got;
       let spec = if spec_timedout x y then "1" else "0" in
       if got <> spec then fail k "timedout-wrong" "now=%s check=%s impl=%s expected=%s" (a ^ "," ^ b) (c ^ "," ^ d) got spec;
       let c = Z.compare (tv_us y) (tv_us x) in
       (match c with Eq -> "td-equal" | Lt -> "td-expired" | Gt -> "td-pending")
     | "rem" ->
       let m = match timeval_remaining x y with Ok r -> dz r.tv_sec ^ " " ^ dz r.tv_usec | Err _ -> "ERR" | UB _ -> "UB" in
       if m <> got then diff k "remaining model=%s impl=%s" m got;
       (match words got with
        | [s; u] ->
          let r = tv s u in
          if not (Z.eqb (tv_us r) (spec_remaining_us x y) && zle Z0 r.tv_sec && zle Z0 r.tv_usec && zlt r.tv_usec (zi 1000000)) then
            fail k "remaining-wrong" "now=%s,%s tout=%s,%s impl=%s expected_us=%s" a b c d got (dz (spec_remaining_us x y))
        | _ -> ());
       if zlt (tv_us y) (tv_us x) then "rem-expired" else if Z.eqb (tv_us y) (tv_us x) then "rem-equal"
       else if zlt y.tv_usec x.tv_usec then "rem-borrow" else "rem-noborrow"
     | _ ->
       let m = match timeval_diff x y with Ok r -> dz r.tv_sec ^ " " ^ dz r.tv_usec | Err _ -> "ERR" | UB _ -> "UB" in
       if m <> got then diff k "diff model=%s impl=%s" m got;
       if Z.eqb x.tv_usec y.tv_usec then "diff-equal-usec" else "diff")
  | _ -> "trivial-badcase"

let case_tmo k args lines =
  match split_on ';' args with
  | nowS :: maxS :: dls ->
    let now = tv_of_pair nowS in
    let maxtv = if maxS = "-" then None else Some (tv_of_pair maxS) in
    let dl = List.map tv_of_pair (List.filter (fun s -> s <> "") dls) in
    let sorted = sort_deadlines dl in
    let show = function None -> "N" | Some (tag, t) -> tag ^ " " ^ dz t.tv_sec ^ " " ^ dz t.tv_usec in
    let m = match timeout_int sorted now maxtv with
      | Ok HintMax -> (match maxtv with None -> "N" | Some t -> show (Some ("M", t)))
      | Ok (HintBuf t) -> show (Some ("B", t))
      | Err _ -> "ERR" | UB _ -> "UB" in
    let got = match payload lines "R" with [g] -> g | _ -> "<none>" in
    if m <> got then diff k "ares_timeout model=[%s] impl=[%s]" m got;
    let mo = String.concat " " (List.map (fun t -> dz t.tv_sec ^ "," ^ dz t.tv_usec) sorted) in
    let go = match payload lines "O" with [g] -> String.trim g | _ -> "<none>" in
    if mo <> go then diff k "deadline index order model=[%s] impl=[%s]" mo go;
    let v = match words got with
      | ["N"] -> Some None
      | [_; s; u] -> Some (Some (tv s u))
      | _ -> None in
    (match v with
     | Some v -> if not (hint_okb dl now maxtv v) then
         fail k "hint-unsound" "now=%s max=%s deadlines=[%s] impl=[%s]" nowS maxS (String.concat " " dls) got
     | None -> ());
    let n = List.length dl in
    let expired = List.exists (fun d -> zle (tv_us d) (tv_us now)) dl in
    Printf.sprintf "tmo-q%s-%s-%s" (if n = 0 then "0" else if n = 1 then "1" else if n <= 8 then "few" else "many")
      (match maxtv, (match timeout_int sorted now maxtv with Ok HintMax -> true | _ -> false) with
       | None, _ -> "nomax" | Some _, true -> "maxwins" | Some _, false -> "deadlinewins")
      (if n = 0 then "idle" else if expired then "expired" else "pending")
  | _ -> "trivial-badcase"

let case_met k args lines =
  match split_on '|' args with
  | [cfg; ops] ->
    (match split_on ',' cfg with
     | [t; m] ->
       let timeout = zd t and maxt = zd m in
       let ms = ref metrics_init in
       let outs = ref [] in
       let ub = ref false in
       let nrec = ref 0 in
       List.iter (fun op ->
         match split_on ',' op with
         | ["q"; s; u] ->
           (match metrics_server_timeout timeout maxt (tv s u) !ms with
            | Ok v -> outs := dz v :: !outs
            | _ -> ub := true; outs := "UB" :: !outs)
         | ["r"; qs; qu; ns; nu; st; rc] ->
           (match metrics_record (zd st) (zd rc) (tv qs qu) (tv ns nu) !ms with
            | Ok ms' -> ms := ms'; incr nrec
            | _ -> ub := true)
         | _ -> ()) (List.filter (fun s -> s <> "") (split_on ';' ops));
       let m = String.concat " " (List.rev !outs) in
       let got = match payload lines "R" with [g] -> String.trim g | _ -> "<none>" in
       if m <> got then diff k "server_timeout model=[%s] impl=[%s]" m got;
       let mb = String.concat " " (List.map (fun b -> String.concat "," (List.map dz
         [b.b_ts; b.b_latency_min_ms; b.b_latency_max_ms; b.b_total_ms; b.b_total_count; b.b_prev_ts; b.b_prev_total_ms; b.b_prev_total_count])) !ms) in
       let gb = match payload lines "B" with [g] -> String.trim g | _ -> "<none>" in
       if mb <> gb then diff k "metrics state model=[%s] impl=[%s]" mb gb;
       (* C06: base within [min(250,M), M] *)
       let mx = if Z.eqb maxt Z0 then mAX_TIMEOUT_MS else maxt in
       let lo = if zlt mx mIN_TIMEOUT_MS then mx else mIN_TIMEOUT_MS in
       List.iter (fun w -> if w <> "" && w <> "BADOP" && w <> "NOMEM" then
                     let v = zd w in
                     if not (zle lo v && zle v mx) then fail k "base-out-of-range" "timeout=%s maxtimeout=%s base=%s" t m w) (words got);
       if !ub then "met-model-ub" else if !nrec >= 3 then "met-learned" else if !nrec > 0 then "met-few" else "met-initial"
     | _ -> "trivial-badcase")
  | _ -> "trivial-badcase"

(* ------------------------------------------------------------------ retry cases *)
let case_retry k args lines =
  let parts = split_on '|' args in
  let cfgs = split_on ',' (List.hd parts) in
  match cfgs with
  | [_; _; _; _; jm; fl; _] ->
    let jmode = int_of_string jm and flags = int_of_string fl in
    (match List.filter_map (fun l -> match words l with ["CFG"; s; t; to_; mt] -> Some (s, t, to_, mt) | _ -> None) lines with
     | [] -> "trivial-nochannel"
     | (s0, tries, timeout, maxt) :: _ ->
       let tries = zd tries and timeout = zd timeout and maxt = zd maxt in
       let s_now = ref (zd s0) in
       let smax = List.fold_left (fun acc l -> match words l with ["E"; "servers"; n] -> Z.max acc (zd n) | _ -> acc) !s_now lines in
       let cfg = { cfg_tries = tries; cfg_smax = smax; cfg_nocheckresp = flags land 4 <> 0;
                   cfg_igntc = flags land 8 <> 0; cfg_strict = true } in
       let q0 = q_init (flags land 16 <> 0) (flags land 32 = 0) (flags land 64 <> 0) in
       let q = ref q0 in
       let trace = ref [] in
       let rejected = ref false in
       let feats = Hashtbl.create 8 in
       let feed_in i =
         trace := EvIn i :: !trace;
         let ((ok, q'), outs) = step cfg !q i in
         if not ok then (if not !rejected then diff k "event impossible in the model's state: trace position %d" (List.length !trace); rejected := true);
         q := q'; outs in
       let pending_out = ref [] in   (* outputs the model produced and the implementation still has to show *)
       let expect_out o =
         trace := EvOut o :: !trace;
         match !pending_out with
         | o' :: r when o' = o -> pending_out := r
         | _ -> if not !rejected then diff k "implementation output not predicted by the model at trace position %d" (List.length !trace); rejected := true in
       let push_in i = let outs = feed_in i in pending_out := !pending_out @ outs in
       let last_tx = ref None in     (* (try_count, servers) of the last transmission, for the wait check *)
       let last_srv = ref (-1) in
       let last_opt = ref false in
       let ncb = ref 0 in
       let nremoved = ref 0 in
       let bad_pending = ref false and nbad = ref 0 in
       let last_t_us = ref None and excuses = ref 0 in   (* for attempt-cut-short *)
       let seen_end = ref false in   (* callbacks after END come from ares_destroy *)
       let ntx = ref 0 in
       let base = match metrics_server_timeout timeout maxt { tv_sec = zi 1000; tv_usec = Z0 } metrics_init with Ok b -> b | _ -> Z0 in
       let flush_all () =
         (* read_answers flushes its requeue array after the batch *)
         let guard = ref 0 in
         while (!q).q_queued <> O && (!q).q_ended = None && not (!q).q_sending && !guard < 4 do
           incr guard; push_in IFlush
         done;
         while (!q).q_queued <> O && (!q).q_ended <> None && !guard < 8 do
           incr guard; push_in IFlush
         done in
       (* inputs of a batch that the implementation processes AFTER an output already shown
          (e.g. the copies of a reply that follow the one which completed the query) *)
       let deferred = ref [] in
       let drain () = let d = List.rev !deferred in deferred := []; List.iter (fun f -> f ()) d in
       let handle_batch letters tcp =
         let mk ?(drop = false) ?(bad = false) ?(formerr = false) ?(opt = !last_opt) ?(tc = false) ?err () =
           { r_drop = drop; r_cookie_bad = bad; r_formerr = formerr; r_has_opt = opt; r_tc = tc; r_err = err } in
         (* the driver's replies copy the query's additional section (OPT and cookie) unless stated *)
         let rk kind = match kind with
           | "a" | "x" -> Some (mk ())
           | "s" -> Some (mk ~err:aRES_ESERVFAIL ()) | "n" -> Some (mk ~err:aRES_ENOTIMP ()) | "r" -> Some (mk ~err:aRES_EREFUSED ())
           | "c" -> Some (mk ~tc:true ())
           | "f" -> Some (mk ~formerr:true ~opt:false ())
           | "F" -> Some (mk ~formerr:true ())
           | "b" | "k" | "K" -> Some (if !last_opt then mk ~bad:true () else mk ())   (* without OPT the extended rcode cannot be encoded *)
           | "g" | "G" -> None                                          (* does not parse *)
           | _ -> Some (mk ~drop:true ()) in
         if tcp <> "-1" then begin
           let srv = !s_now in
           (* the walk of read_answers: stops at the first message that does not parse (the
              connection is closed, what is still outstanding on it is re-queued), then the flush *)
           let rec thunks = function
             | [] -> [flush_all]
             | k :: rest ->
               Hashtbl.replace feats ("reply-" ^ k) ();
               (match rk k with
                | Some r -> (fun () ->
                    (* a BADCOOKIE reply the library acts upon: the query is outstanding on this
                       connection and its request carried a cookie *)
                    if r.r_cookie_bad && (!q).q_ended = None && (!q).q_conn <> None && (!q).q_req_cookie then bad_pending := true;
                    push_in (IReply (srv, tcp = "1", true, r))) :: thunks rest
                | None ->
                  Hashtbl.replace feats "malformed" ();
                  [(fun () -> if (!q).q_conn <> None && (!q).q_ended = None then push_in (IConnClosed (srv, aRES_EBADRESP))); flush_all]) in
           let rec run_seq = function
             | [] -> ()
             | f :: r -> f (); if !pending_out = [] then run_seq r else deferred := (fun () -> run_seq r) :: !deferred in
           run_seq (thunks letters)
         end
       in
       List.iter (fun l ->
         (match words l with "CB" :: _ -> () | _ -> drain ());
         match words l with
         | "T" :: sec :: usec :: srv :: tcp :: _qid :: opt :: cookie :: _ ->
           incr ntx;
           (* C06 "each attempt waits no less than the base timeout", on the log alone: a new
              transmission that no reply / connection error / server-list change accounts for can
              only come from the timeout of the previous attempt, which started at the previous T *)
           let t_us = Z.add (Z.mul (zd sec) (zi 1000000)) (zd usec) in
           (match !last_t_us with
            | Some t0 ->
              if !excuses > 0 then decr excuses
              else if zlt (Z.sub t_us t0) (Z.mul base (zi 1000)) then
                fail k "attempt-cut-short" "attempt re-sent %s us after it was sent, without a reply or a connection error (base timeout %s ms)" (dz (Z.sub t_us t0)) (dz base)
            | None -> ());
           last_t_us := Some t_us;
           (* a transmission = successful write inside ares_send_query *)
           if (!q).q_queued <> O && not (!q).q_sending then flush_all ();
           if !bad_pending then begin
             (* C06: at most COOKIE_RESEND_MAX re-sends come from BADCOOKIE replies, the last one over TCP *)
             bad_pending := false; incr nbad;
             Hashtbl.replace feats "badcookie-resend" ();
             if zlt cOOKIE_RESEND_MAX (zi !nbad) then fail k "badcookie-resends-exceed" "%d re-sends caused by BADCOOKIE replies (at most %s)" !nbad (dz cOOKIE_RESEND_MAX)
             else if Z.eqb (zi !nbad) cOOKIE_RESEND_MAX && tcp <> "1" then fail k "badcookie-no-tcp-fallback" "re-send number %d after BADCOOKIE still over UDP" !nbad
           end;
           push_in (ISend (!s_now, SoWriteOk (cookie = "1")));
           expect_out (OTx (tcp = "1", opt = "1"));
           last_tx := Some ((!q).q_try_count, !s_now);
           last_srv := int_of_string srv;
           last_opt := (opt = "1")
         | ["OPENFAIL"] ->
           if (!q).q_queued <> O && not (!q).q_sending then flush_all ();
           Hashtbl.replace feats "openfail" ();
           push_in (ISend (!s_now, SoOpenRetry aRES_ECONNREFUSED))
         | ["SENDFAIL"; _] ->
           if (!q).q_queued <> O && not (!q).q_sending then flush_all ();
           Hashtbl.replace feats "sendfail" ();
           push_in (ISend (!s_now, SoWriteConnErr aRES_ECONNREFUSED))
         | ["H"; "none"] -> last_tx := None
         | ["H"; s; u] ->
           (match !last_tx with
            | Some (tc, srv) ->
              let w = Z.add (Z.mul (zd s) (zi 1000)) (Z.div (zd u) (zi 1000)) in
              (* property: base <= wait <= maxtimeout *)
              if not (wait_okb base maxt w) then
                fail k (if zlt w base then "wait-below-base" else "wait-above-max") "try_count=%s servers=%s base=%s maxtimeout=%s wait=%s" (dz tc) (dz srv) (dz base) (dz maxt) (dz w);
              (* model: exact when the jitter is known, else the interval *)
              let tp = timeplus_capped base srv tc maxt in
              let rounds = rounds_of tc srv in
              let hi = calc_spec base srv tc maxt Z0 in
              let fpmax = Z.add (Z.add (Z.div tp (zi 2)) (Z.div tp (zi 4194304))) (zi 1) in
              let lo = calc_spec base srv tc maxt (if zlt tp fpmax then tp else fpmax) in
              let exact =
                if zle rounds Z0 || jmode = 0 then Some hi
                else if jmode = 1 && zlt tp (zi 16777216) then Some (calc_spec base srv tc maxt (Z.div tp (zi 2)))
                else None in
              (match exact with
               | Some e -> if not (Z.eqb w e) then diff k "wait try_count=%s servers=%s model=%s impl=%s" (dz tc) (dz srv) (dz e) (dz w)
               | None -> if not (zle lo w && zle w hi) then diff k "wait try_count=%s servers=%s model=[%s,%s] impl=%s" (dz tc) (dz srv) (dz lo) (dz hi) (dz w));
              if zle (zi 64) rounds then Hashtbl.replace feats "rounds64" ()
              else if zle (zi 52) rounds then Hashtbl.replace feats "rounds52" ();
              last_tx := None
            | None -> ())
         | ["EARLY"; dtx; cb] ->
           Hashtbl.replace feats "early" ();
           if dtx <> "0" || cb <> "0" then fail k "fired-before-deadline" "1us before the hint expired: transmissions=%s callbacks=%s" dtx cb
         | ["E"; "timeout"] ->
           last_tx := None; bad_pending := false; excuses := 0;
           push_in (ITimeout !s_now)
         | ["E"; "reply"; kind; copies; tcp] ->
           last_tx := None;
           let n = max 1 (int_of_string copies) in
           excuses := n;
           if n > 1 then Hashtbl.replace feats "dup" ();
           handle_batch (List.init n (fun _ -> kind)) tcp
         | ["E"; "batch"; kinds; tcp] ->
           last_tx := None;
           excuses := String.length kinds;
           Hashtbl.replace feats "batch" ();
           handle_batch (List.init (String.length kinds) (fun i -> String.make 1 kinds.[i])) tcp
         | ["E"; "connerr"; tcp] ->
           last_tx := None; excuses := 1;
           Hashtbl.replace feats "connerr" ();
           if tcp <> "-1" && (!q).q_conn <> None then push_in (IConnClosed (!s_now, aRES_ECONNREFUSED))
         | ["E"; "servers"; n] ->
           last_tx := None; excuses := 1;
           Hashtbl.replace feats "servers" ();
           let n' = zd n in
           let removed_current = (!q).q_conn <> None && !last_srv >= int_of_z n' in
           s_now := n';
           if removed_current then push_in (IConnClosed (n', aRES_SUCCESS))
         | ["E"; "onlyserver"; idx] ->
           (* the list becomes the single server idx: the new one is added first, then every other
              server is removed; generated only from a single-server list, so the count is 1 when
              the query's server goes away *)
           last_tx := None; excuses := 1;
           Hashtbl.replace feats "flap" ();
           let removed_current = (!q).q_conn <> None && (!q).q_ended = None && !last_srv <> int_of_string idx in
           s_now := zi 1;
           if removed_current then begin
             incr nremoved;
             if Z.ltb (Z.mul smax tries) (zi !nremoved) then Hashtbl.replace feats "removals-over-budget" ();
             push_in (IConnClosed (zi 1, aRES_SUCCESS))
           end
         | ["E"; "openfail"; _] | ["E"; "sendfail"; _] -> ()
         | "END" :: _ -> seen_end := true
         | "CB" :: st :: rest when not !seen_end && not (List.mem "CLOCKRANGE" lines && zd st = zi 16) ->
           incr ncb;
           (match !last_t_us, rest with
            | Some t0, _ :: sec :: usec :: _ ->
              let t_us = Z.add (Z.mul (zd sec) (zi 1000000)) (zd usec) in
              if !excuses > 0 then decr excuses
              else if zlt (Z.sub t_us t0) (Z.mul base (zi 1000)) then
                fail k "attempt-cut-short" "query failed %s us after its last transmission, without a reply or a connection error (base timeout %s ms)" (dz (Z.sub t_us t0)) (dz base)
            | _ -> ());
           if (!q).q_queued <> O && not (!q).q_sending && (!q).q_ended = None then flush_all ();
           expect_out (ODone (zd st));
           drain ()
         | _ -> ()) lines;
       drain ();
       if List.mem "CLOCKRANGE" lines then Hashtbl.replace feats "clockrange" ();
       if !pending_out <> [] && not !rejected then diff k "model predicts %d more outputs than the implementation produced" (List.length !pending_out);
       let tr = List.rev !trace in
       if not !rejected && not (retry_accepts cfg q0 tr) then diff k "extracted acceptor rejects the implementation trace (%d events)" (List.length tr);
       (* the property's oracle *)
       let b = bound cfg in
       if zlt b (transmissions tr) then fail k "transmissions-exceed-bound" "transmissions=%s bound=%s (servers<=%s tries=%s)" (dz (transmissions tr)) (dz b) (dz smax) (dz tries);
       (match List.filter_map (fun l -> match words l with ["END"; n; d; a] -> Some (n, d, a) | _ -> None) lines with
        | [(_, d, a)] ->
          if d <> "1" && not (List.mem "CLOCKRANGE" lines) then fail k "query-never-terminates" "no callback before the tear-down although the retry budget was used up (callbacks=%d, ares_timeout()=NULL)" !ncb;
          if a <> "0" && not (List.mem "CLOCKRANGE" lines) then fail k "query-never-terminates" "%s queries still active at the end" a
        | _ -> ());
       if !ncb > 1 then fail k "callback-count" "callback called %d times" !ncb;
       let any_reply = Hashtbl.fold (fun key () acc -> acc || starts_with "reply-" key) feats false in
       List.iter (fun s -> if Z.eqb s aRES_SUCCESS && not any_reply then
                     fail k "success-without-answer" "completed with ARES_SUCCESS without any reply") (completions tr);
       let fl = List.sort compare (Hashtbl.fold (fun key () acc -> key :: acc) feats []) in
       let fl = List.filter (fun f -> not (starts_with "reply-" f)) fl @ (if List.exists (starts_with "reply-") fl then ["replies"] else []) in
       Printf.sprintf "retry-s%s-t%s%s" (dz smax)
         (let t = int_of_z tries in if t = 1 then "1" else if t <= 4 then "few" else if t < 52 then "mid" else if t < 65 then "52to64" else "65plus")
         (if fl = [] then "-timeouts" else "-" ^ String.concat "+" fl))
  | _ -> "trivial-badcase"

(* ------------------------------------------------------------------ pt: process_timeouts over several queries *)
let case_pt k args lines =
  match split_on '|' args with
  | [_; sends; p] ->
    (match List.filter_map (fun l -> match words l with ["CFG"; s; t; to_; mt] -> Some (s, t, to_, mt) | _ -> None) lines with
     | [] -> "trivial-nochannel"
     | (s0, tries, timeout, maxt) :: _ ->
       let srv = zd s0 and tries = zd tries and timeout = zd timeout and maxt = zd maxt in
       let pnow = tv_of_pair p in
       let base = match metrics_server_timeout timeout maxt pnow metrics_init with Ok b -> b | _ -> Z0 in
       let sends = List.map tv_of_pair (List.filter (fun s -> s <> "") (split_on ';' sends)) in
       let qids = List.filter_map (fun l -> match words l with ["Q"; i; q] -> Some (int_of_string i, int_of_string q) | _ -> None) lines in
       let w0 = calc_spec base srv Z0 maxt Z0 in
       let entries = List.mapi (fun i s -> match timeadd s w0 with Ok d -> (List.assoc i qids, d) | _ -> (List.assoc i qids, s)) sends in
       let idx = List.fold_left (fun acc e -> insert_sorted e acc) [] entries in
       let requeue _ = if zlt (zi 1) (Z.mul srv tries) then Some (calc_spec base srv (zi 1) maxt Z0) else None in
       let rec after = function [] -> [] | l :: r -> if l = "E process" then r else after r in
       let rec upto = function [] -> [] | l :: r -> if starts_with "END" l then [] else l :: upto r in
       let seg = upto (after lines) in
       let impl_handled = List.filter_map (fun l -> match words l with
         | "T" :: _ :: _ :: _ :: _ :: qid :: _ -> Some (int_of_string qid)
         | "CB" :: _ :: _ :: _ :: _ :: i :: _ -> Some (List.assoc (int_of_string i) qids)
         | _ -> None) seg in
       let dl q = List.assoc q entries in
       (* order among equal deadlines is the skip list's business: compare modulo it *)
       let norm l = List.stable_sort (fun a b -> let c = Z.compare (tv_us (dl a)) (tv_us (dl b)) in
                                      match c with Lt -> -1 | Gt -> 1 | Eq -> compare a b) l in
       (match process_timeouts requeue (nat_of_int (List.length idx)) pnow idx [] with
        | Ok (idx', handled) ->
          if norm handled <> norm impl_handled then
            diff k "process_timeouts handled model=[%s] impl=[%s]" (String.concat " " (List.map string_of_int (norm handled))) (String.concat " " (List.map string_of_int (norm impl_handled)));
          let sorted_ok = let rec chk = function a :: (b :: _ as r) -> zle (tv_us (dl a)) (tv_us (dl b)) && chk r | _ -> true in chk impl_handled in
          if not sorted_ok then diff k "process_timeouts handled queries out of deadline order: [%s]" (String.concat " " (List.map string_of_int impl_handled));
          let mh = match timeout_int (List.map snd idx') pnow None with
            | Ok (HintBuf t) -> dz t.tv_sec ^ " " ^ dz t.tv_usec | Ok HintMax -> "none" | _ -> "UB" in
          let gh = match payload seg "H" with [g] -> g | _ -> "<none>" in
          if mh <> gh then diff k "hint after processing model=[%s] impl=[%s]" mh gh
        | _ -> diff k "process_timeouts model failed");
       (* C07: every query whose deadline has passed is re-sent or ended, no other *)
       List.iter (fun (q, d) ->
         let due = zle (tv_us d) (tv_us pnow) and was = List.mem q impl_handled in
         if due && not was then fail k "deadline-missed" "qid %d deadline %s,%s processed at %s: not handled" q (dz d.tv_sec) (dz d.tv_usec) p;
         if was && not due then fail k "fired-before-deadline" "qid %d deadline %s,%s processed at %s: handled early" q (dz d.tv_sec) (dz d.tv_usec) p) entries;
       let ndue = List.length (List.filter (fun (_, d) -> zle (tv_us d) (tv_us pnow)) entries) in
       Printf.sprintf "pt-q%s-%s" (let n = List.length entries in if n <= 1 then string_of_int n else if n <= 8 then "few" else "many")
         (if ndue = 0 then "nonedue" else if ndue = List.length entries then "alldue" else "somedue"))
  | _ -> "trivial-badcase"

let () =
  let cases = read_lines Sys.argv.(1) in
  let impl = impl_table Sys.argv.(2) in
  List.iteri (fun k line ->
    let cls =
      match String.index_opt line '|' with
      | None -> "trivial-badcase"
      | Some i ->
        let kind = String.sub line 0 i in
        let args = String.sub line (i + 1) (String.length line - i - 1) in
        let lines = impl_lines impl k in
        let monitor = List.exists (starts_with "MONITOR") lines in
        (try
           match kind with
           | "td" | "rem" | "diff" -> if monitor then kind ^ "-monitor" else case_direct k kind args lines
           | "tmo" -> if monitor then "tmo-monitor" else case_tmo k args lines
           | "met" -> if monitor then "met-monitor" else case_met k args lines
           | "retry" -> if monitor then "retry-monitor" else case_retry k args lines
           | "pt" -> if monitor then "pt-monitor" else case_pt k args lines
           | _ -> "trivial-badkind"
         with e -> diff k "model driver exception %s" (Printexc.to_string e); "trivial-exception") in
    Printf.printf "CASE %d %s\n" k cls) cases;
  List.iter (fun (k, s) -> Printf.printf "DIFF %d %s\n" k s) (List.rev !diffs);
  List.iter (fun (k, kind, s) -> Printf.printf "FAIL %d %s %s\n" k kind s) (List.rev !fails)
