(* Model-side driver of the addrinfo engine (C13, function level): see harness/ai_drv.c for
   the case kinds.  DIFF = extracted code-shaped model vs implementation; FAIL = the
   property's oracle (declarative specification / permutation checks) rejects what the
   implementation returned. *)
open AddrInfoModel
(*INCLUDE conv.inc*)

(*INCLUDE legacy_rec.inc*)

let fam_i z = int_of_z z

let render_nodes nodes =
  "[" ^ String.concat "," (List.map (fun nd ->
      Printf.sprintf "%d:%s:%s:%s" (fam_i nd.n_family) (hex_of_bytes nd.n_addr) (zs nd.n_port) (zs nd.n_ttl)) nodes) ^ "]"
let render_cnames cn =
  "[" ^ String.concat "," (List.map (fun c -> Printf.sprintf "%s:%s:%s" (zs c.c_ttl) (opt_str c.c_alias) (opt_str c.c_name)) cn) ^ "]"
let render_ai tag st ai =
  Printf.sprintf "%s st=%s name=%s nodes=%s cnames=%s" tag (zs st) (opt_str ai.ai_name) (render_nodes ai.ai_nodes) (render_cnames ai.ai_cnames)

(* parse "[fam:addr:port:ttl,...]" *)
let parse_nodes s =
  List.map (fun e -> match split_on ':' e with
      | [f; a; p; t] -> { n_family = zi f; n_addr = raw_of_tok a; n_port = zi p; n_ttl = zi t }
      | _ -> raise (Bad ("node " ^ e))) (split_list s)
let opt_of_tok t = if t = "-" then None else Some (str_of_tok t)
let parse_cnames s =
  List.map (fun e -> match split_on ':' e with
      | [t; a; n] -> { c_ttl = zi t; c_alias = opt_of_tok a; c_name = opt_of_tok n }
      | _ -> raise (Bad ("cname " ^ e))) (split_list s)

let a4 = List.map zb [1; 2; 3; 4]
let upper l = List.map (fun z -> let c = int_of_z z in if c >= 97 && c <= 122 then zb (c - 32) else z) l
let bytes_of_string s = List.init (String.length s) (fun i -> zb (Char.code s.[i]))

let sorted_strs l = List.sort compare l

let () =
  let cases = read_lines Sys.argv.(1) in
  let impl = impl_table Sys.argv.(2) in
  List.iteri (fun k case ->
    let lines = impl_lines impl k in
    let monitor = List.exists (fun l -> starts l "MONITOR") lines in
    let diff fmt = Printf.ksprintf (fun s -> Printf.printf "DIFF %d %s\n" k s) fmt in
    let fail kind fmt = Printf.ksprintf (fun s -> Printf.printf "FAIL %d %s %s\n" k kind s) fmt in
    let find tag = List.filter (fun l -> starts l (tag ^ " ")) lines in
    try
      let bar = String.index case '|' in
      let head = String.sub case 0 bar in
      let body = String.sub case (bar + 1) (String.length case - bar - 1) in
      let hp = split_on ':' head in
      match hp with
      (* ------------------------------------------------------------------ pia *)
      | "pia" :: port :: cno :: pre :: _ ->
        let port = zi port and cno = (cno = "1") and pre = int_of_string pre in
        let pst = ref None and rcode = ref 0 and qs = ref [] and rrs = ref [] in
        List.iter (fun l ->
          match split_on ' ' l with
          | "P" :: st :: _ -> pst := Some (int_of_string st)
          | "H" :: rc :: _ -> rcode := int_of_string rc
          | "Q" :: n :: t :: c :: _ -> qs := { q_name = str_of_tok n; q_type = zi t; q_class = zi c } :: !qs
          | "RR" :: n :: t :: c :: ttl :: fields ->
            rrs := { rr_name = str_of_tok n; rr_class = zi c; rr_ttl = zi ttl; rr_data = rdata_of (int_of_string t) fields } :: !rrs
          | _ -> ()) lines;
        (match !pst with
         | None -> if not monitor then diff "no parse status"; Printf.printf "CASE %d trivial-noresult\n" k
         | Some st when st <> 0 -> Printf.printf "CASE %d trivial-pia-rejected\n" k;
           List.iter (fun l -> if starts l "LIVE " && l <> "LIVE 0" then fail "pia-leak" "%s" l) lines
         | Some _ ->
           let answers = List.rev !rrs in
           let rec_ = { r_rcode = z_of_int !rcode; r_questions = List.rev !qs; r_answers = answers } in
           let qn = match rec_.r_questions with q :: _ -> q.q_name | [] -> [] in
           let ai0 = match pre with
             | 1 -> { ai_name = Some (bytes_of_string "other.name");
                      ai_nodes = [{ n_family = lEG_AF_INET; n_addr = List.map zb [1; 1; 1; 1]; n_port = zi "9"; n_ttl = zi "9" }];
                      ai_cnames = [{ c_ttl = zi "77"; c_alias = Some (bytes_of_string "al"); c_name = Some (bytes_of_string "nm") }] }
             | 2 -> { ai_name = Some (upper qn); ai_nodes = []; ai_cnames = [] }
             | _ -> { ai_name = None; ai_nodes = []; ai_cnames = [] } in
           let (mst, mai) = parse_into_addrinfo rec_ cno port ai0 in
           let nn = List.length (spec_nodes port answers) and nc = List.length (spec_cnames answers) in
           Printf.printf "CASE %d pia:pre=%d:cno=%b:nodes=%s:cnames=%s\n" k pre cno
             (if nn = 0 then "0" else if nn = 1 then "1" else if nn <= 5 then "2-5" else ">5") (if nc = 0 then "0" else if nc = 1 then "1" else ">1");
           (* the implementation's addrinfo, re-read for the later steps *)
           let iai = ref mai and ist = ref (-1) in
           List.iter (fun l ->
             if starts l "AI " then begin
               let toks = split_on ' ' l in
               ist := int_of_string (kv toks "st");
               let e = render_ai "AI" mst mai in
               if e <> l then diff "model=[%s] impl=[%s]" e l;
               (try iai := { ai_name = opt_of_tok (kv toks "name"); ai_nodes = parse_nodes (kv toks "nodes"); ai_cnames = parse_cnames (kv toks "cnames") }
                with Bad s -> diff "cannot re-read addrinfo: %s" s);
               (* oracle: exactly the IN A/AAAA records, in order, appended to what was there *)
               let ia = !iai in
               if !ist = 0 then begin
                 if render_nodes ia.ai_nodes <> render_nodes (ai0.ai_nodes @ spec_nodes port answers) then
                   fail "pia-nodes" "nodes are not the A/AAAA records of the answer: want %s got %s" (render_nodes (ai0.ai_nodes @ spec_nodes port answers)) (render_nodes ia.ai_nodes);
                 if render_cnames ia.ai_cnames <> render_cnames (ai0.ai_cnames @ spec_cnames answers) then
                   fail "pia-cnames" "want %s got %s" (render_cnames (ai0.ai_cnames @ spec_cnames answers)) (render_cnames ia.ai_cnames)
               end else begin
                 if render_nodes ia.ai_nodes <> render_nodes ai0.ai_nodes || render_cnames ia.ai_cnames <> render_cnames ai0.ai_cnames then
                   fail "pia-nodes" "addrinfo modified although status is %d: %s" !ist l;
                 if !ist = 1 && (spec_nodes port answers <> [] || (spec_cnames answers <> [] && not cno)) then
                   fail "pia-nodata" "ENODATA although the answer carries addresses/aliases: %s" l
               end
             end
             else if starts l "HE " then begin
               let toks = split_on ' ' l in
               let fam = zi (kv toks "fam") in
               let ia = !iai in
               (match addrinfo2hostent ia fam None with
                | Ok (s, ho) ->
                  (match observe_host (match ho with Some h -> HSome h | None -> HNull) with
                   | Ok v -> let e = Printf.sprintf "HE fam=%s st=%s%s live=0" (zs fam) (zs s) (render_view v) in
                     if e <> l then diff "model=[%s] impl=[%s]" e l
                   | _ -> diff "model: hostent arrays not NULL-terminated; impl=[%s]" l)
                | _ -> diff "model=UB impl=[%s]" l);
               if kv toks "live" <> "0" then fail "hostent-leak" "%s" l;
               (* oracle: addresses = the nodes of the family, in order; none invented/dropped *)
               let f = int_of_z fam in
               let f' = if f = 0 then (match ia.ai_nodes with nd :: _ -> int_of_z nd.n_family | [] -> 0) else f in
               if f' = 2 || f' = 10 then begin
                 let (s, v) = a2h_view ia (z_of_int f') in
                 let e = Printf.sprintf "HE fam=%s st=%s%s live=0" (zs fam) (zs s) (render_view v) in
                 if e <> l then fail "hostent-addresses" "spec=[%s] impl=[%s]" e l
               end
             end
             else if starts l "TT " then begin
               let toks = split_on ' ' l in
               let fam = zi (kv toks "fam") and req = int_of_string (kv toks "req") in
               let ia = !iai in
               if kv toks "guard" <> "ok" then fail "addrttl-capacity" "%s" l;
               (match addrinfo2addrttl ia fam (z_of_int req) true (z_of_int req) true with
                | Ok (s, w) ->
                  let e = Printf.sprintf "TT fam=%s req=%d st=%s n=%d ttls=[%s] guard=ok" (zs fam) req (zs s)
                      (if int_of_z s = 0 then List.length w else 99)
                      (String.concat "," (List.map (fun (a, t) -> hex_of_bytes a ^ ":" ^ zs t) w)) in
                  if e <> l then diff "model=[%s] impl=[%s]" e l
                | _ -> diff "model=UB impl=[%s]" l);
               if req > 0 then begin
                 let w = spec_addrttl ia fam (z_of_int req) in
                 let e = Printf.sprintf "TT fam=%s req=%d st=0 n=%d ttls=[%s] guard=ok" (zs fam) req (List.length w)
                     (String.concat "," (List.map (fun (a, t) -> hex_of_bytes a ^ ":" ^ zs t) w)) in
                 if e <> l then fail "addrttl-records" "spec=[%s] impl=[%s]" e l
               end
             end
             else if starts l "SO " then begin
               let toks = split_on ' ' l in
               let n = int_of_string (kv toks "n") and st = int_of_string (kv toks "st") in
               let out = parse_nodes (kv toks "nodes") in
               let ids = List.map (fun nd -> int_of_z nd.n_port) out in
               let input = List.mapi (fun i nd -> (i, fam_i nd.n_family, hex_of_bytes nd.n_addr)) (!iai).ai_nodes in
               (* oracle: same nodes, none lost or duplicated *)
               let want = List.sort compare input in
               let got = List.sort compare (List.map (fun nd -> (int_of_z nd.n_port, fam_i nd.n_family, hex_of_bytes nd.n_addr)) out) in
               if want <> got then fail "sort-not-permutation" "ares_sortaddrinfo changed the set of nodes: %s" l;
               if n <> List.length input then diff "node count";
               if st <> 0 && ids <> List.init n (fun i -> i) then fail "sort-error-modified" "list reordered although status %d: %s" st l;
               (* model: relink with the order the implementation's qsort produced *)
               if st = 0 then begin
                 match sortaddrinfo (fun _ -> List.map nat_of_int ids) (nat_of_int n) with
                 | Ok ((s, hd), heap) ->
                   (match walk (nat_of_int (n + 1)) hd heap with
                    | Ok l2 -> if List.map int_of_nat l2 <> ids || int_of_z s <> 0 then diff "model relink differs: %s" l
                    | _ -> diff "model walk failed (cycle or dangling next): %s" l)
                 | _ -> diff "model relink UB: %s" l
               end
             end
             else if starts l "PR " then begin
               (match observe_hostres (parse_ptr_reply_dnsrec rec_ (Some a4) (z_of_int 4) lEG_AF_INET) with
                | Ok (s, hv) -> let e = Printf.sprintf "PR st=%s%s live=0" (zs s) (render_view hv) in if e <> l then diff "model=[%s] impl=[%s]" e l
                | _ -> diff "model=UB impl=[%s]" l);
               let (s, hv) = spec_ptr rec_ (Some a4) (z_of_int 4) lEG_AF_INET in
               let e = Printf.sprintf "PR st=%s%s live=0" (zs s) (render_view hv) in
               if e <> l then fail "ptr-names" "spec=[%s] impl=[%s]" e l
             end
             else if starts l "LIVE " then (if l <> "LIVE 0" then fail "pia-leak" "%s" l)) lines)
      (* ------------------------------------------------------------------ ptr *)
      | ["ptr"; fam; hex] ->
        let fam = int_of_string fam in
        let addr = bytes_of_hex hex 0 in
        Printf.printf "CASE %d %s\n" k (if fam = 2 then "ptr:v4" else if fam = 10 then "ptr:v6" else "trivial-ptr-badfamily");
        (match find "PT" with
         | [l] ->
           let m = match addr_to_ptr (z_of_int fam) addr with
             | Ok o -> Printf.sprintf "PT %s live=0" (opt_str o) | Err s -> "PT Err " ^ zs s | UB _ -> "PT UB" in
           if m <> l then diff "model=[%s] impl=[%s]" m l;
           if fam = 2 || fam = 10 then begin
             let want = if fam = 2 then rfc_ptr4 addr else rfc_ptr6 addr in
             let e = Printf.sprintf "PT %s live=0" (xs want) in
             if e <> l then fail "ptr-name" "not the RFC reverse-map name: spec=[%s] impl=[%s]" e l;
             (* the name determines the address *)
             let toks = split_on ' ' l in
             let name = str_of_tok (List.nth toks 1) in
             let back = if fam = 2 then unptr4 (nat_of_int 4) name else unptr6 (nat_of_int 16) name in
             if back <> Some addr then fail "ptr-name" "name does not decode to the address: %s" l
           end
         | _ -> if not monitor then diff "no PT line")
      (* ------------------------------------------------------------------ sort *)
      | "sort" :: fam :: _ ->
        (match find "SL" with
         | [l] ->
           let toks = split_on ' ' l in
           let idxs = List.map int_of_string (split_list (kv toks "idx")) in
           let inp = split_list (kv toks "in") and out = split_list (kv toks "out") in
           let n = List.length inp in
           let distinct = List.length (List.sort_uniq compare idxs) in
           Printf.printf "CASE %d %s\n" k (if n < 2 || distinct < 2 then "trivial-sort" else Printf.sprintf "sort:fam=%s:n=%s:keys=%d" fam (if n <= 3 then "2-3" else if n <= 9 then "4-9" else ">9") (min distinct 4));
           let tbl = Hashtbl.create 16 in
           List.iter2 (fun a i -> Hashtbl.replace tbl a i) inp idxs;
           let idx a = nat_of_int (try Hashtbl.find tbl (hex_of_bytes a) with Not_found -> 0) in
           (match sort_addresses idx (List.map (fun a -> bytes_of_hex a 0) inp) with
            | Ok r -> if List.map hex_of_bytes r <> out then diff "model=[%s] impl=[%s]" (String.concat "," (List.map hex_of_bytes r)) l
            | _ -> diff "model UB/fuel impl=[%s]" l);
           (* oracle: permutation of the input, ascending sortlist index *)
           if sorted_strs inp <> sorted_strs out then fail "sortlist-not-permutation" "%s" l;
           if kv toks "term" <> "ok" then fail "sortlist-not-permutation" "NULL terminator moved: %s" l;
           let oi = List.map (fun a -> try Hashtbl.find tbl a with Not_found -> -1) out in
           let rec asc = function a :: (b :: _ as t) -> a <= b && asc t | _ -> true in
           if not (asc oi) then fail "sortlist-order" "not ascending by sortlist index: %s" l
         | _ -> Printf.printf "CASE %d trivial-noresult\n" k; if not monitor then diff "no SL line")
      (* ------------------------------------------------------------------ lo *)
      | ["lo"; fam; port; pre] ->
        let fam = zi fam and port = zi port and pre = int_of_string pre in
        let nodes0 = (if pre land 1 <> 0 then [{ n_family = lEG_AF_INET; n_addr = List.map zb [10; 9; 8; 7]; n_port = zi "1"; n_ttl = zi "5" }] else [])
                     @ (if pre land 2 <> 0 then [{ n_family = lEG_AF_INET6; n_addr = List.map zb [0xfd; 0; 1; 0; 0; 0; 0; 0; 0; 0; 0; 0; 0; 0; 0; 0]; n_port = zi "2"; n_ttl = zi "6" }] else []) in
        let ai0 = { ai_name = (if pre land 4 <> 0 then Some (bytes_of_string "old") else None); ai_nodes = nodes0; ai_cnames = [] } in
        let f = int_of_z fam in
        Printf.printf "CASE %d %s\n" k (if f = 0 || f = 2 || f = 10 then Printf.sprintf "lo:fam=%d:pre=%d" f (pre land 3) else "trivial-lo-badfamily");
        List.iter (fun l ->
          if starts l "LO " then begin
            let (s, a) = addrinfo_localhost (bytes_of_string "localhost") port fam ai0 in
            let e = render_ai "LO" s a in
            if e <> l then diff "model=[%s] impl=[%s]" e l;
            if f = 0 || f = 2 || f = 10 then begin
              let e = render_ai "LO" (z_of_int 0) { ai_name = Some (bytes_of_string "localhost"); ai_nodes = spec_loopback fam port nodes0; ai_cnames = [] } in
              if e <> l then fail "loopback" "spec=[%s] impl=[%s]" e l
            end
          end
          else if starts l "LIVE " then (if l <> "LIVE 0" then fail "lo-leak" "%s" l)) lines
      | _ -> Printf.printf "CASE %d trivial-badcase\n" k
    with
    | Bad s -> Printf.printf "CASE %d trivial-bad\nDIFF %d cannot read implementation output: %s\n" k k s
    | Failure s -> Printf.printf "CASE %d trivial-bad\nDIFF %d cannot read implementation output: %s\n" k k s
    | Invalid_argument s -> Printf.printf "CASE %d trivial-bad\nDIFF %d cannot read implementation output: %s\n" k k s
    | Not_found -> Printf.printf "CASE %d trivial-bad\nDIFF %d cannot read implementation output (missing token)\n" k k) cases
