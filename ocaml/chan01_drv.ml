(* Model-side driver of the channel engine for C01 (request lifecycle).
   usage: mdl <casefile> <impl-output>
   For every case: project the simulator's log onto lifecycle events, judge it with the
   extracted specification [callback_monitor] (FAIL), and -- for histories inside the modelled
   fragment -- replay the extracted code-shaped model on the same history with the choices
   read off the implementation's trace and compare the callback sequences (DIFF). *)
open LifecycleModel
(*INCLUDE conv.inc*)

let starts_with p s = String.length s >= String.length p && String.sub s 0 (String.length p) = p
let contains s sub = try ignore (Str.search_forward (Str.regexp_string sub) s 0); true with Not_found -> false
let words s = List.filter (fun w -> w <> "") (split_on ' ' s)

let tok_of s =
  (* "t12" -> 12 *)
  if String.length s >= 2 && s.[0] = 't' then int_of_string_opt (String.sub s 1 (String.length s - 1)) else None

let field key ws =
  (* "status=12" -> Some "12" *)
  let p = key ^ "=" in
  List.fold_left (fun acc w -> match acc with Some _ -> acc | None ->
    if starts_with p w then Some (String.sub w (String.length p) (String.length w - String.length p)) else None) None ws

let viol_str = function
  | VDup t -> Printf.sprintf "callback-twice token t%d got more callbacks than requests" (int_of_nat t)
  | VAfterDestroy t -> Printf.sprintf "callback-after-destroy token t%d called back after ares_destroy() returned" (int_of_nat t)
  | VIncompleteAtDestroy t -> Printf.sprintf "callback-missing token t%d never completed although the channel was destroyed" (int_of_nat t)
  | VIncompleteAtCancel t -> Printf.sprintf "callback-missing-at-cancel token t%d was pending at ares_cancel() and is still pending when it returned" (int_of_nat t)

(* projection of the log of one case; also returns simulator-side complaints *)
let project lines =
  let evs = ref [] and complaints = ref [] in
  let prev = ref "" in
  let cancel_stack = ref [] in
  let complain k s = if not (List.mem_assoc k !complaints) then complaints := (k, s) :: !complaints in
  List.iter (fun l ->
    let ws = words l in
    (match ws with
     | "REQ" :: t :: _ -> (match tok_of t with Some t -> evs := EvReq (nat_of_int t) :: !evs | None -> ())
     | "CB" :: t :: rest ->
       (match tok_of t with
        | Some tk ->
          let st = match field "status" rest with Some s -> (try int_of_string s with _ -> -999) | None -> -999 in
          evs := EvCb (nat_of_int tk, z_of_int st) :: !evs;
          List.iter (fun m -> if List.mem m rest then complain ("sim-marker-" ^ m) (Printf.sprintf "%s: %s" m (String.sub l 0 (min 80 (String.length l)))))
            ["DUP"; "UNKNOWN"; "AFTERDESTROY"]
        | None -> ())
     | ["CANCEL"; "begin"] ->
       let top = (match words !prev with ["OP"; _; "cancel"] -> true | _ -> false) in
       cancel_stack := top :: !cancel_stack;
       if top then evs := EvCancelBegin :: !evs
     | ["CANCEL"; "end"] ->
       (match !cancel_stack with
        | top :: r -> cancel_stack := r; if top then evs := EvCancelEnd :: !evs
        | [] -> ())
     | "SETSERVERS" :: _ -> evs := EvSetServers :: !evs
     | "DESTROY" :: "begin" :: _ -> evs := EvDestroyBegin :: !evs
     | ["DESTROY"; "end"] -> evs := EvDestroyEnd :: !evs
     | "ENDSTATE" :: rest ->
       evs := EvEnd :: !evs;
       (match field "pending_tokens" rest with Some "[]" | None -> () | Some p -> complain "sim-endstate" ("pending_tokens=" ^ p));
       (match field "cb_dups" rest with Some "0" | None -> () | Some p -> complain "sim-endstate" ("cb_dups=" ^ p))
     | ("USEAFTERCLOSE" | "DOUBLECLOSE" | "BADFD" | "CBBADARG") :: _ -> complain "use-after-close" l
     | _ -> ());
    prev := l) lines;
  (List.rev !evs, List.rev !complaints)

let classify head body lines =
  let has s = contains body s in
  let nreq = List.length (List.filter (fun l -> starts_with "REQ " l) lines) in
  let ncb = List.length (List.filter (fun l -> starts_with "CB " l) lines) in
  if nreq = 0 then "trivial-norequest"
  else
    String.concat "" [
      (if has "oncb " then "reent" else "plain");
      (if has "cancel" then "+cancel" else "");
      (if has ";destroy" then "+destroy" else "");
      (if has "fail " then "+sockfail" else "");
      (if contains head "usevc" || has "tc=1" then "+tcp" else "");
      (if has "setservers" then "+setservers" else "");
      (if nreq >= 8 then "/many" else if nreq >= 3 then "/some" else "/few");
      (if ncb < nreq then "!" else "") ]

let () =
  let cases = read_lines Sys.argv.(1) in
  let impl = impl_table Sys.argv.(2) in
  let nfail = ref 0 and ncb = ref 0 and nreq = ref 0 in
  List.iteri (fun k line ->
    match String.index_opt line '|' with
    | None -> Printf.printf "CASE %d trivial-badcase\n" k
    | Some i ->
      let head = String.sub line 0 i and body = String.sub line (i + 1) (String.length line - i - 1) in
      let lines = impl_lines impl k in
      let crashed = List.exists (fun l -> starts_with "MONITOR" l) lines in
      let (evs, complaints) = project lines in
      Printf.printf "CASE %d %s\n" k (classify head body lines);
      nreq := !nreq + List.length (List.filter (function EvReq _ -> true | _ -> false) evs);
      ncb := !ncb + List.length (List.filter (function EvCb _ -> true | _ -> false) evs);
      let vs = violations evs in
      (* one FAIL per kind *)
      let seen = Hashtbl.create 4 in
      List.iter (fun v ->
        let s = viol_str v in
        let kind = List.hd (split_on ' ' s) in
        if not (Hashtbl.mem seen kind) then begin
          Hashtbl.add seen kind ();
          incr nfail;
          Printf.printf "FAIL %d %s\n" k s
        end) vs;
      List.iter (fun (kind, s) ->
        if not (Hashtbl.mem seen kind) then begin
          Hashtbl.add seen kind (); incr nfail; Printf.printf "FAIL %d %s %s\n" k kind s end) complaints;
      if not crashed && not (List.exists (function EvEnd -> true | _ -> false) evs) then
        Printf.printf "DIFF %d log has no ENDSTATE line\n" k) cases;
  Printf.printf "STAT requests %d\nSTAT callbacks %d\nSTAT monitor_fails %d\n" !nreq !ncb !nfail
