(* Model-side driver of the channel engine for C01 (request lifecycle).
   usage: mdl <casefile> <impl-output>
   For every case: project the simulator's log onto lifecycle events, judge it with the
   extracted specification [callback_monitor] (FAIL), and -- for histories inside the modelled
   fragment -- replay the extracted code-shaped model on the same history with the decisions
   ("tape") read off the implementation's LC trace and compare requests and callbacks (DIFF). *)
open LifecycleModel
(*INCLUDE conv.inc*)

let starts_with p s = String.length s >= String.length p && String.sub s 0 (String.length p) = p
let contains s sub = try ignore (Str.search_forward (Str.regexp_string sub) s 0); true with Not_found -> false
let words s = List.filter (fun w -> w <> "") (split_on ' ' s)

let tok_of s =
  if String.length s >= 2 && s.[0] = 't' then int_of_string_opt (String.sub s 1 (String.length s - 1))
  else int_of_string_opt s

let sock_of s =
  if String.length s >= 2 && s.[0] = 's' then int_of_string_opt (String.sub s 1 (String.length s - 1)) else None

let field key ws =
  let p = key ^ "=" in
  List.fold_left (fun acc w -> match acc with Some _ -> acc | None ->
    if starts_with p w then Some (String.sub w (String.length p) (String.length w - String.length p)) else None) None ws

let viol_str = function
  | VDup t -> Printf.sprintf "callback-twice token t%d got more callbacks than requests" (int_of_nat t)
  | VAfterDestroy t -> Printf.sprintf "callback-after-destroy token t%d called back after ares_destroy() returned" (int_of_nat t)
  | VIncompleteAtDestroy t -> Printf.sprintf "callback-missing token t%d never completed although the channel was destroyed" (int_of_nat t)
  | VIncompleteAtCancel t -> Printf.sprintf "callback-missing-at-cancel token t%d was pending at ares_cancel() and is still pending when it returned" (int_of_nat t)
  | VWrongStatusAtCancel (t, st) -> Printf.sprintf "wrong-status-at-cancel token t%d was pending at ares_cancel() and completed inside it with status %s instead of ARES_ECANCELLED (24)" (int_of_nat t) (string_of_z st)
  | VWrongStatusAtDestroy (t, st) -> Printf.sprintf "wrong-status-at-destroy token t%d was pending at ares_destroy() and completed inside it with status %s instead of ARES_EDESTRUCTION (16)" (int_of_nat t) (string_of_z st)

(* ------------------------------------------------------------------------------------ *)
(* projection of the log of one case onto lifecycle events                               *)
(* ------------------------------------------------------------------------------------ *)
let project lines =
  let evs = ref [] and complaints = ref [] in
  let prev = ref "" in
  let cancel_stack = ref [] in
  let complain k s = if not (List.mem_assoc k !complaints) then complaints := (k, s) :: !complaints in
  List.iter (fun l ->
    let ws = words l in
    (match ws with
     | "REQ" :: t :: _ -> (match tok_of t with Some t -> evs := EvReq (nat_of_int t) :: !evs | None -> ())
     | "CB" :: t :: rest ->
       (match tok_of t with
        | Some tk ->
          let st = match field "status" rest with Some s -> (try int_of_string s with _ -> -999) | None -> -999 in
          evs := EvCb (nat_of_int tk, z_of_int st) :: !evs;
          List.iter (fun m -> if List.mem m rest then complain ("sim-marker-" ^ m) (Printf.sprintf "%s: %s" m (String.sub l 0 (min 80 (String.length l)))))
            ["DUP"; "UNKNOWN"; "AFTERDESTROY"]
        | None -> ())
     | ["CANCEL"; "begin"] ->
       let top = (match words !prev with ["OP"; _; "cancel"] -> true | _ -> false) in
       cancel_stack := top :: !cancel_stack;
       if top then evs := EvCancelBegin :: !evs
     | ["CANCEL"; "end"] ->
       (match !cancel_stack with
        | top :: r -> cancel_stack := r; if top then evs := EvCancelEnd :: !evs
        | [] -> ())
     (* the server list is about to change (the event stands before the callbacks the change triggers) *)
     | "OP" :: _ :: op :: _ when starts_with "setservers" op || op = "reinit" -> evs := EvSetServers :: !evs
     | "CBOP" :: op :: _ when starts_with "setservers" op || op = "reinit" -> evs := EvSetServers :: !evs
     | "DESTROY" :: "begin" :: _ -> evs := EvDestroyBegin :: !evs
     | ["DESTROY"; "end"] -> evs := EvDestroyEnd :: !evs
     | "ENDSTATE" :: rest ->
       evs := EvEnd :: !evs;
       (match field "pending_tokens" rest with Some "[]" | None -> () | Some p -> complain "sim-endstate" ("pending_tokens=" ^ p));
       (match field "cb_dups" rest with Some "0" | None -> () | Some p -> complain "sim-endstate" ("cb_dups=" ^ p))
     | ("USEAFTERCLOSE" | "DOUBLECLOSE" | "BADFD" | "CBBADARG") :: _ -> complain "use-after-close" l
     | _ -> ());
    prev := l) lines;
  (List.rev !evs, List.rev !complaints)

exception Unsupported of string

(* ------------------------------------------------------------------------------------ *)
(* configuration                                                                         *)
(* ------------------------------------------------------------------------------------ *)
type cfg = { nservers : int; tries : int; flags : string list; domains : string list; ndots : int;
             lookups : string; lctrace : bool; keys : (string * string) list }

let parse_cfg head =
  let kv = List.filter_map (fun w -> match String.index_opt w '=' with
    | Some i -> Some (String.sub w 0 i, String.sub w (i + 1) (String.length w - i - 1)) | None -> None) (words head) in
  let geti k d = match List.assoc_opt k kv with Some v -> (try int_of_string v with _ -> d) | None -> d in
  let flags = match List.assoc_opt "flags" kv with Some v -> split_on ',' v | None -> [] in
  let ns = (if List.mem_assoc "servers" kv then geti "servers" 1 else 1) + geti "servers6" 0 in
  let ns = if List.mem "primary" flags then min ns 1 else ns in
  { nservers = ns; tries = geti "tries" 3; flags;   (* library default: 3 tries *)
    domains = (match List.assoc_opt "domains" kv with Some "-" | None -> [] | Some v -> split_on ',' v);
    ndots = geti "ndots" 1;
    lookups = (match List.assoc_opt "lookups" kv with Some v -> v | None -> "b");
    lctrace = geti "lctrace" 0 = 1; keys = kv }

(* ares_search_name_list (no HOSTALIASES): candidate names in order; true = single label *)
let search_names cfg name =
  let len = String.length name in
  let ndots_name = List.length (split_on '.' name) - 1 in
  let single s = not (String.contains s '.') in
  if (len > 0 && name.[len - 1] = '.') || List.mem "nosearch" cfg.flags then [single name]
  else
    let cat d = if d = "." then name ^ "." else name ^ "." ^ d in
    let doms = List.map cat cfg.domains in
    let l = if ndots_name >= cfg.ndots then name :: doms else doms @ [name] in
    List.map single l

let is_localhost name =
  let n = String.lowercase_ascii name in
  n = "localhost" || (String.length n >= 10 && String.sub n (String.length n - 10) 10 = ".localhost")

let lookups_list cfg = List.filter_map (fun c -> if c = 'b' then Some true else if c = 'f' then Some false else None)
    (List.init (String.length cfg.lookups) (String.get cfg.lookups))

(* configuration that does not come from the options of the case (sysconf=lookups,domains, a
   resolv.conf written by the case, /etc/nsswitch.conf) and is replaced by every ares_reinit: the
   simulator's op effcfg prints what the channel works with; a case whose configuration may have
   such a source is replayed only between an EFFCFG line and the next ares_reinit *)
let cfg_of_effcfg cfg ws =
  let lookups = (match field "lookups" ws with Some l -> l | None -> raise (Unsupported "effcfg")) in
  let ndots = (match field "ndots" ws with Some n -> (try int_of_string n with _ -> raise (Unsupported "effcfg")) | None -> raise (Unsupported "effcfg")) in
  let domains = (match field "domains" ws with
    | Some d when String.length d >= 2 ->
      let inner = String.sub d 1 (String.length d - 2) in if inner = "" then [] else split_on ',' inner
    | _ -> raise (Unsupported "effcfg")) in
  { cfg with lookups; ndots; domains }

(* ------------------------------------------------------------------------------------ *)
(* tape                                                                                  *)
(* ------------------------------------------------------------------------------------ *)
let qid_tbl : (int, int) Hashtbl.t = Hashtbl.create 64
let qid n = match Hashtbl.find_opt qid_tbl n with
  | Some k -> nat_of_int k
  | None -> let k = Hashtbl.length qid_tbl + 1 in Hashtbl.add qid_tbl n k; nat_of_int k
let conn_socks : (int, unit) Hashtbl.t = Hashtbl.create 16

let zi s = z_of_int (int_of_string s)
let ni s = nat_of_int (int_of_string s)
let bi s = s <> "0"
let si s = match sock_of s with Some k -> nat_of_int k | None -> failwith ("bad socket " ^ s)

let tape_of_line l =
  match words l with
  | ["LC"; "TI"; id] -> Some (TI (qid (int_of_string id)))
  | ["LC"; "TQ"; rc; rcode; an; id] -> Some (TQ (zi rc, ni rcode, ni an, qid (int_of_string id)))
  | ["LC"; "TD"; rc] -> Some (TD (zi rc))
  | ["LC"; "TN"; rc] -> Some (TN (zi rc))
  | ["LC"; "TO"; rc] -> Some (TO (zi rc))
  | ["LC"; "TW"; id; s; tcp] ->
    (match sock_of s with Some k -> Hashtbl.replace conn_socks k () | None -> ());
    Some (TW (qid (int_of_string id), si s, bi tcp))
  | ["LC"; "TF"; s; rc] -> Some (TF (si s, zi rc))
  | ["LC"; "TM"; id; s; rcode; tc; an; ropt; qopt; qoptcnt] ->
    Some (TM (qid (int_of_string id), si s,
              { a_rcode = ni rcode; a_tc = bi tc; a_ancount = nat_of_int (min 1 (int_of_string an));
                a_resp_opt = bi ropt; a_req_opt = bi qopt; a_req_optcnt = bi qoptcnt }))
  | ["LC"; "TMR"; rc; rq] -> Some (TMR (zi rc, bi rq))
  | ["LC"; "TX"; s; st] -> Some (TX (si s, zi st))
  | ["LC"; "TE"; id; st] -> Some (TE (qid (int_of_string id), zi st))
  | ["LC"; "TP"; rc; n; v4; v6] -> Some (TP (zi rc, bi n, bi v4, bi v6))
  | ["LC"; "TR"; rc] -> Some (TR (zi rc))
  | ["LC"; "TU"; n] -> Some (TU (ni n))
  | ["LC"; "TUE"] -> Some TUE
  | ["LC"; "TK"] -> Some TK
  | ["LC"; "TKE"] -> Some TKE
  | "SERVERSTATE" :: rest -> (match field "success" rest with Some "0" -> Some TS | Some _ -> Some TG | None -> None)
  | "CLOSE" :: s :: _ ->
    (match sock_of s with Some k when Hashtbl.mem conn_socks k -> Some (TCL (nat_of_int k)) | _ -> None)
  | _ -> None

(* ------------------------------------------------------------------------------------ *)
(* requests: how each token's request went inside its entry point                        *)
(* ------------------------------------------------------------------------------------ *)
(* for token T: Some st if the request completed inside the entry point before any lifecycle
   decision was taken (no LC line between REQ and the CB), None otherwise / not run *)
let sync_status lines =
  let tbl = Hashtbl.create 16 in
  let rec scan = function
    | [] -> ()
    | l :: rest ->
      (match words l with
       | "REQ" :: t :: _ ->
         (match tok_of t with
          | Some tk ->
            let rec look = function
              | [] -> ()
              | l2 :: r2 ->
                (match words l2 with
                 | "LC" :: _ -> ()
                 | "CB" :: t2 :: ws2 when tok_of t2 = Some tk ->
                   (match field "status" ws2 with Some s -> Hashtbl.replace tbl tk (int_of_string s) | None -> ())
                 | "REQ" :: _ | "RET" :: _ -> ()
                 | _ -> look r2) in
            look rest
          | None -> ())
       | _ -> ());
      scan rest in
  scan lines; tbl

(* cfg: the configuration in force, asked for only by the requests that depend on it *)
let call_of_op cfg sync ws =
  let name_arg n = if n = "-" then "" else n in
  let sync_of t = Hashtbl.find_opt sync t in
  match ws with
  | "cancel" :: _ -> ACancel
  | ("setservers" | "reinit") :: _ -> ASetServers
  | ("qlen" | "fds" | "getsock" | "tmo" | "servers" | "opts" | "note") :: _ -> ANop
  | kind :: t :: rest when List.mem kind ["send"; "sendraw"; "query"; "oquery"; "search"; "osearch"; "gai"; "ghbn"; "ghba"; "gni"] ->
    (match tok_of t with
     | None -> raise (Unsupported "bad token")
     | Some tk ->
       let tn = nat_of_int tk in
       (match sync_of tk, kind with
        | Some st, "oquery" -> AOQuery (tn, z_of_int st)
        | Some st, _ -> ASync (tn, z_of_int st)
        | None, "send" -> ASend tn
        | None, "sendraw" -> ASendRaw tn
        | None, "query" -> AQuery tn
        | None, "oquery" -> AOQuery (tn, z_of_int 0)
        | None, "search" -> ASearch (tn, search_names (cfg ()) (name_arg (List.hd rest)))
        | None, "osearch" -> AOSearch (tn, search_names (cfg ()) (name_arg (List.hd rest)))
        | None, "ghba" -> AGhba (tn, lookups_list (cfg ()))
        | None, "gni" ->
          let flags = (match rest with _ :: _ :: f :: _ -> (try int_of_string f with _ -> 0) | _ -> 0) in
          AGni (tn, lookups_list (cfg ()), flags land 4 <> 0)
        | None, ("gai" | "ghbn") ->
          let name = name_arg (List.hd rest) in
          let fam = (match rest with _ :: f :: _ -> (try int_of_string f with _ -> 0) | _ -> 0) in
          let args = (tn, search_names (cfg ()) name, nat_of_int fam, lookups_list (cfg ()), is_localhost name) in
          if kind = "gai" then (let (a, b, c, d, e) = args in AGai (a, b, c, d, e))
          else (let (a, b, c, d, e) = args in AGhbn (a, b, c, d, e))
        | _ -> raise (Unsupported kind)))
  | op :: _ -> raise (Unsupported op)
  | [] -> ANop

let socks_of_list s =
  (* "r=[s0,s1]" -> [0;1] *)
  match String.index_opt s '[' with
  | None -> []
  | Some i ->
    let inner = String.sub s (i + 1) (String.length s - i - 2) in
    List.filter_map (fun w -> match sock_of w with Some k -> Some (nat_of_int k) | None -> None) (split_on ',' inner)

(* ares_set_servers*() calls ares_servers_update() inside its own translation unit, where --wrap
   does not reach: the simulator's own log lines around the call stand for LC TU / LC TUE *)
let server_count cfg l =
  let n = if l = "-" || l = "" then 0 else List.length (split_on ',' l) in
  (* ARES_FLAG_PRIMARY trims the list after the stale servers were removed: two counts in one call *)
  if n > 1 && List.mem "primary" cfg.flags then raise (Unsupported "setservers with primary") else n

(* history = list of (input option, tape, description) *)
let build_history cfg0 lines =
  let sync = sync_status lines in
  (* with a resolv.conf of its own the configuration is only known after an effcfg *)
  let dynamic = List.mem_assoc "resolvconf" cfg0.keys || List.mem_assoc "sysconf" cfg0.keys in
  let cur_cfg = ref (if dynamic then None else Some cfg0) in
  let the_cfg () = (match !cur_cfg with Some c -> c | None -> raise (Unsupported "configuration not known (no effcfg since the last reinit)")) in
  let segs = ref [] in
  let cur_in = ref None and cur_tape = ref [] and cur_desc = ref "init" in
  let final = ref None in
  let in_final = ref false in
  let cur_proc = ref None in
  (* the order in which ares_process_fds meets the sockets is the caller's choice (ares_process
     walks its own socket list): take it from the trace *)
  let order socks tape pick =
    let seen = List.fold_left (fun acc e -> match pick e with
      | Some s when List.mem s socks && not (List.mem s acc) -> acc @ [s] | _ -> acc) [] tape in
    seen @ List.filter (fun s -> not (List.mem s seen)) socks in
  let close () =
    let tape = List.rev !cur_tape in
    (match !cur_proc with
     | Some (w, r) ->
       let w' = order w tape (function TF (s, _) -> Some s | _ -> None) in
       let r' = order r tape (function TM (_, s, _) -> Some s | TX (s, _) -> Some s | _ -> None) in
       cur_in := Some (IProc (w', r')); cur_proc := None
     | None -> ());
    (* ares_set_servers*() / ares_reinit() that did not get as far as ares_servers_update() *)
    (match !cur_in with
     | Some (IApi ASetServers) when not (List.exists (function TU _ -> true | _ -> false) tape) -> cur_in := Some (IApi ANop)
     | _ -> ());
    (* what ares_init() does (it installs the servers through ares_servers_update) is not part of the history *)
    let tape = if !cur_desc = "init" then [] else tape in
    segs := (!cur_in, tape, !cur_desc) :: !segs;
    cur_in := None; cur_tape := [] in
  List.iter (fun l ->
    let ws = words l in
    match ws with
    | "OP" :: _ :: op ->
      close (); cur_desc := l;
      (match op with
       | "oncb" :: t :: [script] ->
         let sws = split_on ',' script in
         (* a request that depends on the configuration, made from a callback that may run after an
            ares_reinit: which configuration it meets is not known when the script is registered *)
         (match sws with
          | k :: _ when dynamic && List.mem k ["search"; "osearch"; "gai"; "ghbn"; "ghba"; "gni"] ->
            raise (Unsupported "configuration-dependent request in a script")
          | _ -> ());
         (match tok_of t with
          | Some tk -> cur_in := Some (IOnCb (nat_of_int tk, call_of_op the_cfg sync sws))
          | None -> raise (Unsupported "oncb token"))
       | "destroy" :: _ -> cur_in := Some IDestroy
       | "setservers" :: l :: _ -> cur_in := Some (IApi ASetServers); cur_tape := [TU (nat_of_int (server_count cfg0 l))]
       | ("writefile" | "effcfg") :: _ -> cur_in := Some (IApi ANop)
       | ("proc" | "proct" | "procfd" | "procsel" | "run") :: _ -> ()
       | ("rsp" | "rspall" | "raw" | "rawfrom" | "zerolen" | "chunk" | "wpat" | "reset" | "eof" | "connectlater"
         | "connected" | "connfail" | "writable" | "fail" | "adv" | "advus") :: _ -> ()
       | ("flushwrites" | "setsortlist" | "setlocalip4" | "setlocalip6" | "setlocaldev") :: _ ->
         raise (Unsupported (List.hd op))
       | _ -> cur_in := Some (IApi (call_of_op the_cfg sync op)))
    | ("PROC" | "PROCSEL") :: r :: w :: _ ->
      close (); cur_desc := l;
      cur_proc := Some (socks_of_list w, socks_of_list r)
    | "CBOP" :: "setservers" :: l0 :: _ -> cur_tape := TU (nat_of_int (server_count cfg0 l0)) :: !cur_tape
    | "REINIT" :: ws' ->
      if field "rc" ws' = Some "0" then (if dynamic then cur_cfg := None) else raise (Unsupported "reinit failed")
    | "EFFCFG" :: ws' -> cur_cfg := Some (cfg_of_effcfg cfg0 ws')
    | "BADOP" :: _ when contains l "setservers" ->
      (match !cur_tape with TU _ :: r -> cur_tape := r | _ -> ());
      (match !cur_in with Some (IApi ASetServers) -> cur_in := Some (IApi ANop) | _ -> ())
    | "SETSERVERS" :: ws' ->
      if field "rc" ws' = Some "0" then cur_tape := TUE :: !cur_tape else raise (Unsupported "setservers failed")
    | "DESTROY" :: "begin" :: "auto" :: _ -> close (); cur_desc := l; in_final := true
    | "ENDSTATE" :: _ ->
      if !in_final then (final := Some (List.rev !cur_tape); cur_tape := []) else close ()
    | _ ->
      (match tape_of_line l with Some e -> cur_tape := e :: !cur_tape | None -> ())) lines;
  (List.rev !segs, !final)

(* ------------------------------------------------------------------------------------ *)
let classify head body lines supported =
  let has s = contains body s in
  let nreq = List.length (List.filter (fun l -> starts_with "REQ " l) lines) in
  let ncb = List.length (List.filter (fun l -> starts_with "CB " l) lines) in
  if nreq = 0 then "trivial-norequest"
  else
    String.concat "" [
      (if has "oncb " then "reent" else "plain");
      (if has "cancel" then "+cancel" else "");
      (if has ";destroy" then "+destroy" else "");
      (if has "fail " then "+sockfail" else "");
      (if contains head "usevc" || has "tc=1" then "+tcp" else "");
      (if has "setservers" then "+setservers" else "");
      (if nreq >= 8 then "/many" else if nreq >= 3 then "/some" else "/few");
      (if ncb < nreq then "!" else "");
      (if supported then "" else "~monitor-only") ]


(* the tree under test: with or without fixes/C01-cancel-complete.patch (props/C01.py looks at the sources) *)
let cancelmark = (try Sys.getenv "C01_CANCELMARK" <> "0" with Not_found -> true)
let fixes_in_tree = if cancelmark then all_fixed else { all_fixed with fx_cancelmark = false }

(* C01_DUMP=1: print the model inputs of every replayed case in Coq syntax (used to write the
   witnesses of coq/Core/Lifecycle_refuted.v) *)
let dump = (try Sys.getenv "C01_DUMP" = "1" with Not_found -> false)
let zs z = Printf.sprintf "(%s)%%Z" (string_of_z z)
let bs b = if b then "true" else "false"
let ns n = string_of_int (int_of_nat n)
let ls f l = "[" ^ String.concat "; " (List.map f l) ^ "]"
let tev_str = function
  | TI q -> "TI " ^ ns q
  | TQ (rc, a, b, c) -> Printf.sprintf "TQ %s %s %s %s" (zs rc) (ns a) (ns b) (ns c)
  | TD rc -> "TD " ^ zs rc | TN rc -> "TN " ^ zs rc | TO rc -> "TO " ^ zs rc
  | TW (q, s, t) -> Printf.sprintf "TW %s %s %s" (ns q) (ns s) (bs t)
  | TF (s, rc) -> Printf.sprintf "TF %s %s" (ns s) (zs rc)
  | TM (q, s, a) -> Printf.sprintf "TM %s %s (mk_ans %s %s %s %s %s %s)" (ns q) (ns s) (ns a.a_rcode) (bs a.a_tc) (ns a.a_ancount) (bs a.a_resp_opt) (bs a.a_req_opt) (bs a.a_req_optcnt)
  | TMR (rc, b) -> Printf.sprintf "TMR %s %s" (zs rc) (bs b)
  | TX (s, st) -> Printf.sprintf "TX %s %s" (ns s) (zs st)
  | TCL s -> "TCL " ^ ns s
  | TE (q, st) -> Printf.sprintf "TE %s %s" (ns q) (zs st)
  | TS -> "TS" | TG -> "TG" | TK -> "TK" | TKE -> "TKE" | TU n -> "TU " ^ ns n | TUE -> "TUE"
  | TP (rc, a, b, c) -> Printf.sprintf "TP %s %s %s %s" (zs rc) (bs a) (bs b) (bs c)
  | TR rc -> "TR " ^ zs rc
let call_str = function
  | ASync (t, st) -> Printf.sprintf "ASync %s %s" (ns t) (zs st)
  | ASend t -> "ASend " ^ ns t | ASendRaw t -> "ASendRaw " ^ ns t | AQuery t -> "AQuery " ^ ns t
  | AOQuery (t, rc) -> Printf.sprintf "AOQuery %s %s" (ns t) (zs rc)
  | ASearch (t, l) -> Printf.sprintf "ASearch %s %s" (ns t) (ls bs l)
  | AOSearch (t, l) -> Printf.sprintf "AOSearch %s %s" (ns t) (ls bs l)
  | AGhba (t, l) -> Printf.sprintf "AGhba %s %s" (ns t) (ls bs l)
  | AGni (t, l, b) -> Printf.sprintf "AGni %s %s %s" (ns t) (ls bs l) (bs b)
  | AGai (t, l, f, lk, lh) -> Printf.sprintf "AGai %s %s %s %s %s" (ns t) (ls bs l) (ns f) (ls bs lk) (bs lh)
  | AGhbn (t, l, f, lk, lh) -> Printf.sprintf "AGhbn %s %s %s %s %s" (ns t) (ls bs l) (ns f) (ls bs lk) (bs lh)
  | ACancel -> "ACancel" | ANop -> "ANop" | ASetServers -> "ASetServers"
let input_str = function
  | IApi c -> "IApi (" ^ call_str c ^ ")"
  | IOnCb (t, c) -> Printf.sprintf "IOnCb %s (%s)" (ns t) (call_str c)
  | IProc (w, r) -> Printf.sprintf "IProc %s %s" (ls ns w) (ls ns r)
  | IDestroy -> "IDestroy"

let ub_str = function
  | UseAfterFree -> "UseAfterFree" | DoubleFree -> "DoubleFree" | _ -> "UB"

let () =
  let cases = read_lines Sys.argv.(1) in
  let impl = impl_table Sys.argv.(2) in
  let nfail = ref 0 and ncb = ref 0 and nreq = ref 0 and nmodel = ref 0 and nunsupported = ref 0 and ndiff = ref 0 in
  List.iteri (fun k line ->
    match String.index_opt line '|' with
    | None -> Printf.printf "CASE %d trivial-badcase\n" k
    | Some i ->
      let head = String.sub line 0 i and body = String.sub line (i + 1) (String.length line - i - 1) in
      let lines = impl_lines impl k in
      let crashed = List.exists (fun l -> starts_with "MONITOR" l) lines in
      let (evs, complaints) = project lines in
      nreq := !nreq + List.length (List.filter (function EvReq _ -> true | _ -> false) evs);
      ncb := !ncb + List.length (List.filter (function EvCb _ -> true | _ -> false) evs);
      (* ---- the property's own oracle ---- *)
      let vs = violations evs @ status_violations evs in
      let seen = Hashtbl.create 4 in
      let fails = ref [] in
      List.iter (fun v ->
        let s = viol_str v in
        let kind = List.hd (split_on ' ' s) in
        if not (Hashtbl.mem seen kind) then begin Hashtbl.add seen kind (); fails := s :: !fails end) vs;
      List.iter (fun (kind, s) ->
        if not (Hashtbl.mem seen kind) then begin Hashtbl.add seen kind (); fails := (kind ^ " " ^ s) :: !fails end) complaints;
      (* ---- correspondence with the extracted model ---- *)
      let cfg = parse_cfg head in
      Hashtbl.reset qid_tbl; Hashtbl.reset conn_socks;
      let supported = ref (cfg.lctrace && not crashed) in
      let diff = ref None in
      if !supported then begin
        (try
          if List.exists (fun (k', _) -> List.mem k' ["failalloc"; "hosts"; "hostaliases"; "localdomain"; "resoptions"; "csv"; "pendingwritecb"]) cfg.keys
          then raise (Unsupported "config");
          (* servers from the resolv.conf: their number is not known here *)
          if List.mem_assoc "resolvconf" cfg.keys && List.assoc_opt "servers" cfg.keys = Some "0" then raise (Unsupported "config");
          let (segs, final) = build_history cfg lines in
          if dump then begin
            Printf.printf "(* case %d: %s *)\nDefinition h%d : list (input * list tev) := [\n%s].\nDefinition f%d : list tev := %s.\n" k line k
              (String.concat ";\n" (List.filter_map (fun (inp, tape, _) -> match inp with
                 | Some i -> Some (Printf.sprintf "  (%s, %s)" (input_str i) (ls tev_str tape)) | None -> None) segs))
              k (match final with Some t -> ls tev_str t | None -> "[]")
          end;
          let mcfg = { cf_fix = fixes_in_tree; cf_tries = nat_of_int cfg.tries; cf_nservers = nat_of_int cfg.nservers;
                       cf_igntc = List.mem "igntc" cfg.flags; cf_nocheckresp = List.mem "nocheckresp" cfg.flags;
                       cf_dns0x20 = List.mem "dns0x20" cfg.flags } in
          (* the fuel: Lifecycle_fuel_top.run_fuel_sufficient shows that fuel_bound (20 x (4 x tape events +
             sizes of the calls) + 10) is never exhausted, so "out of fuel" is not among the ways the
             model can stop; fuel_bound_tr is the same number (fuel_bound_tr_eq) computed tail-recursively *)
          let fuel = fuel_bound_tr (List.filter_map (fun (inp, tape, _) -> match inp with Some i -> Some (i, tape) | None -> None) segs)
                                (match final with Some t -> t | None -> []) in
          (* step by step, to name the operation at which model and implementation part *)
          let st = ref (init_state mcfg) in
          let stop = ref false in
          List.iter (fun (inp, tape, desc) ->
            if not !stop && not (!st).st_destroying then
              match inp with
              | None -> if tape <> [] then begin stop := true; diff := Some (Printf.sprintf "library activity during an operation the model does not know: %s" desc) end
              | Some inp ->
                (match step mcfg fuel inp tape !st with
                 | Ok (_, s') ->
                   st := s';
                   if not (host_inv_check s') then begin
                     stop := true;
                     diff := Some (Printf.sprintf "host_query invariant (remaining = outstanding queries) violated after: %s" desc)
                   end
                 | Err e -> stop := true; diff := Some (Printf.sprintf "model stopped with %s at: %s" (string_of_z e) desc)
                 | UB u -> stop := true; diff := Some (Printf.sprintf "model reports %s at: %s" (ub_str u) desc))) segs;
          if not !stop && not (!st).st_destroying then begin
            match final with
            | None -> diff := Some "no final destroy in the log"
            | Some tape ->
              (match step mcfg fuel IDestroy tape !st with
               | Ok (_, s') -> st := s'
               | Err e -> diff := Some (Printf.sprintf "model stopped with %s in the final destroy" (string_of_z e))
               | UB u -> diff := Some (Printf.sprintf "model reports %s in the final destroy" (ub_str u)))
          end;
          if !diff = None then begin
            incr nmodel;
            let mtrace = List.rev (!st).st_trace in
            let proj l = List.filter_map (function
              | EvReq t -> Some (Printf.sprintf "REQ t%d" (int_of_nat t))
              | EvCb (t, s) -> Some (Printf.sprintf "CB t%d %s" (int_of_nat t) (string_of_z s))
              | _ -> None) l in
            let a = proj mtrace and b = proj evs in
            if a <> b then begin
              let rec first i = function
                | x :: xs, y :: ys -> if x = y then first (i + 1) (xs, ys) else Printf.sprintf "event %d: model '%s' implementation '%s'" i x y
                | x :: _, [] -> Printf.sprintf "event %d: model '%s' implementation nothing" i x
                | [], y :: _ -> Printf.sprintf "event %d: model nothing implementation '%s'" i y
                | [], [] -> "?" in
              diff := Some (first 0 (a, b))
            end
          end
        with
        | Unsupported why -> supported := false; if (try Sys.getenv "C01_WHY" = "1" with Not_found -> false) then Printf.printf "WHY %d %s\n" k why
        | Failure m -> diff := Some ("driver: " ^ m)
        | Not_found -> diff := Some "driver: Not_found")
      end;
      if not !supported then incr nunsupported;
      Printf.printf "CASE %d %s\n" k (classify head body lines !supported);
      List.iter (fun s -> incr nfail; Printf.printf "FAIL %d %s\n" k s) (List.rev !fails);
      (match !diff with Some d -> incr ndiff; Printf.printf "DIFF %d %s\n" k d | None -> ());
      if not crashed && not (List.exists (function EvEnd -> true | _ -> false) evs) then
        Printf.printf "DIFF %d log has no ENDSTATE line\n" k) cases;
  Printf.printf "STAT requests %d\nSTAT callbacks %d\nSTAT monitor_fails %d\nSTAT model_replayed %d\nSTAT monitor_only %d\nSTAT diffs %d\n"
    !nreq !ncb !nfail !nmodel !nunsupported !ndiff
