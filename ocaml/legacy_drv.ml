(* Model-side driver of the legacy-parser engine (C18).
   Reads the record dump printed by harness/legacy_drv.c (public getters of the record API),
   rebuilds the abstract record, and for every "L" line of the implementation
     - runs the extracted code-shaped model on the same inputs     -> DIFF when they disagree
     - evaluates the extracted declarative specification (oracle)  -> FAIL when the
       implementation's result is not what the property demands. *)
open LegacyModel
(*INCLUDE conv.inc*)

(*INCLUDE legacy_rec.inc*)

let render_addr name h t nin (o : addr_obs) =
  let hv = if h = 0 then " host=none" else render_view o.ao_host in
  Printf.sprintf "L %s h=%d t=%d n=%s st=%s nout=%s ttls=[%s] touched=%d guard=ok%s live=0" name h t nin
    (zs o.ao_status) (match o.ao_naddr with None -> "N" | Some z -> zs z)
    (String.concat "," (List.map (fun (a, ttl) -> hex_of_bytes a ^ ":" ^ zs ttl) o.ao_written))
    (List.length o.ao_written) hv

let render_list name st items = Printf.sprintf "L %s st=%s list=%s live=0" name (zs st)
    (if items = [] then "-" else "[" ^ String.concat "," items ^ "]")

let r_mx (m : mx_reply) = zs m.mx_priority ^ ":" ^ xs m.mx_host
let r_srv (m : srv_reply) = Printf.sprintf "%s:%s:%s:%s" (zs m.srv_priority) (zs m.srv_weight) (zs m.srv_port) (xs m.srv_host)
let r_naptr (m : naptr_reply) = Printf.sprintf "%s:%s:%s:%s:%s:%s" (zs m.na_order) (zs m.na_preference) (xs m.na_flags) (xs m.na_service) (xs m.na_regexp) (xs m.na_replacement)
let r_caa (m : caa_reply) = Printf.sprintf "%s:%s:%s:%s:%s:z" (zs m.caa_critical) (zs m.caa_plength) (xs m.caa_property) (zs m.caa_length) (bs m.caa_value)
let r_uri (m : uri_reply) = Printf.sprintf "%s:%s:%s:%s" (zs m.uri_priority) (zs m.uri_weight) (zs m.uri_ttl) (xs m.uri_uri)
let r_soa (m : soa_reply) = Printf.sprintf "%s:%s:%s:%s:%s:%s:%s" (xs m.soa_nsname) (xs m.soa_hostmaster) (zs m.soa_serial) (zs m.soa_refresh) (zs m.soa_retry) (zs m.soa_expire) (zs m.soa_minttl)
let r_txt (m : txt_ent) = Printf.sprintf "%s:%s:z" (zs m.txt_length) (bs m.txt_txt)
let r_txtx (m : txt_ent) = Printf.sprintf "%d:%s:%s:z" (if m.txt_record_start then 1 else 0) (zs m.txt_length) (bs m.txt_txt)

let a4 = List.map zb [1; 2; 3; 4]
let a6 = List.map zb [0x20; 1; 0xd; 0xb8; 0; 0; 0; 0; 0; 0; 0; 0; 0; 0; 0; 5]

let stats = Hashtbl.create 16
let bump k = Hashtbl.replace stats k (1 + (try Hashtbl.find stats k with Not_found -> 0))

let () =
  let cases = read_lines Sys.argv.(1) in
  let impl = impl_table Sys.argv.(2) in
  List.iteri (fun k _case ->
    let lines = impl_lines impl k in
    let monitor = List.exists (fun l -> starts l "MONITOR") lines in
    let diff fmt = Printf.ksprintf (fun s -> Printf.printf "DIFF %d %s\n" k s) fmt in
    (* LEGACY_ORACLES=C02: the engine also runs under property C02 (every legacy reply decoder is
       memory-safe, leaks nothing and hands out nothing on error); there only those clauses are
       judged (kinds *-leak, *-records, *-capacity, plus the sanitizers), agreement with the record
       API is C18's *)
    let c02_only = (Sys.getenv_opt "LEGACY_ORACLES" = Some "C02") in
    let ends_with suf s = let n = String.length suf and m = String.length s in m >= n && String.sub s (m - n) n = suf in
    let fail kind fmt = Printf.ksprintf (fun s ->
      if (not c02_only) || ends_with "-leak" kind || ends_with "-records" kind || ends_with "-capacity" kind
      then Printf.printf "FAIL %d %s %s\n" k kind s) fmt in
    try
      (* ---- rebuild the record ---- *)
      let pst = ref None and rcode = ref 0 and qs = ref [] and rrs = ref [] and ancount = ref (-1) in
      List.iter (fun l ->
        match split_on ' ' l with
        | "P" :: st :: _ -> pst := Some (int_of_string st)
        | "H" :: rc :: _ :: an :: _ -> rcode := int_of_string rc; ancount := int_of_string an
        | "Q" :: n :: t :: c :: _ -> qs := { q_name = str_of_tok n; q_type = zi t; q_class = zi c } :: !qs
        | "RR" :: n :: t :: c :: ttl :: fields ->
          rrs := { rr_name = str_of_tok n; rr_class = zi c; rr_ttl = zi ttl; rr_data = rdata_of (int_of_string t) fields } :: !rrs
        | _ -> ()) lines;
      let answers = List.rev !rrs in
      (match !pst with
       | None -> if not monitor then diff "no parse status line" ; Printf.printf "CASE %d trivial-noresult\n" k
       | Some st ->
         let p = if st <> 0 then ParseFail (z_of_int st)
           else Parsed { r_rcode = z_of_int !rcode; r_questions = List.rev !qs; r_answers = answers } in
         let parse_ok = (st = 0) in
         if parse_ok && !ancount <> List.length answers then diff "record dump incomplete: %d of %d" (List.length answers) !ancount;
         let rec_ = { r_rcode = z_of_int !rcode; r_questions = List.rev !qs; r_answers = answers } in
         (* ---- class of the case ---- *)
         let cls =
           if not parse_ok then Printf.sprintf "malformed:st=%d" st
           else begin
             let n = List.length answers in
             let has t = List.exists (fun r -> int_of_z (rr_type r) = t) answers in
             let ncn = List.length (List.filter (fun r -> int_of_z (rr_type r) = 5) answers) in
             let foreign = List.exists (fun r -> int_of_z r.rr_class <> 1) answers in
             let qt = match rec_.r_questions with q :: _ -> int_of_z q.q_type | [] -> -1 in
             let nq = List.length (List.filter (fun r -> int_of_z (rr_type r) = qt) answers) in
             if n = 0 then "trivial-empty-answer"
             else Printf.sprintf "qt=%d:n=%s:match=%s:cname=%s%s%s" qt
                 (if n = 1 then "1" else if n <= 4 then "2-4" else if n <= 12 then "5-12" else ">12")
                 (if nq = 0 then "0" else if nq = 1 then "1" else ">1")
                 (if ncn = 0 then "0" else if ncn = 1 then "1" else ">1")
                 (if foreign then ":otherclass" else "") (if has 1 && has 28 then ":mixedfam" else "")
           end in
         Printf.printf "CASE %d %s\n" k cls;
         (* ---- every legacy parser line ---- *)
         List.iter (fun l ->
           if starts l "L " then begin
             let toks = split_on ' ' l in
             let name = List.nth toks 1 in
             bump name;
             let st_i = int_of_string (kv toks "st") in
             let live = int_of_string (kv toks "live") in
             if live <> 0 then fail (name ^ "-leak") "%d allocations live after the matching free function: %s" live l;
             (* generic part of the oracle: malformed status iff the record parser rejected *)
             let malformed = is_malformed_status (z_of_int st_i) in
             if (not parse_ok) && not malformed then
               fail (name ^ "-malformed-status") "record parser rejected (status %d) but the legacy parser returned %d" st st_i;
             let check_spec expected what =
               (* expected: full line the specification demands *)
               let strip_live s = match String.rindex_opt s ' ' with Some i when starts (String.sub s (i + 1) (String.length s - i - 1)) "live=" -> String.sub s 0 i | _ -> s in
               if parse_ok && strip_live expected <> strip_live l then begin
                 if malformed then fail (name ^ "-malformed-status") "record parser accepted the message but status is %d: %s" st_i l
                 else if kv (split_on ' ' expected) "st" <> kv toks "st" then
                   fail (name ^ "-nodata-status") "spec=[%s] impl=[%s]" expected l
                 else fail (name ^ "-" ^ what) "spec=[%s] impl=[%s]" expected l
               end in
             let check_fail_empty () =
               (* rejected message: nothing may be handed out *)
               if not parse_ok then begin
                 (match List.find_opt (fun t -> starts t "list=") toks with
                  | Some t when t <> "list=-" -> fail (name ^ "-records") "result list on a rejected message: %s" l
                  | _ -> ());
                 (match List.find_opt (fun t -> starts t "host=") toks with
                  | Some t when t <> "host=-" && t <> "host=untouched" && t <> "host=none" -> fail (name ^ "-records") "hostent on a rejected message: %s" l
                  | _ -> ())
               end in
             check_fail_empty ();
             match name with
             | "a" | "aaaa" ->
               let fam = if name = "a" then lEG_AF_INET else lEG_AF_INET6 in
               let h = int_of_string (kv toks "h") and t = int_of_string (kv toks "t") in
               let nin = kv toks "n" in
               let nopt = if nin = "N" then None else Some (int_of_string nin) in
               let arr_len = match nopt with Some c when c > 0 -> c | Some c when c < 0 -> 4096 | _ -> 0 in
               if kv toks "guard" <> "ok" then fail (name ^ "-capacity") "element beyond the offered capacity was written: %s" l;
               (match nopt with
                | Some c when c >= 0 && int_of_string (kv toks "touched") > c -> fail (name ^ "-capacity") "touched %s > capacity %d" (kv toks "touched") c
                | _ -> ());
               let m = observe_addr (parse_addr_reply fam false p (h = 1) (t = 1) (z_of_int arr_len)
                                       (match nopt with None -> None | Some c -> Some (z_of_int c))) in
               (match m with
                | Ok o -> let e = render_addr name h t nin o in if e <> l then diff "model=[%s] impl=[%s]" e l
                | Err s -> diff "model=Err %s impl=[%s]" (zs s) l
                | UB _ -> diff "model=UB impl=[%s]" l);
               if parse_ok then begin
                 match nopt with
                 | Some c when c < 0 -> ()       (* a negative count is outside the property *)
                 | _ ->
                   let o = spec_addr_reply fam rec_ (h = 1) (t = 1) (match nopt with None -> None | Some c -> Some (z_of_int c)) in
                   check_spec (render_addr name h t nin o) "records";
                   (* property: TTLs identical to the record API's (unsigned) values *)
                   if List.exists (fun (_, ttl) -> int_of_z ttl < 0) o.ao_written && h = 1 && nin = "4096" then
                     fail "ttl-sign" "%s: a record TTL >= 2^31 is handed out as a negative int: %s" name l
               end else begin
                 if kv toks "touched" <> "0" then fail (name ^ "-records") "array written on a rejected message: %s" l
               end
             | "ns" ->
               (match observe_hostres (parse_ns_reply false p) with
                | Ok (s, v) -> let e = Printf.sprintf "L ns st=%s%s live=0" (zs s) (render_view v) in if e <> l then diff "model=[%s] impl=[%s]" e l
                | _ -> diff "model=UB/Err impl=[%s]" l);
               if parse_ok then (let (s, v) = spec_ns rec_ in check_spec (Printf.sprintf "L ns st=%s%s live=0" (zs s) (render_view v)) "records")
             | "ptr" ->
               let v = int_of_string (kv toks "v") in
               let (addr, alen, fam) = match v with 0 -> (Some a4, 4, lEG_AF_INET) | 1 -> (Some a6, 16, lEG_AF_INET6) | _ -> (None, 0, lEG_AF_INET) in
               (match observe_hostres (parse_ptr_reply false p addr (z_of_int alen) fam) with
                | Ok (s, hv) -> let e = Printf.sprintf "L ptr v=%d st=%s%s live=0" v (zs s) (render_view hv) in if e <> l then diff "model=[%s] impl=[%s]" e l
                | _ -> diff "model=UB/Err impl=[%s]" l);
               if parse_ok then (let (s, hv) = spec_ptr rec_ addr (z_of_int alen) fam in
                                 check_spec (Printf.sprintf "L ptr v=%d st=%s%s live=0" v (zs s) (render_view hv)) "records")
             | "soa" ->
               let rs (s, o) = render_list "soa" s (match o with None -> [] | Some x -> [r_soa x]) in
               let e = rs (parse_soa_reply false p) in
               if e <> l then diff "model=[%s] impl=[%s]" e l;
               if parse_ok then begin
                 (* the property wants the documented no-data status here, the code answers
                    ARES_EBADRESP: reported as its own kind so that the finding matches it *)
                 let (s, o) = spec_soa rec_ in
                 if o = None then begin
                   if st_i = 10 then fail "soa-nodata-is-ebadresp" "well-formed message without an SOA answer: ares_parse_soa_reply returned ARES_EBADRESP, documented ARES_ENODATA: %s" l
                   else if st_i <> 1 then fail "soa-nodata-status" "impl=[%s]" l
                   else if l <> render_list "soa" (z_of_int 1) [] then fail "soa-records" "impl=[%s]" l
                 end else check_spec (rs (s, o)) "records"
               end
             | _ ->
               let both model spec r =
                 let (ms, ml) = model false p in
                 let e = render_list name ms (List.map r ml) in
                 if e <> l then diff "model=[%s] impl=[%s]" e l;
                 if parse_ok then (let (ss, sl) = spec rec_ in check_spec (render_list name ss (List.map r sl)) "records") in
               (match name with
                | "mx" -> both parse_mx_reply spec_mx r_mx
                | "srv" -> both parse_srv_reply spec_srv r_srv
                | "naptr" -> both parse_naptr_reply spec_naptr r_naptr
                | "caa" -> both parse_caa_reply spec_caa r_caa
                | "uri" -> both parse_uri_reply spec_uri r_uri;
                  if parse_ok && List.exists (fun (u : uri_reply) -> int_of_z u.uri_ttl < 0) (snd (spec_uri rec_)) then
                    fail "ttl-sign" "uri: a record TTL >= 2^31 is handed out as a negative int: %s" l
                | "txt" -> both parse_txt_reply (spec_txt false) r_txt
                | "txtx" -> both parse_txt_reply_ext (spec_txt true) r_txtx
                | _ -> diff "unknown parser line %s" l)
           end
           else if starts l "F " then begin
             (* allocation-failure sweep: the ledger model with the same allocator answers *)
             let toks = split_on ' ' l in
             let name = List.nth toks 1 in
             let v = int_of_string (kv toks "v") and at = int_of_string (kv toks "at") and tot = int_of_string (kv toks "tot") in
             let st_i = int_of_string (kv toks "st") and out_i = int_of_string (kv toks "out") and live = int_of_string (kv toks "live") in
             bump ("F" ^ name);
             if live <> 0 then fail (name ^ "-leak") "allocation %d of %d failing: %d blocks live after the call and the matching free function: %s" at tot live l;
             if st_i <> 0 && out_i <> 0 then fail (name ^ "-records") "result handed out with status %d: %s" st_i l;
             if at > 0 && st_i = 0 then fail (name ^ "-enomem-ignored") "allocation %d of %d failed but the call reports success: %s" at tot l;
             let failfn n = at > 0 && int_of_nat n = at - 1 in
             let mem0 = { m_count = O; m_live = [] } in
             let chk_list r =
               match r with
               | Ok ((s, out), m') ->
                 (match free_data out m' with
                  | Ok m'' -> (int_of_z s, (if out = [] then 0 else 1), int_of_nat m'.m_count, m''.m_live = [])
                  | _ -> (int_of_z s, -1, 0, false))
               | _ -> (-1, -1, 0, false) in
             let chk_host r =
               match r with
               | Ok ((s, h), m') ->
                 (match free_hostent h m' with
                  | Ok m'' -> (int_of_z s, (if h = None then 0 else 1), int_of_nat m'.m_count, m''.m_live = [])
                  | _ -> (int_of_z s, -1, 0, false))
               | _ -> (-1, -1, 0, false) in
             let lp items = chk_list (list_parser_mem failfn items false p mem0) in
             let (ms, mo, mc, mempty) = match name with
               | "mx" -> lp mx_items | "srv" -> lp srv_items | "naptr" -> lp naptr_items | "caa" -> lp caa_items
               | "uri" -> lp uri_items | "txt" | "txtx" -> lp txt_items
               | "soa" -> (match soa_mem failfn false p mem0 with
                   | Ok ((s, o), m') -> chk_list (Ok ((s, (match o with Some n -> [n] | None -> [])), m'))
                   | _ -> (-1, -1, 0, false))
               | "ns" -> chk_host (ns_mem failfn false p mem0)
               | "ptr" -> chk_host (ptr_mem failfn false p (v = 1) mem0)
               | "a" -> chk_host (addr_reply_mem failfn lEG_AF_INET false p (v = 0) mem0)
               | "aaaa" -> chk_host (addr_reply_mem failfn lEG_AF_INET6 false p (v = 2) mem0)
               | _ -> (-1, -1, 0, false) in
             if not mempty then diff "ledger model: blocks left / invalid free for %s" l;
             if ms <> st_i || mo <> out_i then diff "ledger model st=%d out=%d impl=[%s]" ms mo l;
             if at = 0 && mc <> tot then diff "ledger model makes %d allocations, implementation %d: %s" mc tot l
           end
           else if starts l "NEG " then begin
             let toks = List.tl (split_on ' ' l) in
             List.iter (fun t ->
               if starts t "live=" then (if t <> "live=0" then fail "neg-leak" "%s" l)
               else if t <> "10" then fail "neg-status" "negative length must give ARES_EBADRESP: %s" l) toks;
             (* model: every parser answers EBADRESP on alen < 0 *)
             let ok =
               (match parse_addr_reply lEG_AF_INET true p true true (z_of_int 2) (Some (z_of_int 2)) with Ok r -> int_of_z r.ar_status = 10 | _ -> false)
               && int_of_z (fst (parse_mx_reply true p)) = 10 && int_of_z (fst (parse_soa_reply true p)) = 10
               && (match parse_ns_reply true p with Ok (s, _) -> int_of_z s = 10 | _ -> false)
               && (match parse_ptr_reply true p None (z_of_int 0) lEG_AF_INET with Ok (s, _) -> int_of_z s = 10 | _ -> false) in
             if not ok then diff "model: negative length not EBADRESP"
           end) lines)
    with
    | Bad s -> Printf.printf "CASE %d trivial-bad\nDIFF %d cannot read implementation output: %s\n" k k s
    | Failure s -> Printf.printf "CASE %d trivial-bad\nDIFF %d cannot read implementation output: %s\n" k k s
    | Not_found -> Printf.printf "CASE %d trivial-bad\nDIFF %d cannot read implementation output (missing token)\n" k k) cases;
  Hashtbl.iter (fun name n -> Printf.printf "STAT calls_%s %d\n" name n) stats
