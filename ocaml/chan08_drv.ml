(* C08 end to end on the channel simulator (engine chan08).  There is no model of the whole channel
   here: the driver reconstructs, from the case line and the simulator's event log, the history of
   answers the channel received and of flushes the property demands, recognises cache hits (a
   request completed inside the API call with a record and without any transmission) and judges
   each hit with the extracted history checker QCacheSpec.hit_ok (FAIL lines).  The flush demanded
   for a server-list edit is the extracted SrvUpdate.spec_seq_after / seq_eqb. *)
open QCacheModel
(*INCLUDE conv.inc*)

let zs s = try z_of_int (int_of_string s) with _ -> z_of_int (-1)
let ios s = try int_of_string s with _ -> -1
let words s = List.filter (fun w -> w <> "") (split_on ' ' s)
let starts s p = String.length s >= String.length p && String.sub s 0 (String.length p) = p
let kv line key =
  let kl = String.length key + 1 in
  List.fold_left (fun acc t -> match acc with Some _ -> acc | None ->
    if String.length t >= kl && String.sub t 0 kl = key ^ "=" then Some (String.sub t kl (String.length t - kl)) else None) None (words line)

let types = [ ("A", 1); ("NS", 2); ("CNAME", 5); ("SOA", 6); ("TXT", 16); ("SIG", 24); ("AAAA", 28); ("OPT", 41) ]
let rcodes = [ ("NOERROR", 0); ("FORMERR", 1); ("SERVFAIL", 2); ("NXDOMAIN", 3); ("NOTIMP", 4); ("REFUSED", 5) ]
let bytes_of_string s = List.init (String.length s) (fun i -> z_of_int (Char.code s.[i]))

(* note ins id= rc= tc= rr=  ->  response (OPT records are left out on both sides) *)
let parse_note w =
  match kv w "id", kv w "rc", kv w "tc", kv w "rr" with
  | Some id, Some rc, Some tc, Some rr ->
    (try
       let (an, ns, ar) = if rr = "-" then ([], [], []) else
           List.fold_left (fun (an, ns, ar) r ->
             let sect = r.[0] in
             match split_on ':' (String.sub r 1 (String.length r - 1)) with
             | ty :: ttl :: rest ->
               let mn = (match rest with [m] -> int_of_string m | _ -> 0) in
               let x = { rr_type = z_of_int (List.assoc ty types); rr_ttl = z_of_int (int_of_string ttl); rr_soa_min = z_of_int mn } in
               (match sect with 'n' -> (an @ [x], ns, ar) | 'a' -> (an, ns @ [x], ar) | _ -> (an, ns, ar @ [x]))
             | _ -> failwith "rr") ([], [], []) (split_on ',' rr) in
       Some { rs_id = z_of_int (int_of_string id); rs_rcode = z_of_int (int_of_string rc); rs_tc = (tc <> "0"); rs_an = an; rs_ns = ns; rs_ar = ar }
     with _ -> None)
  | _ -> None

(* request op -> request as the cache sees it *)
let parse_request ws =
  let mk name ty rd =
    let t = (match ty with "A" -> 1 | "AAAA" -> 28 | s -> (try int_of_string s with _ -> 1)) in
    { rq_opcode = Z0; rq_flags = (if rd then aRES_FLAG_RD else Z0);
      rq_qs = [ { qn_type = z_of_int t; qn_class = z_of_int 1; qn_name = bytes_of_string name } ] } in
  match ws with
  | "query" :: t :: name :: _ :: ty :: _ | "oquery" :: t :: name :: _ :: ty :: _ -> Some (ios t, mk name ty true)
  | "search" :: t :: name :: _ :: ty :: rest | "send" :: t :: name :: _ :: ty :: rest -> Some (ios t, mk name ty (List.mem "rd" rest))
  | "gai" :: t :: name :: fam :: _ -> Some (ios t, mk name (if fam = "6" then "AAAA" else "A") true)
  | _ -> None

(* "an=[RR,RR]" sections of a CB line: RR = TYPE:owner:ttl:fields *)
let section line key =
  let pat = " " ^ key ^ "=[" in
  let n = String.length line and m = String.length pat in
  let rec find i = if i + m > n then None else if String.sub line i m = pat then Some (i + m) else find (i + 1) in
  match find 0 with
  | None -> None
  | Some i ->
    (* the matching bracket (IPv6 addresses are printed in brackets of their own) *)
    let rec close j depth = if j >= n then None else
        match line.[j] with
        | '[' -> close (j + 1) (depth + 1)
        | ']' -> if depth = 0 then Some j else close (j + 1) (depth - 1)
        | _ -> close (j + 1) depth in
    (match close i 0 with Some j -> Some (String.sub line i (j - i)) | None -> None)

let rr_items s = if s = "" then [] else split_on ',' s

(* id carried by a response: A 10.1.hi.lo, AAAA fd00:1::<hex>, SOA serial *)
let marker_of_rr ty fields =
  try
    if ty = "A" then (match split_on '.' (List.hd fields) with
        | ["10"; "1"; hi; lo] -> Some (int_of_string hi * 256 + int_of_string lo) | _ -> None)
    else if ty = "AAAA" then
      (let a = String.concat ":" fields in
       let a = if String.length a > 0 && a.[0] = '[' then String.sub a 1 (String.length a - 2) else a in
       if starts a "fd00:1::" then Some (int_of_string ("0x" ^ String.sub a 8 (String.length a - 8))) else None)
    else None
  with _ -> None

type hit = { kind : string; rcode : int; tc : bool; ttls : (z * z) list; marker : int option; has_rec : bool }

let parse_cb line =
  let kind = (match kv line "kind" with Some k -> k | None -> "?") in
  if kind = "dnsrec" || kind = "abuf" then begin
    match kv line "rcode" with
    | None -> { kind; rcode = 0; tc = false; ttls = []; marker = None; has_rec = false }
    | Some rc ->
      let flags = (match kv line "flags" with Some f -> split_on '+' f | None -> []) in
      let marker = ref None in
      let ttls = List.concat (List.map (fun key ->
          match section line key with
          | None -> []
          | Some s -> List.filter_map (fun it ->
              match split_on ':' it with
              | ty :: _owner :: ttl :: fields ->
                if ty = "OPT" then None else begin
                  (match marker_of_rr ty fields with Some m -> if !marker = None then marker := Some m | None -> ());
                  (if ty = "SOA" && !marker = None then
                     (match split_on '/' (String.concat ":" fields) with
                      | _ :: _ :: serial :: _ -> (try marker := Some (int_of_string serial) with _ -> ())
                      | _ -> ()));
                  Some (z_of_int (try List.assoc ty types with Not_found -> 0), zs ttl)
                end
              | _ -> None) (rr_items s)) ["an"; "ns"; "ar"]) in
      { kind; rcode = (try List.assoc rc rcodes with Not_found -> (try int_of_string rc with _ -> -1));
        tc = List.mem "tc" flags; ttls; marker = !marker; has_rec = true }
  end else if kind = "addrinfo" then begin
    match section line "nodes" with
    | None -> { kind; rcode = 0; tc = false; ttls = []; marker = None; has_rec = false }
    | Some s ->
      let marker = ref None in
      let ttls = List.filter_map (fun it ->
          (* family:addr:port:ttl, the address may contain ':' *)
          let fs = split_on ':' it in
          let n = List.length fs in
          if n < 4 then None else begin
            let fam = List.hd fs and ttl = List.nth fs (n - 1) in
            let addr = List.filteri (fun i _ -> i >= 1 && i <= n - 3) fs in
            (match marker_of_rr (if fam = "6" then "AAAA" else "A") addr with Some m -> if !marker = None then marker := Some m | None -> ());
            Some (z_of_int (if fam = "6" then 28 else 1), zs ttl)
          end) (rr_items s) in
      let cn = (match section line "cnames" with
          | Some s -> List.filter_map (fun it -> match List.rev (split_on ':' it) with ttl :: _ -> Some (z_of_int 5, zs ttl) | [] -> None) (rr_items s)
          | None -> []) in
      { kind; rcode = 0; tc = false; ttls = cn @ ttls; marker = !marker; has_rec = true }
  end else { kind; rcode = 0; tc = false; ttls = []; marker = None; has_rec = false }

let () =
  let cases = read_lines Sys.argv.(1) in
  let impl = impl_table Sys.argv.(2) in
  let kinds_total = Hashtbl.create 16 in
  let addr_tbl = Hashtbl.create 16 in
  let addr_id a = match Hashtbl.find_opt addr_tbl a with Some n -> n | None -> let n = Hashtbl.length addr_tbl + 1 in Hashtbl.replace addr_tbl a n; n in
  List.iteri (fun k line ->
    match String.index_opt line '|' with
    | None -> Printf.printf "CASE %d trivial-badcase\n" k
    | Some i ->
      let head = String.sub line 0 i in
      let ops = split_on ';' (String.sub line (i + 1) (String.length line - i - 1)) in
      let log = impl_lines impl k in
      let monitor_seen = List.exists (fun l -> starts l "MONITOR") log in
      (* log sections per top level op *)
      let sect = Hashtbl.create 64 in
      let curop = ref (-1) in
      List.iter (fun l ->
        if starts l "OP " then (match words l with _ :: n :: _ -> curop := (try int_of_string n with _ -> !curop) | _ -> ())
        else Hashtbl.replace sect !curop (l :: (try Hashtbl.find sect !curop with Not_found -> []))) log;
      let lines_of n = List.rev (try Hashtbl.find sect n with Not_found -> []) in
      let maxttl = (match kv head "qcachettl" with Some s -> (try int_of_string s with _ -> 3600) | None -> 3600) in
      let clock = ref (match kv head "clock" with Some s -> (try int_of_string s with _ -> 1000000) | None -> 1000000) in
      let nsrv = (match kv head "servers" with Some s -> (try int_of_string s with _ -> 1) | None -> 1) in
      let sconf a = { sc_addr = z_of_int (addr_id a); sc_udp = Z0; sc_tcp = Z0 } in
      let seq = ref (spec_seq_after Z0 Z0 false (List.init nsrv (fun j -> sconf (Printf.sprintf "10.0.0.%d" (j + 1))))) in
      let hist = ref [] in
      let tok_req = Hashtbl.create 16 in        (* token -> request *)
      let tx_req = Hashtbl.create 16 in         (* x index -> question as transmitted *)
      let pending_note = ref None in
      let blind = ref false in
      let fails = ref [] in
      let n_hit = ref 0 and n_aged = ref 0 and n_neg = ref 0 and n_miss = ref 0 and n_ins = ref 0 and n_flush = ref 0 and n_tcp = ref 0 and n_gaihit = ref 0 in
      (* the question of every transmission is taken from the TX line itself (qname, qtype, qclass, rd):
         this also covers the probes of failed servers (ares_probe_failed_server re-asks the question under
         an id of its own; their answers are cached like any other) *)
      let note_tx l =
        if starts l "TX " then
          (match words l with
           | _ :: x :: _ ->
             let xi = ios (String.sub x 1 (String.length x - 1)) in
             (match kv l "qname", kv l "qtype", kv l "qclass" with
              | Some qn, Some qt, Some qc ->
                Hashtbl.replace tx_req xi
                  { rq_opcode = Z0; rq_flags = (if kv l "rd" = Some "1" then aRES_FLAG_RD else Z0);
                    rq_qs = [ { qn_type = z_of_int (ios qt); qn_class = z_of_int (ios qc); qn_name = bytes_of_string qn } ] }
              | _ -> ());
             if kv l "proto" = Some "tcp" then incr n_tcp
           | _ -> ()) in
      List.iteri (fun n op ->
        let ws = words op in
        let ls = lines_of n in
        (match ws with
         | "adv" :: ms :: _ -> (try clock := !clock + int_of_string ms with _ -> ())
         | "note" :: "ins" :: _ -> pending_note := parse_note op
         | "rspall" :: _ ->
           (* every transmission answered by this op receives the announced response *)
           List.iter (fun l ->
             if starts l "RSP " && not (List.exists (fun w -> starts w "DROPPED") (words l)) then
               (match words l with
                | _ :: x :: _ ->
                  let xi = (try int_of_string (String.sub x 1 (String.length x - 1)) with _ -> -1) in
                  (match Hashtbl.find_opt tx_req xi, !pending_note with
                   | Some rq, Some rs -> incr n_ins; hist := OIns (z_of_int (!clock / 1000), rq, rs) :: !hist
                   | _ -> blind := true)     (* an answer the driver was not told about: nothing can be judged from here on *)
                | _ -> ())) ls;
           pending_note := None
         | "rsp" :: _ | "raw" :: _ | "rawfrom" :: _ -> if List.exists (fun l -> starts l "RSP " || starts l "RAW ") ls then blind := true
         | "run" :: _ | "proc" :: _ | "proct" :: _ | "procsel" :: _ -> List.iter note_tx ls
         | "setservers" :: csv :: _ ->
           let items = if csv = "-" then [] else split_on ',' csv in
           let sq = spec_seq_after Z0 Z0 false (List.map sconf items) in
           if not (seq_eqb !seq sq) then begin incr n_flush; hist := OFlush :: !hist end;
           seq := sq
         | "reinit" :: _ -> incr n_flush; hist := OFlush :: !hist
         | _ ->
           (match parse_request ws with
            | None -> ()
            | Some (t, rq) ->
              Hashtbl.replace tok_req t rq;
              let txs = List.filter (fun l -> starts l "TX ") ls in
              List.iter note_tx txs;
              let cbs = List.filter (fun l -> starts l (Printf.sprintf "CB t%d " t)) ls in
              if txs = [] then begin
                match cbs with
                | cb :: _ ->
                  let h = parse_cb cb in
                  if h.has_rec then begin
                    incr n_hit;
                    if h.kind = "addrinfo" then incr n_gaihit;
                    if h.rcode = 3 || (h.kind <> "addrinfo" && not (List.exists (fun (ty, _) -> int_of_z ty = 1 || int_of_z ty = 28) h.ttls)) then incr n_neg;
                    let now = z_of_int (!clock / 1000) in
                    let mx = z_of_int maxttl in
                    let ids = (match h.marker with
                        | Some m -> [m]
                        | None -> List.filter_map (fun o -> match o with OIns (_, _, rs) -> Some (int_of_z rs.rs_id) | _ -> None) !hist) in
                    let mk id l = { h_id = z_of_int id; h_rcode = z_of_int h.rcode; h_tc = h.tc; h_ttls = l } in
                    if h.kind = "addrinfo" then begin
                      (* only freshness / matching can be judged from an addrinfo; rcode and TC are not visible *)
                      let expl = List.filter_map (fun o -> match o with
                          | OIns (t0, _, rs) when List.mem (int_of_z rs.rs_id) ids ->
                            let h' = { h_id = rs.rs_id; h_rcode = rs.rs_rcode; h_tc = rs.rs_tc; h_ttls = [] } in
                            if hit_ok_gen false mx !hist now rq h' then Some (t0, rs) else None
                          | _ -> None) !hist in
                      (match expl with
                       | [] -> fails := ("hit_not_justified", Printf.sprintf "op=%d [%s] %s" n op cb) :: !fails
                       | (t0, rs) :: _ ->
                         let el = int_of_z now - int_of_z t0 in
                         if el > 0 then incr n_aged;
                         (* ai_ttl is an int: compare modulo 2^32; every address node must carry the aged
                            TTL of an address record of its family in the cached answer *)
                         (* ARES_TTL_TO_INT (fix 6976102, property C18): a TTL with the top bit set is
                            handed out as 0 in the int-typed result structures (RFC 2181 s.8) *)
                         let ttl_to_int x = if x > 0x7FFFFFFF then 0 else x in
                         let m32 x = ((x mod 4294967296) + 4294967296) mod 4294967296 in
                         let want = List.filter_map (fun r -> let ty = int_of_z r.rr_type in
                                                      if ty = 1 || ty = 28 then Some (ty, m32 (ttl_to_int (max 0 (int_of_z r.rr_ttl - el)))) else None) rs.rs_an in
                         let got = List.filter_map (fun (a, b) -> let ty = int_of_z a in if ty = 1 || ty = 28 then Some (ty, m32 (int_of_z b)) else None) h.ttls in
                         if not (List.for_all (fun x -> List.mem x want) got) then
                           fails := ("ttl_not_aged_addrinfo", Printf.sprintf "op=%d [%s] elapsed=%d %s" n op el cb) :: !fails)
                    end else begin
                      if not (List.exists (fun id -> hit_ok_gen false mx !hist now rq (mk id h.ttls)) ids) then
                        fails := ("hit_not_justified", Printf.sprintf "op=%d [%s] t=%d %s" n op (!clock / 1000) cb) :: !fails
                      else begin
                        if not (List.exists (fun id -> hit_ok_gen true mx !hist now rq (mk id h.ttls)) ids) then
                          fails := ((if h.kind = "abuf" then "ttl_not_aged_written" else "ttl_not_aged_getter"),
                                    Printf.sprintf "op=%d [%s] t=%d %s" n op (!clock / 1000) cb) :: !fails;
                        if List.exists (fun o -> match o with OIns (t0, _, rs) -> List.mem (int_of_z rs.rs_id) ids && int_of_z t0 < !clock / 1000 | _ -> false) !hist then incr n_aged
                      end
                    end
                  end
                | [] -> ()
              end else incr n_miss));
        (* NOW lines give the authoritative clock *)
        List.iter (fun l -> if starts l "NOW " then (match words l with _ :: v :: _ -> (match split_on '.' v with ms :: _ -> (try clock := int_of_string ms with _ -> ()) | _ -> ()) | _ -> ())) ls) ops;
      let cls =
        if !n_ins + !n_hit < 2 then "trivial"
        else Printf.sprintf "chan08%s%s%s%s%s%s%s" (if !n_hit > 0 then "+hit" else "") (if !n_aged > 0 then "+aged" else "") (if !n_neg > 0 then "+neghit" else "")
            (if !n_gaihit > 0 then "+gaihit" else "") (if !n_miss > 0 then "+tx" else "") (if !n_flush > 0 then "+flush" else "") (if !n_tcp > 0 then "+tcp" else "") in
      Printf.printf "CASE %d %s\n" k cls;
      if not monitor_seen && not !blind then begin
        let seen = Hashtbl.create 4 in
        List.iter (fun (kind, d) ->
          if not (Hashtbl.mem seen kind) then begin
            Hashtbl.replace seen kind ();
            Hashtbl.replace kinds_total kind (1 + (try Hashtbl.find kinds_total kind with Not_found -> 0));
            Printf.printf "FAIL %d %s %s\n" k kind (String.concat "_" (split_on '\n' d))
          end) (List.rev !fails)
      end) cases;
  Hashtbl.iter (fun kind n -> Printf.printf "STAT fail_%s %d\n" kind n) kinds_total
