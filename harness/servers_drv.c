/* Implementation-side driver of the C09 engine "servers": a real channel with n virtual
 * servers (10.0.0.<id>), virtual UDP sockets that record the destination of every transmission,
 * a scripted outcome per transmission, the public server-state callback, and the library's
 * random draws (ares_rand_bytes is replaced at link time and logged).
 *
 * case:  V|unit;unit;...    configuration units (any position):
 *   sv=<id,id,...>  initial servers (ARES_OPT_SERVERS, ids 1..250, duplicates allowed)
 *   rot=<0|1>       ARES_OPT_NOROTATE / ARES_OPT_ROTATE
 *   tries=<n>       ARES_OPT_TRIES         ch=<n>;dl=<ms>  ARES_OPT_SERVER_FAILOVER
 *   seed=<n>        seed of the byte stream handed to the library
 *  event units, executed in order:
 *   q        new user query                       a   oldest transmission in flight answered
 *   p        new user query; if it goes to a server without failures and a failed server is past
 *            its retry time, a connection to that server cannot be established during this call
 *            (aconnect fails with ENETUNREACH): the probe copy fails synchronously.  rec PF if so.
 *   s r i    ... answered SERVFAIL/REFUSED/NOTIMP x   60 s pass, every attempt in flight times out
 *   c        ares_cancel
 *   k        the connection of the oldest transmission in flight fails (read error ECONNREFUSED)
 *   w<ms>    the clock advances (only when nothing is in flight, otherwise skipped)
 *   e<id,id,..>  ares_set_servers_ports_csv, also while attempts are in flight: the
 *            transmissions on the connections it closes are dropped
 * after the last event the transmissions still in flight are answered, oldest first.
 * output per event:  "<k> S <n> <unit> | rec rec ... | <server table>"
 *   rec: F<id> G<id> server-state callback failure/success, T<label>@<id> transmission,
 *        D<label>=<status> user callback, R1=<v> R2=<v> random draws of 1 / 2 bytes,
 *        Q<label> a user query with this label is being submitted, E the list update starts,
 *        L<id> the connection to server <id> was lost with queries outstanding
 *   table (sorted order of channel->servers): id:idx:failures:probe_pending:retry_sec.usec
 */
#include "drv_common.h"
#include "ss_vnet.h"

static char     g_rec[65536];
static size_t   g_rec_len;
static unsigned g_rng;
static unsigned short g_next_id;

static void rec(const char *fmt, ...)
{
  va_list ap;
  int     n;
  va_start(ap, fmt);
  n = vsnprintf(g_rec + g_rec_len, sizeof(g_rec) - g_rec_len, fmt, ap);
  va_end(ap);
  if (n > 0 && (size_t)n < sizeof(g_rec) - g_rec_len) {
    g_rec_len += (size_t)n;
  }
}

void __wrap_ares_rand_bytes(ares_rand_state *state, unsigned char *buf, size_t len)
{
  size_t i;
  (void)state;
  for (i = 0; i < len; i++) {
    g_rng  = g_rng * 1103515245u + 12345u;
    buf[i] = (unsigned char)(g_rng >> 16);
  }
  if (len == 1) {
    rec(" R1=%u", (unsigned)buf[0]);
  } else if (len == 2) {
    unsigned short r;
    memcpy(&r, buf, 2);
    rec(" R2=%u", (unsigned)r);
  }
}

unsigned short __wrap_ares_generate_new_id(ares_rand_state *state)
{
  (void)state;
  return g_next_id++;
}

/* transmissions in flight, oldest first */
typedef struct {
  int            sock;
  unsigned short id;
  unsigned char  data[512];
  size_t         len;
} pend_t;
static pend_t g_pend[256];
static int    g_npend;

static void on_tx(int sock, const unsigned char *data, size_t len)
{
  unsigned short id = len >= 2 ? (unsigned short)((data[0] << 8) | data[1]) : 0;
  rec(" T%u@%u", (unsigned)(id - 1), vn_peer_v4(sock) & 0xff);
  if (g_npend < 256 && len <= sizeof(g_pend[0].data)) {
    g_pend[g_npend].sock = sock;
    g_pend[g_npend].id   = id;
    g_pend[g_npend].len  = len;
    memcpy(g_pend[g_npend].data, data, len);
    g_npend++;
  }
}

static void state_cb(const char *server_string, ares_bool_t success, int flags, void *data)
{
  const char *p = strstr(server_string, "10.0.0.");
  (void)flags;
  (void)data;
  rec(" %c%d", success ? 'G' : 'F', p ? atoi(p + 7) : -1);
}

static void query_cb(void *arg, ares_status_t status, size_t timeouts, const ares_dns_record_t *dnsrec)
{
  (void)timeouts;
  (void)dnsrec;
  rec(" D%ld=%d", (long)(intptr_t)arg, (int)status);
}

static void respond(ares_channel_t *ch, char kind)
{
  pend_t              p;
  ares_dns_record_t  *q = NULL, *resp = NULL;
  const char         *qname = NULL;
  ares_dns_rec_type_t qtype;
  ares_dns_class_t    qclass;
  ares_dns_rcode_t    rcode = ARES_RCODE_NOERROR;
  unsigned char      *buf   = NULL;
  size_t              len   = 0;

  if (g_npend == 0) {
    rec(" -");
    return;
  }
  p = g_pend[0];
  memmove(&g_pend[0], &g_pend[1], sizeof(g_pend[0]) * (size_t)(g_npend - 1));
  g_npend--;
  if (ares_dns_parse(p.data, p.len, 0, &q) != ARES_SUCCESS ||
      ares_dns_record_query_get(q, 0, &qname, &qtype, &qclass) != ARES_SUCCESS) {
    rec(" ?");
    ares_dns_record_destroy(q);
    return;
  }
  switch (kind) {
    case 's': rcode = ARES_RCODE_SERVFAIL; break;
    case 'r': rcode = ARES_RCODE_REFUSED; break;
    case 'i': rcode = ARES_RCODE_NOTIMP; break;
    default: break;
  }
  ares_dns_record_create(&resp, p.id, ARES_FLAG_QR | ARES_FLAG_RD | ARES_FLAG_RA, ARES_OPCODE_QUERY, rcode);
  ares_dns_record_query_add(resp, qname, qtype, qclass);
  if (kind == 'a') {
    ares_dns_rr_t *rr = NULL;
    struct in_addr a4;
    a4.s_addr = htonl(0x01020304);
    ares_dns_record_rr_add(&rr, resp, ARES_SECTION_ANSWER, qname, ARES_REC_TYPE_A, ARES_CLASS_IN, 60);
    ares_dns_rr_set_addr(rr, ARES_RR_A_ADDR, &a4);
  }
  if (ares_dns_write(resp, &buf, &len) == ARES_SUCCESS) {
    vn_deliver(ch, p.sock, buf, len);
    ares_free_string(buf);
  }
  ares_dns_record_destroy(resp);
  ares_dns_record_destroy(q);
}

static void print_table(ares_channel_t *ch)
{
  ares_slist_node_t *node;
  int                first = 1;
  for (node = ares_slist_node_first(ch->servers); node != NULL; node = ares_slist_node_next(node)) {
    const ares_server_t *s = ares_slist_node_val(node);
    printf("%s%u:%zu:%zu:%d:%lld.%u", first ? "" : ",", ntohl(s->addr.addr.addr4.s_addr) & 0xff, s->idx,
           s->consec_failures, s->probe_pending ? 1 : 0, (long long)s->next_retry_time.sec,
           s->next_retry_time.usec);
    first = 0;
  }
  if (first) {
    printf("-");
  }
}

static void run_case(long k, char *line)
{
  char               *bar = strchr(line, '|');
  char               *u, *save = NULL;
  static char         copy[200000];
  struct ares_options opts;
  int                 optmask = 0;
  struct in_addr      servers[64];
  int                 nservers = 0;
  int                 rot = -1, tries = 0, chance = -1;
  long                delay = 0, seed = 1;
  ares_channel_t     *ch = NULL;
  long                label = 0;
  int                 evno = 0;

  if (bar == NULL || line[0] != 'V') {
    printf("%ld R BADCASE\n", k);
    return;
  }
  snprintf(copy, sizeof(copy), "%s", bar + 1);
  for (u = strtok_r(copy, ";", &save); u != NULL; u = strtok_r(NULL, ";", &save)) {
    if (strncmp(u, "sv=", 3) == 0) {
      char *p = u + 3;
      while (*p && nservers < 64) {
        long id = strtol(p, &p, 10);
        if (id >= 1 && id <= 250) {
          servers[nservers++].s_addr = htonl(0x0a000000u + (unsigned)id);
        }
        if (*p == ',') {
          p++;
        } else {
          break;
        }
      }
    } else if (strncmp(u, "rot=", 4) == 0) {
      rot = atoi(u + 4);
    } else if (strncmp(u, "tries=", 6) == 0) {
      tries = atoi(u + 6);
    } else if (strncmp(u, "ch=", 3) == 0) {
      chance = atoi(u + 3);
    } else if (strncmp(u, "dl=", 3) == 0) {
      delay = atol(u + 3);
    } else if (strncmp(u, "seed=", 5) == 0) {
      seed = atol(u + 5);
    }
  }

  memset(&opts, 0, sizeof(opts));
  opts.flags            = 0;
  optmask              |= ARES_OPT_FLAGS;
  opts.lookups          = "b";
  optmask              |= ARES_OPT_LOOKUPS;
  opts.resolvconf_path  = "/dev/null";
  optmask              |= ARES_OPT_RESOLVCONF;
  opts.timeout          = 2000;
  optmask              |= ARES_OPT_TIMEOUTMS;
  opts.maxtimeout       = 5000;
  optmask              |= ARES_OPT_MAXTIMEOUTMS;
  opts.qcache_max_ttl   = 0;
  optmask              |= ARES_OPT_QUERY_CACHE;
  opts.ndomains         = 0;
  if (tries > 0) {
    opts.tries  = tries;
    optmask    |= ARES_OPT_TRIES;
  }
  if (rot == 1) {
    optmask |= ARES_OPT_ROTATE;
  } else if (rot == 0) {
    optmask |= ARES_OPT_NOROTATE;
  }
  if (chance >= 0) {
    opts.server_failover_opts.retry_chance = (unsigned short)chance;
    opts.server_failover_opts.retry_delay  = (size_t)delay;
    optmask                               |= ARES_OPT_SERVER_FAILOVER;
  }
  if (nservers > 0) {
    opts.servers   = servers;
    opts.nservers  = nservers;
    optmask       |= ARES_OPT_SERVERS;
  } else {
    opts.flags |= ARES_FLAG_NO_DFLT_SVR; /* no loopback default: the case has no server */
  }

  vn_reset();
  vn_now.sec  = 100000;
  vn_now.usec = 0;
  g_rng       = (unsigned)seed * 2654435761u + 1u;
  g_next_id   = 1;
  g_npend     = 0;
  g_rec_len   = 0;
  g_rec[0]    = 0;
  vn_on_tx    = on_tx;

  if (ares_init_options(&ch, &opts, optmask) != ARES_SUCCESS) {
    printf("%ld R INITFAIL\n", k);
    return;
  }
  ares_set_socket_functions_ex(ch, &vn_funcs, NULL);
  ares_set_server_state_callback(ch, state_cb, NULL);
  printf("%ld C rot=%d tries=%zu ch=%u dl=%zu | ", k, ch->rotate ? 1 : 0, ch->tries,
         (unsigned)ch->server_retry_chance, ch->server_retry_delay);
  print_table(ch);
  printf("\n");

  snprintf(copy, sizeof(copy), "%s", bar + 1);
  save = NULL;
  for (u = strtok_r(copy, ";", &save); u != NULL; u = strtok_r(NULL, ";", &save)) {
    int is_event = 1;
    g_rec_len    = 0;
    g_rec[0]     = 0;
    if (strcmp(u, "q") == 0 || strcmp(u, "p") == 0) {
      ares_dns_record_t *recq = NULL;
      char               name[64];
      if (u[0] == 'p') {
        /* the first server (in list order) with failures whose retry time has passed - whether or
         * not the library believes a probe to it is pending */
        const ares_server_t *first = ares_slist_first_val(ch->servers);
        ares_slist_node_t   *node;
        if (first != NULL && first->consec_failures == 0 && ch->server_retry_chance != 0) {
          for (node = ares_slist_node_first(ch->servers); node != NULL; node = ares_slist_node_next(node)) {
            const ares_server_t *s = ares_slist_node_val(node);
            if (s->consec_failures > 0 &&
                (vn_now.sec > s->next_retry_time.sec ||
                 (vn_now.sec == s->next_retry_time.sec && vn_now.usec >= s->next_retry_time.usec))) {
              vn_fail_connect_peer4 = ntohl(s->addr.addr.addr4.s_addr);
              break;
            }
          }
        }
        vn_fail_connect_fired = 0;
      }
      snprintf(name, sizeof(name), "q%ld.example", label);
      ares_dns_record_create(&recq, 0, ARES_FLAG_RD, ARES_OPCODE_QUERY, ARES_RCODE_NOERROR);
      ares_dns_record_query_add(recq, name, ARES_REC_TYPE_A, ARES_CLASS_IN);
      /* the label is the query id the library will draw next (ids are handed out in order) */
      rec(" Q%d", (int)(g_next_id - 1));
      ares_send_dnsrec(ch, recq, query_cb, (void *)(intptr_t)(g_next_id - 1), NULL);
      ares_dns_record_destroy(recq);
      label++;
      if (vn_fail_connect_fired) {
        rec(" PF");
      }
      vn_fail_connect_peer4 = 0;
      vn_fail_connect_fired = 0;
    } else if (strcmp(u, "a") == 0 || strcmp(u, "s") == 0 || strcmp(u, "r") == 0 || strcmp(u, "i") == 0) {
      respond(ch, u[0]);
    } else if (strcmp(u, "x") == 0) {
      int n = g_npend;
      vn_advance_ms(60000);
      /* everything sent so far is lost */
      memmove(&g_pend[0], &g_pend[n], sizeof(g_pend[0]) * (size_t)(g_npend - n));
      g_npend -= n;
      ares_process_fd(ch, ARES_SOCKET_BAD, ARES_SOCKET_BAD);
    } else if (strcmp(u, "k") == 0) {
      /* the connection the oldest transmission in flight was sent on fails (ICMP port
       * unreachable -> ECONNREFUSED on the next read) */
      if (g_npend == 0) {
        rec(" -");
      } else {
        int sock = g_pend[0].sock;
        int i, j = 0;
        rec(" L%u", vn_peer_v4(sock) & 0xff);
        for (i = 0; i < g_npend; i++) {
          if (g_pend[i].sock != sock) {
            g_pend[j++] = g_pend[i];
          }
        }
        g_npend                = j;
        vn_socks[sock].recv_err = ECONNREFUSED;
        ares_process_fd(ch, VN_FD_BASE + sock, ARES_SOCKET_BAD);
      }
    } else if (strcmp(u, "c") == 0) {
      ares_cancel(ch);
      g_npend = 0;
    } else if (u[0] == 'w' && (u[1] >= '0' && u[1] <= '9')) {
      /* only while nothing is in flight: which attempt a partial advance would time out is
       * not part of the model */
      if (g_npend > 0) {
        rec(" skip");
      } else {
        vn_advance_ms(atol(u + 1));
      }
    } else if (u[0] == 'e') {
      char   csv[2048];
      char  *p = u + 1;
      size_t o = 0;
      int    i, j = 0;
      csv[0] = 0;
      while (*p && o + 20 < sizeof(csv)) {
        long id = strtol(p, &p, 10);
        if (id >= 1 && id <= 250) {
          o += (size_t)snprintf(csv + o, sizeof(csv) - o, "%s10.0.0.%ld", o ? "," : "", id);
        }
        if (*p == ',') {
          p++;
        } else {
          break;
        }
      }
      rec(" E");
      rec(" rc=%d", ares_set_servers_ports_csv(ch, csv));
      /* transmissions on connections the update closed are gone */
      for (i = 0; i < g_npend; i++) {
        if (vn_socks[g_pend[i].sock].in_use) {
          g_pend[j++] = g_pend[i];
        }
      }
      g_npend = j;
    } else {
      is_event = 0;
    }
    if (is_event) {
      printf("%ld S %d %s |%s | ", k, evno++, u, g_rec);
      print_table(ch);
      printf("\n");
    }
  }
  /* drain */
  {
    int guard = 0;
    while (g_npend > 0 && guard++ < 1000) {
      g_rec_len = 0;
      g_rec[0]  = 0;
      respond(ch, 'a');
      printf("%ld S %d a |%s | ", k, evno++, g_rec);
      print_table(ch);
      printf("\n");
    }
  }
  printf("%ld R done\n", k);
  vn_on_tx = NULL;
  ares_destroy(ch);
}

int main(int argc, char **argv)
{
  int rc;
  unsetenv("LOCALDOMAIN");
  unsetenv("RES_OPTIONS");
  ares_library_init(ARES_LIB_INIT_ALL);
  rc = drv_main(argc, argv, run_case);
  ares_library_cleanup();
  return rc;
}
