#ifndef DSA_REG_H
#define DSA_REG_H
/* Registry of case kinds of the container engine: each harness/dsa_<kind>.c registers its
 * runner; run(k, ops) prints the result line(s) "<k> R ..." for case k. */
typedef void (*dsa_run_fn)(long k, char *ops);
void dsa_register(const char *kind, dsa_run_fn fn);
#define DSA_REGISTER(kind, fn) \
  static void __attribute__((constructor)) dsa_reg_##fn(void) { dsa_register(kind, fn); }
#endif
