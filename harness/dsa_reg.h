#ifndef DSA_REG_H
#define DSA_REG_H
/* Registry of case kinds of the container engine: each harness/dsa_<kind>.c registers its
 * runner; run(k, ops) prints the result line(s) "<k> R ..." for case k. */
typedef void (*dsa_run_fn)(long k, char *ops);
void dsa_register(const char *kind, dsa_run_fn fn);
#define DSA_REGISTER(kind, fn) \
  static void __attribute__((constructor)) dsa_reg_##fn(void) { dsa_register(kind, fn); }

/* Allocation-failure injection (container-level half of C14): the driver installs its own
 * allocator through ares_library_init_mem().  dsa_alloc_fail_at < 0: never fail;
 * = n >= 0: the n-th allocation request (malloc or realloc, counted from the moment the
 * variable is set) returns NULL, once; dsa_alloc_fail_all != 0: every request fails. */
extern long dsa_alloc_fail_at;
extern int  dsa_alloc_fail_all;
extern long dsa_alloc_requests; /* number of requests since program start */
#endif
