/* chan_drv <casefile> <start_index>
 * Runs the cases (one per line) with index >= start_index through the channel
 * simulator (sim.c) and prints their event logs.  See sim.h. */
#include <stdio.h>
#include <stdlib.h>
#include <string.h>
#include <sys/types.h>

#include "sim.h"

int main(int argc, char **argv)
{
  FILE   *f;
  char   *line = NULL;
  size_t  cap  = 0;
  ssize_t n;
  long    start = 0;
  long    idx   = 0;

  if (argc < 2) {
    fprintf(stderr, "usage: %s <casefile> [start_index]\n", argv[0]);
    return 2;
  }
  if (argc > 2) {
    start = strtol(argv[2], NULL, 10);
  }
  f = fopen(argv[1], "r");
  if (f == NULL) {
    perror(argv[1]);
    return 2;
  }
  sim_global_init();
  while ((n = getline(&line, &cap, f)) >= 0) {
    if (idx >= start) {
      printf("BEGIN %ld\n", idx);
      fflush(stdout);
      sim_run_case(idx, line);
      printf("END %ld\n", idx);
      fflush(stdout);
    }
    idx++;
  }
  free(line);
  fclose(f);
  sim_global_cleanup();
  printf("DONE\n");
  fflush(stdout);
  return 0;
}
