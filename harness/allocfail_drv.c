/* allocfail_drv <casefile> <start_index>          (property C14, engine "allocfail")
 *
 * Runs channel-simulator cases (harness/sim.c, see sim.h for the case language) exactly like
 * chan_drv.c and adds, for the allocation-failure enumeration, two kinds of event lines that
 * sim.c cannot produce because it does not know call sites:
 *
 *   <k> FAILSITE f1<f2<f3...      call stack (library frames, innermost first, allocator
 *                                 entry points removed) of an allocation that returned NULL
 *                                 (printed right after sim.c's own "ALLOCFAIL at=<n>")
 *   <k> LEAK size=<n> site=f1<f2<...   one line per block (max 6 per case) that the library
 *                                 allocated during case k and that is still allocated when
 *                                 the case is over (channel destroyed); stack = allocation
 *                                 stack recorded by ASan
 *   <k> LEAKS blocks=<n>          number of such blocks (only when > 0)
 *
 * How: sim.c installs its counting/failing allocator with ares_library_init_mem(); the
 * binary is linked with --wrap=ares_library_init_mem and the wrapper below interposes a thin
 * pointer tracker between the library and sim.c's allocator.  Nothing else is changed:
 * counting, failure injection and the ALLOCS ledger stay in sim.c.
 *
 * A case line starting with "#" is skipped (BEGIN/END only).
 */
#include <execinfo.h>
#include <stdio.h>
#include <stdlib.h>
#include <string.h>
#include <sys/types.h>

#include "sim.h"

size_t __asan_get_alloc_stack(void *addr, void **trace, size_t size, int *thread_id) __attribute__((weak));
void   __sanitizer_symbolize_pc(void *pc, const char *fmt, char *out_buf, size_t out_buf_size) __attribute__((weak));

int __real_ares_library_init_mem(int flags, void *(*amalloc)(size_t size), void (*afree)(void *ptr),
                                 void *(*arealloc)(void *ptr, size_t size));

static void *(*sim_m)(size_t);
static void (*sim_f)(void *);
static void *(*sim_r)(void *, size_t);

static long cur_case = -1;

/* ---- pointer table (open addressing, tombstones) ---- */
#define TBITS 16
#define TSIZE (1u << TBITS)
#define TOMB  ((void *)1)
typedef struct {
  void  *p;
  long   epoch;
  size_t size;
} ent_t;
static ent_t  tab[TSIZE];
static size_t tab_used; /* live + tombstones */
static long   live_in_case;

static unsigned hp(void *p)
{
  unsigned long v = (unsigned long)p;
  v ^= v >> 17;
  v *= 0x9E3779B97F4A7C15UL;
  return (unsigned)(v >> (64 - TBITS));
}

static void tab_rebuild(void)
{
  static ent_t tmp[TSIZE];
  size_t       i;
  memcpy(tmp, tab, sizeof(tab));
  memset(tab, 0, sizeof(tab));
  tab_used = 0;
  for (i = 0; i < TSIZE; i++) {
    if (tmp[i].p != NULL && tmp[i].p != TOMB) {
      unsigned h = hp(tmp[i].p);
      while (tab[h].p != NULL) {
        h = (h + 1) & (TSIZE - 1);
      }
      tab[h] = tmp[i];
      tab_used++;
    }
  }
}

static void tab_add(void *p, size_t size)
{
  unsigned h;
  if (tab_used > TSIZE / 2) {
    tab_rebuild();
  }
  if (tab_used > TSIZE - 16) {
    return; /* table full: give up tracking this block */
  }
  h = hp(p);
  while (tab[h].p != NULL && tab[h].p != TOMB) {
    h = (h + 1) & (TSIZE - 1);
  }
  if (tab[h].p == NULL) {
    tab_used++;
  }
  tab[h].p     = p;
  tab[h].epoch = cur_case;
  tab[h].size  = size;
  live_in_case++;
}

static void tab_del(void *p)
{
  unsigned h = hp(p);
  while (tab[h].p != NULL) {
    if (tab[h].p == p) {
      tab[h].p = TOMB;
      if (tab[h].epoch == cur_case) {
        live_in_case--;
      }
      return;
    }
    h = (h + 1) & (TSIZE - 1);
  }
}

/* ---- stacks ---- */
static int skip_fn(const char *f)
{
  static const char *skip[] = { "trk_malloc", "trk_realloc", "trk_free", "sim_malloc", "sim_realloc",
                                "ares_malloc", "ares_realloc", "ares_malloc_zero", "ares_realloc_zero",
                                "malloc", "realloc", "calloc", "__interceptor_malloc",
                                "__interceptor_realloc", "print_stack", "report_failsite", NULL };
  int                i;
  for (i = 0; skip[i]; i++) {
    if (strcmp(f, skip[i]) == 0) {
      return 1;
    }
  }
  return 0;
}

/* write the library frames of pcs[0..n) to out as f1<f2<..  (innermost first; allocator entry
 * points removed; stops at the first frame that is not library code once a library frame was
 * seen).  Very long stacks keep the 24 innermost frames and the outermost one (the API
 * function): f1<..<f24<~<fN */
#define MAXFR 48
static void fmt_stack(void **pcs, size_t n, char *out, size_t outlen)
{
  static char names[MAXFR][80];
  size_t      i;
  size_t      used    = 0;
  int         nfr     = 0;
  int         seenlib = 0;
  int         stop    = 0;
  int         j;
  out[0] = 0;
  if (__sanitizer_symbolize_pc == NULL) {
    snprintf(out, outlen, "?");
    return;
  }
  for (i = 0; i < n && nfr < MAXFR && !stop; i++) {
    char  buf[2048];
    char *s;
    void *pc = (i == 0) ? pcs[i] : (void *)((char *)pcs[i] - 1);
    buf[0] = 0;
    buf[1] = 0;
    __sanitizer_symbolize_pc(pc, "%f|%s", buf, sizeof(buf) - 2);
    for (s = buf; *s && nfr < MAXFR; s += strlen(s) + 1) {
      char *bar = strchr(s, '|');
      int   islib;
      if (bar == NULL) {
        continue;
      }
      *bar  = 0;
      islib = strstr(bar + 1, "/src/lib/") != NULL;
      if (!skip_fn(s)) {
        if (!islib) {
          if (seenlib) {
            stop = 1;
            *bar = '|';
            break;
          }
        } else {
          seenlib = 1;
          snprintf(names[nfr], sizeof(names[nfr]), "%s", s);
          nfr++;
        }
      }
      *bar = '|';
    }
  }
  if (nfr == 0) {
    snprintf(out, outlen, "?");
    return;
  }
  for (j = 0; j < nfr; j++) {
    if (nfr > 25 && j >= 24 && j < nfr - 1) {
      if (j == 24) {
        used += (size_t)snprintf(out + used, outlen - used, "<~");
      }
      continue;
    }
    if (used + strlen(names[j]) + 4 < outlen) {
      used += (size_t)snprintf(out + used, outlen - used, "%s%s", j ? "<" : "", names[j]);
    }
  }
}

static void report_failsite(void)
{
  void *pcs[40];
  char  out[2600];
  int   n = backtrace(pcs, 40);
  fmt_stack(pcs, (size_t)(n > 0 ? n : 0), out, sizeof(out));
  printf("%ld FAILSITE %s\n", cur_case, out);
  fflush(stdout);
}

/* ---- tracking allocator ---- */
static void *trk_malloc(size_t size)
{
  void *p = sim_m(size);
  if (p == NULL) {
    if (size > 0) {
      report_failsite();
    }
    return NULL;
  }
  tab_add(p, size);
  return p;
}

static void trk_free(void *ptr)
{
  if (ptr != NULL) {
    tab_del(ptr);
  }
  sim_f(ptr);
}

static void *trk_realloc(void *ptr, size_t size)
{
  void *p = sim_r(ptr, size);
  if (p == NULL) {
    if (size > 0) {
      report_failsite(); /* old block stays allocated */
    } else if (ptr != NULL) {
      tab_del(ptr);
    }
    return NULL;
  }
  if (ptr != NULL) {
    tab_del(ptr);
  }
  tab_add(p, size);
  return p;
}

int __wrap_ares_library_init_mem(int flags, void *(*amalloc)(size_t size), void (*afree)(void *ptr),
                                 void *(*arealloc)(void *ptr, size_t size))
{
  sim_m = amalloc;
  sim_f = afree;
  sim_r = arealloc;
  return __real_ares_library_init_mem(flags, trk_malloc, trk_free, trk_realloc);
}

static void report_leaks(void)
{
  size_t i;
  long   shown = 0;
  long   total = 0;
  if (live_in_case <= 0) {
    return;
  }
  for (i = 0; i < TSIZE; i++) {
    if (tab[i].p != NULL && tab[i].p != TOMB && tab[i].epoch == cur_case) {
      total++;
      if (shown < 6) {
        void *pcs[40];
        char  out[2600];
        int   tid = 0;
        size_t n  = 0;
        if (__asan_get_alloc_stack != NULL) {
          n = __asan_get_alloc_stack(tab[i].p, pcs, 40, &tid);
        }
        fmt_stack(pcs, n, out, sizeof(out));
        printf("%ld LEAK size=%zu site=%s\n", cur_case, tab[i].size, out);
        shown++;
      }
      tab[i].p = TOMB; /* reported once; the block itself stays leaked */
    }
  }
  printf("%ld LEAKS blocks=%ld\n", cur_case, total);
  fflush(stdout);
}

int main(int argc, char **argv)
{
  FILE   *f;
  char   *line = NULL;
  size_t  cap  = 0;
  ssize_t n;
  long    start = 0;
  long    idx   = 0;

  if (argc < 2) {
    fprintf(stderr, "usage: %s <casefile> [start_index]\n", argv[0]);
    return 2;
  }
  if (argc > 2) {
    start = strtol(argv[2], NULL, 10);
  }
  f = fopen(argv[1], "r");
  if (f == NULL) {
    perror(argv[1]);
    return 2;
  }
  sim_global_init();
  while ((n = getline(&line, &cap, f)) >= 0) {
    if (idx >= start) {
      printf("BEGIN %ld\n", idx);
      fflush(stdout);
      if (line[0] != '#') {
        cur_case     = idx;
        live_in_case = 0;
        sim_run_case(idx, line);
        report_leaks();
      }
      printf("END %ld\n", idx);
      fflush(stdout);
    }
    idx++;
  }
  free(line);
  fclose(f);
  sim_global_cleanup();
  printf("DONE\n");
  fflush(stdout);
  return 0;
}
