/* Implementation-side driver of the configuration engine (C15, C16).
 *
 * case:  <kind>,<key>=<val>&<key>=<val>...|<unit>;<unit>;...
 *   string values and units are hex encoded (arbitrary bytes); a unit is one line of a file
 *   prefixed by a one-letter tag:
 *     L  resolv.conf line            J  resolv.conf line marked as junk by the generator
 *     N/n nsswitch.conf line / junk  V/v netsvc.conf line / junk   S/s svc.conf line / junk
 *     R/r line of the resolv.conf present at reinit time / junk
 *     H/h hosts file line / junk     A/a host-aliases line / junk
 *   files are the lines joined by '\n' with a final '\n' unless noeol=1.
 * kinds
 *   rc    system configuration -> channel (init, optional reinit), run twice: with and without
 *         the junk-marked lines                                   -> "k R full|nojunk|refull|renojunk <dump>"
 *   opt   channel from options (+files), setters, then save->init, dup, csv->set, reinit
 *   fn    line-level internals: f=setopt|sortlist|setsort|srv|srvstrict|alias
 *   hosts hosts-file lookups (names=) with and without junk lines
 * Output never contains pointers or clock values.
 *
 * Hermetic environment: fopen of /etc/... is redirected (--wrap=fopen), gethostname and the
 * OS interface-name lookups are replaced by fixed virtual ones (--wrap), LOCALDOMAIN /
 * RES_OPTIONS / HOSTALIASES are set or unset per case.  Allocations are counted through
 * ares_library_init_mem so that a leak is attributed to the case that caused it. */
#include "ares_private.h"
#include "drv_common.h"
#include <errno.h>
#include <unistd.h>
#include <sys/stat.h>
#include <netdb.h>
#include <signal.h>
#include <sys/time.h>

/* ------------------------------------------------------------------ allocator accounting */
static long live_blocks;
static long leaks_seen;
static void *cnt_malloc(size_t n)
{
  void *p = malloc(n);
  if (p) live_blocks++;
  return p;
}
static void cnt_free(void *p)
{
  if (p) live_blocks--;
  free(p);
}
static void *cnt_realloc(void *p, size_t n)
{
  if (p == NULL) return cnt_malloc(n);
  return realloc(p, n);
}

/* ------------------------------------------------------------------ hermetic environment */
static char        tmpdir[3000];
static const char *redir_nsswitch, *redir_netsvc, *redir_svc; /* NULL: file does not exist */
static char        cur_hostname[300] = "localhost";

FILE *__real_fopen(const char *p, const char *m);
FILE *__wrap_fopen(const char *p, const char *m)
{
  if (p != NULL && strncmp(p, "/etc/", 5) == 0) {
    const char *r = NULL;
    if (strcmp(p, "/etc/nsswitch.conf") == 0) r = redir_nsswitch;
    else if (strcmp(p, "/etc/netsvc.conf") == 0) r = redir_netsvc;
    else if (strcmp(p, "/etc/svc.conf") == 0) r = redir_svc;
    if (r == NULL) { errno = ENOENT; return NULL; }
    return __real_fopen(r, m);
  }
  return __real_fopen(p, m);
}

int __wrap_gethostname(char *name, size_t len)
{
  size_t n = strlen(cur_hostname);
  if (len == 0) return -1;
  if (n >= len) n = len - 1;
  memcpy(name, cur_hostname, n);
  name[n] = 0;
  return 0;
}

/* virtual interfaces: the model driver has the same table */
static const char *vif_names[] = { "", "lo", "eth0", "br-lan", "wlan0", "eth0.100", "abcdefghijklmno", "eth0:1", NULL };
static unsigned int vif_nametoindex(const char *n)
{
  unsigned int i;
  if (n == NULL) return 0;
  for (i = 1; vif_names[i] != NULL; i++)
    if (strcmp(vif_names[i], n) == 0) return i;
  return 0;
}
static const char *vif_indextoname(unsigned int i, char *buf, size_t len)
{
  unsigned int k;
  for (k = 1; vif_names[k] != NULL; k++)
    if (k == i) {
      if (len < 16) return NULL;
      ares_strcpy(buf, vif_names[k], len);
      return buf;
    }
  return NULL;
}
unsigned int __wrap_ares_os_if_nametoindex(const char *n) { return vif_nametoindex(n); }
const char  *__wrap_ares_os_if_indextoname(unsigned int i, char *buf, size_t len) { return vif_indextoname(i, buf, len); }
static unsigned int poke_nametoindex(const char *n, void *ud) { (void)ud; return vif_nametoindex(n); }
static const char  *poke_indextoname(unsigned int i, char *b, size_t l, void *ud) { (void)ud; return vif_indextoname(i, b, l); }

static void sscb(void *data, ares_socket_t fd, int r, int w) { (void)data; (void)fd; (void)r; (void)w; }
static int  sscb_data;

/* ------------------------------------------------------------------ case text helpers */
static int hexval(int c)
{
  if (c >= '0' && c <= '9') return c - '0';
  if (c >= 'a' && c <= 'f') return c - 'a' + 10;
  if (c >= 'A' && c <= 'F') return c - 'A' + 10;
  return -1;
}
/* decode hex text [s, s+n) into a fresh malloc'd buffer (NUL terminated, length in *outlen) */
static unsigned char *unhex(const char *s, size_t n, size_t *outlen)
{
  unsigned char *o = malloc(n / 2 + 1);
  size_t         i, k = 0;
  for (i = 0; i + 1 < n; i += 2) {
    int a = hexval(s[i]), b = hexval(s[i + 1]);
    if (a < 0 || b < 0) break;
    o[k++] = (unsigned char)(a * 16 + b);
  }
  o[k] = 0;
  if (outlen) *outlen = k;
  return o;
}
static void puthex(const unsigned char *p, size_t n)
{
  size_t i;
  for (i = 0; i < n; i++) printf("%02x", p[i]);
}
static void puthexstr(const char *s)
{
  if (s == NULL) { printf("-"); return; }
  if (*s == 0) { printf("."); return; }
  puthex((const unsigned char *)s, strlen(s));
}

#define MAXP 64
typedef struct {
  char *key[MAXP];
  char *val[MAXP];
  int   n;
} params_t;

static void parse_params(char *s, params_t *p)
{
  char *save = NULL, *t;
  p->n = 0;
  for (t = strtok_r(s, "&", &save); t && p->n < MAXP; t = strtok_r(NULL, "&", &save)) {
    char *eq = strchr(t, '=');
    p->key[p->n] = t;
    if (eq) { *eq = 0; p->val[p->n] = eq + 1; } else p->val[p->n] = t + strlen(t);
    p->n++;
  }
}
static const char *pget(const params_t *p, const char *k)
{
  int i;
  for (i = 0; i < p->n; i++)
    if (strcmp(p->key[i], k) == 0) return p->val[i];
  return NULL;
}
static char *pget_str(const params_t *p, const char *k) /* hex decoded copy or NULL */
{
  const char *v = pget(p, k);
  if (v == NULL) return NULL;
  return (char *)unhex(v, strlen(v), NULL);
}

/* units */
typedef struct {
  char           tag;
  unsigned char *data;
  size_t         len;
} unit_t;
static unit_t *units;
static size_t  nunits;

static void parse_units(char *body)
{
  char  *save = NULL, *t;
  size_t cap = 16;
  units  = malloc(cap * sizeof(*units));
  nunits = 0;
  for (t = strtok_r(body, ";", &save); t; t = strtok_r(NULL, ";", &save)) {
    if (*t == 0) continue;
    if (nunits == cap) { cap *= 2; units = realloc(units, cap * sizeof(*units)); }
    units[nunits].tag  = t[0];
    units[nunits].data = unhex(t + 1, strlen(t + 1), &units[nunits].len);
    nunits++;
  }
}
static void free_units(void)
{
  size_t i;
  for (i = 0; i < nunits; i++) free(units[i].data);
  free(units);
  units  = NULL;
  nunits = 0;
}

/* write the file made of the units whose tag is `keep` or (with_junk ? `junk` : none).
 * returns 1 when at least one unit of either tag exists (the file "exists") */
static int write_file(const char *path, char keep, char junk, int with_junk, int noeol)
{
  size_t i;
  int    exists = 0, first = 1;
  FILE  *f;
  for (i = 0; i < nunits; i++)
    if (units[i].tag == keep || units[i].tag == junk) exists = 1;
  if (!exists) { unlink(path); return 0; }
  f = __real_fopen(path, "wb");
  if (!f) { perror(path); exit(3); }
  for (i = 0; i < nunits; i++) {
    if (units[i].tag == keep || (with_junk && units[i].tag == junk)) {
      if (!first) fputc('\n', f);
      fwrite(units[i].data, 1, units[i].len, f);
      first = 0;
    }
  }
  if (!first && !noeol) fputc('\n', f);
  fclose(f);
  return 1;
}

/* ------------------------------------------------------------------ options from params */
typedef struct {
  struct ares_options o;
  int                 mask;
  char               *dom[64];
  struct in_addr      srv[64];
  struct apattern     sort[64];
  char               *lookups;
} optbuild_t;

static void parse_addr_hex(const char *h, size_t n, struct ares_addr *a)
{
  size_t         len;
  unsigned char *b = unhex(h, n, &len);
  memset(a, 0, sizeof(*a));
  if (len == 4) { a->family = AF_INET; memcpy(&a->addr.addr4, b, 4); }
  else { a->family = AF_INET6; memcpy(&a->addr.addr6, b, len < 16 ? len : 16); }
  free(b);
}

static void build_options(const params_t *p, optbuild_t *ob, const char *rpath, const char *hpath)
{
  const char *v;
  memset(ob, 0, sizeof(*ob));
  if ((v = pget(p, "flags"))) { ob->o.flags = (int)strtol(v, NULL, 0); ob->mask |= ARES_OPT_FLAGS; }
  if ((v = pget(p, "timeoutms"))) { ob->o.timeout = (int)strtol(v, NULL, 0); ob->mask |= ARES_OPT_TIMEOUTMS; }
  if ((v = pget(p, "timeout"))) { ob->o.timeout = (int)strtol(v, NULL, 0); ob->mask |= ARES_OPT_TIMEOUT; }
  if ((v = pget(p, "tries"))) { ob->o.tries = (int)strtol(v, NULL, 0); ob->mask |= ARES_OPT_TRIES; }
  if ((v = pget(p, "ndots"))) { ob->o.ndots = (int)strtol(v, NULL, 0); ob->mask |= ARES_OPT_NDOTS; }
  if ((v = pget(p, "maxtimeout"))) { ob->o.maxtimeout = (int)strtol(v, NULL, 0); ob->mask |= ARES_OPT_MAXTIMEOUTMS; }
  if (pget(p, "rotate")) ob->mask |= ARES_OPT_ROTATE;
  if (pget(p, "norotate")) ob->mask |= ARES_OPT_NOROTATE;
  if ((v = pget(p, "udp"))) { ob->o.udp_port = (unsigned short)strtol(v, NULL, 0); ob->mask |= ARES_OPT_UDP_PORT; }
  if ((v = pget(p, "tcp"))) { ob->o.tcp_port = (unsigned short)strtol(v, NULL, 0); ob->mask |= ARES_OPT_TCP_PORT; }
  if ((v = pget(p, "sndbuf"))) { ob->o.socket_send_buffer_size = (int)strtol(v, NULL, 0); ob->mask |= ARES_OPT_SOCK_SNDBUF; }
  if ((v = pget(p, "rcvbuf"))) { ob->o.socket_receive_buffer_size = (int)strtol(v, NULL, 0); ob->mask |= ARES_OPT_SOCK_RCVBUF; }
  if ((v = pget(p, "ednspsz"))) { ob->o.ednspsz = (int)strtol(v, NULL, 0); ob->mask |= ARES_OPT_EDNSPSZ; }
  if ((v = pget(p, "udpmaxq"))) { ob->o.udp_max_queries = (int)strtol(v, NULL, 0); ob->mask |= ARES_OPT_UDP_MAX_QUERIES; }
  if ((v = pget(p, "qcache"))) { ob->o.qcache_max_ttl = (unsigned int)strtoul(v, NULL, 0); ob->mask |= ARES_OPT_QUERY_CACHE; }
  if ((v = pget(p, "retry"))) {
    const char *c = strchr(v, ':');
    ob->o.server_failover_opts.retry_chance = (unsigned short)strtol(v, NULL, 0);
    ob->o.server_failover_opts.retry_delay  = c ? (size_t)strtoul(c + 1, NULL, 0) : 0;
    ob->mask |= ARES_OPT_SERVER_FAILOVER;
  }
  if (pget(p, "sscb")) { ob->o.sock_state_cb = sscb; ob->o.sock_state_cb_data = &sscb_data; ob->mask |= ARES_OPT_SOCK_STATE_CB; }
  if ((v = pget(p, "domains"))) { /* comma separated hex strings; empty: ndomains = 0 */
    const char *s = v;
    int         n = 0;
    while (*s && n < 64) {
      const char *e = strchr(s, ',');
      size_t      l = e ? (size_t)(e - s) : strlen(s);
      ob->dom[n++]  = (char *)unhex(s, l, NULL);
      s += l;
      if (*s == ',') s++;
    }
    ob->o.domains  = ob->dom;
    ob->o.ndomains = n;
    ob->mask |= ARES_OPT_DOMAINS;
  }
  if ((v = pget(p, "lookups"))) { /* "-" : NULL pointer */
    if (strcmp(v, "-") != 0) ob->lookups = (char *)unhex(v, strlen(v), NULL);
    ob->o.lookups = ob->lookups;
    ob->mask |= ARES_OPT_LOOKUPS;
  }
  if ((v = pget(p, "sortlist"))) { /* hexaddr/mask,... */
    const char *s = v;
    int         n = 0;
    while (*s && n < 64) {
      const char *e  = strchr(s, ',');
      size_t      l  = e ? (size_t)(e - s) : strlen(s);
      const char *sl = memchr(s, '/', l);
      memset(&ob->sort[n], 0, sizeof(ob->sort[n]));
      parse_addr_hex(s, sl ? (size_t)(sl - s) : l, &ob->sort[n].addr);
      ob->sort[n].mask = sl ? (unsigned char)strtol(sl + 1, NULL, 10) : 0;
      n++;
      s += l;
      if (*s == ',') s++;
    }
    ob->o.sortlist = ob->sort;
    ob->o.nsort    = n;
    ob->mask |= ARES_OPT_SORTLIST;
  }
  if ((v = pget(p, "servers"))) { /* hex8,hex8 (IPv4) */
    const char *s = v;
    int         n = 0;
    while (*s && n < 64) {
      const char      *e = strchr(s, ',');
      size_t           l = e ? (size_t)(e - s) : strlen(s);
      struct ares_addr a;
      parse_addr_hex(s, l, &a);
      memcpy(&ob->srv[n++], &a.addr.addr4, 4);
      s += l;
      if (*s == ',') s++;
    }
    ob->o.servers  = ob->srv;
    ob->o.nservers = n;
    ob->mask |= ARES_OPT_SERVERS;
  }
  if (rpath) { ob->o.resolvconf_path = (char *)rpath; ob->mask |= ARES_OPT_RESOLVCONF; }
  if (hpath) { ob->o.hosts_path = (char *)hpath; ob->mask |= ARES_OPT_HOSTS_FILE; }
}
static void free_optbuild(optbuild_t *ob)
{
  int i;
  for (i = 0; i < 64; i++) free(ob->dom[i]);
  free(ob->lookups);
}

/* ------------------------------------------------------------------ dumps */
static void dump_addr(const struct ares_addr *a)
{
  if (a->family == AF_INET) puthex((const unsigned char *)&a->addr.addr4, 4);
  else if (a->family == AF_INET6) puthex((const unsigned char *)&a->addr.addr6, 16);
  else printf("fam%d", a->family);
}

static void dump_channel(long k, const char *tag, int rc, ares_channel_t *c)
{
  size_t i;
  char  *csv;
  printf("%ld R %s st=%d", k, tag, rc);
  if (c == NULL) { printf("\n"); return; }
  csv = ares_get_servers_csv(c);
  printf(" mask=%x flags=%x timeout=%zu tries=%zu ndots=%zu maxtimeout=%zu rotate=%d udp=%u tcp=%u"
         " sndbuf=%d rcvbuf=%d ednspsz=%zu udpmaxq=%zu qcache=%u retry=%u:%zu sscb=%d aif=%d",
         c->optmask, c->flags, c->timeout, c->tries, c->ndots, c->maxtimeout, (int)c->rotate,
         (unsigned)c->udp_port, (unsigned)c->tcp_port, c->socket_send_buffer_size,
         c->socket_receive_buffer_size, c->ednspsz, c->udp_max_queries, c->qcache_max_ttl,
         (unsigned)c->server_retry_chance, c->server_retry_delay,
         (c->sock_state_cb == sscb && c->sock_state_cb_data == &sscb_data) ? 1 : (c->sock_state_cb ? 2 : 0),
         c->sock_funcs.aif_nametoindex != NULL ? 1 : 0);
  printf(" lookups=");
  puthexstr(c->lookups);
  printf(" domains=");
  if (c->ndomains == 0) printf("-");
  for (i = 0; i < c->ndomains; i++) { if (i) printf(","); puthexstr(c->domains[i]); }
  printf(" sortlist=");
  if (c->nsort == 0) printf("-");
  for (i = 0; i < c->nsort; i++) { if (i) printf(","); dump_addr(&c->sortlist[i].addr); printf("/%u", (unsigned)c->sortlist[i].mask); }
  printf(" servers=%s", csv ? (*csv ? csv : ".") : "(null)");
  printf(" ldev=");
  puthexstr(c->local_dev_name);
  printf(" lip4=%x lip6=", c->local_ip4);
  puthex(c->local_ip6, 16);
  printf("\n");
  if (csv == NULL) {
    /* the text form could not be built: say which interfaces the servers are on */
    ares_slist_node_t *n;
    int                first = 1;
    printf("%ld R %si ifaces=", k, tag);
    for (n = ares_slist_node_first(c->servers); n != NULL; n = ares_slist_node_next(n)) {
      const ares_server_t *sv = ares_slist_node_val(n);
      if (sv->ll_iface[0] == 0) continue;
      printf("%s", first ? "" : ",");
      puthexstr(sv->ll_iface);
      first = 0;
    }
    printf("%s\n", first ? "-" : "");
  }
  ares_free_string(csv);
}

/* the effective interface name and scope id of every server (the text form shows the name only) */
static void dump_scopes(long k, const char *tag, ares_channel_t *c)
{
  ares_slist_node_t *n;
  int                first = 1;
  printf("%ld R %s scopes=", k, tag);
  for (n = ares_slist_node_first(c->servers); n != NULL; n = ares_slist_node_next(n)) {
    const ares_server_t *sv = ares_slist_node_val(n);
    printf("%s", first ? "" : ",");
    puthexstr(sv->ll_iface);
    printf("/%u", sv->ll_scope);
    first = 0;
  }
  printf("%s\n", first ? "-" : "");
}

static void dump_saved(long k, const char *tag, int rc, const struct ares_options *o, int m)
{
  int i;
  printf("%ld R %s st=%d", k, tag, rc);
  if (rc != ARES_SUCCESS) { printf("\n"); return; }
  printf(" mask=%x", (unsigned)m);
  if (m & ARES_OPT_FLAGS) printf(" flags=%x", (unsigned)o->flags);
  if (m & ARES_OPT_TIMEOUTMS) printf(" timeout=%d", o->timeout);
  if (m & ARES_OPT_TRIES) printf(" tries=%d", o->tries);
  if (m & ARES_OPT_NDOTS) printf(" ndots=%d", o->ndots);
  if (m & ARES_OPT_MAXTIMEOUTMS) printf(" maxtimeout=%d", o->maxtimeout);
  if (m & ARES_OPT_UDP_PORT) printf(" udp=%u", (unsigned)o->udp_port);
  if (m & ARES_OPT_TCP_PORT) printf(" tcp=%u", (unsigned)o->tcp_port);
  if (m & ARES_OPT_SOCK_SNDBUF) printf(" sndbuf=%d", o->socket_send_buffer_size);
  if (m & ARES_OPT_SOCK_RCVBUF) printf(" rcvbuf=%d", o->socket_receive_buffer_size);
  if (m & ARES_OPT_EDNSPSZ) printf(" ednspsz=%d", o->ednspsz);
  if (m & ARES_OPT_UDP_MAX_QUERIES) printf(" udpmaxq=%d", o->udp_max_queries);
  if (m & ARES_OPT_QUERY_CACHE) printf(" qcache=%u", o->qcache_max_ttl);
  if (m & ARES_OPT_SERVER_FAILOVER) printf(" retry=%u:%zu", (unsigned)o->server_failover_opts.retry_chance, o->server_failover_opts.retry_delay);
  if (m & ARES_OPT_SOCK_STATE_CB) printf(" sscb=%d", (o->sock_state_cb == sscb && o->sock_state_cb_data == &sscb_data) ? 1 : 2);
  if (m & ARES_OPT_LOOKUPS) { printf(" lookups="); puthexstr(o->lookups); }
  if (m & ARES_OPT_DOMAINS) {
    printf(" domains=");
    if (o->ndomains == 0) printf("-");
    for (i = 0; i < o->ndomains; i++) { if (i) printf(","); puthexstr(o->domains[i]); }
  }
  if (m & ARES_OPT_SORTLIST) {
    printf(" sortlist=");
    if (o->nsort == 0) printf("-");
    for (i = 0; i < o->nsort; i++) { if (i) printf(","); dump_addr(&o->sortlist[i].addr); printf("/%u", (unsigned)o->sortlist[i].mask); }
  }
  if (m & ARES_OPT_SERVERS) {
    printf(" servers=");
    if (o->nservers == 0) printf("-");
    for (i = 0; i < o->nservers; i++) { if (i) printf(","); puthex((const unsigned char *)&o->servers[i], 4); }
  }
  printf("\n");
}

/* ------------------------------------------------------------------ environment per case */
static char path_resolv[3100], path_nss[3100], path_netsvc[3100], path_svc[3100], path_hosts[3100], path_alias[3100];

/* env.L / env.R: LOCALDOMAIN / RES_OPTIONS; jenv.L / jenv.R: values the generator marks as junk,
 * present only in the "full" variant of an rc case */
static void set_env_junk(const params_t *p, int with_junk)
{
  char *v;
  if (with_junk && (v = pget_str(p, "jenv.L"))) { setenv("LOCALDOMAIN", v, 1); free(v); }
  else if (pget(p, "jenv.L")) unsetenv("LOCALDOMAIN");
  if (with_junk && (v = pget_str(p, "jenv.R"))) { setenv("RES_OPTIONS", v, 1); free(v); }
  else if (pget(p, "jenv.R")) unsetenv("RES_OPTIONS");
}

static void set_env(const params_t *p)
{
  char *v;
  if ((v = pget_str(p, "env.L"))) { setenv("LOCALDOMAIN", v, 1); free(v); } else unsetenv("LOCALDOMAIN");
  if ((v = pget_str(p, "env.R"))) { setenv("RES_OPTIONS", v, 1); free(v); } else unsetenv("RES_OPTIONS");
  if ((v = pget_str(p, "host"))) { ares_strcpy(cur_hostname, v, sizeof(cur_hostname)); free(v); } else strcpy(cur_hostname, "localhost");
  unsetenv("HOSTALIASES");
  unsetenv("CARES_HOSTS");
}

static void write_sysfiles(int with_junk, int reinit, int noeol)
{
  if (reinit) write_file(path_resolv, 'R', 'r', with_junk, noeol);
  else write_file(path_resolv, 'L', 'J', with_junk, noeol);
  redir_nsswitch = write_file(path_nss, 'N', 'n', with_junk, noeol) ? path_nss : NULL;
  redir_netsvc   = write_file(path_netsvc, 'V', 'v', with_junk, noeol) ? path_netsvc : NULL;
  redir_svc      = write_file(path_svc, 'S', 's', with_junk, noeol) ? path_svc : NULL;
}

static void wait_reinit(ares_channel_t *c)
{
  int i;
  for (i = 0; i < 200000; i++) {
    ares_bool_t pend;
    ares_channel_lock(c);
    pend = c->reinit_pending;
    ares_channel_unlock(c);
    if (!pend) return;
    usleep(50);
  }
  printf("REINIT-STUCK\n");
}

static int has_tag(char a, char b)
{
  size_t i;
  for (i = 0; i < nunits; i++)
    if (units[i].tag == a || units[i].tag == b) return 1;
  return 0;
}

static void poke_ifs(ares_channel_t *c)
{
  c->sock_funcs.aif_nametoindex = poke_nametoindex;
  c->sock_funcs.aif_indextoname = poke_indextoname;
}

/* ------------------------------------------------------------------ kind rc */
static void run_rc(long k, const params_t *p)
{
  int v;
  int noeol = pget(p, "noeol") != NULL;
  set_env(p);
  for (v = 0; v < 2; v++) {
    int             with_junk = (v == 0);
    optbuild_t      ob;
    ares_channel_t *c = NULL;
    int             rc;
    set_env_junk(p, with_junk);
    write_sysfiles(with_junk, 0, noeol);
    build_options(p, &ob, path_resolv, NULL);
    rc = ares_init_options(&c, &ob.o, ob.mask);
    dump_channel(k, with_junk ? "full" : "nojunk", rc, rc == ARES_SUCCESS ? c : NULL);
    if (rc == ARES_SUCCESS && (has_tag('R', 'r') || pget(p, "reinit"))) {
      if (has_tag('R', 'r')) write_sysfiles(with_junk, 1, noeol);
      rc = (int)ares_reinit(c);
      wait_reinit(c);
      dump_channel(k, with_junk ? "refull" : "renojunk", rc, c);
    }
    if (c) ares_destroy(c);
    free_optbuild(&ob);
  }
}

/* ------------------------------------------------------------------ kind opt */
static void apply_setters(long k, const params_t *p, ares_channel_t *c)
{
  char       *s;
  const char *v;
  if (pget(p, "poke")) poke_ifs(c);
  if ((s = pget_str(p, "csv"))) { printf("%ld R setcsv st=%d\n", k, ares_set_servers_csv(c, s)); free(s); }
  if ((v = pget(p, "ports"))) { /* hexaddr/udp/tcp,... through ares_set_servers_ports */
    struct ares_addr_port_node nodes[32];
    int                        n = 0;
    const char                *q = v;
    memset(nodes, 0, sizeof(nodes));
    while (*q && n < 32) {
      const char      *e = strchr(q, ',');
      size_t           l = e ? (size_t)(e - q) : strlen(q);
      const char      *s1 = memchr(q, '/', l);
      struct ares_addr a;
      parse_addr_hex(q, s1 ? (size_t)(s1 - q) : l, &a);
      nodes[n].family = a.family;
      if (a.family == AF_INET) memcpy(&nodes[n].addr.addr4, &a.addr.addr4, 4);
      else memcpy(&nodes[n].addr.addr6, &a.addr.addr6, 16);
      if (s1) {
        const char *s2 = memchr(s1 + 1, '/', l - (size_t)(s1 + 1 - q));
        nodes[n].udp_port = (int)strtol(s1 + 1, NULL, 10);
        nodes[n].tcp_port = s2 ? (int)strtol(s2 + 1, NULL, 10) : 0;
      }
      if (n > 0) nodes[n - 1].next = &nodes[n];
      n++;
      q += l;
      if (*q == ',') q++;
    }
    printf("%ld R setports st=%d\n", k, ares_set_servers_ports(c, n ? nodes : NULL));
  }
  if ((s = pget_str(p, "sortstr"))) { printf("%ld R setsort st=%d\n", k, ares_set_sortlist(c, s)); free(s); }
  if ((s = pget_str(p, "ldev"))) { ares_set_local_dev(c, s); free(s); }
  if ((v = pget(p, "lip4"))) ares_set_local_ip4(c, (unsigned int)strtoul(v, NULL, 0));
  if ((v = pget(p, "lip6"))) {
    size_t         l;
    unsigned char *b = unhex(v, strlen(v), &l);
    unsigned char  ip[16];
    memset(ip, 0, 16);
    memcpy(ip, b, l < 16 ? l : 16);
    ares_set_local_ip6(c, ip);
    free(b);
  }
}

static void run_opt(long k, const params_t *p)
{
  optbuild_t          ob;
  ares_channel_t     *a = NULL, *b = NULL, *d = NULL;
  struct ares_options so;
  int                 sm = 0, rc;
  int                 noeol = pget(p, "noeol") != NULL;
  char               *csv;

  set_env(p);
  write_sysfiles(1, 0, noeol);
  build_options(p, &ob, path_resolv, NULL);
  rc = ares_init_options(&a, &ob.o, ob.mask);
  if (rc != ARES_SUCCESS) {
    dump_channel(k, "A", rc, NULL);
    free_optbuild(&ob);
    return;
  }
  apply_setters(k, p, a);
  dump_channel(k, "A", rc, a);
  dump_scopes(k, "As", a);

  /* save -> init -> save */
  memset(&so, 0x5a, sizeof(so)); /* ares_save_options must not rely on a zeroed struct */
  rc = ares_save_options(a, &so, &sm);
  dump_saved(k, "S", rc, &so, sm);
  if (rc == ARES_SUCCESS) {
    rc = ares_init_options(&b, &so, sm);
    dump_channel(k, "B", rc, rc == ARES_SUCCESS ? b : NULL);
    if (rc == ARES_SUCCESS) {
      struct ares_options so2;
      int                 sm2 = 0;
      memset(&so2, 0x5a, sizeof(so2));
      rc = ares_save_options(b, &so2, &sm2);
      dump_saved(k, "S2", rc, &so2, sm2);
      ares_destroy_options(&so2);
      ares_destroy(b);
    }
  }
  ares_destroy_options(&so);

  /* dup */
  rc = ares_dup(&d, a);
  dump_channel(k, "C", rc, rc == ARES_SUCCESS ? d : NULL);
  if (rc == ARES_SUCCESS && d != NULL) dump_scopes(k, "Cs", d);
  /* the socket function table (which carries the interface lookups) must be the source's */
  if (rc == ARES_SUCCESS && d != NULL)
    printf("%ld R C2 sf=%d\n", k, memcmp(&d->sock_funcs, &a->sock_funcs, sizeof(d->sock_funcs)) == 0 ? 1 : 0);
  if (d) ares_destroy(d);

  /* csv -> set -> csv on a fresh channel built from the same options, and on the channel itself */
  csv = ares_get_servers_csv(a);
  if (csv != NULL) {
    ares_channel_t *e = NULL;
    rc = ares_init_options(&e, &ob.o, ob.mask);
    if (rc == ARES_SUCCESS) {
      char *csv2;
      if (pget(p, "poke")) poke_ifs(e);
      rc   = ares_set_servers_csv(e, csv);
      csv2 = ares_get_servers_csv(e);
      printf("%ld R D st=%d servers=%s\n", k, rc, csv2 ? (*csv2 ? csv2 : ".") : "(null)");
      ares_free_string(csv2);
      ares_destroy(e);
    } else printf("%ld R D st=%d\n", k, rc);
    {
      char *csv3;
      rc   = ares_set_servers_csv(a, csv);
      csv3 = ares_get_servers_csv(a);
      printf("%ld R E st=%d servers=%s\n", k, rc, csv3 ? (*csv3 ? csv3 : ".") : "(null)");
      ares_free_string(csv3);
    }
    ares_free_string(csv);
  } else printf("%ld R D st=-1 servers=(null)\n", k);

  /* reinit: user settings must survive */
  if (has_tag('R', 'r')) write_sysfiles(1, 1, noeol);
  rc = (int)ares_reinit(a);
  wait_reinit(a);
  dump_channel(k, "F", rc, a);

  ares_destroy(a);
  free_optbuild(&ob);
}

/* ------------------------------------------------------------------ kind fn */
static void run_fn(long k, const params_t *p)
{
  const char *f   = pget(p, "f");
  char       *arg = nunits ? (char *)units[0].data : (char *)"";
  if (f == NULL) { printf("%ld R BADFN\n", k); return; }
  set_env(p);
  if (strcmp(f, "setopt") == 0) {
    ares_sysconfig_t sc;
    ares_status_t    st;
    memset(&sc, 0, sizeof(sc));
    sc.ndots = 1;
    st       = ares_sysconfig_set_options(&sc, arg);
    printf("%ld R setopt st=%d ndots=%zu tries=%zu timeout=%zu rotate=%d usevc=%d\n", k, (int)st, sc.ndots, sc.tries, sc.timeout_ms, (int)sc.rotate, (int)sc.usevc);
  } else if (strcmp(f, "sortlist") == 0) {
    struct apattern *sl = NULL;
    size_t           n  = 0, i;
    ares_status_t    st = ares_parse_sortlist(&sl, &n, arg);
    printf("%ld R sortlist st=%d list=", k, (int)st);
    if (n == 0) printf("-");
    for (i = 0; i < n; i++) { if (i) printf(","); dump_addr(&sl[i].addr); printf("/%u", (unsigned)sl[i].mask); }
    printf("\n");
    ares_free(sl);
  } else if (strcmp(f, "setsort") == 0) {
    /* ares_set_sortlist() on a channel that already has a sortlist */
    ares_channel_t     *c = NULL;
    struct ares_options o;
    int                 rc, st0, st;
    size_t              i;
    memset(&o, 0, sizeof(o));
    write_sysfiles(1, 0, 0);
    o.resolvconf_path = path_resolv;
    rc                = ares_init_options(&c, &o, ARES_OPT_RESOLVCONF);
    if (rc != ARES_SUCCESS) { printf("%ld R setsort init=%d\n", k, rc); return; }
    st0 = ares_set_sortlist(c, "10.0.0.0/8 192.168.0.0/255.255.0.0");
    st  = ares_set_sortlist(c, arg);
    printf("%ld R setsort st0=%d st=%d bit=%d sortlist=", k, st0, st, (c->optmask & ARES_OPT_SORTLIST) ? 1 : 0);
    if (c->nsort == 0) printf("-");
    for (i = 0; i < c->nsort; i++) { if (i) printf(","); dump_addr(&c->sortlist[i].addr); printf("/%u", (unsigned)c->sortlist[i].mask); }
    printf("\n");
    ares_destroy(c);
  } else if (strcmp(f, "srv") == 0 || strcmp(f, "srvstrict") == 0) {
    ares_channel_t     *c = NULL;
    struct ares_options o;
    ares_llist_t       *l = NULL;
    ares_status_t       st;
    char               *csv;
    int                 rc;
    memset(&o, 0, sizeof(o));
    write_sysfiles(1, 0, 0);
    o.resolvconf_path = path_resolv;
    rc                = ares_init_options(&c, &o, ARES_OPT_RESOLVCONF);
    if (rc != ARES_SUCCESS) { printf("%ld R srv init=%d\n", k, rc); return; }
    if (pget(p, "poke")) poke_ifs(c);
    st = ares_sconfig_append_fromstr(c, &l, arg, strcmp(f, "srv") == 0 ? ARES_TRUE : ARES_FALSE);
    if (st == ARES_SUCCESS) {
      ares_channel_lock(c);
      ares_servers_update(c, l, ARES_FALSE);
      ares_channel_unlock(c);
    }
    ares_llist_destroy(l);
    csv = ares_get_servers_csv(c);
    printf("%ld R srv st=%d aif=%d servers=%s\n", k, (int)st, c->sock_funcs.aif_nametoindex != NULL, csv ? (*csv ? csv : ".") : "(null)");
    ares_free_string(csv);
    ares_destroy(c);
  } else if (strcmp(f, "addr") == 0) {
    /* ares_dns_pton / ares_inet_ntop on one text: the hypothesis of C16_csv_fixpoint */
    struct ares_addr a, a2;
    size_t           alen = 0;
    char             txt[INET6_ADDRSTRLEN + 4] = "";
    memset(&a, 0, sizeof(a));
    a.family = AF_UNSPEC;
    if (ares_dns_pton(arg, &a, &alen) == NULL) {
      printf("%ld R addr fail\n", k);
    } else {
      printf("%ld R addr ok a=", k);
      dump_addr(&a);
      ares_inet_ntop(a.family, &a.addr, txt, sizeof(txt));
      printf(" text=");
      puthexstr(txt);
      memset(&a2, 0, sizeof(a2));
      a2.family = AF_UNSPEC;
      if (ares_dns_pton(txt, &a2, &alen) == NULL) printf(" back=fail\n");
      else { printf(" back="); dump_addr(&a2); printf("\n"); }
    }
  } else if (strcmp(f, "alias") == 0) {
    /* host-aliases lookup: units A/a are the file, name= the host looked up */
    int v;
    for (v = 0; v < 2; v++) {
      ares_channel_t     *c = NULL;
      struct ares_options o;
      char               *name  = pget_str(p, "name");
      char               *alias = NULL;
      ares_status_t       st;
      memset(&o, 0, sizeof(o));
      write_sysfiles(1, 0, 0);
      o.resolvconf_path = path_resolv;
      if (ares_init_options(&c, &o, ARES_OPT_RESOLVCONF) != ARES_SUCCESS) { free(name); return; }
      if (write_file(path_alias, 'A', 'a', v == 0, pget(p, "noeol") != NULL)) setenv("HOSTALIASES", path_alias, 1);
      else unsetenv("HOSTALIASES");
      st = ares_lookup_hostaliases(c, name ? name : "", &alias);
      printf("%ld R %s st=%d alias=", k, v == 0 ? "alias-full" : "alias-nojunk", (int)st);
      puthexstr(alias);
      printf("\n");
      ares_free(alias);
      free(name);
      ares_destroy(c);
      unsetenv("HOSTALIASES");
    }
  } else printf("%ld R BADFN\n", k);
}

/* ------------------------------------------------------------------ kind hosts */
/* the entry type is private to ares_hosts_file.c; only its two lists are read here */
struct drv_hosts_entry {
  size_t        refcnt;
  ares_llist_t *ips;
  ares_llist_t *hosts;
};

static void dump_strlist(ares_llist_t *l)
{
  ares_llist_node_t *n;
  int                first = 1;
  if (ares_llist_len(l) == 0) printf("-");
  for (n = ares_llist_node_first(l); n != NULL; n = ares_llist_node_next(n)) {
    if (!first) printf(",");
    puthexstr((const char *)ares_llist_node_val(n));
    first = 0;
  }
}

/* names=<hex>,<hex>,...: every name is looked up in the hosts file made of the H/h units;
 * output "k R hosts-full.<i> st=.. ips=.. hosts=.." and the same for hosts-nojunk */
static void run_hosts(long k, const params_t *p)
{
  int v;
  set_env(p);
  for (v = 0; v < 2; v++) {
    ares_channel_t *c = NULL;
    optbuild_t      ob;
    const char     *names = pget(p, "names");
    const char     *q;
    int             rc, idx = 0;
    write_sysfiles(1, 0, 0);
    if (!write_file(path_hosts, 'H', 'h', v == 0, pget(p, "noeol") != NULL)) {
      FILE *f = __real_fopen(path_hosts, "wb");
      if (f) fclose(f);
    }
    build_options(p, &ob, path_resolv, path_hosts);
    rc = ares_init_options(&c, &ob.o, ob.mask);
    if (rc != ARES_SUCCESS) { printf("%ld R hosts init=%d\n", k, rc); free_optbuild(&ob); return; }
    for (q = names ? names : ""; *q; idx++) {
      const char               *e = strchr(q, ',');
      size_t                    l = e ? (size_t)(e - q) : strlen(q);
      char                     *name  = (char *)unhex(q, l, NULL);
      const ares_hosts_entry_t *entry = NULL;
      ares_status_t             st    = ares_hosts_search_host(c, ARES_FALSE, name, &entry);
      printf("%ld R %s.%d st=%d", k, v == 0 ? "hosts-full" : "hosts-nojunk", idx, (int)st);
      if (st == ARES_SUCCESS && entry != NULL) {
        const struct drv_hosts_entry *de = (const struct drv_hosts_entry *)entry;
        printf(" ips=");
        dump_strlist(de->ips);
        printf(" hosts=");
        dump_strlist(de->hosts);
      }
      printf("\n");
      free(name);
      q += l;
      if (*q == ',') q++;
    }
    ares_destroy(c);
    free_optbuild(&ob);
  }
}

/* ------------------------------------------------------------------ main */
/* ------------------------------------------------------------------ watchdog */
/* Every case runs under a CPU-time limit (the whole process, all threads): initialisation,
 * re-initialisation and the setters must never hang on any configuration text.  When the limit
 * expires the handler reports the case and restarts the driver at the next case - a new process
 * image, because the spinning code may hold locks or run in a library thread.  Only
 * async-signal-safe calls after snprintf. */
#define HANG_SECS 4
static char       **g_argv;
static int          g_argc;
static volatile long hang_case = -1;
static void on_hang(int sig)
{
  char             b[160], next[32];
  char            *args[4];
  int              n;
  struct itimerval off;
  (void)sig;
  if (hang_case < 0) return;
  memset(&off, 0, sizeof(off));
  setitimer(ITIMER_PROF, &off, NULL);
  n = snprintf(b, sizeof(b), "\n%ld R HANG cpu=%ds\nEND %ld\n", hang_case, HANG_SECS, hang_case);
  if (write(1, b, (size_t)n) < 0) _exit(78);
  if (g_argc > 3) { /* one case per process: nothing left to run */
    if (write(1, "DONE\n", 5) < 0) _exit(78);
    _exit(0);
  }
  snprintf(next, sizeof(next), "%ld", hang_case + 1);
  args[0] = g_argv[0]; args[1] = g_argv[1]; args[2] = next; args[3] = NULL;
  execv(g_argv[0], args);
  _exit(77);
}

static void watchdog(long k)
{
  struct itimerval it;
  memset(&it, 0, sizeof(it));
  hang_case = k;
  if (k >= 0) it.it_value.tv_sec = HANG_SECS;
  setitimer(ITIMER_PROF, &it, NULL);
}

static void run_case_inner(long k, char *line);
static void run_case(long k, char *line)
{
  watchdog(k);
  run_case_inner(k, line);
  watchdog(-1);
}

static void run_case_inner(long k, char *line)
{
  char    *bar  = strchr(line, '|');
  char    *comma;
  params_t p;
  long     before = live_blocks;
  if (!bar) { printf("%ld R BADCASE\n", k); return; }
  *bar  = 0;
  comma = strchr(line, ',');
  if (comma) { *comma = 0; parse_params(comma + 1, &p); } else p.n = 0;
  parse_units(bar + 1);
  if (strcmp(line, "rc") == 0) run_rc(k, &p);
  else if (strcmp(line, "opt") == 0) run_opt(k, &p);
  else if (strcmp(line, "fn") == 0) run_fn(k, &p);
  else if (strcmp(line, "hosts") == 0) run_hosts(k, &p);
  else printf("%ld R BADKIND\n", k);
  free_units();
  if (live_blocks != before) {
    printf("%ld LEAK blocks=%ld\n", k, live_blocks - before);
    live_blocks = before; /* attribute once */
    leaks_seen++;
  }
}

int main(int argc, char **argv)
{
  int   rc;
  char *slash;
  if (argc < 2) return 2;
  ares_strcpy(tmpdir, argv[1], sizeof(tmpdir) - 64);
  slash = strrchr(tmpdir, '/');
  if (slash) *slash = 0; else strcpy(tmpdir, ".");
  snprintf(tmpdir + strlen(tmpdir), 60, "/cfgtmp-%ld", (long)getpid());
  mkdir(tmpdir, 0700);
  snprintf(path_resolv, sizeof(path_resolv), "%s/resolv.conf", tmpdir);
  snprintf(path_nss, sizeof(path_nss), "%s/nsswitch.conf", tmpdir);
  snprintf(path_netsvc, sizeof(path_netsvc), "%s/netsvc.conf", tmpdir);
  snprintf(path_svc, sizeof(path_svc), "%s/svc.conf", tmpdir);
  snprintf(path_hosts, sizeof(path_hosts), "%s/hosts", tmpdir);
  snprintf(path_alias, sizeof(path_alias), "%s/hostaliases", tmpdir);
  ares_library_init_mem(ARES_LIB_INIT_ALL, cnt_malloc, cnt_free, cnt_realloc);
  {
    struct sigaction sa;
    sigset_t         ss;
    g_argv = argv;
    g_argc = argc;
    memset(&sa, 0, sizeof(sa));
    sa.sa_handler = on_hang;
    sigaction(SIGPROF, &sa, NULL);
    sigemptyset(&ss);                /* the mask survives execv: the handler restarted us */
    sigaddset(&ss, SIGPROF);
    sigprocmask(SIG_UNBLOCK, &ss, NULL);
  }
  rc = drv_main(argc, argv, run_case);
  ares_library_cleanup();
  unlink(path_resolv); unlink(path_nss); unlink(path_netsvc); unlink(path_svc); unlink(path_hosts); unlink(path_alias);
  rmdir(tmpdir);
  if (leaks_seen) { /* already attributed to their cases: skip the exit-time LeakSanitizer pass */
    fflush(stdout);
    _exit(rc);
  }
  return rc;
}
