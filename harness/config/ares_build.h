#ifndef __CARES_BUILD_H
#define __CARES_BUILD_H
/*
 * Copyright (C) The c-ares project and its contributors
 * SPDX-License-Identifier: MIT
 */

#define CARES_TYPEOF_ARES_SOCKLEN_T socklen_t
#define CARES_TYPEOF_ARES_SSIZE_T ssize_t

/* Prefix names with CARES_ to make sure they don't conflict with other config.h
 * files.  We need to include some dependent headers that may be system specific
 * for C-Ares */
#define CARES_HAVE_SYS_TYPES_H
#define CARES_HAVE_SYS_SOCKET_H
#define CARES_HAVE_SYS_SELECT_H
/* #undef CARES_HAVE_WINDOWS_H */
/* #undef CARES_HAVE_WS2TCPIP_H */
/* #undef CARES_HAVE_WINSOCK2_H */
#define CARES_HAVE_ARPA_NAMESER_H
#define CARES_HAVE_ARPA_NAMESER_COMPAT_H

#ifdef CARES_HAVE_SYS_TYPES_H
#  include <sys/types.h>
#endif

#ifdef CARES_HAVE_SYS_SOCKET_H
#  include <sys/socket.h>
#endif

#ifdef CARES_HAVE_SYS_SELECT_H
#  include <sys/select.h>
#endif

#ifdef CARES_HAVE_WINSOCK2_H
#  include <winsock2.h>
#endif

#ifdef CARES_HAVE_WS2TCPIP_H
#  include <ws2tcpip.h>
#endif

#ifdef CARES_HAVE_WINDOWS_H
#  include <windows.h>
#endif

#endif /* __CARES_BUILD_H */
