/* Copyright (C) The c-ares project and its contributors
 * SPDX-License-Identifier: MIT
 */

/* Generated from ares_config.h.cmake */

/* Define if building universal (internal helper macro) */
#undef AC_APPLE_UNIVERSAL_BUILD

/* Defined for build with symbol hiding. */
/* #undef CARES_SYMBOL_HIDING */

/* Use resolver library to configure cares */
/* #undef CARES_USE_LIBRESOLV */

/* if a /etc/inet dir is being used */
#undef ETC_INET

/* Define to the type of arg 2 for gethostname. */
#define GETHOSTNAME_TYPE_ARG2 size_t

/* Define to the type qualifier of arg 1 for getnameinfo. */
#define GETNAMEINFO_QUAL_ARG1 

/* Define to the type of arg 1 for getnameinfo. */
#define GETNAMEINFO_TYPE_ARG1 struct sockaddr *

/* Define to the type of arg 2 for getnameinfo. */
#define GETNAMEINFO_TYPE_ARG2 socklen_t

/* Define to the type of args 4 and 6 for getnameinfo. */
#define GETNAMEINFO_TYPE_ARG46 socklen_t

/* Define to the type of arg 7 for getnameinfo. */
#define GETNAMEINFO_TYPE_ARG7 int

/* Specifies the number of arguments to getservbyport_r */
#define GETSERVBYPORT_R_ARGS 6

/* Specifies the number of arguments to getservbyname_r */
#define GETSERVBYNAME_R_ARGS 6

/* Define to 1 if you have AF_INET6. */
#define HAVE_AF_INET6 1

/* Define to 1 if you have the <arpa/inet.h> header file. */
#define HAVE_ARPA_INET_H 1

/* Define to 1 if you have the <arpa/nameser_compat.h> header file. */
#define HAVE_ARPA_NAMESER_COMPAT_H 1

/* Define to 1 if you have the <arpa/nameser.h> header file. */
#define HAVE_ARPA_NAMESER_H 1

/* Define to 1 if you have the <assert.h> header file. */
#define HAVE_ASSERT_H 1

/* Define to 1 if you have the clock_gettime function and monotonic timer. */
#define HAVE_CLOCK_GETTIME_MONOTONIC 1

/* Define to 1 if you have the closesocket function. */
/* #undef HAVE_CLOSESOCKET */

/* Define to 1 if you have the CloseSocket camel case function. */
/* #undef HAVE_CLOSESOCKET_CAMEL */

/* Define to 1 if you have the connect function. */
#define HAVE_CONNECT 1

/* Define to 1 if you have the connectx function. */
/* #undef HAVE_CONNECTX */

/* define if the compiler supports basic C++11 syntax */
/* #undef HAVE_CXX11 */

/* Define to 1 if you have the <dlfcn.h> header file. */
#define HAVE_DLFCN_H 1

/* Define to 1 if you have the <errno.h> header file. */
#define HAVE_ERRNO_H 1

/* Define to 1 if you have the <poll.h> header file. */
#define HAVE_POLL_H 1

/* Define to 1 if you have the memmem function. */
#define HAVE_MEMMEM 1

/* Define to 1 if you have the poll function. */
#define HAVE_POLL 1

/* Define to 1 if you have the pipe function. */
#define HAVE_PIPE 1

/* Define to 1 if you have the pipe2 function. */
#define HAVE_PIPE2 1

/* Define to 1 if you have the kqueue function. */
/* #undef HAVE_KQUEUE */

/* Define to 1 if you have the epoll{_create,ctl,wait} functions. */
#define HAVE_EPOLL 1

/* Define to 1 if you have the fcntl function. */
#define HAVE_FCNTL 1

/* Define to 1 if you have the <fcntl.h> header file. */
#define HAVE_FCNTL_H 1

/* Define to 1 if you have a working fcntl O_NONBLOCK function. */
#define HAVE_FCNTL_O_NONBLOCK 1

/* Define to 1 if you have the freeaddrinfo function. */
#define HAVE_FREEADDRINFO 1

/* Define to 1 if you have a working getaddrinfo function. */
#define HAVE_GETADDRINFO 1

/* Define to 1 if the getaddrinfo function is threadsafe. */
/* #undef HAVE_GETADDRINFO_THREADSAFE */

/* Define to 1 if you have the getenv function. */
#define HAVE_GETENV 1

/* Define to 1 if you have the gethostname function. */
#define HAVE_GETHOSTNAME 1

/* Define to 1 if you have the getnameinfo function. */
#define HAVE_GETNAMEINFO 1

/* Define to 1 if you have the getrandom function. */
#define HAVE_GETRANDOM 1

/* Define to 1 if you have the getservbyport_r function. */
#define HAVE_GETSERVBYPORT_R 1

/* Define to 1 if you have the getservbyname_r function. */
#define HAVE_GETSERVBYNAME_R 1

/* Define to 1 if you have the `gettimeofday' function. */
#define HAVE_GETTIMEOFDAY 1

/* Define to 1 if you have the `if_indextoname' function. */
#define HAVE_IF_INDEXTONAME 1

/* Define to 1 if you have the `if_nametoindex' function. */
#define HAVE_IF_NAMETOINDEX 1

/* Define to 1 if you have the `GetBestRoute2' function. */
/* #undef HAVE_GETBESTROUTE2 */

/* Define to 1 if you have the `WSAIoctl' function. */
/* #undef HAVE_WSAIOCTL */

/* Define to 1 if you have the `OVERLAPPED_ENTRY' data type. */
/* #undef HAVE_OVERLAPPED_ENTRY */

/* Define to 1 if you have the `GetQueuedCompletionStatusEx' function. */
/* #undef HAVE_GETQUEUEDCOMPLETIONSTATUSEX */

/* Define to 1 if you have the `ConvertInterfaceIndexToLuid' function. */
/* #undef HAVE_CONVERTINTERFACEINDEXTOLUID */

/* Define to 1 if you have the `ConvertInterfaceLuidToNameA' function. */
/* #undef HAVE_CONVERTINTERFACELUIDTONAMEA */

/* Define to 1 if you have the `NotifyIpInterfaceChange' function. */
/* #undef HAVE_NOTIFYIPINTERFACECHANGE */

/* Define to 1 if you have the `RegisterWaitForSingleObject' function. */
/* #undef HAVE_REGISTERWAITFORSINGLEOBJECT */

/* Define to 1 if you have the `SetFileCompletionNotificationModes' function. */
/* #undef HAVE_SETFILECOMPLETIONNOTIFICATIONMODES */

/* Define to 1 if you have a IPv6 capable working inet_net_pton function. */
/* #undef HAVE_INET_NET_PTON */

/* Define to 1 if you have a IPv6 capable working inet_ntop function. */
#define HAVE_INET_NTOP 1

/* Define to 1 if you have a IPv6 capable working inet_pton function. */
#define HAVE_INET_PTON 1

/* Define to 1 if you have the <inttypes.h> header file. */
#define HAVE_INTTYPES_H 1

/* Define to 1 if you have the ioctl function. */
#define HAVE_IOCTL 1

/* Define to 1 if you have the ioctlsocket function. */
/* #undef HAVE_IOCTLSOCKET */

/* Define to 1 if you have the IoctlSocket camel case function. */
/* #undef HAVE_IOCTLSOCKET_CAMEL */

/* Define to 1 if you have a working IoctlSocket camel case FIONBIO function.
   */
/* #undef HAVE_IOCTLSOCKET_CAMEL_FIONBIO */

/* Define to 1 if you have a working ioctlsocket FIONBIO function. */
/* #undef HAVE_IOCTLSOCKET_FIONBIO */

/* Define to 1 if you have a working ioctl FIONBIO function. */
#define HAVE_IOCTL_FIONBIO 1

/* Define to 1 if you have a working ioctl SIOCGIFADDR function. */
#define HAVE_IOCTL_SIOCGIFADDR 1

/* Define to 1 if you have the `resolve' library (-lresolve). */
/* #undef HAVE_LIBRESOLV */

/* Define to 1 if you have iphlpapi.h */
/* #undef HAVE_IPHLPAPI_H */

/* Define to 1 if you have netioapi.h */
/* #undef HAVE_NETIOAPI_H */

/* Define to 1 if you have the <limits.h> header file. */
#define HAVE_LIMITS_H 1

/* Define to 1 if the compiler supports the 'long long' data type. */
#define HAVE_LONGLONG 1

/* Define to 1 if you have the malloc.h header file. */
#define HAVE_MALLOC_H 1

/* Define to 1 if you have the memory.h header file. */
#define HAVE_MEMORY_H 1

/* Define to 1 if you have the AvailabilityMacros.h header file. */
/* #undef HAVE_AVAILABILITYMACROS_H */

/* Define to 1 if you have the MSG_NOSIGNAL flag. */
#define HAVE_MSG_NOSIGNAL 1

/* Define to 1 if you have the <netdb.h> header file. */
#define HAVE_NETDB_H 1

/* Define to 1 if you have the <netinet/in.h> header file. */
#define HAVE_NETINET_IN_H 1

/* Define to 1 if you have the <netinet6/in6.h> header file. */
/* #undef HAVE_NETINET6_IN6_H */

/* Define to 1 if you have the <netinet/tcp.h> header file. */
#define HAVE_NETINET_TCP_H 1

/* Define to 1 if you have the <net/if.h> header file. */
#define HAVE_NET_IF_H 1

/* Define to 1 if you have PF_INET6. */
#define HAVE_PF_INET6 1

/* Define to 1 if you have the recv function. */
#define HAVE_RECV 1

/* Define to 1 if you have the recvfrom function. */
#define HAVE_RECVFROM 1

/* Define to 1 if you have the send function. */
#define HAVE_SEND 1

/* Define to 1 if you have the sendto function. */
#define HAVE_SENDTO 1

/* Define to 1 if you have the setsockopt function. */
#define HAVE_SETSOCKOPT 1

/* Define to 1 if you have a working setsockopt SO_NONBLOCK function. */
/* #undef HAVE_SETSOCKOPT_SO_NONBLOCK */

/* Define to 1 if you have the <signal.h> header file. */
#define HAVE_SIGNAL_H 1

/* Define to 1 if you have the strnlen function. */
#define HAVE_STRNLEN 1

/* Define to 1 if your struct sockaddr_in6 has sin6_scope_id. */
#define HAVE_STRUCT_SOCKADDR_IN6_SIN6_SCOPE_ID 1

/* Define to 1 if you have the socket function. */
#define HAVE_SOCKET 1

/* Define to 1 if you have the <socket.h> header file. */
/* #undef HAVE_SOCKET_H */

/* Define to 1 if you have the <stdbool.h> header file. */
#define HAVE_STDBOOL_H 1

/* Define to 1 if you have the <stdint.h> header file. */
#define HAVE_STDINT_H 1

/* Define to 1 if you have the <stdlib.h> header file. */
#define HAVE_STDLIB_H 1

/* Define to 1 if you have the strcasecmp function. */
#define HAVE_STRCASECMP 1

/* Define to 1 if you have the strcmpi function. */
/* #undef HAVE_STRCMPI */

/* Define to 1 if you have the strdup function. */
#define HAVE_STRDUP 1

/* Define to 1 if you have the stricmp function. */
/* #undef HAVE_STRICMP */

/* Define to 1 if you have the <strings.h> header file. */
#define HAVE_STRINGS_H 1

/* Define to 1 if you have the <string.h> header file. */
#define HAVE_STRING_H 1

/* Define to 1 if you have the strncasecmp function. */
#define HAVE_STRNCASECMP 1

/* Define to 1 if you have the strncmpi function. */
/* #undef HAVE_STRNCMPI */

/* Define to 1 if you have the strnicmp function. */
/* #undef HAVE_STRNICMP */

/* Define to 1 if you have the <stropts.h> header file. */
/* #undef HAVE_STROPTS_H */

/* Define to 1 if you have struct addrinfo. */
#define HAVE_STRUCT_ADDRINFO 1

/* Define to 1 if you have struct in6_addr. */
#define HAVE_STRUCT_IN6_ADDR 1

/* Define to 1 if you have struct sockaddr_in6. */
#define HAVE_STRUCT_SOCKADDR_IN6 1

/* if struct sockaddr_storage is defined */
#define HAVE_STRUCT_SOCKADDR_STORAGE 1

/* Define to 1 if you have the timeval struct. */
#define HAVE_STRUCT_TIMEVAL 1

/* Define to 1 if you have the <sys/ioctl.h> header file. */
#define HAVE_SYS_IOCTL_H 1

/* Define to 1 if you have the <sys/param.h> header file. */
#define HAVE_SYS_PARAM_H 1

/* Define to 1 if you have the <sys/random.h> header file. */
#define HAVE_SYS_RANDOM_H 1

/* Define to 1 if you have the <sys/event.h> header file. */
/* #undef HAVE_SYS_EVENT_H */

/* Define to 1 if you have the <sys/epoll.h> header file. */
#define HAVE_SYS_EPOLL_H 1

/* Define to 1 if you have the <sys/select.h> header file. */
#define HAVE_SYS_SELECT_H 1

/* Define to 1 if you have the <sys/socket.h> header file. */
#define HAVE_SYS_SOCKET_H 1

/* Define to 1 if you have the <sys/stat.h> header file. */
#define HAVE_SYS_STAT_H 1

/* Define to 1 if you have the <sys/time.h> header file. */
#define HAVE_SYS_TIME_H 1

/* Define to 1 if you have the <sys/types.h> header file. */
#define HAVE_SYS_TYPES_H 1

/* Define to 1 if you have the <sys/uio.h> header file. */
#define HAVE_SYS_UIO_H 1

/* Define to 1 if you have the <time.h> header file. */
#define HAVE_TIME_H 1

/* Define to 1 if you have the <ifaddrs.h> header file. */
#define HAVE_IFADDRS_H 1

/* Define to 1 if you have the <unistd.h> header file. */
#define HAVE_UNISTD_H 1

/* Define to 1 if you have the windows.h header file. */
/* #undef HAVE_WINDOWS_H */

/* Define to 1 if you have the winsock2.h header file. */
/* #undef HAVE_WINSOCK2_H */

/* Define to 1 if you have the winsock.h header file. */
/* #undef HAVE_WINSOCK_H */

/* Define to 1 if you have the mswsock.h header file. */
/* #undef HAVE_MSWSOCK_H */

/* Define to 1 if you have the winternl.h header file. */
/* #undef HAVE_WINTERNL_H */

/* Define to 1 if you have the ntstatus.h header file. */
/* #undef HAVE_NTSTATUS_H */

/* Define to 1 if you have the ntdef.h header file. */
/* #undef HAVE_NTDEF_H */

/* Define to 1 if you have the writev function. */
#define HAVE_WRITEV 1

/* Define to 1 if you have the ws2tcpip.h header file. */
/* #undef HAVE_WS2TCPIP_H */

/* Define to 1 if you have the __system_property_get function */
/* #undef HAVE___SYSTEM_PROPERTY_GET */

/* Define if have arc4random_buf() */
#define HAVE_ARC4RANDOM_BUF 1

/* Define if have getifaddrs() */
#define HAVE_GETIFADDRS 1

/* Define if have stat() */
#define HAVE_STAT 1

/* a suitable file/device to read random data from */
#define CARES_RANDOM_FILE "/dev/urandom"

/* Define to the type qualifier pointed by arg 5 for recvfrom. */
#define RECVFROM_QUAL_ARG5 

/* Define to the type of arg 1 for recvfrom. */
#define RECVFROM_TYPE_ARG1 int

/* Define to the type pointed by arg 2 for recvfrom. */
#define RECVFROM_TYPE_ARG2 void *

/* Define to 1 if the type pointed by arg 2 for recvfrom is void. */
#define RECVFROM_TYPE_ARG2_IS_VOID 0

/* Define to the type of arg 3 for recvfrom. */
#define RECVFROM_TYPE_ARG3 size_t

/* Define to the type of arg 4 for recvfrom. */
#define RECVFROM_TYPE_ARG4 int

/* Define to the type pointed by arg 5 for recvfrom. */
#define RECVFROM_TYPE_ARG5 struct sockaddr *

/* Define to 1 if the type pointed by arg 5 for recvfrom is void. */
#define RECVFROM_TYPE_ARG5_IS_VOID 0

/* Define to the type pointed by arg 6 for recvfrom. */
#define RECVFROM_TYPE_ARG6 socklen_t *

/* Define to 1 if the type pointed by arg 6 for recvfrom is void. */
#define RECVFROM_TYPE_ARG6_IS_VOID 0

/* Define to the function return type for recvfrom. */
#define RECVFROM_TYPE_RETV ssize_t

/* Define to the type of arg 1 for recv. */
#define RECV_TYPE_ARG1 int

/* Define to the type of arg 2 for recv. */
#define RECV_TYPE_ARG2 void *

/* Define to the type of arg 3 for recv. */
#define RECV_TYPE_ARG3 size_t

/* Define to the type of arg 4 for recv. */
#define RECV_TYPE_ARG4 int

/* Define to the function return type for recv. */
#define RECV_TYPE_RETV ssize_t

/* Define to the type of arg 1 for send. */
#define SEND_TYPE_ARG1 int

/* Define to the type of arg 2 for send. */
#define SEND_TYPE_ARG2 const void *

/* Define to the type of arg 3 for send. */
#define SEND_TYPE_ARG3 size_t

/* Define to the type of arg 4 for send. */
#define SEND_TYPE_ARG4 int

/* Define to the function return type for send. */
#define SEND_TYPE_RETV ssize_t

/* Define to disable non-blocking sockets. */
#undef USE_BLOCKING_SOCKETS

/* Define to avoid automatic inclusion of winsock.h */
#undef WIN32_LEAN_AND_MEAN

/* Define to 1 if you have the pthread.h header file. */
#define HAVE_PTHREAD_H 1

/* Define to 1 if you have the pthread_np.h header file. */
/* #undef HAVE_PTHREAD_NP_H */

/* Define to 1 if threads are enabled */
#define CARES_THREADS 1

/* Define to 1 if pthread_init() exists */
/* #undef HAVE_PTHREAD_INIT */

