/* Virtual clock + virtual UDP sockets for the component-level drivers of C12 and C09
 * (search_drv.c, servers_drv.c).  No real socket is ever opened: the library talks to these
 * functions through the public ares_set_socket_functions_ex(); the clock is replaced at link
 * time (-Wl,--wrap=ares_tvnow). */
#ifndef SS_VNET_H
#define SS_VNET_H
#include "ares_private.h"
#include <errno.h>
#include <arpa/inet.h>
#include <netinet/in.h>

/* ---- clock ---- */
static ares_timeval_t vn_now = { 100000, 0 };

void __wrap_ares_tvnow(ares_timeval_t *now)
{
  *now = vn_now;
}

static void vn_advance_ms(long ms)
{
  vn_now.sec  += ms / 1000;
  vn_now.usec += (unsigned int)((ms % 1000) * 1000);
  if (vn_now.usec >= 1000000) {
    vn_now.sec  += 1;
    vn_now.usec -= 1000000;
  }
}

/* ---- sockets ---- */
#define VN_MAXSOCK 2048
#define VN_MAXDGRAM 1024
#define VN_INBOX 4
#define VN_FD_BASE 1000

typedef struct {
  int                     in_use;
  int                     type;
  struct sockaddr_storage peer;
  socklen_t               peer_len;
  unsigned char           inbox[VN_INBOX][VN_MAXDGRAM];
  size_t                  inbox_len[VN_INBOX];
  int                     inbox_cnt;
  int                     recv_err; /* errno the next arecvfrom fails with (once), 0 = none */
} vn_sock_t;

typedef struct {
  int           sock; /* index */
  unsigned char data[VN_MAXDGRAM];
  size_t        len;
} vn_tx_t;

static vn_sock_t vn_socks[VN_MAXSOCK];
static int       vn_next_sock = 0;
static vn_tx_t   vn_tx[256];
static int       vn_tx_cnt   = 0;
static int       vn_tx_taken = 0;
/* scripted failures */
static int       vn_fail_next_send    = 0; /* errno to fail the next asendto with, 0 = none */
static int       vn_fail_next_connect = 0;
/* aconnect to this IPv4 address (host order, 0 = none) fails with ENETUNREACH; vn_fail_connect_fired counts */
static unsigned int vn_fail_connect_peer4 = 0;
static int          vn_fail_connect_fired = 0;
static long      vn_opened = 0, vn_closed = 0;
/* optional observer of every transmission, called at the moment of the send */
static void (*vn_on_tx)(int sock, const unsigned char *data, size_t len) = NULL;

static void vn_reset(void)
{
  memset(vn_socks, 0, sizeof(vn_socks[0]) * (size_t)(vn_next_sock < VN_MAXSOCK ? vn_next_sock + 1 : VN_MAXSOCK));
  vn_next_sock         = 0;
  vn_tx_cnt            = 0;
  vn_tx_taken          = 0;
  vn_fail_next_send    = 0;
  vn_fail_next_connect = 0;
  vn_fail_connect_peer4 = 0;
  vn_fail_connect_fired = 0;
  vn_opened = vn_closed = 0;
}

/* descriptors are never reused within a case, so a late datagram can never reach a newer socket */
static ares_socket_t vn_asocket(int domain, int type, int protocol, void *ud)
{
  int i = vn_next_sock;
  (void)domain;
  (void)protocol;
  (void)ud;
  if (i < VN_MAXSOCK) {
    vn_next_sock++;
    memset(&vn_socks[i], 0, sizeof(vn_socks[i]));
    vn_socks[i].in_use = 1;
    vn_socks[i].type   = type;
    vn_opened++;
    return VN_FD_BASE + i;
  }
  errno = EMFILE;
  return ARES_SOCKET_BAD;
}

static int vn_aclose(ares_socket_t s, void *ud)
{
  int i = (int)s - VN_FD_BASE;
  (void)ud;
  if (i < 0 || i >= VN_MAXSOCK || !vn_socks[i].in_use) {
    errno = EBADF;
    return -1;
  }
  vn_socks[i].in_use = 0;
  vn_closed++;
  return 0;
}

static int vn_asetsockopt(ares_socket_t s, ares_socket_opt_t opt, const void *val,
                          ares_socklen_t len, void *ud)
{
  (void)s;
  (void)opt;
  (void)val;
  (void)len;
  (void)ud;
  errno = ENOSYS;
  return -1;
}

static int vn_aconnect(ares_socket_t s, const struct sockaddr *addr, ares_socklen_t len,
                       unsigned int flags, void *ud)
{
  int i = (int)s - VN_FD_BASE;
  (void)flags;
  (void)ud;
  if (i < 0 || i >= VN_MAXSOCK || !vn_socks[i].in_use) {
    errno = EBADF;
    return -1;
  }
  if (vn_fail_next_connect) {
    errno                = vn_fail_next_connect;
    vn_fail_next_connect = 0;
    return -1;
  }
  if (vn_fail_connect_peer4 != 0 && addr->sa_family == AF_INET &&
      ntohl(((const struct sockaddr_in *)addr)->sin_addr.s_addr) == vn_fail_connect_peer4) {
    vn_fail_connect_fired++;
    errno = ENETUNREACH;
    return -1;
  }
  memcpy(&vn_socks[i].peer, addr, len);
  vn_socks[i].peer_len = len;
  return 0;
}

static ares_ssize_t vn_arecvfrom(ares_socket_t s, void *buf, size_t len, int flags,
                                 struct sockaddr *addr, ares_socklen_t *addr_len, void *ud)
{
  int    i = (int)s - VN_FD_BASE;
  size_t n;
  (void)flags;
  (void)ud;
  if (i < 0 || i >= VN_MAXSOCK || !vn_socks[i].in_use) {
    errno = EBADF;
    return -1;
  }
  if (vn_socks[i].recv_err != 0) {
    errno                = vn_socks[i].recv_err;
    vn_socks[i].recv_err = 0;
    return -1;
  }
  if (vn_socks[i].inbox_cnt == 0) {
    errno = EWOULDBLOCK;
    return -1;
  }
  n = vn_socks[i].inbox_len[0];
  if (n > len) {
    n = len;
  }
  memcpy(buf, vn_socks[i].inbox[0], n);
  memmove(&vn_socks[i].inbox[0], &vn_socks[i].inbox[1],
          sizeof(vn_socks[i].inbox[0]) * (size_t)(vn_socks[i].inbox_cnt - 1));
  memmove(&vn_socks[i].inbox_len[0], &vn_socks[i].inbox_len[1],
          sizeof(size_t) * (size_t)(vn_socks[i].inbox_cnt - 1));
  vn_socks[i].inbox_cnt--;
  if (addr != NULL && addr_len != NULL) {
    if (*addr_len >= vn_socks[i].peer_len) {
      memcpy(addr, &vn_socks[i].peer, vn_socks[i].peer_len);
      *addr_len = vn_socks[i].peer_len;
    } else {
      *addr_len = 0;
    }
  }
  return (ares_ssize_t)n;
}

static ares_ssize_t vn_asendto(ares_socket_t s, const void *buf, size_t len, int flags,
                               const struct sockaddr *addr, ares_socklen_t addr_len, void *ud)
{
  int i = (int)s - VN_FD_BASE;
  (void)flags;
  (void)addr;
  (void)addr_len;
  (void)ud;
  if (i < 0 || i >= VN_MAXSOCK || !vn_socks[i].in_use) {
    errno = EBADF;
    return -1;
  }
  if (vn_fail_next_send) {
    errno             = vn_fail_next_send;
    vn_fail_next_send = 0;
    return -1;
  }
  if (vn_tx_cnt < 256 && len <= VN_MAXDGRAM) {
    vn_tx[vn_tx_cnt].sock = i;
    vn_tx[vn_tx_cnt].len  = len;
    memcpy(vn_tx[vn_tx_cnt].data, buf, len);
    vn_tx_cnt++;
  }
  if (vn_on_tx != NULL && len <= VN_MAXDGRAM) {
    vn_on_tx(i, (const unsigned char *)buf, len);
  }
  return (ares_ssize_t)len;
}

static int vn_agetsockname(ares_socket_t s, struct sockaddr *addr, ares_socklen_t *len, void *ud)
{
  struct sockaddr_in sa;
  (void)s;
  (void)ud;
  memset(&sa, 0, sizeof(sa));
  sa.sin_family      = AF_INET;
  sa.sin_port        = htons(40000);
  sa.sin_addr.s_addr = htonl(0x0a000064);
  if (*len < sizeof(sa)) {
    errno = EINVAL;
    return -1;
  }
  memcpy(addr, &sa, sizeof(sa));
  *len = sizeof(sa);
  return 0;
}

static const struct ares_socket_functions_ex vn_funcs = {
  1, ARES_SOCKFUNC_FLAG_NONBLOCKING, vn_asocket, vn_aclose, vn_asetsockopt, vn_aconnect,
  vn_arecvfrom, vn_asendto, vn_agetsockname, NULL, NULL, NULL
};

/* next transmission not yet looked at, or NULL */
static vn_tx_t *vn_next_tx(void)
{
  if (vn_tx_taken < vn_tx_cnt) {
    return &vn_tx[vn_tx_taken++];
  }
  return NULL;
}

/* deliver a datagram to the socket and let the library read it */
static void vn_deliver(ares_channel_t *ch, int sock, const unsigned char *data, size_t len)
{
  vn_sock_t *s = &vn_socks[sock];
  if (!s->in_use || s->inbox_cnt >= VN_INBOX || len > VN_MAXDGRAM) {
    return;
  }
  memcpy(s->inbox[s->inbox_cnt], data, len);
  s->inbox_len[s->inbox_cnt] = len;
  s->inbox_cnt++;
  ares_process_fd(ch, VN_FD_BASE + sock, ARES_SOCKET_BAD);
}

/* IPv4 address of the peer of a socket, host order (0 if not IPv4) */
static unsigned int vn_peer_v4(int sock)
{
  const struct sockaddr_in *sa = (const struct sockaddr_in *)&vn_socks[sock].peer;
  if (sa->sin_family != AF_INET) {
    return 0;
  }
  return ntohl(sa->sin_addr.s_addr);
}

/* ---- hex helpers ---- */
static size_t vn_unhex(const char *hex, unsigned char *out, size_t cap)
{
  size_t n = 0;
  while (hex[0] && hex[1] && n < cap) {
    unsigned int v;
    if (sscanf(hex, "%2x", &v) != 1) {
      break;
    }
    out[n++]  = (unsigned char)v;
    hex      += 2;
  }
  return n;
}

static void vn_puthex(const char *s)
{
  if (*s == 0) {
    printf("-");
  }
  for (; *s; s++) {
    printf("%02x", (unsigned char)*s);
  }
}
#endif
