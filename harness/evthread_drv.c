/* Threaded engine: a real channel with the built-in event thread, talking over real loopback
 * UDP sockets to a mock DNS server thread inside this process (no network needed).
 *
 * case:  evsys=<epoll|poll|select> timeout=<ms> tries=<n> flags=<stayopen,...> udpmaxq=<n> |step;step;...
 * steps: qs:<tok>:<name>:<ms> like q, but the completion callback (which runs on the event thread) takes
 *                           <ms> milliseconds: other deadlines may expire while it runs
 *        qc:<tok>:<name>:<ftok>:<fname>   like q, but the completion callback calls ares_cancel() and then
 *                           issues a follow-up query <ftok> for <fname> (inside the callback, i.e. in the
 *                           same hold of the channel lock: the queue is empty for an instant and non-empty
 *                           again before any waiter can look)
 *        bgwait:<ms>        a second thread calls ares_queue_wait_empty(ms); when it returns the number of
 *                           requests not yet completed is recorded (" bgwait=<rc>:<pending>").  Only meaningful
 *                           when no q step follows it (the generator guarantees that)
 *        q:<tok>:<name>     ares_query_dnsrec(name, IN, A); names starting with "ans" are answered
 *                           (NOERROR, one A record), names starting with "sil" are ignored by the server,
 *                           names starting with "srvfail" get SERVFAIL
 *        sleep:<ms>         real-time sleep of the application thread (which otherwise does nothing)
 *        settle             wait (<= budget + slack) until every request so far has completed
 *        waitempty:<ms>     ares_queue_wait_empty(); logs rc and whether requests were outstanding
 * output: "<k> R tok=<status>:<within|late|never> ... [waitempty=<rc>:<outstanding>]"
 *   within = the callback came within the retry budget (sum of per-try timeouts) + slack,
 *   late   = it came later (but before the case ended), never = only the channel's destruction
 *   completed it.  The application thread never calls ares_process_*: with the event thread
 *   no application action is needed (property C07).
 *
 * With -DCARES_VERIF the library calls cares_verif_trace() (see MANIFEST.hooks) around the
 * event thread's wait and at every wake; the driver logs them as "<k> T <event> <a> <b>" with
 * real-time millisecond stamps relative to the case start, for the extracted acceptor.
 */
#include "ares_private.h"
#include "drv_common.h"
#include <pthread.h>
#include <arpa/inet.h>
#include <netinet/in.h>
#include <sys/socket.h>
#include <sys/time.h>
#include <unistd.h>
#include <poll.h>
#include <errno.h>

#define MAXTOK 64
#define SLACK_MS 400

static int             srv_fd   = -1;
static unsigned short  srv_port = 0;
static pthread_t       srv_thr;
static int    srv_stop = 0;

static long now_ms(void)
{
  struct timespec ts;
  clock_gettime(CLOCK_MONOTONIC, &ts);
  return (long)(ts.tv_sec * 1000L + ts.tv_nsec / 1000000L);
}

static void *server_main(void *arg)
{
  unsigned char buf[1500];
  (void)arg;
  while (!__atomic_load_n(&srv_stop, __ATOMIC_ACQUIRE)) {
    struct sockaddr_in from;
    socklen_t          fl = sizeof(from);
    struct pollfd      p;
    ssize_t            n;
    p.fd     = srv_fd;
    p.events = POLLIN;
    if (poll(&p, 1, 50) <= 0) continue;
    n = recvfrom(srv_fd, buf, sizeof(buf), 0, (struct sockaddr *)&from, &fl);
    if (n < 12) continue;
    {
      ares_dns_record_t *req = NULL, *resp = NULL;
      const char        *name = NULL;
      ares_dns_rec_type_t qt;
      ares_dns_class_t    qc;
      unsigned char      *out = NULL;
      size_t              outlen = 0;
      ares_dns_rcode_t    rcode = ARES_RCODE_NOERROR;
      if (ares_dns_parse(buf, (size_t)n, 0, &req) != ARES_SUCCESS) continue;
      if (ares_dns_record_query_get(req, 0, &name, &qt, &qc) != ARES_SUCCESS) { ares_dns_record_destroy(req); continue; }
      if (strncasecmp(name, "sil", 3) == 0) { ares_dns_record_destroy(req); continue; }
      if (strncasecmp(name, "srvfail", 7) == 0) rcode = ARES_RCODE_SERVFAIL;
      if (ares_dns_record_create(&resp, ares_dns_record_get_id(req), ARES_FLAG_QR | ARES_FLAG_RD | ARES_FLAG_RA,
                                 ARES_OPCODE_QUERY, rcode) == ARES_SUCCESS) {
        ares_dns_rr_t *rr = NULL;
        ares_dns_record_query_add(resp, name, qt, qc);
        if (rcode == ARES_RCODE_NOERROR &&
            ares_dns_record_rr_add(&rr, resp, ARES_SECTION_ANSWER, name, ARES_REC_TYPE_A, ARES_CLASS_IN, 60) == ARES_SUCCESS) {
          struct in_addr a;
          a.s_addr = htonl(0x01020304);
          ares_dns_rr_set_addr(rr, ARES_RR_A_ADDR, &a);
        }
        if (ares_dns_write(resp, &out, &outlen) == ARES_SUCCESS) {
          sendto(srv_fd, out, outlen, 0, (struct sockaddr *)&from, fl);
          ares_free_string(out);
        }
        ares_dns_record_destroy(resp);
      }
      ares_dns_record_destroy(req);
    }
  }
  return NULL;
}

typedef struct {
  int  used;
  int  done;
  int  ncb;
  int  status;
  long t_start;
  long t_done;
  long slow_ms;
  int  follow_tok;          /* >= 0: cancel + follow-up query from the callback */
  char follow_name[104];
} tok_t;

static tok_t           toks[MAXTOK];
static pthread_mutex_t tok_mu = PTHREAD_MUTEX_INITIALIZER;
static long            case_k;
static long            case_t0;

static ares_channel_t *g_chan;
static void query_cb(void *arg, ares_status_t status, size_t timeouts, const ares_dns_record_t *rec);
static void issue(int tk, const char *name)
{
  pthread_mutex_lock(&tok_mu);
  toks[tk].used    = 1;
  toks[tk].t_start = now_ms();
  pthread_mutex_unlock(&tok_mu);
  ares_query_dnsrec(g_chan, name, ARES_CLASS_IN, ARES_REC_TYPE_A, query_cb, &toks[tk], NULL);
}

static int    bg_rc = -1, bg_pending = -1, bg_started = 0;
static long   bg_ms;
static void *bgwait_main(void *arg)
{
  int i, pending = 0;
  (void)arg;
  bg_rc = (int)ares_queue_wait_empty(g_chan, (int)bg_ms);
  pthread_mutex_lock(&tok_mu);
  for (i = 0; i < MAXTOK; i++) if (toks[i].used && !toks[i].done) pending++;
  pthread_mutex_unlock(&tok_mu);
  bg_pending = pending;
  return NULL;
}

static void query_cb(void *arg, ares_status_t status, size_t timeouts, const ares_dns_record_t *rec)
{
  tok_t *t = arg;
  (void)timeouts;
  (void)rec;
  pthread_mutex_lock(&tok_mu);
  t->ncb++;
  if (!t->done) {
    t->done   = 1;
    t->status = (int)status;
    t->t_done = now_ms();
  }
  pthread_mutex_unlock(&tok_mu);
  if (t->slow_ms > 0) usleep((useconds_t)t->slow_ms * 1000);
  if (t->follow_tok >= 0 && status != ARES_EDESTRUCTION) {
    int ft = t->follow_tok;
    t->follow_tok = -1;
    ares_cancel(g_chan);
    issue(ft, t->follow_name);
  }
}

#ifdef CARES_VERIF
extern void (*cares_verif_trace_fn)(const char *ev, long a, long b);
static pthread_mutex_t out_mu = PTHREAD_MUTEX_INITIALIZER;
static int             trace_on = 0;
static void trace_cb(const char *ev, long a, long b)
{
  if (!trace_on) return;
  pthread_mutex_lock(&out_mu);
  printf("%ld T %ld %s %ld %ld\n", case_k, now_ms() - case_t0, ev, a, b);
  pthread_mutex_unlock(&out_mu);
}
#endif

static long budget_ms(long timeout, long tries)
{
  long total = 0, t = timeout < 250 ? 250 : timeout, i; /* MIN_TIMEOUT_MS floor of ares_metrics_server_timeout */
  for (i = 0; i < tries; i++) {
    total += t;
    if (t < (1L << 40)) t *= 2;
  }
  return total;
}

static pthread_t bg_thread;
static void run_case(long k, char *line)
{
  char            *bar = strchr(line, '|');
  char            *save = NULL, *tokp;
  struct ares_options opts;
  int              optmask = 0;
  ares_channel_t  *channel = NULL;
  long             timeout = 100, tries = 2, udpmaxq = 0;
  int              flags = ARES_FLAG_NOCHECKRESP * 0;
  ares_evsys_t     evsys = ARES_EVSYS_DEFAULT;
  char             csv[64];
  char             waitres[64] = "";
  int              i;

  case_k  = k;
  case_t0 = now_ms();
  if (!bar) { printf("%ld R BADCASE\n", k); return; }
  *bar = 0;
  memset(toks, 0, sizeof(toks));
  for (i = 0; i < MAXTOK; i++) toks[i].follow_tok = -1;
  bg_rc = -1; bg_pending = -1; bg_started = 0;
  for (tokp = strtok_r(line, " ", &save); tokp; tokp = strtok_r(NULL, " ", &save)) {
    if (!strncmp(tokp, "evsys=", 6)) {
      if (!strcmp(tokp + 6, "epoll")) evsys = ARES_EVSYS_EPOLL;
      else if (!strcmp(tokp + 6, "poll")) evsys = ARES_EVSYS_POLL;
      else if (!strcmp(tokp + 6, "select")) evsys = ARES_EVSYS_SELECT;
    } else if (!strncmp(tokp, "timeout=", 8)) timeout = atol(tokp + 8);
    else if (!strncmp(tokp, "tries=", 6)) tries = atol(tokp + 6);
    else if (!strncmp(tokp, "udpmaxq=", 8)) udpmaxq = atol(tokp + 8);
    else if (!strncmp(tokp, "flags=", 6)) {
      if (strstr(tokp, "stayopen")) flags |= ARES_FLAG_STAYOPEN;
      if (strstr(tokp, "noedns")) flags &= ~ARES_FLAG_EDNS; else flags |= ARES_FLAG_EDNS;
    }
  }
  if (timeout < 10) timeout = 10;
  if (timeout > 2000) timeout = 2000;
  if (tries < 1) tries = 1;
  if (tries > 4) tries = 4;
  memset(&opts, 0, sizeof(opts));
  opts.evsys   = evsys;
  opts.timeout = (int)timeout;
  opts.tries   = (int)tries;
  opts.flags   = flags;
  opts.lookups = (char *)"b";
  opts.qcache_max_ttl = 0;
  opts.udp_max_queries = (int)udpmaxq;
  optmask = ARES_OPT_EVENT_THREAD | ARES_OPT_TIMEOUTMS | ARES_OPT_TRIES | ARES_OPT_FLAGS | ARES_OPT_LOOKUPS |
            ARES_OPT_QUERY_CACHE | ARES_OPT_UDP_MAX_QUERIES;
  if (ares_init_options(&channel, &opts, optmask) != ARES_SUCCESS) {
    printf("%ld R INITFAIL\n", k);
    return;
  }
  snprintf(csv, sizeof(csv), "127.0.0.1:%u", (unsigned)srv_port);
  ares_set_servers_ports_csv(channel, csv);
  g_chan = channel;
#ifdef CARES_VERIF
  trace_on = 1;
#endif

  for (tokp = strtok_r(bar + 1, ";", &save); tokp; tokp = strtok_r(NULL, ";", &save)) {
    int  tk;
    char name[128];
    long ms;
    long slow = 0;
    int  ftk;
    char fname[104];
    pthread_t bgthr;
    if (sscanf(tokp, "qc:%d:%100[^:]:%d:%100s", &tk, name, &ftk, fname) == 4 && tk >= 0 && tk < MAXTOK && ftk >= 0 && ftk < MAXTOK) {
      toks[tk].follow_tok = ftk;
      snprintf(toks[tk].follow_name, sizeof(toks[tk].follow_name), "%s", fname);
#ifdef CARES_VERIF
      trace_cb("query", tk, 0);
#endif
      issue(tk, name);
    } else if (sscanf(tokp, "bgwait:%ld", &ms) == 1 && !bg_started) {
      bg_ms = ms > 20000 ? 20000 : ms;
      bg_started = 1;
      pthread_create(&bgthr, NULL, bgwait_main, NULL);
      bg_thread = bgthr;
    } else if ((sscanf(tokp, "qs:%d:%100[^:]:%ld", &tk, name, &slow) == 3 || (slow = 0, sscanf(tokp, "q:%d:%100s", &tk, name) == 2)) && tk >= 0 && tk < MAXTOK) {
      if (slow > 1000) slow = 1000;
      pthread_mutex_lock(&tok_mu);
      toks[tk].used    = 1;
      toks[tk].slow_ms = slow;
      toks[tk].t_start = now_ms();
      pthread_mutex_unlock(&tok_mu);
#ifdef CARES_VERIF
      trace_cb("query", tk, 0);
#endif
      ares_query_dnsrec(channel, name, ARES_CLASS_IN, ARES_REC_TYPE_A, query_cb, &toks[tk], NULL);
    } else if (sscanf(tokp, "sleep:%ld", &ms) == 1) {
      if (ms > 5000) ms = 5000;
      usleep((useconds_t)ms * 1000);
    } else if (!strcmp(tokp, "settle")) {
      long deadline = now_ms() + budget_ms(timeout, tries) + SLACK_MS;
      for (;;) {
        int pending = 0;
        pthread_mutex_lock(&tok_mu);
        for (i = 0; i < MAXTOK; i++) if (toks[i].used && !toks[i].done) pending++;
        pthread_mutex_unlock(&tok_mu);
        if (!pending || now_ms() > deadline) break;
        usleep(5000);
      }
    } else if (sscanf(tokp, "waitempty:%ld", &ms) == 1) {
      ares_status_t rc = ares_queue_wait_empty(channel, (int)ms);
      int           pending = 0;
      pthread_mutex_lock(&tok_mu);
      for (i = 0; i < MAXTOK; i++) if (toks[i].used && !toks[i].done) pending++;
      pthread_mutex_unlock(&tok_mu);
      snprintf(waitres, sizeof(waitres), " waitempty=%d:%d", (int)rc, pending);
    }
  }
  /* final settle: give every request its full budget */
  {
    long deadline = now_ms() + budget_ms(timeout, tries) + SLACK_MS;
    for (;;) {
      int pending = 0;
      pthread_mutex_lock(&tok_mu);
      for (i = 0; i < MAXTOK; i++) if (toks[i].used && !toks[i].done) pending++;
      pthread_mutex_unlock(&tok_mu);
      if (!pending || now_ms() > deadline) break;
      usleep(5000);
    }
  }
  {
    int never[MAXTOK];
    pthread_mutex_lock(&tok_mu);
    for (i = 0; i < MAXTOK; i++) never[i] = toks[i].used && !toks[i].done;
    pthread_mutex_unlock(&tok_mu);
#ifdef CARES_VERIF
    trace_on = 0;
#endif
    if (bg_started) {
      pthread_join(bg_thread, NULL);
      snprintf(waitres + strlen(waitres), sizeof(waitres) - strlen(waitres), " bgwait=%d:%d", bg_rc, bg_pending);
    }
    ares_destroy(channel);
#ifdef CARES_VERIF
    pthread_mutex_lock(&out_mu);
#endif
    printf("%ld R", k);
    for (i = 0; i < MAXTOK; i++) {
      if (!toks[i].used) continue;
      if (never[i]) printf(" %d=%d:never", i, toks[i].status);
      else {
        long el = toks[i].t_done - toks[i].t_start;
        printf(" %d=%d:%s", i, toks[i].status, el <= budget_ms(timeout, tries) + SLACK_MS ? "within" : "late");
      }
      if (toks[i].ncb != 1) printf(":ncb%d", toks[i].ncb);
    }
    printf("%s\n", waitres);
#ifdef CARES_VERIF
    pthread_mutex_unlock(&out_mu);
#endif
  }
}

int main(int argc, char **argv)
{
  struct sockaddr_in sa;
  socklen_t          sl = sizeof(sa);
  int                rc;
  ares_library_init(ARES_LIB_INIT_ALL);
  srv_fd = socket(AF_INET, SOCK_DGRAM, 0);
  memset(&sa, 0, sizeof(sa));
  sa.sin_family      = AF_INET;
  sa.sin_addr.s_addr = htonl(INADDR_LOOPBACK);
  if (srv_fd < 0 || bind(srv_fd, (struct sockaddr *)&sa, sizeof(sa)) != 0 ||
      getsockname(srv_fd, (struct sockaddr *)&sa, &sl) != 0) {
    perror("mock server");
    return 2;
  }
  srv_port = ntohs(sa.sin_port);
  pthread_create(&srv_thr, NULL, server_main, NULL);
#ifdef CARES_VERIF
  cares_verif_trace_fn = trace_cb;
#endif
  rc = drv_main(argc, argv, run_case);
  __atomic_store_n(&srv_stop, 1, __ATOMIC_RELEASE);
  pthread_join(srv_thr, NULL);
  close(srv_fd);
  ares_library_cleanup();
  return rc;
}
