/* Byte buffer case kind of the container engine (C19): drives src/lib/str/ares_buf.c.
 *
 * One buffer per case (a fresh dynamic buffer at the start; N / K:<hex> replace it by a new
 * dynamic / const buffer).  ops (a leading '!' = the allocator refuses every request made
 * during that call; '!<n>' = it refuses the n-th request of the call, counted from 0, and only
 * that one - used with sx, pb, ps, nd, nh):
 *   a:<hex> ab:<dec> a16:<dec> a32:<dec> as:<hex> av:<want>:<hex>
 *   f:<n> f16 f32 pb fd:<n>:<0|1> fs:<n> fi:<n> c:<n>
 *   t tr tc tf:<cap> ts:<cap> td tk
 *   sl:<len>:<fill> sp:<idx> rc
 *   ws:<0|1> nws ln:<0|1> cs:<hex> uc:<hex>:<0|1> bw:<hex>
 *   sx:<delims hex>:<flags>:<max>   fb fz   N K:<hex>
 *   nd:<num>:<len> nh:<num>:<len>          ares_buf_append_num_dec / _hex
 *   pb:<remaining_len>:<want 0|1>          ares_buf_parse_dns_binstr (want 0: bin == NULL)
 *   ps:<remaining_len>:<want 0|1>          ares_buf_parse_dns_str
 *     output <status>[:<bin_len>][/<bytes incl. the terminator>]; "/NULL" = success reported
 *     with a NULL result
 * output: one line "<k> R tok tok ...", one token per op:
 *   <status>[:v,v...][/hex/hex...]@<len>,<pos>,<taglen>,<remaining hex>
 * ("-" = empty byte string).  When the tag lies beyond the offset (the caller moved below an
 * active tag with set_position - outside the API contract) every op except t, tc, sp is
 * answered with SKIP instead of being executed.  A case is given 5 CPU seconds (ITIMER_PROF: robust against a loaded machine).
 */
#include "ares_private.h"
#include "drv_common.h"
#include "dsa_reg.h"
#include <unistd.h>

static void put_hex(const unsigned char *p, size_t n)
{
  size_t i;
  if (n == 0) { printf("-"); return; }
  for (i = 0; i < n; i++) printf("%02x", p[i]);
}

/* parses hex ("-" or "" = empty) into a malloc'd array (never NULL) */
static unsigned char *get_hex(const char *s, size_t *n)
{
  size_t         len = strlen(s), i;
  unsigned char *out = malloc(len / 2 + 1);
  *n = 0;
  if (strcmp(s, "-") == 0) return out;
  for (i = 0; i + 1 < len; i += 2) {
    unsigned int v = 0;
    sscanf(s + i, "%2x", &v);
    out[(*n)++] = (unsigned char)v;
  }
  return out;
}

static void view(const ares_buf_t *buf)
{
  size_t               l = 0;
  const unsigned char *p = ares_buf_peek(buf, &l);
  printf("@%zu,%zu,%zu,", ares_buf_len(buf), ares_buf_get_position(buf), ares_buf_tag_length(buf));
  put_hex(p, l);
}

#include <sys/time.h>
#include <signal.h>
#include <unistd.h>
static void buf_watchdog_fire(int sig)
{
  (void)sig;
  _exit(124);
}
/* CPU-time watchdog of one case (0 = off) */
static void buf_watchdog(long seconds)
{
  struct itimerval it;
  memset(&it, 0, sizeof(it));
  it.it_value.tv_sec = seconds;
  signal(SIGPROF, buf_watchdog_fire);
  setitimer(ITIMER_PROF, &it, NULL);
}

static void run_buf(long k, char *ops)
{
  ares_buf_t    *buf   = ares_buf_create();
  unsigned char *cdata = NULL; /* the bytes a const buffer points to: live until replaced */
  char          *save  = NULL, *op;
  /* a library loop that no longer terminates must not stall the whole check: SIGALRM ends the
   * process, the runner records the case as a crash and resumes with the next one */
  buf_watchdog(5);
  printf("%ld R", k);
  for (op = strtok_r(ops, ";", &save); op; op = strtok_r(NULL, ";", &save)) {
    int           fail = 0;
    long          fail_at = -1;
    unsigned long n = 0, m = 0, fl = 0;
    char          hx[4096];
    ares_status_t st;
    hx[0] = 0;
    if (op[0] == '!') {
      op++;
      if (op[0] >= '0' && op[0] <= '9') {
        fail_at = strtol(op, &op, 10);
      } else {
        fail = 1;
      }
    }
    printf(" ");
    if (ares_buf_tag_length(buf) > ares_buf_get_position(buf) && strcmp(op, "t") != 0 &&
        strcmp(op, "tc") != 0 && strncmp(op, "sp:", 3) != 0) {
      printf("SKIP");
      continue;
    }
    dsa_alloc_fail_all = fail;
    dsa_alloc_fail_at  = fail_at;
    if (sscanf(op, "a:%4000[0-9a-f-]", hx) == 1) {
      size_t         len;
      unsigned char *d = get_hex(hx, &len);
      st = ares_buf_append(buf, d, len);
      printf("%d", (int)st);
      free(d);
    } else if (sscanf(op, "ab:%lu", &n) == 1) {
      printf("%d", (int)ares_buf_append_byte(buf, (unsigned char)n));
    } else if (sscanf(op, "a16:%lu", &n) == 1) {
      printf("%d", (int)ares_buf_append_be16(buf, (unsigned short)n));
    } else if (sscanf(op, "a32:%lu", &n) == 1) {
      printf("%d", (int)ares_buf_append_be32(buf, (unsigned int)n));
    } else if (sscanf(op, "as:%4000[0-9a-f-]", hx) == 1) {
      size_t         len;
      unsigned char *d = get_hex(hx, &len);
      d[len] = 0;
      printf("%d", (int)ares_buf_append_str(buf, (const char *)d));
      free(d);
    } else if (sscanf(op, "av:%lu:%4000[0-9a-f-]", &n, hx) == 2) {
      size_t         len, want = n, avail = n;
      unsigned char *d = get_hex(hx, &len);
      unsigned char *p = ares_buf_append_start(buf, &avail);
      if (p == NULL) {
        printf("0:0");
      } else {
        size_t w = len < avail ? len : avail;
        if (avail < want) printf("SHORT");
        memcpy(p, d, w);
        ares_buf_append_finish(buf, w);
        printf("1:%zu", w);
      }
      free(d);
    } else if (sscanf(op, "f:%lu", &n) == 1) {
      unsigned char *d = malloc(n + 1);
      st = ares_buf_fetch_bytes(buf, d, n);
      printf("%d", (int)st);
      if (st == ARES_SUCCESS) { printf("/"); put_hex(d, n); }
      free(d);
    } else if (strcmp(op, "f16") == 0) {
      unsigned short v = 0;
      st = ares_buf_fetch_be16(buf, &v);
      printf("%d", (int)st);
      if (st == ARES_SUCCESS) printf(":%u", (unsigned)v);
    } else if (strcmp(op, "f32") == 0) {
      unsigned int v = 0;
      st = ares_buf_fetch_be32(buf, &v);
      printf("%d", (int)st);
      if (st == ARES_SUCCESS) printf(":%u", v);
    } else if (strcmp(op, "pb") == 0) {
      unsigned char v = 0;
      st = ares_buf_peek_byte(buf, &v);
      printf("%d", (int)st);
      if (st == ARES_SUCCESS) printf(":%u", (unsigned)v);
    } else if (sscanf(op, "fd:%lu:%lu", &n, &m) == 2) {
      unsigned char *d = NULL;
      st = ares_buf_fetch_bytes_dup(buf, n, m ? ARES_TRUE : ARES_FALSE, &d);
      printf("%d", (int)st);
      if (st == ARES_SUCCESS) { printf("/"); put_hex(d, m ? n + 1 : n); ares_free(d); }
    } else if (sscanf(op, "fs:%lu", &n) == 1) {
      char *d = NULL;
      st = ares_buf_fetch_str_dup(buf, n, &d);
      printf("%d", (int)st);
      if (st == ARES_SUCCESS) { printf("/"); put_hex((unsigned char *)d, n + 1); ares_free(d); }
    } else if (sscanf(op, "fi:%lu", &n) == 1) {
      ares_buf_t *dest;
      size_t      l = 0;
      const unsigned char *p;
      dsa_alloc_fail_all = 0;
      dsa_alloc_fail_at  = -1;
      dest = ares_buf_create();
      dsa_alloc_fail_all = fail;
      dsa_alloc_fail_at  = fail_at;
      st = ares_buf_fetch_bytes_into_buf(buf, dest, n);
      dsa_alloc_fail_all = 0;
      dsa_alloc_fail_at  = -1;
      p = ares_buf_peek(dest, &l);
      printf("%d/", (int)st);
      put_hex(p, l);
      ares_buf_destroy(dest);
    } else if (sscanf(op, "c:%lu", &n) == 1) {
      printf("%d", (int)ares_buf_consume(buf, n));
    } else if (strcmp(op, "t") == 0) {
      ares_buf_tag(buf);
      printf("0");
    } else if (strcmp(op, "tr") == 0) {
      printf("%d", (int)ares_buf_tag_rollback(buf));
    } else if (strcmp(op, "tc") == 0) {
      printf("%d", (int)ares_buf_tag_clear(buf));
    } else if (sscanf(op, "tf:%lu", &n) == 1) {
      unsigned char *d = malloc(n + 1);
      size_t         l = n;
      st = ares_buf_tag_fetch_bytes(buf, d, &l);
      printf("%d", (int)st);
      if (st == ARES_SUCCESS) { printf("/"); put_hex(d, l); }
      free(d);
    } else if (sscanf(op, "ts:%lu", &n) == 1) {
      char *d = malloc(n + 1);
      st = ares_buf_tag_fetch_string(buf, d, n);
      printf("%d", (int)st);
      if (st == ARES_SUCCESS) { printf("/"); put_hex((unsigned char *)d, strlen(d)); }
      free(d);
    } else if (strcmp(op, "td") == 0) {
      char  *d  = NULL;
      size_t tl = ares_buf_tag_length(buf);
      st = ares_buf_tag_fetch_strdup(buf, &d);
      printf("%d", (int)st);
      if (st == ARES_SUCCESS) { printf("/"); put_hex((unsigned char *)d, tl + 1); ares_free(d); }
    } else if (strcmp(op, "tk") == 0) {
      ares_buf_t *nb = NULL;
      st = ares_buf_tag_fetch_constbuf(buf, &nb);
      printf("%d", (int)st);
      if (st == ARES_SUCCESS) {
        size_t               l = 0;
        const unsigned char *p = ares_buf_peek(nb, &l);
        printf("/");
        put_hex(p, l);
        ares_buf_destroy(nb);
      }
    } else if (sscanf(op, "sl:%lu:%lu", &n, &m) == 2) {
      size_t old = ares_buf_len(buf);
      st = ares_buf_set_length(buf, n);
      printf("%d", (int)st);
      if (st == ARES_SUCCESS && n > old) {
        /* the caller owns the bytes it exposed: give them a defined value */
        size_t         l = 0;
        unsigned char *p = (unsigned char *)ares_buf_peek(buf, &l);
        memset(p + old, (int)m, n - old);
      }
    } else if (sscanf(op, "sp:%lu", &n) == 1) {
      printf("%d", (int)ares_buf_set_position(buf, n));
    } else if (strcmp(op, "rc") == 0) {
      ares_buf_reclaim(buf);
      printf("0");
    } else if (sscanf(op, "ws:%lu", &n) == 1) {
      printf("%zu", ares_buf_consume_whitespace(buf, n ? ARES_TRUE : ARES_FALSE));
    } else if (strcmp(op, "nws") == 0) {
      printf("%zu", ares_buf_consume_nonwhitespace(buf));
    } else if (sscanf(op, "ln:%lu", &n) == 1) {
      printf("%zu", ares_buf_consume_line(buf, n ? ARES_TRUE : ARES_FALSE));
    } else if (sscanf(op, "cs:%4000[0-9a-f-]", hx) == 1) {
      size_t         len;
      unsigned char *d = get_hex(hx, &len);
      printf("%zu", ares_buf_consume_charset(buf, d, len));
      free(d);
    } else if (sscanf(op, "uc:%4000[0-9a-f-]:%lu", hx, &n) == 2) {
      size_t         len;
      unsigned char *d = get_hex(hx, &len);
      printf("%zu", ares_buf_consume_until_charset(buf, d, len, n ? ARES_TRUE : ARES_FALSE));
      free(d);
    } else if (sscanf(op, "bw:%4000[0-9a-f-]", hx) == 1) {
      size_t         len;
      unsigned char *d = get_hex(hx, &len);
      printf("%d", (int)ares_buf_begins_with(buf, d, len));
      free(d);
    } else if (sscanf(op, "sx:%4000[0-9a-f-]:%lu:%lu", hx, &fl, &m) == 3) {
      size_t         len, i;
      unsigned char *d   = get_hex(hx, &len);
      ares_array_t  *arr = NULL;
      st = ares_buf_split(buf, d, len, (ares_buf_split_t)fl, m, &arr);
      dsa_alloc_fail_all = 0;
      dsa_alloc_fail_at  = -1;
      printf("%d:%zu", (int)st, arr ? ares_array_len(arr) : 0);
      for (i = 0; arr != NULL && i < ares_array_len(arr); i++) {
        ares_buf_t         **bp = ares_array_at(arr, i);
        size_t               l  = 0;
        const unsigned char *p  = ares_buf_peek(*bp, &l);
        printf("/");
        put_hex(p, l);
      }
      ares_array_destroy(arr);
      free(d);
    } else if (strcmp(op, "fb") == 0 || strcmp(op, "fz") == 0) {
      size_t         l = 0;
      unsigned char *p = (op[1] == 'b') ? ares_buf_finish_bin(buf, &l)
                                        : (unsigned char *)ares_buf_finish_str(buf, &l);
      dsa_alloc_fail_all = 0;
      dsa_alloc_fail_at  = -1;
      if (p == NULL) {
        printf("0");
      } else {
        printf("1/");
        put_hex(p, op[1] == 'b' ? l : l + 1);
        ares_free(p);
        buf = ares_buf_create();
      }
    } else if (strcmp(op, "N") == 0 || sscanf(op, "K:%4000[0-9a-f-]", hx) == 1) {
      ares_buf_t    *nb;
      unsigned char *nd  = NULL;
      size_t         len = 0;
      if (op[0] == 'N') {
        nb = ares_buf_create();
      } else {
        nd = get_hex(hx, &len);
        nb = ares_buf_create_const(nd, len);
      }
      dsa_alloc_fail_all = 0;
      dsa_alloc_fail_at  = -1;
      if (nb == NULL) {
        printf("0");
        free(nd);
      } else {
        printf("1");
        ares_buf_destroy(buf);
        free(cdata);
        cdata = nd;
        buf   = nb;
      }
    } else if (sscanf(op, "nd:%lu:%lu", &n, &m) == 2) {
      printf("%d", (int)ares_buf_append_num_dec(buf, (size_t)n, (size_t)m));
    } else if (sscanf(op, "nh:%lu:%lu", &n, &m) == 2) {
      printf("%d", (int)ares_buf_append_num_hex(buf, (size_t)n, (size_t)m));
    } else if (sscanf(op, "pb:%lu:%lu", &n, &m) == 2) {
      unsigned char *bin = NULL;
      size_t         bl  = 0;
      st = ares_buf_parse_dns_binstr(buf, n, m ? &bin : NULL, &bl);
      dsa_alloc_fail_all = 0;
      dsa_alloc_fail_at  = -1;
      printf("%d", (int)st);
      if (st == ARES_SUCCESS && m) {
        printf(":%zu/", bl);
        if (bin == NULL) printf("NULL"); else put_hex(bin, bl + 1);
      }
      ares_free(bin);
    } else if (sscanf(op, "ps:%lu:%lu", &n, &m) == 2) {
      char *str = NULL;
      st = ares_buf_parse_dns_str(buf, n, m ? &str : NULL);
      dsa_alloc_fail_all = 0;
      dsa_alloc_fail_at  = -1;
      printf("%d", (int)st);
      if (st == ARES_SUCCESS && m) {
        printf(":%zu/", str ? strlen(str) : (size_t)0);
        if (str == NULL) printf("NULL"); else put_hex((unsigned char *)str, strlen(str) + 1);
      }
      ares_free(str);
    } else {
      printf("BADOP");
    }
    dsa_alloc_fail_all = 0;
    dsa_alloc_fail_at  = -1;
    view(buf);
  }
  printf("\n");
  ares_buf_destroy(buf);
  free(cdata);
  buf_watchdog(0);
}

DSA_REGISTER("buf", run_buf)
