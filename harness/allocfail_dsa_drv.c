/* allocfail_dsa_drv <casefile> <start>          (property C14, engine "allocdsa")
 *
 * Container operations of the real library under an allocator that refuses ONE request,
 * compared by ocaml/allocdsa_drv.ml with the allocation-explicit models of coq/Alloc/*.v and
 * coq/Dsa/Array.v at the same allocation index.
 *
 * case:   <kind> n=<idx> [bits=<0|1>]|op;op;...
 *         kind = llist | slist | htab | buf | arr
 *         n    = index (1-based, counted from the creation of the container) of the request
 *                (ares_malloc / ares_realloc) that returns NULL; 0 = none
 *         bits = what ares_rand_bytes delivers (slist coin flips): 0 -> every new node has one
 *                level, 1 -> every new node has the maximum number of levels
 * ops:    llist  if:<v> il:<v> ib:<i>:<v> (before the i-th node)  rm:<i>
 *         slist  in:<v>  rm:<i>
 *         htab   in:<k>:<v>  rm:<k>  get:<k>         (generic ares_htable_t, hash(k) = k)
 *         buf    ap:<len>:<byte>  co:<len>  tag  untag
 *         arr    il:<v> if:<v> ia:<i>:<v> rf rl ra:<i>
 *         wire   q:<name>  an:<owner>  ns:<owner>:<target>     (kind wire: the record is built
 *                without failure; n counts the requests of the ONE ares_dns_write() call; the
 *                message is parsed back without failure and its names are dumped)
 *         parse  fn=<a|aaaa|ptr|ptr6|ns|mx|srv|txt|soa|naptr|caa> base=<dump>|<hex of a DNS message>
 *                (kind parse: the legacy ares_parse_*_reply() function is run on the message; n
 *                counts the requests of that ONE call; the result - every field the caller can
 *                read: h_name, every alias, every address, the addrttl array, every member of
 *                the reply list - is dumped, "-" for a NULL string; base= is the dump of the
 *                run without failure, for the judge)
 * output: "<k> R <tok> <tok> ... dump=<..> end=<live blocks after destroy>"
 *         tok = "C<ok>@<cnt>/<live>" for the creation, then per op "<res>@<cnt>/<live>"
 *         (res: 1/0 success of the operation, or the status / value for arr, get), cnt =
 *         allocation requests so far, live = blocks currently allocated by the library.
 * The payloads stored in the containers are small integers (no allocation); hash-table
 * buckets are allocated by the harness with plain malloc and are not counted.
 */
#include "ares_private.h"
#include "dsa/ares_htable.h"
#include "drv_common.h"
#include <netdb.h>
#include <arpa/inet.h>

static long g_cnt, g_failat, g_live;
static int  g_bits;

static void *a_malloc(size_t n)
{
  void *p;
  g_cnt++;
  if (g_failat && g_cnt == g_failat) {
    return NULL;
  }
  p = malloc(n ? n : 1);
  if (p) {
    g_live++;
  }
  return p;
}

static void a_free(void *p)
{
  if (p) {
    g_live--;
  }
  free(p);
}

static void *a_realloc(void *q, size_t n)
{
  void *p;
  g_cnt++;
  if (g_failat && g_cnt == g_failat) {
    return NULL;
  }
  p = realloc(q, n ? n : 1);
  if (p && q == NULL) {
    g_live++;
  }
  return p;
}

/* --wrap=ares_rand_bytes: the skip list's coin flips */
void __wrap_ares_rand_bytes(ares_rand_state *state, unsigned char *buf, size_t len)
{
  (void)state;
  memset(buf, g_bits ? 0xFF : 0x00, len);
}

#define TOK(fmt, v) printf(" " fmt "@%ld/%ld", v, g_cnt, g_live)

/* ---------------- llist ---------------- */
static void run_llist(char *ops)
{
  ares_llist_t *l = ares_llist_create(NULL);
  char         *save = NULL, *op;
  TOK("C%d", l != NULL);
  for (op = strtok_r(ops, ";", &save); op && l; op = strtok_r(NULL, ";", &save)) {
    long          v;
    unsigned long i;
    if (sscanf(op, "if:%ld", &v) == 1) {
      TOK("%d", ares_llist_insert_first(l, (void *)(v + 1)) != NULL);
    } else if (sscanf(op, "il:%ld", &v) == 1) {
      TOK("%d", ares_llist_insert_last(l, (void *)(v + 1)) != NULL);
    } else if (sscanf(op, "ib:%lu:%ld", &i, &v) == 2) {
      ares_llist_node_t *at = ares_llist_node_idx(l, i);
      TOK("%d", at != NULL && ares_llist_insert_before(at, (void *)(v + 1)) != NULL);
    } else if (sscanf(op, "rm:%lu", &i) == 1) {
      ares_llist_node_t *at = ares_llist_node_idx(l, i);
      if (at) {
        ares_llist_node_destroy(at);
      }
      TOK("%d", at != NULL);
    } else {
      printf(" BADOP");
    }
  }
  printf(" dump=");
  if (l) {
    ares_llist_node_t *n;
    int                first = 1;
    for (n = ares_llist_node_first(l); n; n = ares_llist_node_next(n)) {
      printf("%s%ld", first ? "" : ",", (long)ares_llist_node_val(n) - 1);
      first = 0;
    }
    ares_llist_destroy(l);
  }
}

/* ---------------- slist ---------------- */
static int cmp_long(const void *a, const void *b)
{
  long x = (long)a, y = (long)b;
  return x < y ? -1 : (x > y ? 1 : 0);
}

static void run_slist(char *ops, ares_rand_state *rs)
{
  ares_slist_t *l = ares_slist_create(rs, cmp_long, NULL);
  char         *save = NULL, *op;
  TOK("C%d", l != NULL);
  for (op = strtok_r(ops, ";", &save); op && l; op = strtok_r(NULL, ";", &save)) {
    long          v;
    unsigned long i;
    if (sscanf(op, "in:%ld", &v) == 1) {
      TOK("%d", ares_slist_insert(l, (void *)(v + 1)) != NULL);
    } else if (sscanf(op, "rm:%lu", &i) == 1) {
      ares_slist_node_t *n = ares_slist_node_first(l);
      while (n && i--) {
        n = ares_slist_node_next(n);
      }
      if (n) {
        ares_slist_node_destroy(n);
      }
      TOK("%d", n != NULL);
    } else {
      printf(" BADOP");
    }
  }
  printf(" dump=");
  if (l) {
    ares_slist_node_t *n;
    int                first = 1;
    for (n = ares_slist_node_first(l); n; n = ares_slist_node_next(n)) {
      printf("%s%ld", first ? "" : ",", (long)ares_slist_node_val(n) - 1);
      first = 0;
    }
    ares_slist_destroy(l);
  }
}

/* ---------------- generic htable ---------------- */
typedef struct {
  unsigned int key;
  long         val;
} hb_t;

static unsigned int hb_hash(const void *key, unsigned int seed)
{
  (void)seed;
  return *(const unsigned int *)key;
}

static const void *hb_key(const void *bucket)
{
  return &((const hb_t *)bucket)->key;
}

static void hb_free(void *bucket)
{
  free(bucket);
}

static ares_bool_t hb_eq(const void *a, const void *b)
{
  return *(const unsigned int *)a == *(const unsigned int *)b;
}

static int cmp_hb(const void *a, const void *b)
{
  const hb_t *x = *(const hb_t *const *)a, *y = *(const hb_t *const *)b;
  return x->key < y->key ? -1 : (x->key > y->key ? 1 : 0);
}

static void run_htab(char *ops)
{
  ares_htable_t *t = ares_htable_create(hb_hash, hb_key, hb_free, hb_eq);
  char          *save = NULL, *op;
  TOK("C%d", t != NULL);
  for (op = strtok_r(ops, ";", &save); op && t; op = strtok_r(NULL, ";", &save)) {
    unsigned int k;
    long         v;
    if (sscanf(op, "in:%u:%ld", &k, &v) == 2) {
      hb_t *b = malloc(sizeof(*b));
      b->key  = k;
      b->val  = v;
      if (ares_htable_insert(t, b)) {
        TOK("%d", 1);
      } else {
        free(b); /* the typed wrappers of the library do the same */
        TOK("%d", 0);
      }
    } else if (sscanf(op, "rm:%u", &k) == 1) {
      TOK("%d", (int)ares_htable_remove(t, &k));
    } else if (sscanf(op, "get:%u", &k) == 1) {
      const hb_t *b = ares_htable_get(t, &k);
      if (b) {
        TOK("%ld", b->val);
      } else {
        TOK("%s", "N");
      }
    } else {
      printf(" BADOP");
    }
  }
  printf(" dump=");
  if (t) {
    /* sorted by key: ares_htable_all_buckets allocates, switch the failure off for it */
    size_t       num = 0, i;
    long         keep = g_failat;
    const void **all;
    g_failat = 0;
    all      = ares_htable_all_buckets(t, &num);
    if (all && num) {
      qsort(all, num, sizeof(*all), cmp_hb);
    }
    for (i = 0; all && i < num; i++) {
      printf("%s%u=%ld", i ? "," : "", ((const hb_t *)all[i])->key, ((const hb_t *)all[i])->val);
    }
    ares_free(all);
    g_failat = keep;
    printf(" keys=%zu", ares_htable_num_keys(t));
    ares_htable_destroy(t);
  }
}

/* ---------------- buf ---------------- */
static void run_buf(char *ops)
{
  ares_buf_t *b = ares_buf_create();
  char       *save = NULL, *op;
  TOK("C%d", b != NULL);
  for (op = strtok_r(ops, ";", &save); op && b; op = strtok_r(NULL, ";", &save)) {
    unsigned long n;
    unsigned int  byte;
    if (sscanf(op, "ap:%lu:%u", &n, &byte) == 2) {
      unsigned char *tmp = malloc(n ? n : 1);
      ares_status_t  st;
      memset(tmp, (int)byte, n);
      st = ares_buf_append(b, tmp, n);
      free(tmp);
      TOK("%d", (int)st);
    } else if (sscanf(op, "co:%lu", &n) == 1) {
      TOK("%d", (int)ares_buf_consume(b, n));
    } else if (strcmp(op, "tag") == 0) {
      ares_buf_tag(b);
      TOK("%d", 0);
    } else if (strcmp(op, "untag") == 0) {
      TOK("%d", (int)ares_buf_tag_clear(b));
    } else {
      printf(" BADOP");
    }
  }
  printf(" dump=");
  if (b) {
    size_t               len = 0, i;
    const unsigned char *p   = ares_buf_peek(b, &len);
    /* run-length form: <byte>x<count> */
    for (i = 0; i < len;) {
      size_t j = i;
      while (j < len && p[j] == p[i]) {
        j++;
      }
      printf("%s%ux%zu", i ? "," : "", (unsigned)p[i], j - i);
      i = j;
    }
    ares_buf_destroy(b);
  }
}

/* ---------------- array ---------------- */
static void run_arr(char *ops)
{
  ares_array_t *a = ares_array_create(sizeof(long long), NULL);
  char         *save = NULL, *op;
  size_t        i;
  TOK("C%d", a != NULL);
  for (op = strtok_r(ops, ";", &save); op && a; op = strtok_r(NULL, ";", &save)) {
    long long     v;
    unsigned long idx;
    if (sscanf(op, "il:%lld", &v) == 1) {
      TOK("%d", (int)ares_array_insertdata_last(a, &v));
    } else if (sscanf(op, "if:%lld", &v) == 1) {
      TOK("%d", (int)ares_array_insertdata_first(a, &v));
    } else if (sscanf(op, "ia:%lu:%lld", &idx, &v) == 2) {
      TOK("%d", (int)ares_array_insertdata_at(a, idx, &v));
    } else if (strcmp(op, "rf") == 0) {
      TOK("%d", (int)ares_array_remove_first(a));
    } else if (strcmp(op, "rl") == 0) {
      TOK("%d", (int)ares_array_remove_last(a));
    } else if (sscanf(op, "ra:%lu", &idx) == 1) {
      TOK("%d", (int)ares_array_remove_at(a, idx));
    } else {
      printf(" BADOP");
    }
  }
  printf(" dump=");
  for (i = 0; a && i < ares_array_len(a); i++) {
    printf("%s%lld", i ? "," : "", *(long long *)ares_array_at(a, i));
  }
  if (a) {
    ares_array_destroy(a);
  }
}

/* ---------------- DNS writer (name compression bookkeeping) ---------------- */
static void run_wire(char *ops, long n)
{
  ares_dns_record_t *rec = NULL;
  char              *save = NULL, *op;
  unsigned char     *buf = NULL;
  size_t             len = 0;
  ares_status_t      st;
  g_failat = 0;
  if (ares_dns_record_create(&rec, 1, ARES_FLAG_QR, ARES_OPCODE_QUERY, ARES_RCODE_NOERROR) != ARES_SUCCESS) {
    printf(" BADCASE");
    return;
  }
  for (op = strtok_r(ops, ";", &save); op; op = strtok_r(NULL, ";", &save)) {
    char           a[300], b[300];
    ares_dns_rr_t *rr = NULL;
    if (sscanf(op, "q:%299s", a) == 1) {
      ares_dns_record_query_add(rec, a, ARES_REC_TYPE_A, ARES_CLASS_IN);
    } else if (sscanf(op, "an:%299s", a) == 1) {
      struct in_addr ip;
      ip.s_addr = htonl(0x01020304);
      if (ares_dns_record_rr_add(&rr, rec, ARES_SECTION_ANSWER, a, ARES_REC_TYPE_A, ARES_CLASS_IN, 300) == ARES_SUCCESS) {
        ares_dns_rr_set_addr(rr, ARES_RR_A_ADDR, &ip);
      }
    } else if (sscanf(op, "ns:%299[^:]:%299s", a, b) == 2) {
      if (ares_dns_record_rr_add(&rr, rec, ARES_SECTION_AUTHORITY, a, ARES_REC_TYPE_NS, ARES_CLASS_IN, 300) == ARES_SUCCESS) {
        ares_dns_rr_set_str(rr, ARES_RR_NS_NSDNAME, b);
      }
    }
  }
  g_cnt    = 0;
  g_failat = n;
  st       = ares_dns_write(rec, &buf, &len);
  g_failat = 0;
  TOK("%d", (int)st);
  printf(" dump=");
  if (st == ARES_SUCCESS) {
    ares_dns_record_t *back = NULL;
    if (ares_dns_parse(buf, len, 0, &back) == ARES_SUCCESS) {
      size_t      i;
      const char *qn = NULL;
      int         first = 1;
      for (i = 0; i < ares_dns_record_query_cnt(back); i++) {
        ares_dns_record_query_get(back, i, &qn, NULL, NULL);
        printf("%s%s", first ? "" : ",", qn);
        first = 0;
      }
      for (i = 0; i < ares_dns_record_rr_cnt(back, ARES_SECTION_ANSWER); i++) {
        printf("%s%s", first ? "" : ",", ares_dns_rr_get_name(ares_dns_record_rr_get(back, ARES_SECTION_ANSWER, i)));
        first = 0;
      }
      for (i = 0; i < ares_dns_record_rr_cnt(back, ARES_SECTION_AUTHORITY); i++) {
        ares_dns_rr_t *rr = ares_dns_record_rr_get(back, ARES_SECTION_AUTHORITY, i);
        printf("%s%s>%s", first ? "" : ",", ares_dns_rr_get_name(rr), ares_dns_rr_get_str(rr, ARES_RR_NS_NSDNAME));
        first = 0;
      }
      ares_dns_record_destroy(back);
    } else {
      printf("UNPARSABLE");
    }
  }
  ares_free(buf);
  ares_dns_record_destroy(rec);
}

/* ---------------- legacy reply parsers (ares_parse_*_reply) ---------------- */
static void pstr(const char *s)
{
  printf("%s", s ? s : "-");
}

static void dump_hostent(const struct hostent *h)
{
  int  i;
  char a[INET6_ADDRSTRLEN];
  if (h == NULL) {
    printf("-");
    return;
  }
  printf("name:");
  pstr(h->h_name);
  printf(",aliases:[");
  for (i = 0; h->h_aliases && h->h_aliases[i]; i++) {
    printf("%s%s", i ? "," : "", h->h_aliases[i]);
  }
  printf("],af:%d,addrs:[", h->h_addrtype == AF_INET ? 4 : h->h_addrtype == AF_INET6 ? 6 : h->h_addrtype);
  for (i = 0; h->h_addr_list && h->h_addr_list[i]; i++) {
    printf("%s%s", i ? "," : "", inet_ntop(h->h_addrtype, h->h_addr_list[i], a, sizeof(a)) ? a : "?");
  }
  printf("]");
}

static void pbytes(const unsigned char *b, size_t len)
{
  size_t i;
  if (b == NULL) {
    printf("-");
    return;
  }
  for (i = 0; i < len; i++) {
    if (b[i] > 0x20 && b[i] < 0x7f && b[i] != '|' && b[i] != '=') {
      putchar(b[i]);
    } else {
      printf("\\%02x", b[i]);
    }
  }
}

static void run_parse(const char *head, const char *hex, long n)
{
  unsigned char  msg[2048];
  size_t         len = 0;
  char           fn[16] = "";
  const char    *p = strstr(head, "fn=");
  int            st  = -1;
  if (p == NULL || sscanf(p, "fn=%15s", fn) != 1) {
    printf(" BADCASE");
    return;
  }
  while (hex[0] && hex[1] && len < sizeof(msg)) {
    unsigned int b;
    if (sscanf(hex, "%2x", &b) != 1) {
      break;
    }
    msg[len++] = (unsigned char)b;
    hex += 2;
  }
  g_cnt    = 0;
  g_failat = n;
  if (strcmp(fn, "a") == 0 || strcmp(fn, "aaaa") == 0) {
    struct hostent      *h = NULL;
    struct ares_addrttl  t4[8];
    struct ares_addr6ttl t6[8];
    int                  nt = 8, i;
    char                 a[INET6_ADDRSTRLEN];
    int                  v6 = (fn[1] == 'a' && fn[2] == 'a');
    memset(t4, 0, sizeof(t4));
    memset(t6, 0, sizeof(t6));
    st = v6 ? ares_parse_aaaa_reply(msg, (int)len, &h, t6, &nt) : ares_parse_a_reply(msg, (int)len, &h, t4, &nt);
    g_failat = 0;
    TOK("%d", st);
    printf(" dump=");
    dump_hostent(h);
    printf(",ttls:[");
    for (i = 0; st == ARES_SUCCESS && i < nt && i < 8; i++) {
      if (v6) {
        printf("%s%s/%d", i ? "," : "", inet_ntop(AF_INET6, &t6[i].ip6addr, a, sizeof(a)), t6[i].ttl);
      } else {
        printf("%s%s/%d", i ? "," : "", inet_ntop(AF_INET, &t4[i].ipaddr, a, sizeof(a)), t4[i].ttl);
      }
    }
    printf("]");
    if (h) {
      ares_free_hostent(h);
    }
  } else if (strcmp(fn, "ptr") == 0 || strcmp(fn, "ptr6") == 0) {
    struct hostent *h = NULL;
    struct in_addr  a4;
    struct ares_in6_addr a6;
    inet_pton(AF_INET, "10.1.2.3", &a4);
    inet_pton(AF_INET6, "fd00::8", &a6);
    st = fn[3] ? ares_parse_ptr_reply(msg, (int)len, &a6, sizeof(a6), AF_INET6, &h)
               : ares_parse_ptr_reply(msg, (int)len, &a4, sizeof(a4), AF_INET, &h);
    g_failat = 0;
    TOK("%d", st);
    printf(" dump=");
    dump_hostent(h);
    if (h) {
      ares_free_hostent(h);
    }
  } else if (strcmp(fn, "ns") == 0) {
    struct hostent *h = NULL;
    st = ares_parse_ns_reply(msg, (int)len, &h);
    g_failat = 0;
    TOK("%d", st);
    printf(" dump=");
    dump_hostent(h);
    if (h) {
      ares_free_hostent(h);
    }
  } else if (strcmp(fn, "mx") == 0) {
    struct ares_mx_reply *r = NULL, *q;
    st = ares_parse_mx_reply(msg, (int)len, &r);
    g_failat = 0;
    TOK("%d", st);
    printf(" dump=");
    if (r == NULL) {
      printf("-");
    }
    for (q = r; q; q = q->next) {
      pstr(q->host);
      printf("/%u%s", q->priority, q->next ? "," : "");
    }
    ares_free_data(r);
  } else if (strcmp(fn, "srv") == 0) {
    struct ares_srv_reply *r = NULL, *q;
    st = ares_parse_srv_reply(msg, (int)len, &r);
    g_failat = 0;
    TOK("%d", st);
    printf(" dump=");
    if (r == NULL) {
      printf("-");
    }
    for (q = r; q; q = q->next) {
      pstr(q->host);
      printf("/%u/%u/%u%s", q->priority, q->weight, q->port, q->next ? "," : "");
    }
    ares_free_data(r);
  } else if (strcmp(fn, "txt") == 0) {
    struct ares_txt_ext *r = NULL, *q;
    st = ares_parse_txt_reply_ext(msg, (int)len, &r);
    g_failat = 0;
    TOK("%d", st);
    printf(" dump=");
    if (r == NULL) {
      printf("-");
    }
    for (q = r; q; q = q->next) {
      pbytes(q->txt, q->length);
      printf("/%u/%u%s", (unsigned)q->length, (unsigned)q->record_start, q->next ? "," : "");
    }
    ares_free_data(r);
  } else if (strcmp(fn, "soa") == 0) {
    struct ares_soa_reply *r = NULL;
    st = ares_parse_soa_reply(msg, (int)len, &r);
    g_failat = 0;
    TOK("%d", st);
    printf(" dump=");
    if (r == NULL) {
      printf("-");
    } else {
      pstr(r->nsname);
      printf("/");
      pstr(r->hostmaster);
      printf("/%u/%u/%u/%u/%u", r->serial, r->refresh, r->retry, r->expire, r->minttl);
    }
    ares_free_data(r);
  } else if (strcmp(fn, "naptr") == 0) {
    struct ares_naptr_reply *r = NULL, *q;
    st = ares_parse_naptr_reply(msg, (int)len, &r);
    g_failat = 0;
    TOK("%d", st);
    printf(" dump=");
    if (r == NULL) {
      printf("-");
    }
    for (q = r; q; q = q->next) {
      pstr((const char *)q->flags);
      printf("/");
      pstr((const char *)q->service);
      printf("/");
      pstr((const char *)q->regexp);
      printf("/");
      pstr(q->replacement);
      printf("/%u/%u%s", q->order, q->preference, q->next ? "," : "");
    }
    ares_free_data(r);
  } else if (strcmp(fn, "caa") == 0) {
    struct ares_caa_reply *r = NULL, *q;
    st = ares_parse_caa_reply(msg, (int)len, &r);
    g_failat = 0;
    TOK("%d", st);
    printf(" dump=");
    if (r == NULL) {
      printf("-");
    }
    for (q = r; q; q = q->next) {
      printf("%d/", q->critical);
      pbytes(q->property, q->plength);
      printf("/");
      pbytes(q->value, q->length);
      printf("%s", q->next ? "," : "");
    }
    ares_free_data(r);
  } else {
    g_failat = 0;
    printf(" BADFN");
  }
}

static ares_rand_state *g_rs;

static void run_case(long k, char *line)
{
  char  kind[16];
  long  n = 0;
  int   bits = 0;
  char *bar = strchr(line, '|');
  char *p;
  if (!bar) {
    printf("%ld R BADCASE\n", k);
    return;
  }
  *bar = 0;
  if (sscanf(line, "%15s", kind) != 1) {
    printf("%ld R BADCASE\n", k);
    return;
  }
  if ((p = strstr(line, "n=")) != NULL) {
    n = atol(p + 2);
  }
  if ((p = strstr(line, "bits=")) != NULL) {
    bits = atoi(p + 5);
  }
  g_bits   = bits;
  g_cnt    = 0;
  g_live   = 0;
  g_failat = n;
  printf("%ld R", k);
  if (strcmp(kind, "llist") == 0) {
    run_llist(bar + 1);
  } else if (strcmp(kind, "slist") == 0) {
    run_slist(bar + 1, g_rs);
  } else if (strcmp(kind, "htab") == 0) {
    run_htab(bar + 1);
  } else if (strcmp(kind, "buf") == 0) {
    run_buf(bar + 1);
  } else if (strcmp(kind, "arr") == 0) {
    run_arr(bar + 1);
  } else if (strcmp(kind, "wire") == 0) {
    run_wire(bar + 1, n);
  } else if (strcmp(kind, "parse") == 0) {
    run_parse(line, bar + 1, n);
  } else {
    printf(" BADKIND");
  }
  g_failat = 0;
  printf(" end=%ld\n", g_live);
}

int main(int argc, char **argv)
{
  int rc;
  ares_library_init_mem(ARES_LIB_INIT_ALL, a_malloc, a_free, a_realloc);
  g_rs = ares_init_rand_state(); /* before any case: its allocations are not counted */
  rc   = drv_main(argc, argv, run_case);
  ares_destroy_rand_state(g_rs);
  ares_library_cleanup();
  return rc;
}
