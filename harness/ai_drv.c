/* Implementation-side driver of the addrinfo engine (C13, function level).
 *
 * The static sortlist sort of ares_gethostbyname.c is reached by compiling that file into
 * this translation unit (the archive member is then not pulled in by the linker).
 *
 * cases
 *   pia:<port>:<cname_only>:<pre>:A|R,<n>,<hex header+question>|<unit>;...
 *        ares_dns_parse + record dump (public getters), ares_parse_into_addrinfo into an
 *        addrinfo that is empty (pre=0), already populated (pre=1) or carries the question
 *        name in upper case (pre=2); then ares_addrinfo2hostent (AF_UNSPEC/INET/INET6),
 *        ares_addrinfo2addrttl (several capacities), ares_sortaddrinfo over a copy of the
 *        node list whose ports number the nodes, ares_parse_ptr_reply_dnsrec
 *   ptr:<family>:<hexaddr>|                      ares_dns_addr_to_ptr
 *   sort:<family>:<sortlist, '_' for ' '>|<hexaddr>;<hexaddr>;...   sort_addresses / sort6_addresses
 *   lo:<family>:<port>:<pre>|                    ares_addrinfo_localhost (pre: 1 = an INET node, 2 = an INET6 node present)
 */
#include "legacy_common.h"
#include "ares_gethostbyname.c"

/* ---------------- virtual sockets for find_src_addr ---------------- */
static int vs_mode; /* 0: source address found, 1: connect fails (no source), 2: getsockname fails */
static ares_socket_t vs_socket(int af, int type, int protocol, void *ud)
{
  (void)type; (void)protocol; (void)ud;
  return af == AF_INET ? 1000 : 1001;
}
static int vs_close(ares_socket_t s, void *ud) { (void)s; (void)ud; return 0; }
static int vs_setsockopt(ares_socket_t s, ares_socket_opt_t opt, const void *val, ares_socklen_t len, void *ud)
{
  (void)s; (void)opt; (void)val; (void)len; (void)ud;
  errno = ENOSYS;
  return -1;
}
static int vs_connect(ares_socket_t s, const struct sockaddr *a, ares_socklen_t len, unsigned int flags, void *ud)
{
  (void)s; (void)a; (void)len; (void)flags; (void)ud;
  if (vs_mode == 1) { errno = ENETUNREACH; return -1; }
  return 0;
}
static ares_ssize_t vs_recvfrom(ares_socket_t s, void *b, size_t l, int f, struct sockaddr *a, ares_socklen_t *al, void *ud)
{
  (void)s; (void)b; (void)l; (void)f; (void)a; (void)al; (void)ud;
  errno = EWOULDBLOCK;
  return -1;
}
static ares_ssize_t vs_sendto(ares_socket_t s, const void *b, size_t l, int f, const struct sockaddr *a, ares_socklen_t al, void *ud)
{
  (void)s; (void)b; (void)f; (void)a; (void)al; (void)ud;
  return (ares_ssize_t)l;
}
static int vs_getsockname(ares_socket_t s, struct sockaddr *a, ares_socklen_t *al, void *ud)
{
  (void)ud;
  if (vs_mode == 2) { errno = EBADF; return -1; }
  if (s == 1000) {
    struct sockaddr_in *sin = (struct sockaddr_in *)a;
    memset(sin, 0, sizeof(*sin));
    sin->sin_family = AF_INET;
    sin->sin_addr.s_addr = htonl(0x0a000001);
    *al = sizeof(*sin);
  } else {
    struct sockaddr_in6 *sin6 = (struct sockaddr_in6 *)a;
    memset(sin6, 0, sizeof(*sin6));
    sin6->sin6_family = AF_INET6;
    sin6->sin6_addr.s6_addr[0] = 0x20; sin6->sin6_addr.s6_addr[1] = 0x01; sin6->sin6_addr.s6_addr[15] = 1;
    *al = sizeof(*sin6);
  }
  return 0;
}
static const struct ares_socket_functions_ex vs_funcs = {
  1, ARES_SOCKFUNC_FLAG_NONBLOCKING, vs_socket, vs_close, vs_setsockopt, vs_connect, vs_recvfrom, vs_sendto,
  vs_getsockname, NULL, NULL, NULL
};

static ares_channel_t *channel;

/* ---------------- dumps ---------------- */
static void dump_nodes(const struct ares_addrinfo_node *n)
{
  int first = 1;
  fputs("[", stdout);
  for (; n; n = n->ai_next) {
    if (!first) fputs(",", stdout);
    first = 0;
    if (n->ai_family == AF_INET && n->ai_addr) {
      const struct sockaddr_in *sin = (const struct sockaddr_in *)n->ai_addr;
      printf("%d:", n->ai_family);
      hexs("", (const unsigned char *)&sin->sin_addr, 4);
      printf(":%u:%d", (unsigned)ntohs(sin->sin_port), n->ai_ttl);
    } else if (n->ai_family == AF_INET6 && n->ai_addr) {
      const struct sockaddr_in6 *sin6 = (const struct sockaddr_in6 *)n->ai_addr;
      printf("%d:", n->ai_family);
      hexs("", (const unsigned char *)&sin6->sin6_addr, 16);
      printf(":%u:%d", (unsigned)ntohs(sin6->sin6_port), n->ai_ttl);
    } else printf("%d:?:0:%d", n->ai_family, n->ai_ttl);
  }
  fputs("]", stdout);
}

static void dump_ai(long k, const char *tag, int st, const struct ares_addrinfo *ai)
{
  const struct ares_addrinfo_cname *c;
  int first = 1;
  printf("%ld %s st=%d name=", k, tag, st);
  pstr(ai->name);
  fputs(" nodes=", stdout);
  dump_nodes(ai->nodes);
  fputs(" cnames=[", stdout);
  for (c = ai->cnames; c; c = c->next) {
    if (!first) fputs(",", stdout);
    first = 0;
    printf("%d:", c->ttl);
    pstr(c->alias); fputs(":", stdout);
    pstr(c->name);
  }
  fputs("]\n", stdout);
}

static void free_ai_members(struct ares_addrinfo *ai)
{
  ares_freeaddrinfo_cnames(ai->cnames);
  ares_freeaddrinfo_nodes(ai->nodes);
  ares_free(ai->name);
  memset(ai, 0, sizeof(*ai));
}

/* ---------------- pia ---------------- */
static void run_pia(long k, char *params, char *rest, char *body)
{
  unsigned        port = 0;
  int             cname_only = 0, pre = 0, mode, num, fam, vi;
  size_t          len = 0;
  unsigned char  *msg;
  ares_dns_record_t *rec = NULL;
  struct ares_addrinfo ai;
  ares_status_t   st;
  long            live0 = live_allocs;
  static const int fams[3] = { AF_UNSPEC, AF_INET, AF_INET6 };
  static const size_t reqs[5] = { 0, 1, 2, 5, 1000 };

  if (sscanf(params, "%u:%d:%d", &port, &cname_only, &pre) != 3) { printf("%ld R BADCASE\n", k); return; }
  msg = assemble_case(rest, body, &len, &mode, &num);
  if (!msg) { printf("%ld R BADCASE\n", k); return; }
  st = dump_record_keep(k, msg, len, &rec);
  memset(&ai, 0, sizeof(ai));
  if (st == ARES_SUCCESS) {
    if (pre == 1) {
      static const unsigned char one[4] = { 1, 1, 1, 1 };
      struct ares_addrinfo_cname *c;
      ai.name = ares_strdup("other.name");
      ares_append_ai_node(AF_INET, 9, 9, one, &ai.nodes);
      c        = ares_append_addrinfo_cname(&ai.cnames);
      c->ttl   = 77;
      c->alias = ares_strdup("al");
      c->name  = ares_strdup("nm");
    } else if (pre == 2) {
      const char *qn = NULL;
      if (ares_dns_record_query_get(rec, 0, &qn, NULL, NULL) == ARES_SUCCESS && qn) {
        char *p;
        ai.name = ares_strdup(qn);
        for (p = ai.name; *p; p++) if (*p >= 'a' && *p <= 'z') *p = (char)(*p - 32);
      }
    }
    st = ares_parse_into_addrinfo(rec, cname_only ? ARES_TRUE : ARES_FALSE, (unsigned short)port, &ai);
    dump_ai(k, "AI", (int)st, &ai);

    for (vi = 0; vi < 3; vi++) {
      struct hostent *host = NULL;
      long            l1   = live_allocs;
      ares_status_t   hs   = ares_addrinfo2hostent(&ai, fams[vi], &host);
      printf("%ld HE fam=%d st=%d", k, fams[vi], (int)hs);
      dump_hostent(host);
      ares_free_hostent(host);
      printf(" live=%ld\n", live_allocs - l1);
    }
    for (fam = 1; fam < 3; fam++) {
      for (vi = 0; vi < 5; vi++) {
        size_t nel = reqs[vi] + GUARD, i, n = 99, esz = fams[fam] == AF_INET ? sizeof(struct ares_addrttl) : sizeof(struct ares_addr6ttl);
        unsigned char *arr = malloc(nel * esz);
        ares_status_t  ts;
        int            bad = 0;
        memset(arr, 0xA5, nel * esz);
        ts = ares_addrinfo2addrttl(&ai, fams[fam], reqs[vi], fams[fam] == AF_INET ? (struct ares_addrttl *)arr : NULL,
                                   fams[fam] == AF_INET6 ? (struct ares_addr6ttl *)arr : NULL, &n);
        printf("%ld TT fam=%d req=%zu st=%d n=%zu ttls=[", k, fams[fam], reqs[vi], (int)ts, n);
        for (i = 0; i < nel; i++) {
          size_t j;
          int    mod = 0;
          for (j = 0; j < esz; j++) if (arr[i * esz + j] != 0xA5) mod = 1;
          if (mod && i >= reqs[vi]) bad = 1;
          if (mod && i < reqs[vi]) {
            if (i) fputs(",", stdout);
            if (fams[fam] == AF_INET) { hexs("", (unsigned char *)&((struct ares_addrttl *)arr)[i].ipaddr, 4); printf(":%d", ((struct ares_addrttl *)arr)[i].ttl); }
            else { hexs("", (unsigned char *)&((struct ares_addr6ttl *)arr)[i].ip6addr, 16); printf(":%d", ((struct ares_addr6ttl *)arr)[i].ttl); }
          }
        }
        printf("] guard=%s\n", bad ? "BAD" : "ok");
        free(arr);
      }
    }
    /* ares_sortaddrinfo over a copy whose ports number the nodes */
    for (vs_mode = 0; vs_mode < 3; vs_mode++) {
      struct ares_addrinfo_node  sentinel;
      struct ares_addrinfo_node *n, *copy = NULL;
      unsigned                   id = 0;
      ares_status_t              ss;
      memset(&sentinel, 0, sizeof(sentinel));
      for (n = ai.nodes; n; n = n->ai_next, id++) {
        if (n->ai_family == AF_INET) ares_append_ai_node(AF_INET, (unsigned short)id, 0, &((struct sockaddr_in *)n->ai_addr)->sin_addr, &copy);
        else ares_append_ai_node(AF_INET6, (unsigned short)id, 0, &((struct sockaddr_in6 *)n->ai_addr)->sin6_addr, &copy);
      }
      sentinel.ai_next = copy;
      ss = ares_sortaddrinfo(channel, &sentinel);
      printf("%ld SO mode=%d n=%u st=%d nodes=", k, vs_mode, id, (int)ss);
      dump_nodes(sentinel.ai_next);
      fputs("\n", stdout);
      ares_freeaddrinfo_nodes(sentinel.ai_next);
    }
    vs_mode = 0;
    /* reverse-lookup conversion on the same record */
    {
      static const unsigned char a4[4] = { 1, 2, 3, 4 };
      struct hostent *host = SENT;
      long            l1   = live_allocs;
      ares_status_t   ps   = ares_parse_ptr_reply_dnsrec(rec, a4, 4, AF_INET, &host);
      printf("%ld PR st=%d", k, (int)ps);
      if (host == SENT) fputs(" host=untouched", stdout);
      else { dump_hostent(host); ares_free_hostent(host); }
      printf(" live=%ld\n", live_allocs - l1);
    }
  }
  free_ai_members(&ai);
  ares_dns_record_destroy(rec);
  free(msg);
  printf("%ld LIVE %ld\n", k, live_allocs - live0);
}

/* ---------------- ptr ---------------- */
static void run_ptr(long k, char *params)
{
  int              fam = 0;
  char             hex[80];
  struct ares_addr addr;
  unsigned char    raw[40];
  size_t           n;
  char            *name;
  long             live0 = live_allocs;
  if (sscanf(params, "%d:%64s", &fam, hex) != 2) { printf("%ld R BADCASE\n", k); return; }
  n = unhex(hex, strlen(hex), raw);
  memset(&addr, 0, sizeof(addr));
  addr.family = fam;
  if (fam == AF_INET && n == 4) memcpy(&addr.addr.addr4, raw, 4);
  else if (fam == AF_INET6 && n == 16) memcpy(&addr.addr.addr6, raw, 16);
  else if (fam == AF_INET || fam == AF_INET6) { printf("%ld R BADCASE\n", k); return; }
  name = ares_dns_addr_to_ptr(&addr);
  printf("%ld PT ", k);
  pstr(name);
  ares_free(name);
  printf(" live=%ld\n", live_allocs - live0);
}

/* ---------------- sortlist insertion sort ---------------- */
static void run_sort(long k, char *params, char *body)
{
  int              fam = 0;
  char            *colon = strchr(params, ':'), *p, *u, *save = NULL;
  struct apattern *sortlist = NULL;
  size_t           nsort = 0, n = 0, i, alen;
  struct hostent   host;
  char            *list[260];
  unsigned char    store[260][16];
  ares_status_t    st;
  if (!colon) { printf("%ld R BADCASE\n", k); return; }
  fam  = atoi(params);
  alen = fam == AF_INET ? 4 : 16;
  for (p = colon + 1; *p; p++) if (*p == '_') *p = ' ';
  st = ares_parse_sortlist(&sortlist, &nsort, colon + 1);
  for (u = strtok_r(body, ";", &save); u && n < 256; u = strtok_r(NULL, ";", &save)) {
    if (unhex(u, strlen(u), store[n]) != alen) continue;
    list[n] = (char *)store[n];
    n++;
  }
  list[n] = NULL;
  memset(&host, 0, sizeof(host));
  host.h_addrtype  = fam;
  host.h_length    = (int)alen;
  host.h_addr_list = list;
  printf("%ld SL fam=%d st=%d nsort=%zu idx=[", k, fam, (int)st, nsort);
  for (i = 0; i < n; i++) {
    size_t ix;
    if (fam == AF_INET) { struct in_addr a; memcpy(&a, list[i], 4); ix = get_address_index(&a, sortlist, nsort); }
    else { struct ares_in6_addr a; memcpy(&a, list[i], 16); ix = get6_address_index(&a, sortlist, nsort); }
    printf("%s%zu", i ? "," : "", ix);
  }
  fputs("] in=[", stdout);
  for (i = 0; i < n; i++) { if (i) fputs(",", stdout); hexs("", (unsigned char *)list[i], alen); }
  fputs("] out=[", stdout);
  if (fam == AF_INET) sort_addresses(&host, sortlist, nsort); else sort6_addresses(&host, sortlist, nsort);
  for (i = 0; list[i]; i++) { if (i) fputs(",", stdout); hexs("", (unsigned char *)list[i], alen); }
  printf("] term=%s\n", (i == n) ? "ok" : "MOVED");
  ares_free(sortlist);
}

/* ---------------- localhost ---------------- */
static void run_lo(long k, char *params)
{
  int                        fam = 0, pre = 0;
  unsigned                   port = 0;
  struct ares_addrinfo       ai;
  struct ares_addrinfo_hints hints;
  ares_status_t              st;
  long                       live0 = live_allocs;
  if (sscanf(params, "%d:%u:%d", &fam, &port, &pre) != 3) { printf("%ld R BADCASE\n", k); return; }
  memset(&ai, 0, sizeof(ai));
  memset(&hints, 0, sizeof(hints));
  hints.ai_family = fam;
  if (pre & 1) { static const unsigned char a[4] = { 10, 9, 8, 7 }; ares_append_ai_node(AF_INET, 1, 5, a, &ai.nodes); }
  if (pre & 2) { static const unsigned char a[16] = { 0xfd, 0, 1 }; ares_append_ai_node(AF_INET6, 2, 6, a, &ai.nodes); }
  if (pre & 4) ai.name = ares_strdup("old");
  st = ares_addrinfo_localhost("localhost", (unsigned short)port, &hints, &ai);
  dump_ai(k, "LO", (int)st, &ai);
  free_ai_members(&ai);
  printf("%ld LIVE %ld\n", k, live_allocs - live0);
}

static void run_case(long k, char *line)
{
  char *bar = strchr(line, '|'), *body, *bar2;
  if (!bar) { printf("%ld R BADCASE\n", k); return; }
  *bar = 0;
  body = bar + 1;
  if (strncmp(line, "pia:", 4) == 0) {
    /* pia:<port>:<cno>:<pre>:<mode>,<n>,<hex> */
    char *p = line + 4, *last = strrchr(line, ':');
    if (!last || last < p) { printf("%ld R BADCASE\n", k); return; }
    *last = 0;
    run_pia(k, p, last + 1, body);
  } else if (strncmp(line, "ptr:", 4) == 0) run_ptr(k, line + 4);
  else if (strncmp(line, "sort:", 5) == 0) run_sort(k, line + 5, body);
  else if (strncmp(line, "lo:", 3) == 0) run_lo(k, line + 3);
  else printf("%ld R BADKIND\n", k);
  (void)bar2;
}

int main(int argc, char **argv)
{
  int                 rc;
  struct ares_options opts;
  ares_library_init_mem(ARES_LIB_INIT_ALL, l_malloc, l_free, l_realloc);
  memset(&opts, 0, sizeof(opts));
  opts.lookups = "f";
  if (ares_init_options(&channel, &opts, ARES_OPT_LOOKUPS) != ARES_SUCCESS) { fprintf(stderr, "ares_init_options failed\n"); return 2; }
  ares_set_socket_functions_ex(channel, &vs_funcs, NULL);
  rc = drv_main(argc, argv, run_case);
  ares_destroy(channel);
  ares_library_cleanup();
  return rc;
}
