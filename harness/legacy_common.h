/* Shared by the legacy-parser (C18) and addrinfo (C13) drivers: allocation ledger, hex
 * helpers, hostent dump, record dump through the PUBLIC getters of the record API. */
#ifndef LEGACY_COMMON_H
#define LEGACY_COMMON_H
#include "ares_private.h"
#include "drv_common.h"
#include <netdb.h>
#include <arpa/inet.h>

/* ---------------- allocation ledger (ares_library_init_mem) ---------------- */
static long live_allocs;
static long alloc_calls; /* allocator calls (malloc + realloc) since it was last reset */
static long fail_at;     /* the fail_at-th call returns NULL (0: never) */
static void *l_malloc(size_t n)
{
  void *p;
  alloc_calls++;
  if (fail_at && alloc_calls == fail_at) return NULL;
  p = malloc(n);
  if (p) live_allocs++;
  return p;
}
static void l_free(void *p)
{
  if (p) live_allocs--;
  free(p);
}
static void *l_realloc(void *p, size_t n)
{
  void *q;
  if (p == NULL) return l_malloc(n);
  if (n == 0) { l_free(p); return NULL; }
  alloc_calls++;
  if (fail_at && alloc_calls == fail_at) return NULL;
  q = realloc(p, n);
  return q;
}

/* ---------------- helpers ---------------- */
static void hexs(const char *tag, const unsigned char *p, size_t n)
{
  size_t i;
  fputs(tag, stdout);
  for (i = 0; i < n; i++) printf("%02x", p[i]);
}
static void pstr(const char *s)
{
  if (s == NULL) { fputs("-", stdout); return; }
  hexs("x", (const unsigned char *)s, strlen(s));
}
static int hexval(int c)
{
  if (c >= '0' && c <= '9') return c - '0';
  if (c >= 'a' && c <= 'f') return c - 'a' + 10;
  if (c >= 'A' && c <= 'F') return c - 'A' + 10;
  return -1;
}
static size_t unhex(const char *s, size_t n, unsigned char *out)
{
  size_t i, o = 0;
  for (i = 0; i + 1 < n; i += 2) {
    int a = hexval(s[i]), b = hexval(s[i + 1]);
    if (a < 0 || b < 0) break;
    out[o++] = (unsigned char)(a * 16 + b);
  }
  return o;
}

static void dump_hostent(const struct hostent *h)
{
  size_t i;
  if (h == NULL) { fputs(" host=-", stdout); return; }
  fputs(" host=", stdout);
  pstr(h->h_name);
  fputs(" al=[", stdout);
  for (i = 0; h->h_aliases && h->h_aliases[i]; i++) {
    if (i) fputs(",", stdout);
    pstr(h->h_aliases[i]);
  }
  printf("] af=%d len=%d ad=[", (int)h->h_addrtype, (int)h->h_length);
  for (i = 0; h->h_addr_list && h->h_addr_list[i]; i++) {
    if (i) fputs(",", stdout);
    hexs("", (const unsigned char *)h->h_addr_list[i], h->h_length > 0 ? (size_t)h->h_length : 0);
  }
  fputs("]", stdout);
}

#define SENT ((void *)(size_t)0x10)
#define GUARD 8

/* ---------------- record dump through the public getters ---------------- */
static void dump_rr(long k, const ares_dns_rr_t *rr)
{
  size_t                   nkeys = 0, i, j;
  const ares_dns_rr_key_t *keys;
  ares_dns_rec_type_t      t = ares_dns_rr_get_type(rr);
  printf("%ld RR ", k);
  pstr(ares_dns_rr_get_name(rr));
  printf(" %d %d %u", (int)t, (int)ares_dns_rr_get_class(rr), ares_dns_rr_get_ttl(rr));
  keys = ares_dns_rr_get_keys(t, &nkeys);
  for (i = 0; i < nkeys; i++) {
    fputs(" ", stdout);
    switch (ares_dns_rr_key_datatype(keys[i])) {
      case ARES_DATATYPE_INADDR:
        hexs("", (const unsigned char *)ares_dns_rr_get_addr(rr, keys[i]), 4);
        break;
      case ARES_DATATYPE_INADDR6:
        hexs("", (const unsigned char *)ares_dns_rr_get_addr6(rr, keys[i]), 16);
        break;
      case ARES_DATATYPE_U8:
        printf("%u", (unsigned)ares_dns_rr_get_u8(rr, keys[i]));
        break;
      case ARES_DATATYPE_U16:
        printf("%u", (unsigned)ares_dns_rr_get_u16(rr, keys[i]));
        break;
      case ARES_DATATYPE_U32:
        printf("%u", ares_dns_rr_get_u32(rr, keys[i]));
        break;
      case ARES_DATATYPE_NAME:
      case ARES_DATATYPE_STR:
        pstr(ares_dns_rr_get_str(rr, keys[i]));
        break;
      case ARES_DATATYPE_BIN:
      case ARES_DATATYPE_BINP: {
        size_t               len = 0;
        const unsigned char *p   = ares_dns_rr_get_bin(rr, keys[i], &len);
        if (p == NULL) fputs("-", stdout); else hexs("b", p, len);
        break;
      }
      case ARES_DATATYPE_ABINP: {
        size_t cnt = ares_dns_rr_get_abin_cnt(rr, keys[i]);
        fputs("[", stdout);
        for (j = 0; j < cnt; j++) {
          size_t               len = 0;
          const unsigned char *p   = ares_dns_rr_get_abin(rr, keys[i], j, &len);
          if (j) fputs(",", stdout);
          if (p == NULL) fputs("-", stdout); else hexs("b", p, len);
        }
        fputs("]", stdout);
        break;
      }
      default:
        printf("opt%zu", ares_dns_rr_get_opt_cnt(rr, keys[i]));
        break;
    }
  }
  fputs("\n", stdout);
}

/* parse + dump; the record is handed to the caller when keep != NULL */
static ares_status_t dump_record_keep(long k, const unsigned char *msg, size_t len, ares_dns_record_t **keep)
{
  ares_dns_record_t *rec = SENT; /* out-parameter poison: must not be read or freed by the library */
  ares_status_t      st  = ares_dns_parse(msg, len, 0, &rec);
  size_t             i, n;
  if (rec == SENT) rec = NULL;
  printf("%ld P %d\n", k, (int)st);
  if (keep) *keep = NULL;
  if (st != ARES_SUCCESS) return st;
  n = ares_dns_record_rr_cnt(rec, ARES_SECTION_ANSWER);
  printf("%ld H %d %zu %zu\n", k, (int)ares_dns_record_get_rcode(rec), ares_dns_record_query_cnt(rec), n);
  for (i = 0; i < ares_dns_record_query_cnt(rec); i++) {
    const char         *qn = NULL;
    ares_dns_rec_type_t qt = 0;
    ares_dns_class_t    qc = 0;
    ares_dns_record_query_get(rec, i, &qn, &qt, &qc);
    printf("%ld Q ", k);
    pstr(qn);
    printf(" %d %d\n", (int)qt, (int)qc);
  }
  for (i = 0; i < n; i++) dump_rr(k, ares_dns_record_rr_get_const(rec, ARES_SECTION_ANSWER, i));
  if (keep) *keep = rec; else ares_dns_record_destroy(rec);
  return st;
}

static void dump_record(long k, const unsigned char *msg, size_t len)
{
  dump_record_keep(k, msg, len, NULL);
}

/* case "<mode>,<x>,<hex header+question>|<unit>;..." -> message bytes (exact-size malloc) */
static unsigned char *assemble_case(char *head, char *body, size_t *out_len, int *mode_out, int *num_out)
{
  char          *c1, *c2, *u, *save = NULL;
  unsigned char *msg, *exact;
  size_t         len = 0, cap;
  int            an = 0, ns = 0, ar = 0;
  c1 = strchr(head, ',');
  c2 = c1 ? strchr(c1 + 1, ',') : NULL;
  if (!c1 || !c2) return NULL;
  *mode_out = head[0];
  *num_out  = atoi(c1 + 1);
  cap       = strlen(c2 + 1) / 2 + strlen(body) / 2 + 16;
  msg       = malloc(cap);
  len       = unhex(c2 + 1, strlen(c2 + 1), msg);
  for (u = strtok_r(body, ";", &save); u; u = strtok_r(NULL, ";", &save)) {
    if (u[0] == 'n' && u[1] == ':') { ns++; u += 2; }
    else if (u[0] == 'r' && u[1] == ':') { ar++; u += 2; }
    else an++;
    len += unhex(u, strlen(u), msg + len);
  }
  if (*mode_out == 'A' && len >= 12) {
    msg[6] = (unsigned char)(an >> 8); msg[7] = (unsigned char)an;
    msg[8] = (unsigned char)(ns >> 8); msg[9] = (unsigned char)ns;
    msg[10] = (unsigned char)(ar >> 8); msg[11] = (unsigned char)ar;
  }
  exact = malloc(len ? len : 1);   /* exact size so that ASan sees any read past the message */
  memcpy(exact, msg, len);
  free(msg);
  *out_len = len;
  return exact;
}
#endif
