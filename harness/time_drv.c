/* Implementation-side driver of the "time" engine (C06 / C07).
 *
 * Component cases call the real functions directly:
 *   td|ns,nu,cs,cu                     ares_timedout(now, check)
 *   rem|ns,nu,ts,tu                    ares_timeval_remaining(&r, now, tout)
 *   diff|ss,su,es,eu                   ares_timeval_diff(&d, start, stop)
 *   tmo|ns,nu;M;d1s,d1u;...            ares_timeout() on a real channel whose
 *                                      queries_by_timeout holds queries with the given
 *                                      deadlines (M = "-" or "ms,mu")
 *   met|timeout,maxtimeout|op;op..     ares_metrics_record / ares_metrics_server_timeout on a
 *                                      fabricated server; op = r,qs,qu,ns,nu,status,rcode | q,ns,nu
 *   pt|S,tries,timeout,maxtimeout[,16]|s1,u1;s2,u2;...|ps,pu     (16 = usevc: one shared TCP connection)
 *                                      queries sent at the given instants to silent servers, then
 *                                      one ares_process_fd() at instant p: which were re-sent / ended
 * Channel cases drive one query through a real channel with virtual sockets, a virtual clock
 * (--wrap=ares_tvnow) and a scripted RNG (--wrap=ares_rand_bytes, ares_generate_new_id):
 *   retry|S,tries,timeout,maxtimeout,jmode,flags,t0|a;a;...
 *     flags: 1 rotate, 2 stayopen, 4 nocheckresp, 8 igntc, 16 usevc, 32 noedns, 64 noretry(probe style)
 *     actions (default when the script is exhausted: t)
 *       t      wait exactly the hint of ares_timeout(), then process
 *       e      process 1us before the hint expires (nothing may happen), then as t
 *       l<ms>  wait the hint plus <ms> milliseconds, then process
 *       (R and X do not advance the clock: the deadline of the attempt cannot pass meanwhile)
 *       R<k><n> deliver n (default 1) copies of a reply of kind k on the connection of the last
 *              transmission: a answer, x nxdomain, s servfail, n notimp, r refused, c truncated,
 *              f formerr without OPT, F formerr with OPT, b badcookie, z 0-byte datagram,
 *              k / K badcookie carrying a server cookie that changes with every reply / is fixed,
 *              g 5 bytes of garbage, G a reply cut to 14 bytes (neither parses)
 *       B<kinds> one message per letter queued on that connection, then ONE read (e.g. Bsg)
 *       X      read error (ECONNRESET) on the connection of the last transmission
 *       o<n>   the next n socket opens fail        w<n>  the next n sends fail (ECONNREFUSED)
 *       S<n>   replace the server list by n servers
 *       V<n>   replace the server list by the single server number n (flapping between disjoint lists)
 * Output per case: "<k> <line>" (see print sites); never pointers, fds or wall-clock values.
 */
#include "ares_private.h"
#include "drv_common.h"
#include <errno.h>
#include <limits.h>

/* ------------------------------------------------------------------ virtual clock / RNG */
static ares_timeval_t vnow;
void __wrap_ares_tvnow(ares_timeval_t *now)
{
  *now = vnow;
}

static unsigned long long rng_state = 1;
static int                jmode     = 2; /* 0: jitter r = 0, 1: r = 0xffff, 2: pseudo random */
static unsigned int       rng_next(void)
{
  rng_state = rng_state * 6364136223846793005ULL + 1442695040888963407ULL;
  return (unsigned int)(rng_state >> 33);
}
void __wrap_ares_rand_bytes(ares_rand_state *state, unsigned char *buf, size_t len)
{
  size_t i;
  (void)state;
  if (len == 2 && jmode != 2) { /* the jitter draw (and the probe draw) */
    buf[0] = buf[1] = jmode ? 0xff : 0;
    return;
  }
  for (i = 0; i < len; i++) {
    buf[i] = (unsigned char)(rng_next() & 0xff);
  }
}
static unsigned short idctr = 0;
unsigned short __wrap_ares_generate_new_id(ares_rand_state *state)
{
  (void)state;
  idctr = (unsigned short)(idctr + 7);
  if (idctr == 0) idctr = 7;
  return idctr;
}

static long K; /* current case */
#define OUT(...) do { printf("%ld ", K); printf(__VA_ARGS__); printf("\n"); } while (0)

/* ------------------------------------------------------------------ small parsers */
static int split(char *s, char sep, char **out, int max)
{
  int n = 0;
  if (*s == 0) return 0;
  out[n++] = s;
  while (*s && n < max) {
    if (*s == sep) { *s = 0; out[n++] = s + 1; }
    s++;
  }
  return n;
}
static long long num(const char *s)
{
  return strtoll(s, NULL, 10);
}
static int tvparse(char *s, ares_timeval_t *tv)
{
  char *f[2];
  if (split(s, ',', f, 2) != 2) return 0;
  tv->sec  = num(f[0]);
  tv->usec = (unsigned int)strtoull(f[1], NULL, 10);
  return 1;
}

/* ------------------------------------------------------------------ component cases */
static void case_direct(const char *kind, char *args)
{
  char          *f[4];
  ares_timeval_t a, b, r;
  if (split(args, ',', f, 4) != 4) { OUT("R BADCASE"); return; }
  a.sec = num(f[0]); a.usec = (unsigned int)strtoull(f[1], NULL, 10);
  b.sec = num(f[2]); b.usec = (unsigned int)strtoull(f[3], NULL, 10);
  if (strcmp(kind, "td") == 0) {
    OUT("R %d", ares_timedout(&a, &b) ? 1 : 0);
  } else if (strcmp(kind, "rem") == 0) {
    ares_timeval_remaining(&r, &a, &b);
    OUT("R %lld %u", (long long)r.sec, r.usec);
  } else {
    ares_timeval_diff(&r, &a, &b);
    OUT("R %lld %u", (long long)r.sec, r.usec);
  }
}

/* ------------------------------------------------------------------ virtual sockets */
#define MAXFD 4096
#define FD0   100
typedef struct {
  int            used, tcp, closed, server, connected;
  unsigned char *rx;   /* pending inbound bytes: datagrams are stored length-prefixed */
  size_t         rxlen;
  int            rxerr; /* next read fails with this errno */
  unsigned char  last[600]; /* last query sent on this socket (without length prefix) */
  size_t         lastlen;
} vsock_t;
static vsock_t vs[MAXFD];
static int     nfd;
static int     open_fail, send_fail;
static int     ntx;         /* transmissions of the case */
static int     lastfd = -1; /* socket of the last transmission */
static int     nservers_addr_base = 1;

static void vs_reset(void)
{
  int i;
  for (i = 0; i < nfd; i++) free(vs[i].rx);
  memset(vs, 0, sizeof(vs));
  nfd = 0; open_fail = send_fail = 0; ntx = 0; lastfd = -1;
}
static ares_socket_t v_socket(int domain, int type, int protocol, void *ud)
{
  (void)domain; (void)protocol; (void)ud;
  if (open_fail > 0) { open_fail--; errno = ECONNREFUSED; OUT("OPENFAIL"); return ARES_SOCKET_BAD; }
  if (nfd >= MAXFD) { errno = EMFILE; return ARES_SOCKET_BAD; }
  vs[nfd].used = 1;
  vs[nfd].tcp  = (type == SOCK_STREAM);
  vs[nfd].server = -1;
  return FD0 + nfd++;
}
static int v_close(ares_socket_t s, void *ud)
{
  (void)ud;
  if (s >= FD0 && s < FD0 + nfd) vs[s - FD0].closed = 1;
  return 0;
}
static int v_setsockopt(ares_socket_t s, ares_socket_opt_t opt, const void *val, ares_socklen_t len, void *ud)
{
  (void)s; (void)opt; (void)val; (void)len; (void)ud;
  errno = ENOSYS;
  return -1;
}
static int v_connect(ares_socket_t s, const struct sockaddr *a, ares_socklen_t alen, unsigned int flags, void *ud)
{
  const struct sockaddr_in *sin = (const struct sockaddr_in *)(const void *)a;
  (void)alen; (void)flags; (void)ud;
  if (s < FD0 || s >= FD0 + nfd) { errno = EBADF; return -1; }
  /* servers are 10.0.0.<i+1> */
  vs[s - FD0].server = (int)(ntohl(sin->sin_addr.s_addr) & 0xff) - nservers_addr_base;
  return 0;
}
static ares_ssize_t v_recvfrom(ares_socket_t s, void *buf, size_t len, int flags, struct sockaddr *from,
                               ares_socklen_t *fromlen, void *ud)
{
  vsock_t *v;
  size_t   n;
  (void)flags; (void)ud;
  if (s < FD0 || s >= FD0 + nfd) { errno = EBADF; return -1; }
  v = &vs[s - FD0];
  if (v->rxerr) { errno = v->rxerr; v->rxerr = 0; return -1; }
  if (v->rxlen == 0) { errno = EWOULDBLOCK; return -1; }
  if (v->tcp) {
    n = v->rxlen < len ? v->rxlen : len;
    memcpy(buf, v->rx, n);
    memmove(v->rx, v->rx + n, v->rxlen - n);
    v->rxlen -= n;
  } else {
    size_t dl = (size_t)((v->rx[0] << 8) | v->rx[1]);
    n = dl < len ? dl : len;
    memcpy(buf, v->rx + 2, n);
    memmove(v->rx, v->rx + 2 + dl, v->rxlen - 2 - dl);
    v->rxlen -= 2 + dl;
    if (from != NULL && fromlen != NULL && *fromlen >= (ares_socklen_t)sizeof(struct sockaddr_in)) {
      struct sockaddr_in sin;
      memset(&sin, 0, sizeof(sin));
      sin.sin_family      = AF_INET;
      sin.sin_port        = htons(53);
      sin.sin_addr.s_addr = htonl(0x0a000000u | (unsigned int)(v->server + nservers_addr_base));
      memcpy(from, &sin, sizeof(sin));
      *fromlen = sizeof(sin);
    }
  }
  return (ares_ssize_t)n;
}
static void log_tx(vsock_t *v, const unsigned char *q, size_t qlen, int fd)
{
  ntx++;
  lastfd = fd;
  if (qlen <= sizeof(v->last)) { memcpy(v->last, q, qlen); v->lastlen = qlen; }
  {
    /* does the query carry an OPT RR, and a cookie option in it? */
    int    opt = 0, cookie = 0;
    size_t qend = 12;
    while (qend < qlen && q[qend] != 0) qend += (size_t)q[qend] + 1;
    qend += 5;
    if (qlen >= 12 && ((q[10] << 8) | q[11]) > 0 && qend + 11 <= qlen && q[qend] == 0 && q[qend + 1] == 0 &&
        q[qend + 2] == 41) {
      size_t rdlen = (size_t)((q[qend + 9] << 8) | q[qend + 10]);
      opt          = 1;
      if (rdlen >= 4 && qend + 11 + 4 <= qlen && ((q[qend + 11] << 8) | q[qend + 12]) == 10) cookie = 1;
    }
    OUT("T %lld %u %d %d %u %d %d", (long long)vnow.sec, vnow.usec, v->server, v->tcp,
        qlen >= 2 ? (unsigned int)((q[0] << 8) | q[1]) : 0u, opt, cookie);
  }
}
static ares_ssize_t v_sendto(ares_socket_t s, const void *buf, size_t len, int flags, const struct sockaddr *to,
                             ares_socklen_t tolen, void *ud)
{
  vsock_t             *v;
  const unsigned char *p = buf;
  (void)flags; (void)to; (void)tolen; (void)ud;
  if (s < FD0 || s >= FD0 + nfd) { errno = EBADF; return -1; }
  v = &vs[s - FD0];
  /* scripted send failures hit datagram sockets only: a failed write on a stream happens
     after ares_send_query has already accepted the query (it is a connection error then) */
  if (send_fail > 0 && !v->tcp) { send_fail--; errno = ECONNREFUSED; OUT("SENDFAIL %d", v->tcp); return -1; }
  if (!v->tcp) {
    log_tx(v, p, len, (int)s);
  } else {
    size_t off = 0;
    while (off + 2 <= len) {
      size_t fl = (size_t)((p[off] << 8) | p[off + 1]);
      if (off + 2 + fl > len) break;
      log_tx(v, p + off + 2, fl, (int)s);
      off += 2 + fl;
    }
  }
  return (ares_ssize_t)len;
}
static int v_getsockname(ares_socket_t s, struct sockaddr *a, ares_socklen_t *alen, void *ud)
{
  struct sockaddr_in sin;
  (void)ud;
  if (*alen < (ares_socklen_t)sizeof(sin)) { errno = EINVAL; return -1; }
  memset(&sin, 0, sizeof(sin));
  sin.sin_family      = AF_INET;
  sin.sin_port        = htons((unsigned short)(40000 + (s - FD0)));
  sin.sin_addr.s_addr = htonl(0x0a0000fe);
  memcpy(a, &sin, sizeof(sin));
  *alen = sizeof(sin);
  return 0;
}
static const struct ares_socket_functions_ex vfuncs = {
  1, ARES_SOCKFUNC_FLAG_NONBLOCKING, v_socket, v_close, v_setsockopt, v_connect, v_recvfrom, v_sendto,
  v_getsockname, NULL, NULL, NULL
};

/* ------------------------------------------------------------------ channel helpers */
static int  cb_called, cb_status;
static size_t cb_timeouts;
static void q_cb(void *arg, ares_status_t status, size_t timeouts, const ares_dns_record_t *rec)
{
  (void)rec;
  cb_called++;
  cb_status   = (int)status;
  cb_timeouts = timeouts;
  OUT("CB %d %lu %lld %u %ld", (int)status, (unsigned long)timeouts, (long long)vnow.sec, vnow.usec, (long)(size_t)arg);
}

static void servers_csv(int n, char *out, size_t outlen)
{
  int i;
  out[0] = 0;
  for (i = 0; i < n; i++) {
    char one[32];
    snprintf(one, sizeof(one), "%s10.0.0.%d:53", i ? "," : "", i + nservers_addr_base);
    strncat(out, one, outlen - strlen(out) - 1);
  }
}

static ares_channel_t *mk_channel(int nserv, long long tries, long long timeout, long long maxtimeout, int flags)
{
  struct ares_options opts;
  int                 optmask = 0;
  ares_channel_t     *ch      = NULL;
  char                csv[512];
  static char         lookups[] = "b";
  memset(&opts, 0, sizeof(opts));
  opts.flags = ARES_FLAG_EDNS;
  if (flags & 2) opts.flags |= ARES_FLAG_STAYOPEN;
  if (flags & 4) opts.flags |= ARES_FLAG_NOCHECKRESP;
  if (flags & 8) opts.flags |= ARES_FLAG_IGNTC;
  if (flags & 16) opts.flags |= ARES_FLAG_USEVC;
  if (flags & 32) opts.flags &= ~ARES_FLAG_EDNS;
  optmask |= ARES_OPT_FLAGS;
  opts.timeout = (int)timeout;       optmask |= ARES_OPT_TIMEOUTMS;
  opts.tries   = (int)tries;         optmask |= ARES_OPT_TRIES;
  opts.maxtimeout = (int)maxtimeout; optmask |= ARES_OPT_MAXTIMEOUTMS;
  opts.ndots   = 1;                  optmask |= ARES_OPT_NDOTS;
  opts.lookups = lookups;            optmask |= ARES_OPT_LOOKUPS;
  opts.ndomains = 0;                 optmask |= ARES_OPT_DOMAINS;
  opts.qcache_max_ttl = 0;           optmask |= ARES_OPT_QUERY_CACHE;
  optmask |= (flags & 1) ? ARES_OPT_ROTATE : ARES_OPT_NOROTATE;
  if (ares_init_options(&ch, &opts, optmask) != ARES_SUCCESS) return NULL;
  ares_set_socket_functions_ex(ch, &vfuncs, NULL);
  servers_csv(nserv, csv, sizeof(csv));
  if (ares_set_servers_ports_csv(ch, csv) != ARES_SUCCESS) { ares_destroy(ch); return NULL; }
  return ch;
}

/* ------------------------------------------------------------------ tmo: ares_timeout on fabricated deadlines */
static void case_tmo(char *args)
{
  char           *u[260];
  int             n = split(args, ';', u, 260), i, nq;
  ares_channel_t *ch;
  ares_query_t   *qs;
  struct timeval  maxtv, tvbuf, *rv, *mp = NULL;
  ares_slist_node_t *node;
  if (n < 2 || !tvparse(u[0], &vnow)) { OUT("R BADCASE"); return; }
  if (strcmp(u[1], "-") != 0) {
    ares_timeval_t m;
    if (!tvparse(u[1], &m)) { OUT("R BADCASE"); return; }
    maxtv.tv_sec = (time_t)m.sec; maxtv.tv_usec = (suseconds_t)m.usec; mp = &maxtv;
  }
  vs_reset();
  ch = mk_channel(1, 1, 1000, 0, 0);
  if (!ch) { OUT("R NOCHANNEL"); return; }
  nq = n - 2;
  qs = calloc((size_t)(nq ? nq : 1), sizeof(*qs));
  for (i = 0; i < nq; i++) {
    if (!tvparse(u[i + 2], &qs[i].timeout)) { OUT("R BADCASE"); nq = i; break; }
    qs[i].channel = ch;
    qs[i].node_queries_by_timeout = ares_slist_insert(ch->queries_by_timeout, &qs[i]);
  }
  memset(&tvbuf, 0, sizeof(tvbuf));
  rv = ares_timeout(ch, mp, &tvbuf);
  if (rv == NULL) OUT("R N");
  else OUT("R %c %lld %lld", rv == mp ? 'M' : 'B', (long long)rv->tv_sec, (long long)rv->tv_usec);
  /* order of the deadline index (ties the comparator) */
  printf("%ld O", K);
  for (node = ares_slist_node_first(ch->queries_by_timeout); node != NULL; node = ares_slist_node_next(node)) {
    const ares_query_t *q = ares_slist_node_val(node);
    printf(" %lld,%u", (long long)q->timeout.sec, q->timeout.usec);
  }
  printf("\n");
  for (i = 0; i < nq; i++) ares_slist_node_destroy(qs[i].node_queries_by_timeout);
  free(qs);
  ares_destroy(ch);
}

/* ------------------------------------------------------------------ met: metrics on a fabricated server */
static void case_met(char *args)
{
  char              *parts[2], *cfg[2], *ops[600];
  int                nops, i;
  ares_channel_t     fake_channel;
  ares_server_t      srv;
  ares_dns_record_t *rec = NULL;
  if (split(args, '|', parts, 2) != 2 || split(parts[0], ',', cfg, 2) != 2) { OUT("R BADCASE"); return; }
  memset(&fake_channel, 0, sizeof(fake_channel));
  memset(&srv, 0, sizeof(srv));
  fake_channel.timeout    = (size_t)num(cfg[0]);
  fake_channel.maxtimeout = (size_t)num(cfg[1]);
  srv.channel             = &fake_channel;
  nops = split(parts[1], ';', ops, 600);
  printf("%ld R", K);
  for (i = 0; i < nops; i++) {
    char *f[8];
    int   nf = split(ops[i], ',', f, 8);
    if (nf == 3 && f[0][0] == 'q') {
      ares_timeval_t now;
      now.sec = num(f[1]); now.usec = (unsigned int)num(f[2]);
      printf(" %lu", (unsigned long)ares_metrics_server_timeout(&srv, &now));
    } else if (nf == 7 && f[0][0] == 'r') {
      ares_query_t q;
      memset(&q, 0, sizeof(q));
      q.ts.sec = num(f[1]); q.ts.usec = (unsigned int)num(f[2]);
      vnow.sec = num(f[3]); vnow.usec = (unsigned int)num(f[4]);
      if (ares_dns_record_create(&rec, 1, ARES_FLAG_QR, ARES_OPCODE_QUERY, (ares_dns_rcode_t)num(f[6])) != ARES_SUCCESS) {
        printf(" NOMEM");
        continue;
      }
      ares_metrics_record(&q, &srv, (ares_status_t)num(f[5]), rec);
      ares_dns_record_destroy(rec);
      rec = NULL;
    } else {
      printf(" BADOP");
    }
  }
  printf("\n");
  printf("%ld B", K);
  for (i = 0; i < ARES_METRIC_COUNT; i++) {
    const ares_server_metrics_t *m = &srv.metrics[i];
    printf(" %lld,%u,%u,%llu,%llu,%lld,%llu,%llu", (long long)m->ts, m->latency_min_ms, m->latency_max_ms,
           (unsigned long long)m->total_ms, (unsigned long long)m->total_count, (long long)m->prev_ts,
           (unsigned long long)m->prev_total_ms, (unsigned long long)m->prev_total_count);
  }
  printf("\n");
}

/* ------------------------------------------------------------------ retry: one query through a real channel */
static void tv_add_us(ares_timeval_t *t, long long us)
{
  long long u = (long long)t->usec + us % 1000000;
  t->sec += us / 1000000;
  if (u >= 1000000) { t->sec += 1; u -= 1000000; }
  if (u < 0) { t->sec -= 1; u += 1000000; }
  t->usec = (unsigned int)u;
}
static void tv_add_tv(ares_timeval_t *t, const struct timeval *d)
{
  t->sec += (ares_int64_t)d->tv_sec;
  tv_add_us(t, (long long)d->tv_usec);
}

/* signal writability of not yet connected TCP sockets (connect completes immediately) */
static void pump_tcp(ares_channel_t *ch)
{
  int i, again = 1, guard = 0;
  while (again && guard++ < 8) {
    again = 0;
    for (i = 0; i < nfd; i++) {
      if (vs[i].used && vs[i].tcp && !vs[i].closed && !vs[i].connected) {
        vs[i].connected = 1;
        again           = 1;
        ares_process_fd(ch, ARES_SOCKET_BAD, FD0 + i);
      }
    }
  }
}

/* reply built from the last query sent on socket fd */
static size_t build_reply(const vsock_t *v, char kind, unsigned char *out)
{
  size_t qend, n = v->lastlen;
  int    rcode = 0, tc = 0, strip = 0;
  if (n < 12) return 0;
  memcpy(out, v->last, n);
  /* end of the question section: name + qtype + qclass */
  qend = 12;
  while (qend < n && out[qend] != 0) qend += (size_t)out[qend] + 1;
  qend += 5;
  if (qend > n) return 0;
  switch (kind) {
    case 'a': rcode = 0; break;
    case 'x': rcode = 3; break;
    case 's': rcode = 2; break;
    case 'n': rcode = 4; break;
    case 'r': rcode = 5; break;
    case 'c': tc = 1; break;
    case 'f': rcode = 1; strip = 1; break;
    case 'F': rcode = 1; break;
    case 'b': rcode = 23; break;
    case 'k': case 'K': rcode = 23; break;
    default: break;
  }
  out[2] = (unsigned char)(0x80 | (out[2] & 0x01) | (tc ? 0x02 : 0)); /* QR, keep RD, TC */
  out[3] = (unsigned char)(0x80 | (rcode & 0x0f));                      /* RA + low rcode bits */
  if (strip) {
    out[10] = out[11] = 0; /* ARCOUNT = 0 */
    n = qend;
  } else if (rcode > 15 && n >= qend + 11) {
    /* extended rcode lives in the OPT TTL's first byte: OPT RR = 00 00 29 cls(2) ttl(4) rdlen(2) */
    size_t opt = qend;
    if (out[opt] == 0 && out[opt + 1] == 0 && out[opt + 2] == 41) {
      out[opt + 5] = (unsigned char)(rcode >> 4);
      out[3]       = (unsigned char)(0x80 | (rcode & 0x0f));
      if ((kind == 'k' || kind == 'K') && n >= opt + 11) {
        /* BADCOOKIE with a SERVER cookie: the client cookie of the query (if it has one) echoed,
           followed by 8 bytes that are fixed ('K') or different on every reply ('k') */
        static unsigned int fresh = 0;
        size_t        rdlen = (size_t)((out[opt + 9] << 8) | out[opt + 10]);
        unsigned char client[8];
        int           i;
        memset(client, 0, sizeof(client));
        if (rdlen >= 12 && opt + 11 + 12 <= n && ((out[opt + 11] << 8) | out[opt + 12]) == 10) {
          memcpy(client, out + opt + 15, 8);
        }
        if (kind == 'k') fresh++;
        out[opt + 9]  = 0;
        out[opt + 10] = 20;
        out[opt + 11] = 0; out[opt + 12] = 10; out[opt + 13] = 0; out[opt + 14] = 16;
        memcpy(out + opt + 15, client, 8);
        for (i = 0; i < 8; i++) {
          out[opt + 23 + i] = (kind == 'K') ? (unsigned char)(0xA0 + i) : (unsigned char)((fresh >> (8 * (i & 3))) & 0xff);
        }
        out[opt + 23] |= 0x01; /* never all zero */
        n = opt + 31;
      }
    }
  }
  return n;
}
static void inject(int fd, char kind, int copies)
{
  vsock_t      *v;
  unsigned char msg[700];
  size_t        n;
  int           i;
  if (fd < FD0 || fd >= FD0 + nfd) return;
  v = &vs[fd - FD0];
  if (kind == 'g') {            /* 5 bytes: not even a DNS header */
    memcpy(msg, "\x12\x34\x81\x80\x00", 5);
    n = 5;
  } else if (kind == 'G') {     /* a reply to the last query cut in the middle of the question */
    n = build_reply(v, 'a', msg);
    if (n > 14) n = 14;
  } else {
    n = (kind == 'z') ? 0 : build_reply(v, kind, msg);
  }
  if (kind != 'z' && n == 0) { OUT("E noreply"); return; }
  for (i = 0; i < copies; i++) {
    v->rx = realloc(v->rx, v->rxlen + n + 2);
    v->rx[v->rxlen]     = (unsigned char)(n >> 8);
    v->rx[v->rxlen + 1] = (unsigned char)(n & 0xff);
    memcpy(v->rx + v->rxlen + 2, msg, n);
    v->rxlen += n + 2;
  }
}

static ares_int64_t t0_sec;
static int          had_reply;

static void case_retry(char *args)
{
  char              *parts[2], *cfg[8], *acts[2100];
  int                nacts = 0, ai = 0, S, flags, iter = 0, maxiter;
  long long          tries, timeout, maxtimeout;
  ares_channel_t    *ch;
  ares_dns_record_t *rec = NULL;
  unsigned short     qid = 0;
  ares_status_t      st;
  int                np = split(args, '|', parts, 2);
  if (np < 1 || split(parts[0], ',', cfg, 8) != 7) { OUT("R BADCASE"); return; }
  if (np == 2) nacts = split(parts[1], ';', acts, 2100);
  S = (int)num(cfg[0]); tries = num(cfg[1]); timeout = num(cfg[2]); maxtimeout = num(cfg[3]);
  jmode = (int)num(cfg[4]); flags = (int)num(cfg[5]);
  vnow.sec = num(cfg[6]); vnow.usec = 0;
  t0_sec = vnow.sec; had_reply = 0;
  rng_state = (unsigned long long)(K * 2654435761u + 12345);
  idctr = 0;
  vs_reset();
  cb_called = 0;
  if (S < 1 || S > 200) { OUT("R BADCASE"); return; }
  ch = mk_channel(S, tries, timeout, maxtimeout, flags);
  if (!ch) { OUT("R NOCHANNEL"); return; }
  OUT("CFG %lu %lu %lu %lu", (unsigned long)ares_slist_len(ch->servers), (unsigned long)ch->tries,
      (unsigned long)ch->timeout, (unsigned long)ch->maxtimeout);
  if (ares_dns_record_create(&rec, 0, ARES_FLAG_RD, ARES_OPCODE_QUERY, ARES_RCODE_NOERROR) != ARES_SUCCESS ||
      ares_dns_record_query_add(rec, "a.example", ARES_REC_TYPE_A, ARES_CLASS_IN) != ARES_SUCCESS) {
    OUT("R NOMEM"); ares_destroy(ch); return;
  }
  if (!(flags & 32)) {
    ares_dns_rr_t *rr = NULL;
    if (ares_dns_record_rr_add(&rr, rec, ARES_SECTION_ADDITIONAL, "", ARES_REC_TYPE_OPT, ARES_CLASS_IN, 0) == ARES_SUCCESS) {
      ares_dns_rr_set_u16(rr, ARES_RR_OPT_UDP_SIZE, 1232);
      ares_dns_rr_set_u8(rr, ARES_RR_OPT_VERSION, 0);
      ares_dns_rr_set_u16(rr, ARES_RR_OPT_FLAGS, 0);
    }
  }
  if (flags & 64) {
    ares_channel_lock(ch);
    st = ares_send_nolock(ch, NULL, ARES_SEND_FLAG_NOCACHE | ARES_SEND_FLAG_NORETRY, rec, q_cb, NULL, &qid);
    ares_channel_unlock(ch);
  } else {
    st = ares_send_dnsrec(ch, rec, q_cb, NULL, &qid);
  }
  ares_dns_record_destroy(rec);
  OUT("SEND %d", (int)st);
  pump_tcp(ch);
  maxiter = (int)(S * (tries > 400 ? 400 : tries)) + nacts + 64;
  while (!cb_called && iter++ < maxiter) {
    struct timeval tvbuf, *tv;
    /* the theorems are stated for clock values below 2^61 s; saturated waits (2^63-1 ms each)
       would take the virtual clock beyond that after a few hundred attempts: stop there */
    if (vnow.sec >= ((ares_int64_t)1 << 61)) { OUT("CLOCKRANGE"); break; }
    /* once a reply has been processed the per-server cookie record carries timestamps, and
       ares_cookie.c:timeval_expired() computes the elapsed time in milliseconds in an int64:
       more than 2^63/1000 s (292 million years) of virtual time after that overflows there.
       Not a situation a real clock can produce: stop short of it (2^52 s) */
    if (had_reply && vnow.sec - t0_sec >= ((ares_int64_t)1 << 52)) { OUT("CLOCKRANGE"); break; }
    const char    *a = (ai < nacts) ? acts[ai++] : "t";
    if (a[0] == 't' || a[0] == 'e' || a[0] == 'l') {
      tv = ares_timeout(ch, NULL, &tvbuf);
      if (tv == NULL) { OUT("H none"); break; }
      OUT("H %lld %lld", (long long)tv->tv_sec, (long long)tv->tv_usec);
      if (a[0] == 'e' && (tv->tv_sec > 0 || tv->tv_usec > 0)) {
        int before = ntx;
        tv_add_tv(&vnow, tv);
        tv_add_us(&vnow, -1);
        ares_process_fd(ch, ARES_SOCKET_BAD, ARES_SOCKET_BAD);
        OUT("EARLY %d %d", ntx - before, cb_called);
        tv = ares_timeout(ch, NULL, &tvbuf);
        if (tv == NULL) { OUT("H none"); break; }
        OUT("H %lld %lld", (long long)tv->tv_sec, (long long)tv->tv_usec);
      }
      tv_add_tv(&vnow, tv);
      if (a[0] == 'l') tv_add_us(&vnow, num(a + 1) * 1000);
      OUT("E timeout");
      ares_process_fd(ch, ARES_SOCKET_BAD, ARES_SOCKET_BAD);
    } else if (a[0] == 'R') {
      int copies = a[2] ? (int)num(a + 2) : 1;
      if (copies < 1) copies = 1;
      if (copies > 500) copies = 500;
      had_reply = 1;
      OUT("E reply %c %d %d", a[1], copies, (lastfd >= FD0) ? vs[lastfd - FD0].tcp : -1);
      if (lastfd >= FD0 && !vs[lastfd - FD0].closed) {
        inject(lastfd, a[1], copies);
        ares_process_fd(ch, lastfd, ARES_SOCKET_BAD);
      }
    } else if (a[0] == 'B') {
      /* several messages of the given kinds queued on the connection, ONE read */
      const char *p;
      had_reply = 1;
      OUT("E batch %s %d", a + 1, (lastfd >= FD0) ? vs[lastfd - FD0].tcp : -1);
      if (lastfd >= FD0 && !vs[lastfd - FD0].closed) {
        int fd = lastfd;
        for (p = a + 1; *p; p++) inject(fd, *p, 1);
        ares_process_fd(ch, fd, ARES_SOCKET_BAD);
      }
    } else if (a[0] == 'X') {
      OUT("E connerr %d", (lastfd >= FD0) ? vs[lastfd - FD0].tcp : -1);
      if (lastfd >= FD0 && !vs[lastfd - FD0].closed) {
        vs[lastfd - FD0].rxerr = ECONNRESET;
        ares_process_fd(ch, lastfd, ARES_SOCKET_BAD);
      }
    } else if (a[0] == 'o') {
      open_fail = (int)num(a + 1);
      OUT("E openfail %d", open_fail);
    } else if (a[0] == 'w') {
      send_fail = (int)num(a + 1);
      OUT("E sendfail %d", send_fail);
    } else if (a[0] == 'V') {
      /* replace the whole server list by the single server 10.0.0.<n> (a list disjoint from the
         previous one unless n is unchanged): the server the query waits on is removed */
      char one[64];
      int  n = (int)num(a + 1);
      if (n < 1) n = 1;
      if (n > 200) n = 200;
      snprintf(one, sizeof(one), "10.0.0.%d:53", n - 1 + nservers_addr_base);
      OUT("E onlyserver %d", n - 1);
      ares_set_servers_ports_csv(ch, one);
    } else if (a[0] == 'S') {
      char csv[4096];
      int  n = (int)num(a + 1);
      if (n < 0) n = 0;
      if (n > 200) n = 200;
      servers_csv(n, csv, sizeof(csv));
      OUT("E servers %d", n);
      ares_set_servers_ports_csv(ch, n ? csv : NULL);
      if (n > S) { /* more servers: larger retry budget */
        S       = n;
        maxiter = (int)(S * (tries > 400 ? 400 : tries)) + nacts + 64;
      }
    } else {
      OUT("E badaction");
    }
    pump_tcp(ch);
  }
  OUT("END %d %d %lu", ntx, cb_called, (unsigned long)ares_queue_active_queries(ch));
  ares_destroy(ch);
  vs_reset();
}

/* ------------------------------------------------------------------ pt: process_timeouts over several queries */
static void case_pt(char *args)
{
  char           *parts[3], *cfg[5], *sends[300];
  int             n, i, S, ncfg, flags = 32 /* no EDNS: no cookie draws */;
  long long       tries, timeout, maxtimeout;
  ares_channel_t *ch;
  ares_timeval_t  P;
  struct timeval  tvbuf, *tv;
  if (split(args, '|', parts, 3) != 3 || (ncfg = split(parts[0], ',', cfg, 5)) < 4 || !tvparse(parts[2], &P)) { OUT("R BADCASE"); return; }
  if (ncfg == 5) flags |= (int)num(cfg[4]) & 16; /* optional: usevc - all queries share the server's one TCP connection */
  S = (int)num(cfg[0]); tries = num(cfg[1]); timeout = num(cfg[2]); maxtimeout = num(cfg[3]);
  n = split(parts[1], ';', sends, 300);
  jmode = 0; rng_state = (unsigned long long)(K * 2654435761u + 99); idctr = 0;
  vs_reset();
  cb_called = 0;
  ch = mk_channel(S, tries, timeout, maxtimeout, flags);
  if (!ch) { OUT("R NOCHANNEL"); return; }
  OUT("CFG %lu %lu %lu %lu", (unsigned long)ares_slist_len(ch->servers), (unsigned long)ch->tries,
      (unsigned long)ch->timeout, (unsigned long)ch->maxtimeout);
  for (i = 0; i < n; i++) {
    ares_dns_record_t *rec = NULL;
    unsigned short     qid = 0;
    char               name[64];
    if (!tvparse(sends[i], &vnow)) { OUT("R BADCASE"); break; }
    snprintf(name, sizeof(name), "q%d.example", i);
    if (ares_dns_record_create(&rec, 0, ARES_FLAG_RD, ARES_OPCODE_QUERY, ARES_RCODE_NOERROR) != ARES_SUCCESS ||
        ares_dns_record_query_add(rec, name, ARES_REC_TYPE_A, ARES_CLASS_IN) != ARES_SUCCESS) {
      OUT("R NOMEM"); ares_dns_record_destroy(rec); break;
    }
    ares_send_dnsrec(ch, rec, q_cb, (void *)(size_t)i, &qid);
    ares_dns_record_destroy(rec);
    OUT("Q %d %u", i, (unsigned int)qid);
    pump_tcp(ch);
  }
  vnow = P;
  OUT("E process");
  ares_process_fd(ch, ARES_SOCKET_BAD, ARES_SOCKET_BAD);
  pump_tcp(ch);
  tv = ares_timeout(ch, NULL, &tvbuf);
  if (tv == NULL) OUT("H none");
  else OUT("H %lld %lld", (long long)tv->tv_sec, (long long)tv->tv_usec);
  OUT("END %d %d %lu", ntx, cb_called, (unsigned long)ares_queue_active_queries(ch));
  cb_called = 0;
  ares_destroy(ch);
  vs_reset();
}

static void run_case(long k, char *line)
{
  char *bar = strchr(line, '|');
  K = k;
  if (!bar) { OUT("R BADCASE"); return; }
  *bar = 0;
  if (!strcmp(line, "td") || !strcmp(line, "rem") || !strcmp(line, "diff")) case_direct(line, bar + 1);
  else if (!strcmp(line, "tmo")) case_tmo(bar + 1);
  else if (!strcmp(line, "met")) case_met(bar + 1);
  else if (!strcmp(line, "retry")) case_retry(bar + 1);
  else if (!strcmp(line, "pt")) case_pt(bar + 1);
  else OUT("R BADKIND");
}

int main(int argc, char **argv)
{
  int rc;
  ares_library_init(ARES_LIB_INIT_ALL);
  rc = drv_main(argc, argv, run_case);
  ares_library_cleanup();
  return rc;
}
