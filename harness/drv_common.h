/* Common driver scaffolding: case file reading, BEGIN/END protocol (see lib/vlib.py run_impl). */
#ifndef DRV_COMMON_H
#define DRV_COMMON_H
#include <stdio.h>
#include <stdlib.h>
#include <string.h>

typedef void (*drv_case_fn)(long k, char *line);

static int drv_main(int argc, char **argv, drv_case_fn fn)
{
  FILE  *f;
  char  *line = NULL;
  size_t cap  = 0;
  long   k = 0, start = 0, maxcases = -1;
  ssize_t n;
  if (argc < 2) {
    fprintf(stderr, "usage: %s casefile [start]\n", argv[0]);
    return 2;
  }
  if (argc > 2) start = atol(argv[2]);
  if (argc > 3) maxcases = atol(argv[3]);   /* run only this many cases (one process per case) */
  f = fopen(argv[1], "r");
  if (!f) { perror("casefile"); return 2; }
  setvbuf(stdout, NULL, _IOLBF, 0);
  while ((n = getline(&line, &cap, f)) >= 0) {
    while (n > 0 && (line[n - 1] == '\n' || line[n - 1] == '\r')) line[--n] = 0;
    if (k >= start && (maxcases < 0 || k < start + maxcases)) {
      printf("BEGIN %ld\n", k);
      fn(k, line);
      printf("END %ld\n", k);
    }
    k++;
  }
  free(line);
  fclose(f);
  printf("DONE\n");
  return 0;
}
#endif
