/* Implementation-side driver for the DNS cookie engine (C17).
 *
 * Calls the library's internal ares_cookie_apply() / ares_cookie_validate() directly on a
 * fabricated server + connection (no sockets, no event loop).  Link-time wraps:
 *   ares_rand_bytes     -> client-cookie bytes come from the case (choices)
 *   ares_requeue_query  -> records the call (status, inc_try_count) instead of resending
 *
 * case:  ck|step;step;...          (query slots 0..3 exist from the start: OPT, no user cookie)
 *   new q=<i> opt=<0|1> uc=<hex|->                fresh request record in slot i (try count 0)
 *   apply q=<i> tcp=<0|1> ip=<0|4:8hex|6:32hex> t=<sec>.<usec> rnd=<16hex>,<16hex>
 *          (the connection is TCP when tcp=1 OR the query's using_tcp flag is set, as the
 *           caller ares_send_query does)
 *   validate q=<i> t=<sec>.<usec> rcode=<n> c=<->|<+>|<hex>|@<hex>
 *          '-' no OPT RR, '+' OPT without cookie option, hex = literal cookie option value,
 *          @hex = client part copied from the request's cookie option (zeros if none) + hex
 *          A response to a query that awaits its resend (requeued, not yet applied again) is
 *          not matched: prints "I".
 * output, one line per step:  "<k> R <i> A tcp=<effective> st=.. req=<hex|+|-> n=<rand calls> ck=<dump>"
 *                             "<k> R <i> V st=.. rq=<status>,<inc>|- try=<n> tcp=<b> ck=<dump>"
 * Requests and responses are round-tripped through ares_dns_write/ares_dns_parse (as
 * ares_send and the reader do) before the cookie code sees them.
 */
#include "ares_private.h"
#include "drv_common.h"

#define NQ 4

static unsigned char rnd_chunks[4][8];
static int           rnd_used;
static int           rq_called;
static int           rq_status, rq_inc;

void __wrap_ares_rand_bytes(ares_rand_state *state, unsigned char *buf, size_t len)
{
  size_t i;
  (void)state;
  for (i = 0; i < len; i++) {
    buf[i] = (rnd_used < 4 && i < 8) ? rnd_chunks[rnd_used][i] : 0;
  }
  rnd_used++;
}

ares_status_t __wrap_ares_requeue_query(ares_query_t *query, const ares_timeval_t *now, ares_status_t status,
                                        ares_bool_t inc_try_count, const ares_dns_record_t *dnsrec,
                                        ares_array_t **requeue)
{
  (void)query; (void)now; (void)dnsrec; (void)requeue;
  rq_called++;
  rq_status = (int)status;
  rq_inc    = (int)inc_try_count;
  return ARES_SUCCESS;
}

static int hexval(int c)
{
  if (c >= '0' && c <= '9') return c - '0';
  if (c >= 'a' && c <= 'f') return c - 'a' + 10;
  if (c >= 'A' && c <= 'F') return c - 'A' + 10;
  return -1;
}

static size_t unhex(const char *s, unsigned char *out, size_t max)
{
  size_t n = 0;
  while (s[0] && s[1] && hexval(s[0]) >= 0 && hexval(s[1]) >= 0 && n < max) {
    out[n++] = (unsigned char)(hexval(s[0]) * 16 + hexval(s[1]));
    s += 2;
  }
  return n;
}

static void puthex(const unsigned char *p, size_t n)
{
  size_t i;
  for (i = 0; i < n; i++) printf("%02x", p[i]);
}

static const char *field(char *step, const char *key, char *buf, size_t buflen)
{
  /* find " key=" in step, copy value up to next space */
  size_t klen = strlen(key);
  char  *p    = step;
  while ((p = strstr(p, key)) != NULL) {
    if ((p == step || p[-1] == ' ') && p[klen] == '=') {
      size_t i = 0;
      p += klen + 1;
      while (*p && *p != ' ' && i + 1 < buflen) buf[i++] = *p++;
      buf[i] = 0;
      return buf;
    }
    p += klen;
  }
  buf[0] = 0;
  return NULL;
}

static ares_dns_record_t *roundtrip(ares_dns_record_t *rec)
{
  ares_dns_record_t *dup = ares_dns_record_duplicate(rec);
  ares_dns_record_destroy(rec);
  return dup;
}

/* mode: 0 no OPT, 1 OPT without cookie, 2 OPT with cookie */
static ares_dns_record_t *mkrec(int is_resp, unsigned rcode, int mode, const unsigned char *ck, size_t cklen)
{
  ares_dns_record_t *rec = NULL;
  ares_dns_rr_t     *rr  = NULL;
  if (ares_dns_record_create(&rec, 0x1234, (unsigned short)(is_resp ? (ARES_FLAG_QR | ARES_FLAG_RD | ARES_FLAG_RA) : ARES_FLAG_RD),
                             ARES_OPCODE_QUERY, (ares_dns_rcode_t)rcode) != ARES_SUCCESS) return NULL;
  ares_dns_record_query_add(rec, "example.com", ARES_REC_TYPE_A, ARES_CLASS_IN);
  if (mode >= 1) {
    if (ares_dns_record_rr_add(&rr, rec, ARES_SECTION_ADDITIONAL, "", ARES_REC_TYPE_OPT, ARES_CLASS_IN, 0) != ARES_SUCCESS) {
      ares_dns_record_destroy(rec);
      return NULL;
    }
    ares_dns_rr_set_u16(rr, ARES_RR_OPT_UDP_SIZE, 1232);
    ares_dns_rr_set_u8(rr, ARES_RR_OPT_VERSION, 0);
    ares_dns_rr_set_u16(rr, ARES_RR_OPT_FLAGS, 0);
    if (mode == 2) {
      unsigned char dummy = 0;
      ares_dns_rr_set_opt(rr, ARES_RR_OPT_OPTIONS, ARES_OPT_PARAM_COOKIE, ck ? ck : &dummy, cklen);
    }
  }
  return roundtrip(rec);
}

static void print_req_cookie(const ares_dns_record_t *rec)
{
  const ares_dns_rr_t *rr = ares_dns_get_opt_rr_const(rec);
  const unsigned char *val = NULL;
  size_t               len = 0;
  if (rr == NULL) { printf("-"); return; }
  if (!ares_dns_rr_get_opt_byid(rr, ARES_RR_OPT_OPTIONS, ARES_OPT_PARAM_COOKIE, &val, &len) || val == NULL || len == 0) {
    printf("+");
    return;
  }
  puthex(val, len);
}

static void dump_cookie(const ares_cookie_t *c)
{
  printf("ck=%d:", (int)c->state);
  puthex(c->client, 8);
  printf(":%lld.%06u:%d/", (long long)c->client_ts.sec, c->client_ts.usec, c->client_ip.family);
  puthex((const unsigned char *)&c->client_ip.addr, 16);
  printf(":");
  puthex(c->server, 32);
  printf(":%zu:%lld.%06u", c->server_len, (long long)c->unsupported_ts.sec, c->unsupported_ts.usec);
}

static int parse_time(const char *s, ares_timeval_t *tv)
{
  long long sec = 0;
  unsigned  us  = 0;
  if (sscanf(s, "%lld.%u", &sec, &us) < 1) return 0;
  tv->sec  = sec;
  tv->usec = us;
  return 1;
}

static void run_case(long k, char *line)
{
  ares_channel_t *channel;
  ares_server_t  *server;
  ares_conn_t    *conn;
  ares_query_t   *q[NQ];
  int             pending[NQ];
  char           *save = NULL, *step;
  char           *bar = strchr(line, '|');
  int             i, stepno = 0;
  if (!bar) { printf("%ld R BADCASE\n", k); return; }

  channel = calloc(1, sizeof(*channel));
  server  = calloc(1, sizeof(*server));
  conn    = calloc(1, sizeof(*conn));
  server->channel = channel;
  conn->server    = server;
  conn->fd        = ARES_SOCKET_BAD;
  for (i = 0; i < NQ; i++) {
    q[i]          = calloc(1, sizeof(*q[i]));
    q[i]->channel = channel;
    q[i]->query   = mkrec(0, 0, 1, NULL, 0);
    pending[i]    = 1; /* not yet transmitted */
  }

  for (step = strtok_r(bar + 1, ";", &save); step; step = strtok_r(NULL, ";", &save), stepno++) {
    char b1[128], b2[128], b3[128], b4[256], b5[128];
    int  qi;
    if (!field(step, "q", b1, sizeof b1) || (qi = atoi(b1)) < 0 || qi >= NQ) {
      printf("%ld R %d BADOP\n", k, stepno);
      continue;
    }
    if (strncmp(step, "new ", 4) == 0) {
      unsigned char uc[64];
      size_t        n    = 0;
      int           mode = 0;
      if (field(step, "opt", b2, sizeof b2) && atoi(b2)) mode = 1;
      if (mode && field(step, "uc", b3, sizeof b3) && b3[0] != '-') {
        n    = unhex(b3, uc, sizeof uc);
        mode = 2;
      }
      ares_dns_record_destroy(q[qi]->query);
      q[qi]->query            = mkrec(0, 0, mode, uc, n);
      q[qi]->cookie_try_count = 0;
      q[qi]->using_tcp        = ARES_FALSE;
      pending[qi]             = 1;
      printf("%ld R %d N req=", k, stepno);
      print_req_cookie(q[qi]->query);
      printf("\n");
    } else if (strncmp(step, "apply ", 6) == 0) {
      ares_timeval_t now;
      ares_status_t  st;
      int            tcp = 0;
      memset(&now, 0, sizeof now);
      if (field(step, "tcp", b2, sizeof b2)) tcp = atoi(b2);
      if (!field(step, "t", b3, sizeof b3) || !parse_time(b3, &now)) { printf("%ld R %d BADOP\n", k, stepno); continue; }
      memset(&conn->self_ip, 0, sizeof conn->self_ip);
      if (field(step, "ip", b4, sizeof b4)) {
        if (b4[0] == '4' && b4[1] == ':') {
          conn->self_ip.family = AF_INET;
          unhex(b4 + 2, (unsigned char *)&conn->self_ip.addr.addr4, 4);
        } else if (b4[0] == '6' && b4[1] == ':') {
          conn->self_ip.family = AF_INET6;
          unhex(b4 + 2, (unsigned char *)&conn->self_ip.addr.addr6, 16);
        }
      }
      memset(rnd_chunks, 0, sizeof rnd_chunks);
      rnd_used = 0;
      if (field(step, "rnd", b5, sizeof b5)) {
        char *p = b5;
        int   c = 0;
        while (p && *p && c < 4) {
          unhex(p, rnd_chunks[c++], 8);
          p = strchr(p, ',');
          if (p) p++;
        }
      }
      conn->flags = (tcp || q[qi]->using_tcp) ? ARES_CONN_FLAG_TCP : ARES_CONN_FLAG_NONE;
      st          = ares_cookie_apply(q[qi]->query, conn, &now);
      pending[qi] = 0;
      printf("%ld R %d A tcp=%d st=%d req=", k, stepno, (conn->flags & ARES_CONN_FLAG_TCP) ? 1 : 0, (int)st);
      print_req_cookie(q[qi]->query);
      printf(" n=%d ", rnd_used);
      dump_cookie(&server->cookie);
      printf("\n");
    } else if (strncmp(step, "validate ", 9) == 0) {
      ares_timeval_t     now;
      ares_status_t      st;
      unsigned           rcode = 0;
      unsigned char      ck[80];
      size_t             n    = 0;
      int                mode = 0;
      ares_dns_record_t *resp;
      memset(&now, 0, sizeof now);
      if (!field(step, "t", b3, sizeof b3) || !parse_time(b3, &now)) { printf("%ld R %d BADOP\n", k, stepno); continue; }
      if (field(step, "rcode", b2, sizeof b2)) rcode = (unsigned)atoi(b2);
      if (!field(step, "c", b4, sizeof b4)) { printf("%ld R %d BADOP\n", k, stepno); continue; }
      if (pending[qi]) {
        printf("%ld R %d I\n", k, stepno);
        continue;
      }
      if (b4[0] == '-') mode = 0;
      else if (b4[0] == '+') mode = 1;
      else if (b4[0] == '@') {
        const ares_dns_rr_t *rr  = ares_dns_get_opt_rr_const(q[qi]->query);
        const unsigned char *val = NULL;
        size_t               len = 0;
        memset(ck, 0, 8);
        if (rr && ares_dns_rr_get_opt_byid(rr, ARES_RR_OPT_OPTIONS, ARES_OPT_PARAM_COOKIE, &val, &len) && val) {
          memcpy(ck, val, len < 8 ? len : 8);
        }
        n    = 8 + unhex(b4 + 1, ck + 8, sizeof ck - 8);
        mode = 2;
      } else {
        n    = unhex(b4, ck, sizeof ck);
        mode = 2;
      }
      resp = mkrec(1, rcode, mode, ck, n);
      if (resp == NULL) { printf("%ld R %d BADRESP\n", k, stepno); continue; }
      rq_called = 0;
      st        = ares_cookie_validate(q[qi], resp, conn, &now, NULL);
      ares_dns_record_destroy(resp);
      if (rq_called) pending[qi] = 1;
      printf("%ld R %d V st=%d rq=", k, stepno, (int)st);
      if (rq_called == 1) printf("%d,%d", rq_status, rq_inc);
      else if (rq_called == 0) printf("-");
      else printf("x%d", rq_called);
      printf(" try=%zu tcp=%d ", q[qi]->cookie_try_count, q[qi]->using_tcp ? 1 : 0);
      dump_cookie(&server->cookie);
      printf("\n");
    } else {
      printf("%ld R %d BADOP\n", k, stepno);
    }
  }

  for (i = 0; i < NQ; i++) {
    ares_dns_record_destroy(q[i]->query);
    free(q[i]);
  }
  free(conn);
  free(server);
  free(channel);
}

int main(int argc, char **argv)
{
  int rc;
  ares_library_init(ARES_LIB_INIT_ALL);
  rc = drv_main(argc, argv, run_case);
  ares_library_cleanup();
  return rc;
}
