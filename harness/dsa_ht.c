/* Hash-table case kind of the container engine (C19).
 *
 * case:  ht|<mode>;op;op;...
 * modes: g   generic ares_htable_create() with a harness hash = the numeric key itself
 *        gc  generic, constant hash (everything in one bucket)
 *        gm  generic, multiplicative hash
 *        sz  ares_htable_szvp   (size_t keys, seeded FNV1a)
 *        as  ares_htable_asvp   (ares_socket_t keys; has a keys() function)
 *        vv  ares_htable_vpvp   (pointer keys, key and value free callbacks)
 *        vs  ares_htable_vpstr  (pointer keys, string values)
 *        str ares_htable_strvp  (case-insensitive string keys)
 *        dict ares_htable_dict  (case-insensitive string keys, string values)
 *        fnv  no table: h:<seed>:<string> prints ares_htable_hash_FNV1a/_casecmp of the string
 * ops:   i:<k>:<v>        insert                         -> i1 | i1~<freed> | i0
 *        fi:<n>:<k>:<v>   insert, allocation #n (0-based, counted from the call) fails
 *        g:<k>            get                            -> N | <k>=<v> (generic) | <v>
 *        r:<k>            remove                         -> r0 | r1 | r1~<freed>
 *        n                num_keys                       -> n<count>
 *        a                iteration, sorted              -> a[..] | aN   (g*: all_buckets,
 *                         as/dict: keys; sz/vv/vs/str: get of every key of the case -> p[..])
 *        fa               g*: all_buckets with a failing allocation -> aN
 *        fa:<n>           as/dict: keys() with allocation #n failing  -> aN (a[..] if the call
 *                         makes fewer requests)
 *        c:<k>            str: claim                     -> cN | c<v>~<freed>
 * at the end: (sz/vv/vs/str: p[..] probe of every key of the case,) D[<freed by destroy>, sorted]
 * output: "<k> R tok tok ..." and, for the generic modes, a second line
 *         "<k> O <case ops>#<fi verdicts>#<unsorted iteration / destroy order tokens>"
 *         which ocaml/dsa_ht.ml compares with the model run with the same hash function.
 * Freed entries are reported by the free callbacks (generic: key=value, wrappers: the value
 * the val-free callback received).
 */
#include "ares_private.h"
#include "dsa/ares_htable.h"
#include "drv_common.h"
#include "dsa_reg.h"
#include <stdint.h>

/* allocation failures are injected through the driver's allocator (dsa_reg.h):
 * dsa_alloc_fail_at = n makes the n-th request from now fail, once. */
#define ht_fail_countdown dsa_alloc_fail_at

/* ---- token buffers ---- */
#define HT_MAXTOK 4096
static char  *ht_toks[HT_MAXTOK];
static size_t ht_ntoks;
static void   ht_tok_reset(void)
{
  size_t i;
  for (i = 0; i < ht_ntoks; i++) {
    free(ht_toks[i]);
  }
  ht_ntoks = 0;
}
static void ht_tok_add(const char *s)
{
  if (ht_ntoks < HT_MAXTOK) {
    ht_toks[ht_ntoks++] = strdup(s);
  }
}
static int ht_cmp(const void *a, const void *b)
{
  return strcmp(*(char *const *)a, *(char *const *)b);
}
/* prints the collected tokens as [a,b,c] to f or appends to a string buffer */
typedef struct {
  char  *s;
  size_t len, cap;
} ht_sb_t;
static void sb_add(ht_sb_t *sb, const char *s)
{
  size_t n = strlen(s);
  if (sb->len + n + 1 > sb->cap) {
    sb->cap = (sb->len + n + 1) * 2;
    sb->s   = realloc(sb->s, sb->cap);
  }
  memcpy(sb->s + sb->len, s, n + 1);
  sb->len += n;
}
static void ht_tok_emit(ht_sb_t *sb, const char *prefix, int sorted)
{
  size_t i;
  if (sorted) {
    qsort(ht_toks, ht_ntoks, sizeof(*ht_toks), ht_cmp);
  }
  sb_add(sb, prefix);
  sb_add(sb, "[");
  for (i = 0; i < ht_ntoks; i++) {
    if (i) {
      sb_add(sb, ",");
    }
    sb_add(sb, ht_toks[i]);
  }
  sb_add(sb, "]");
}

/* ---- free callbacks record what they were given ---- */
static char ht_freed[64][64];
static int  ht_nfreed;
static int  ht_collect_freed; /* 1: destroy in progress, collect into tokens */
static void ht_note_freed(const char *s)
{
  if (ht_collect_freed) {
    ht_tok_add(s);
  } else if (ht_nfreed < 64) {
    snprintf(ht_freed[ht_nfreed++], 64, "%s", s);
  }
}
static void ht_print_freed(ht_sb_t *sb)
{
  int i;
  for (i = 0; i < ht_nfreed; i++) {
    sb_add(sb, "~");
    sb_add(sb, ht_freed[i]);
  }
  ht_nfreed = 0;
}

/* ---- generic table: entries are {key, val}, allocated by the harness ---- */
typedef struct {
  unsigned long key;
  long          val;
} gent_t;
static unsigned int g_hash_id(const void *key, unsigned int seed)
{
  (void)seed;
  return (unsigned int)*(const unsigned long *)key;
}
static unsigned int g_hash_const(const void *key, unsigned int seed)
{
  (void)key;
  (void)seed;
  return 5;
}
static unsigned int g_hash_mul(const void *key, unsigned int seed)
{
  (void)seed;
  return (unsigned int)(*(const unsigned long *)key * 2654435761UL);
}
static const void *g_bucket_key(const void *b)
{
  return &((const gent_t *)b)->key;
}
static void g_bucket_free(void *b)
{
  char    tmp[64];
  gent_t *e = b;
  snprintf(tmp, sizeof(tmp), "%lu=%ld", e->key, e->val);
  ht_note_freed(tmp);
  free(e);
}
static ares_bool_t g_key_eq(const void *a, const void *b)
{
  return *(const unsigned long *)a == *(const unsigned long *)b ? ARES_TRUE : ARES_FALSE;
}
static void val_free_cb(void *v)
{
  char tmp[64];
  snprintf(tmp, sizeof(tmp), "%ld", (long)(intptr_t)v);
  ht_note_freed(tmp);
}
static void key_free_cb(void *v)
{
  char tmp[64];
  snprintf(tmp, sizeof(tmp), "k%ld", (long)(intptr_t)v);
  ht_note_freed(tmp);
}

/* ---- op parsing: fields separated by ':' ---- */
static int ht_split(char *op, char **f, int max)
{
  int n = 0;
  f[n++] = op;
  while (n < max) {
    char *c = strchr(f[n - 1], ':');
    if (!c) {
      break;
    }
    *c     = 0;
    f[n++] = c + 1;
  }
  return n;
}

enum { M_G, M_SZ, M_AS, M_VV, M_VS, M_STR, M_DICT };

/* distinct keys of the case (for the probe of the tables that cannot be iterated) */
static char  *ht_keys[HT_MAXTOK];
static size_t ht_nkeys;
static void   ht_key_note(const char *k)
{
  size_t i;
  for (i = 0; i < ht_nkeys; i++) {
    if (strcmp(ht_keys[i], k) == 0) {
      return;
    }
  }
  if (ht_nkeys < HT_MAXTOK) {
    ht_keys[ht_nkeys++] = strdup(k);
  }
}

static void run_ht(long k, char *ops)
{
  char   *opscopy = strdup(ops);
  char   *save = NULL, *op;
  int     mode = -1;
  ht_sb_t R = { NULL, 0, 0 }, O = { NULL, 0, 0 }, V = { NULL, 0, 0 };
  ares_htable_t       *g    = NULL;
  ares_htable_szvp_t  *sz   = NULL;
  ares_htable_asvp_t  *as   = NULL;
  ares_htable_vpvp_t  *vv   = NULL;
  ares_htable_vpstr_t *vs   = NULL;
  ares_htable_strvp_t *str  = NULL;
  ares_htable_dict_t  *dict = NULL;
  size_t               i;
  char                 tmp[256];

  ht_tok_reset();
  ht_nfreed        = 0;
  ht_collect_freed = 0;
  for (i = 0; i < ht_nkeys; i++) {
    free(ht_keys[i]);
  }
  ht_nkeys = 0;
  sb_add(&R, "");
  sb_add(&O, "");
  sb_add(&V, "");

  /* first pass: the keys of the case */
  {
    char *c2 = strdup(ops), *s2 = NULL, *o2;
    int   first = 1;
    for (o2 = strtok_r(c2, ";", &s2); o2; o2 = strtok_r(NULL, ";", &s2)) {
      char *f[5];
      int   nf;
      if (first) {
        first = 0;
        continue;
      }
      nf = ht_split(o2, f, 5);
      if ((strcmp(f[0], "i") == 0 && nf == 3) ||
          ((strcmp(f[0], "g") == 0 || strcmp(f[0], "r") == 0 || strcmp(f[0], "c") == 0) &&
           nf == 2)) {
        ht_key_note(f[1]);
      } else if (strcmp(f[0], "fi") == 0 && nf == 4) {
        ht_key_note(f[2]);
      }
    }
    free(c2);
    qsort(ht_keys, ht_nkeys, sizeof(*ht_keys), ht_cmp);
  }

  op = strtok_r(ops, ";", &save);
  if (op == NULL) {
    printf("%ld R BADMODE\n", k);
    goto out;
  }
  if (strcmp(op, "g") == 0) {
    mode = M_G;
    g    = ares_htable_create(g_hash_id, g_bucket_key, g_bucket_free, g_key_eq);
  } else if (strcmp(op, "gc") == 0) {
    mode = M_G;
    g    = ares_htable_create(g_hash_const, g_bucket_key, g_bucket_free, g_key_eq);
  } else if (strcmp(op, "gm") == 0) {
    mode = M_G;
    g    = ares_htable_create(g_hash_mul, g_bucket_key, g_bucket_free, g_key_eq);
  } else if (strcmp(op, "sz") == 0) {
    mode = M_SZ;
    sz   = ares_htable_szvp_create(val_free_cb);
  } else if (strcmp(op, "as") == 0) {
    mode = M_AS;
    as   = ares_htable_asvp_create(val_free_cb);
  } else if (strcmp(op, "vv") == 0) {
    mode = M_VV;
    vv   = ares_htable_vpvp_create(key_free_cb, val_free_cb);
  } else if (strcmp(op, "vs") == 0) {
    mode = M_VS;
    vs   = ares_htable_vpstr_create();
  } else if (strcmp(op, "str") == 0) {
    mode = M_STR;
    str  = ares_htable_strvp_create(val_free_cb);
  } else if (strcmp(op, "dict") == 0) {
    mode = M_DICT;
    dict = ares_htable_dict_create();
  } else if (strcmp(op, "fnv") == 0) {
    /* h:<seed>:<string> -> <FNV1a>/<FNV1a_casecmp> of the library */
    printf("%ld R", k);
    while ((op = strtok_r(NULL, ";", &save)) != NULL) {
      char *f[3];
      if (ht_split(op, f, 3) == 3 && strcmp(f[0], "h") == 0) {
        unsigned int seed = (unsigned int)strtoul(f[1], NULL, 10);
        printf(" %u/%u", ares_htable_hash_FNV1a((const unsigned char *)f[2], strlen(f[2]), seed),
               ares_htable_hash_FNV1a_casecmp((const unsigned char *)f[2], strlen(f[2]), seed));
      } else {
        printf(" BADOP");
      }
    }
    printf("\n");
    goto out;
  } else {
    printf("%ld R BADMODE\n", k);
    goto out;
  }

  for (;;) {
    char         *f[5];
    int           nf;
    int           is_end = 0;
    unsigned long nk = 0;
    long          v  = 0;
    const char   *ks = "";
    op = strtok_r(NULL, ";", &save);
    if (op == NULL) {
      is_end = 1;
    }
    ht_nfreed = 0;
    if (is_end) {
      /* probe of every key for the tables without iteration, then destroy */
      f[0] = (char *)"a";
      nf   = 1;
      if (mode == M_G || mode == M_AS || mode == M_DICT) {
        nf = 0;
      }
    } else {
      nf = ht_split(op, f, 5);
    }
    if (nf == 0) {
      /* nothing */
    } else if ((strcmp(f[0], "i") == 0 && nf == 3) || (strcmp(f[0], "fi") == 0 && nf == 4)) {
      int         inject = f[0][0] == 'f';
      ares_bool_t rv     = ARES_FALSE;
      long        failn  = -1;
      if (inject) {
        failn = atol(f[1]);
        ks    = f[2];
        v     = atol(f[3]);
      } else {
        ks = f[1];
        v  = atol(f[2]);
      }
      nk = strtoul(ks, NULL, 10);
      if (mode == M_G) {
        gent_t *e = malloc(sizeof(*e));
        e->key    = nk;
        e->val    = v;
        ht_fail_countdown = failn;
        rv                = ares_htable_insert(g, e);
        ht_fail_countdown = -1;
        if (!rv) {
          free(e);
        }
      } else {
        ht_fail_countdown = failn;
        switch (mode) {
          case M_SZ:
            rv = ares_htable_szvp_insert(sz, (size_t)nk, (void *)(intptr_t)v);
            break;
          case M_AS:
            rv = ares_htable_asvp_insert(as, (ares_socket_t)nk, (void *)(intptr_t)v);
            break;
          case M_VV:
            rv = ares_htable_vpvp_insert(vv, (void *)(uintptr_t)nk, (void *)(intptr_t)v);
            break;
          case M_VS:
            snprintf(tmp, sizeof(tmp), "%ld", v);
            rv = ares_htable_vpstr_insert(vs, (void *)(uintptr_t)nk, tmp);
            break;
          case M_STR:
            rv = ares_htable_strvp_insert(str, ks, (void *)(intptr_t)v);
            break;
          case M_DICT:
            snprintf(tmp, sizeof(tmp), "%ld", v);
            rv = ares_htable_dict_insert(dict, ks, tmp);
            break;
          default:
            break;
        }
        ht_fail_countdown = -1;
      }
      sb_add(&R, rv ? " i1" : " i0");
      ht_print_freed(&R);
      if (inject) {
        sb_add(&V, rv ? "1" : "0");
      }
    } else if (strcmp(f[0], "g") == 0 && nf == 2) {
      void       *val = NULL;
      const char *sv  = NULL;
      ares_bool_t rv  = ARES_FALSE;
      ks              = f[1];
      nk              = strtoul(ks, NULL, 10);
      sb_add(&R, " ");
      switch (mode) {
        case M_G:
          {
            gent_t *e = ares_htable_get(g, &nk);
            if (e) {
              snprintf(tmp, sizeof(tmp), "%lu=%ld", e->key, e->val);
              sb_add(&R, tmp);
            } else {
              sb_add(&R, "N");
            }
          }
          break;
        case M_SZ:
          rv = ares_htable_szvp_get(sz, (size_t)nk, &val);
          if (rv != (ares_htable_szvp_get_direct(sz, (size_t)nk) != NULL)) {
            sb_add(&R, "GETDIRECT-MISMATCH");
          }
          break;
        case M_AS:
          rv = ares_htable_asvp_get(as, (ares_socket_t)nk, &val);
          break;
        case M_VV:
          rv = ares_htable_vpvp_get(vv, (void *)(uintptr_t)nk, &val);
          break;
        case M_VS:
          rv = ares_htable_vpstr_get(vs, (void *)(uintptr_t)nk, &sv);
          break;
        case M_STR:
          rv = ares_htable_strvp_get(str, ks, &val);
          if (val != ares_htable_strvp_get_direct(str, ks)) {
            sb_add(&R, "GETDIRECT-MISMATCH");
          }
          break;
        case M_DICT:
          rv = ares_htable_dict_get(dict, ks, &sv);
          break;
        default:
          break;
      }
      if (mode != M_G) {
        if (!rv) {
          sb_add(&R, "N");
        } else if (mode == M_VS || mode == M_DICT) {
          sb_add(&R, sv ? sv : "NULL");
        } else {
          snprintf(tmp, sizeof(tmp), "%ld", (long)(intptr_t)val);
          sb_add(&R, tmp);
        }
      }
    } else if (strcmp(f[0], "r") == 0 && nf == 2) {
      ares_bool_t rv = ARES_FALSE;
      ks             = f[1];
      nk             = strtoul(ks, NULL, 10);
      switch (mode) {
        case M_G:
          rv = ares_htable_remove(g, &nk);
          break;
        case M_SZ:
          rv = ares_htable_szvp_remove(sz, (size_t)nk);
          break;
        case M_AS:
          rv = ares_htable_asvp_remove(as, (ares_socket_t)nk);
          break;
        case M_VV:
          rv = ares_htable_vpvp_remove(vv, (void *)(uintptr_t)nk);
          break;
        case M_VS:
          rv = ares_htable_vpstr_remove(vs, (void *)(uintptr_t)nk);
          break;
        case M_STR:
          rv = ares_htable_strvp_remove(str, ks);
          break;
        case M_DICT:
          rv = ares_htable_dict_remove(dict, ks);
          break;
        default:
          break;
      }
      sb_add(&R, rv ? " r1" : " r0");
      ht_print_freed(&R);
    } else if (strcmp(f[0], "c") == 0 && nf == 2 && mode == M_STR) {
      void *val = ares_htable_strvp_claim(str, f[1]);
      /* values are never 0, so NULL means "not found" */
      if (val == NULL) {
        sb_add(&R, " cN");
      } else {
        snprintf(tmp, sizeof(tmp), " c%ld", (long)(intptr_t)val);
        sb_add(&R, tmp);
      }
      ht_print_freed(&R);
    } else if (strcmp(f[0], "n") == 0 && nf == 1) {
      size_t n = 0;
      switch (mode) {
        case M_G:
          n = ares_htable_num_keys(g);
          break;
        case M_SZ:
          n = ares_htable_szvp_num_keys(sz);
          break;
        case M_AS:
          n = ares_htable_asvp_num_keys(as);
          break;
        case M_VV:
          n = ares_htable_vpvp_num_keys(vv);
          break;
        case M_VS:
          n = ares_htable_vpstr_num_keys(vs);
          break;
        case M_STR:
          n = ares_htable_strvp_num_keys(str);
          break;
        case M_DICT:
          n = ares_htable_dict_num_keys(dict);
          break;
        default:
          break;
      }
      snprintf(tmp, sizeof(tmp), " n%zu", n);
      sb_add(&R, tmp);
    } else if ((strcmp(f[0], "a") == 0 && nf == 1) ||
               (strcmp(f[0], "fa") == 0 && nf == (mode == M_G ? 1 : 2))) {
      int  failing = f[0][0] == 'f';
      long failn   = failing ? (nf == 2 ? atol(f[1]) : 0) : -1;
      ht_tok_reset();
      if (mode == M_G) {
        size_t       num = 12345;
        const void **all;
        ht_fail_countdown = failing ? 0 : -1;
        (void)failn;
        all               = ares_htable_all_buckets(g, &num);
        ht_fail_countdown = -1;
        if (all == NULL) {
          sb_add(&R, num == 0 ? " aN" : " aN-BADNUM");
          sb_add(&O, " aN");
        } else {
          for (i = 0; i < num; i++) {
            const gent_t *e = all[i];
            snprintf(tmp, sizeof(tmp), "%lu=%ld", e->key, e->val);
            ht_tok_add(tmp);
          }
          if (num != ares_htable_num_keys(g)) {
            sb_add(&R, " BADNUM");
          }
          ht_tok_emit(&O, " a", 0);
          ht_tok_emit(&R, " a", 1);
          ares_free(all);
        }
      } else if (failing && ((mode != M_AS && mode != M_DICT) || failn < 0 ||
                             failn > (mode == M_AS ? 1 : 2))) {
        /* as: all_buckets array, key array; dict: all_buckets array, key array, first key copy */
        sb_add(&R, " BADOP");
      } else if (mode == M_AS) {
        size_t         num = 12345;
        ares_socket_t *keys;
        ht_fail_countdown = failn;
        keys              = ares_htable_asvp_keys(as, &num);
        ht_fail_countdown = -1;
        if (keys == NULL) {
          sb_add(&R, num == 0 ? " aN" : " aN-BADNUM");
        } else {
          for (i = 0; i < num; i++) {
            snprintf(tmp, sizeof(tmp), "%lu", (unsigned long)keys[i]);
            ht_tok_add(tmp);
          }
          ht_tok_emit(&R, " a", 1);
          ares_free(keys);
        }
      } else if (mode == M_DICT) {
        size_t num = 12345;
        char **keys;
        ht_fail_countdown = failn;
        keys              = ares_htable_dict_keys(dict, &num);
        ht_fail_countdown = -1;
        if (keys == NULL) {
          sb_add(&R, num == 0 ? " aN" : " aN-BADNUM");
        } else {
          for (i = 0; i < num; i++) {
            ht_tok_add(keys[i]);
          }
          ht_tok_emit(&R, " a", 1);
          ares_free_array(keys, num, ares_free);
        }
      } else {
        /* no iteration function: get of every key of the case */
        for (i = 0; i < ht_nkeys; i++) {
          void       *val = NULL;
          const char *sv  = NULL;
          ares_bool_t rv  = ARES_FALSE;
          nk              = strtoul(ht_keys[i], NULL, 10);
          switch (mode) {
            case M_SZ:
              rv = ares_htable_szvp_get(sz, (size_t)nk, &val);
              break;
            case M_VV:
              rv = ares_htable_vpvp_get(vv, (void *)(uintptr_t)nk, &val);
              break;
            case M_VS:
              rv = ares_htable_vpstr_get(vs, (void *)(uintptr_t)nk, &sv);
              break;
            case M_STR:
              rv = ares_htable_strvp_get(str, ht_keys[i], &val);
              break;
            default:
              break;
          }
          if (!rv) {
            snprintf(tmp, sizeof(tmp), "%s=N", ht_keys[i]);
          } else if (mode == M_VS) {
            snprintf(tmp, sizeof(tmp), "%s=%s", ht_keys[i], sv ? sv : "NULL");
          } else {
            snprintf(tmp, sizeof(tmp), "%s=%ld", ht_keys[i], (long)(intptr_t)val);
          }
          ht_tok_add(tmp);
        }
        ht_tok_emit(&R, " p", 0);
      }
    } else {
      sb_add(&R, " BADOP");
    }
    if (is_end) {
      break;
    }
  }

  /* destroy: the free callbacks report what they get */
  ht_tok_reset();
  ht_collect_freed = 1;
  ares_htable_destroy(g);
  ares_htable_szvp_destroy(sz);
  ares_htable_asvp_destroy(as);
  ares_htable_vpvp_destroy(vv);
  ares_htable_vpstr_destroy(vs);
  ares_htable_strvp_destroy(str);
  ares_htable_dict_destroy(dict);
  ht_collect_freed = 0;
  if (mode == M_G) {
    ht_tok_emit(&O, " D", 0);
  }
  ht_tok_emit(&R, " D", 1);
  printf("%ld R%s\n", k, R.s);
  if (mode == M_G) {
    printf("%ld O %s#%s#%s\n", k, opscopy, V.s, O.s);
  }
out:
  ht_tok_reset();
  for (i = 0; i < ht_nkeys; i++) {
    free(ht_keys[i]);
  }
  ht_nkeys = 0;
  free(R.s);
  free(O.s);
  free(V.s);
  free(opscopy);
}

DSA_REGISTER("ht", run_ht)
