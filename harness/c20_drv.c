/* c20_drv <casefile> <start_index>
 * C20 (transport independence) driver on top of the channel simulator (sim.c / sim.h).
 * Every case line is run TWICE on a fresh channel:
 *     <k> VARIANT seg      the history as written (chunk= / wpat= read and write patterns)
 *     <k> VARIANT plain    the same history with every chunk=/wpat= configuration item and
 *                          every "chunk s<k> .." / "wpat s<k> .." op removed (unsegmented
 *                          transfer: one read delivers everything queued, every write is
 *                          accepted whole)
 *     <k> VARIANT nopw     only for histories with pendingwritecb=1: the history as written
 *                          but without the pending-write callback (writes are not deferred;
 *                          the flushwrites ops become no-ops)
 * The model driver (ocaml/c20_drv.ml) compares the two logs (metamorphic oracle) and checks
 * each of them against the extracted framing model. */
#include <stdio.h>
#include <stdlib.h>
#include <string.h>
#include "sim.h"
#include "drv_common.h"

static int starts(const char *s, const char *p)
{
  return strncmp(s, p, strlen(p)) == 0;
}

/* remove one configuration item (exact token) */
static char *without_item(const char *line, const char *item)
{
  size_t      n   = strlen(line);
  char       *out = malloc(n + 2);
  const char *bar = strchr(line, '|');
  const char *p   = line;
  size_t      il  = strlen(item);
  size_t      o   = 0;
  if (bar == NULL) {
    bar = line + n;
  }
  while (p < bar) {
    const char *e = p;
    while (e < bar && *e != ' ' && *e != '\t') {
      e++;
    }
    if (!((size_t)(e - p) == il && strncmp(p, item, il) == 0)) {
      memcpy(out + o, p, (size_t)(e - p));
      o += (size_t)(e - p);
      out[o++] = ' ';
    }
    while (e < bar && (*e == ' ' || *e == '\t')) {
      e++;
    }
    p = e;
  }
  strcpy(out + o, bar);
  return out;
}

/* remove chunk=/wpat= config items and chunk/wpat ops */
static char *plain_variant(const char *line)
{
  size_t n   = strlen(line);
  char  *out = malloc(n + 2);
  char  *cpy = strdup(line);
  char  *bar = strchr(cpy, '|');
  char  *tok;
  char  *save = NULL;
  out[0]      = 0;
  if (bar != NULL) {
    *bar = 0;
  }
  for (tok = strtok_r(cpy, " \t", &save); tok != NULL; tok = strtok_r(NULL, " \t", &save)) {
    if (starts(tok, "chunk=") || starts(tok, "wpat=")) {
      continue;
    }
    if (out[0]) {
      strcat(out, " ");
    }
    strcat(out, tok);
  }
  strcat(out, "|");
  if (bar != NULL) {
    char *p     = bar + 1;
    int   first = 1;
    while (p != NULL && *p) {
      char *semi = strchr(p, ';');
      char *q;
      if (semi != NULL) {
        *semi = 0;
      }
      q = p;
      while (*q == ' ' || *q == '\t') {
        q++;
      }
      if (*q && !starts(q, "chunk ") && !starts(q, "wpat ")) {
        if (!first) {
          strcat(out, ";");
        }
        strcat(out, p);
        first = 0;
      }
      p = semi ? semi + 1 : NULL;
    }
  }
  free(cpy);
  return out;
}

static void run_case(long k, char *line)
{
  char *plain = plain_variant(line);
  printf("%ld VARIANT seg\n", k);
  sim_run_case(k, line);
  printf("%ld VARIANT plain\n", k);
  sim_run_case(k, plain);
  free(plain);
  {
    const char *bar = strchr(line, '|');
    const char *pw  = strstr(line, "pendingwritecb=1");
    if (pw != NULL && (bar == NULL || pw < bar)) {
      char *nopw = without_item(line, "pendingwritecb=1");
      printf("%ld VARIANT nopw\n", k);
      sim_run_case(k, nopw);
      free(nopw);
    }
  }
}

int main(int argc, char **argv)
{
  int rc;
  sim_global_init();
  rc = drv_main(argc, argv, run_case);
  sim_global_cleanup();
  return rc;
}
