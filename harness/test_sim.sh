#!/bin/sh
# Smoke test of the channel simulator: builds harness/sim.c + harness/chan_drv.c against the
# sanitized library and runs hand-written histories.  The logs are printed so that a reader
# can eyeball them; the script fails if the driver does not complete the normal list, if
# the output is not reproducible, or if a basic expectation (grep) does not hold.
#
# usage: harness/test_sim.sh [-q]       (-q: do not print the logs)
set -u
ROOT=$(cd "$(dirname "$0")/.." && pwd)
QUIET=0
[ "${1:-}" = "-q" ] && QUIET=1
mkdir -p "$ROOT/.cache"
WORK=$(mktemp -d "$ROOT/.cache/simtest.XXXXXX")
trap 'rm -rf "$WORK"' EXIT

BIN=$(cd "$ROOT" && python3 -c "
import sys; sys.path.insert(0,'lib'); import vlib
print(vlib.build_harness('chan', ['harness/sim.c','harness/chan_drv.c'], 'asan',
      wraps=['ares_tvnow','ares_rand_bytes','ares_generate_new_id',
             'ares_htable_hash_FNV1a','ares_htable_hash_FNV1a_casecmp']))") || exit 1
echo "binary: $BIN"

export ASAN_OPTIONS="detect_leaks=1:abort_on_error=0:exitcode=99:allocator_may_return_null=1"
export UBSAN_OPTIONS="print_stacktrace=1:halt_on_error=1:exitcode=98"
export LSAN_OPTIONS="exitcode=97"

printf '10.1.2.3 hostsfile.test alias.test\nfd00::77 hostsfile.test\n' > "$WORK/hosts"

# ---------------------------------------------------------------------------------------
# normal list: every case must run to END without a sanitizer report
# ---------------------------------------------------------------------------------------
cat > "$WORK/cases" <<EOF
servers=2|send 1 www.example.com IN A rd;tmo;fds;getsock;qlen;rsp x0 an=A:1.2.3.4:300;proc;fds;qlen
seed=7 servers=2 timeout=1000 tries=2 flags=noedns|query 1 www.example.com IN A;adv 999;proct;adv 1;proct;rsp x1 an=A:5.6.7.8:60;proc;rsp x0 an=A:1.2.3.4:300;proc
servers=2 serverstatecb=1 flags=none|send 1 fail.example IN A rd;rsp x0 rcode=SERVFAIL;proc;rsp x1 an=A:9.9.9.9:10;proc;servers
servers=1 flags=none chunk=1 wpat=5,0,1000|send 1 big.example IN TXT rd;rsp x0 tc=1;run;rsp xl an=TXT:hello:30+TXT:world:30;run
servers=1 flags=nodfltsvr,edns domains=a.test,b.test ndots=2|search 1 host IN A rd;rsp xl rcode=NXDOMAIN;proc;rsp xl rcode=NXDOMAIN;proc;rsp xl an=A:10.1.1.1:5;proc
servers=1 domains=corp.test|gai 1 www.corp.test 0 0x80 80;rsp x0 an=A:192.0.2.1:100;proc;rsp x1 an=CNAME:w6.corp.test:20+AAAA:[2001:db8::1]:200@w6.corp.test+AAAA:2001:db8::2:50@w6.corp.test;proc
servers=1|gai 1 sorted.test 0 0;rsp x0 an=A:192.0.2.1:100+A:10.0.0.9:100;rsp x1 an=AAAA:[2001:db8::1]:200;proc
servers=1|send 1 a.example IN A rd;send 2 b.example IN A rd;qlen;cancel;qlen;rsp x0 an=A:1.1.1.1;proc
servers=1|send 1 a.example IN A rd;send 2 b.example IN MX rd;destroy;send 3 c.example IN A;adv 10;proc
servers=1 flags=edns|send 1 c.example IN A rd edns;rsp x0 cookie=echo,an=A:1.1.1.1:60;proc;send 2 d.example IN A rd edns;rsp x1 cookie=echo,an=A:2.2.2.2:60;proc;send 3 e.example IN A rd edns;rsp x2 cookie=bad,an=A:3.3.3.3;proc
servers=1 qcachettl=3600|query 1 cache.example IN A;rsp x0 an=A:1.2.3.4:100;proc;adv 40000;query 2 cache.example IN A;oquery 3 cache.example IN A;adv 61000;query 4 cache.example IN A
servers=2|fail socket 1 EMFILE;send 1 x.example IN A rd;fail connect 1 ENETUNREACH;fail sendto 2 ECONNREFUSED;send 2 y.example IN A rd;send 3 z.example IN A rd;fail recvfrom 1 ECONNRESET;raw s2 00;proc
servers=1 failalloc=12|send 1 x.example IN A rd;rsp x0 an=A:1.2.3.4;proc
servers=1 failalloc=3 failallocafter=init|send 1 x.example IN A rd;rsp x0 an=A:1.2.3.4;proc
servers=1 allocstats=1|ghbn 1 ghbn.example 4;rsp x0 an=CNAME:real.example:30+A:1.2.3.4:60@real.example;proc
servers=1|ghba 1 10.11.12.13;rsp x0 an=PTR:host13.example:120;proc;gni 2 10.11.12.14 80 0x0;rsp x1 an=PTR:host14.example:120;proc;ghba 3 fd00::5;rsp x2 rcode=NXDOMAIN;proc
servers=1 lookups=fb hosts=$WORK/hosts|gai 1 hostsfile.test 0 0x80;ghbn 2 alias.test 4;ghba 3 10.1.2.3;gai 4 other.test 4 0x80;rsp x0 rcode=NXDOMAIN,ns=SOA:60:60;proc
servers=1 flags=usevc,stayopen connectlater=1 sockstatecb=1 pendingwritecb=1|send 1 tcp.example IN A rd;fds;flushwrites;proc;connected s0;fds;proc;rsp x0 an=A:4.4.4.4;proc;send 2 tcp2.example IN A rd;flushwrites;rsp xl an=A:5.5.5.5;proc;eof s0;proc
servers=1 flags=usevc tfo=1|send 1 tfo.example IN A rd;proc;rsp x0 an=A:4.4.4.4;chunk s0 3,1,100;proc
servers=1 flags=usevc|send 1 r.example IN A rd;proc;reset s0;proc;proc;rsp xl an=A:1.1.1.1;proc
servers=1 flags=dns0x20,edns seed=3|send 1 mixedcase.example IN A rd;rsp x0 flipcase=1,an=A:1.1.1.1;proc;rsp x0 an=A:2.2.2.2;proc
servers=1|send 1 spoof.example IN A rd;rsp x0 id=+1,an=A:6.6.6.6;rsp x0 from=10.6.6.6:53,an=A:6.6.6.7;rsp x0 qname=other.example,an=A:6.6.6.8;rsp x0 qtype=AAAA,an=A:6.6.6.9;rsp x0 qr=0;zerolen s0;raw s0 0001;rsp x0 an=A:7.7.7.7;proc;proc
servers=1|oncb 1 send,2,second.example,IN,A,rd;oncb 1 qlen;send 1 first.example IN A rd;rsp x0 an=A:1.1.1.1;proc;rsp x1 an=A:2.2.2.2;proc
servers=1|setservers -;send 1 nosrv.example IN A rd;query 2 nosrv.example IN A;gai 3 nosrv.example 4 0;opts;servers
servers=1 servers6=1 rotate=1 udpmaxq=1|send 1 a.example IN A rd;send 2 b.example IN A rd;send 3 c.example IN A rd;servers;rspall an=A:1.1.1.1;proc;setservers 10.0.0.7:5353,[fd00::9]:54;servers;send 4 d.example IN A rd;reinit;opts
garbage=1 servers=x|bogus;send;send 99999 a IN A;rsp x99 an=A:1;raw s0 zz;fail foo 1 EIO;procfd r7;oncb 1;send 1 a..b IN A;send 1 a.example IN NOTATYPE;rsp xl an=A:notanip;tmo -5
|
EOF

# ---------------------------------------------------------------------------------------
# known_crash list: histories that make the *pinned library* fail under the sanitizers.
# They are run one per process and only reported.
# ---------------------------------------------------------------------------------------
cat > "$WORK/known_crash" <<EOF
servers=1|oncb 1 cancel;send 1 a.example IN A rd;rsp x0 an=A:1.1.1.1;proc
servers=1|oncb 5 cancel;gai 5 h5.example 0 0;rspall rcode=3;proc
servers=1|search 0 h0 IN A rd;search 2 h2 IN A rd;oncb 0 cancel
servers=1|send 3 h3.example IN A rd;oncb 3 gai,5,n2.example,0,0
servers=1|send 0 h0.example IN A rd;oncb 0 setservers,10.0.0.9;rspall rcode=3;run
servers=1 domains=d.test ndots=5|search 1 aaaaaaaaaaaaaaaaaaaaaaaaaaaaaaaaaaaaaaaaaaaaaaaaaaaaaaaaaaaaaaa.aaaaaaaaaaaaaaaaaaaaaaaaaaaaaaaaaaaaaaaaaaaaaaaaaaaaaaaaaaaaaaa.aaaaaaaaaaaaaaaaaaaaaaaaaaaaaaaaaaaaaaaaaaaaaaaaaaaaaaaaaaaaaaa.\\097aaaaaaaaaaaaaaaaaaaaaaaaaaaaaaaaaaaaaaaaaaaaaaaaaaaaaa IN A rd
servers=1 tries=80 timeout=1 maxtimeout=5|send 1 a.example IN A rd;REPEAT80
EOF
# expand the REPEAT80 shorthand (80 x "adv 10;proct")
rep=$(i=0; while [ $i -lt 80 ]; do printf 'adv 10;proct;'; i=$((i+1)); done)
sed -i "s/REPEAT80/$rep/" "$WORK/known_crash"

run() { "$BIN" "$1" 0 > "$2" 2> "$3"; echo $?; }

rc=$(run "$WORK/cases" "$WORK/out1" "$WORK/err1")
[ $QUIET = 1 ] || sed -e "s#$WORK#\$WORK#g" "$WORK/out1"
fail=0
if [ "$rc" != 0 ]; then
  echo "FAIL: driver exit code $rc"; tail -40 "$WORK/err1"; fail=1
fi
tail -1 "$WORK/out1" | grep -q '^DONE$' || { echo "FAIL: no DONE"; fail=1; }

# determinism: same file again, and every case alone (start index = k, compare its block)
rc2=$(run "$WORK/cases" "$WORK/out2" "$WORK/err2")
cmp -s "$WORK/out1" "$WORK/out2" || { echo "FAIL: output differs between two runs"; fail=1; }
n=$(wc -l < "$WORK/cases")
k=0
while [ $k -lt "$n" ]; do
  sed -n "$((k+1))p" "$WORK/cases" > "$WORK/one"
  run "$WORK/one" "$WORK/o" "$WORK/e" > /dev/null
  sed -n "/^BEGIN $k\$/,/^END $k\$/p" "$WORK/out1" | sed -e "s/^$k /0 /" -e "s/^BEGIN $k/BEGIN 0/" -e "s/^END $k/END 0/" > "$WORK/a"
  sed -n "/^BEGIN 0\$/,/^END 0\$/p" "$WORK/o" > "$WORK/b"
  cmp -s "$WORK/a" "$WORK/b" || { echo "FAIL: case $k is not independent of its position"; diff "$WORK/a" "$WORK/b" | head -5; fail=1; }
  k=$((k+1))
done

expect() { # case-index regex
  grep -Eq "^$1 $2" "$WORK/out1" || { echo "FAIL: case $1 lacks /$2/"; fail=1; }
}
expect 0 'CB t1 status=0 .*an=\[A:www.example.com:300:1.2.3.4\]'
expect 1 'TX x1 s1 srv=1'
expect 1 'CB t1 status=0 timeouts=1'
expect 2 'SERVERSTATE 10.0.0.1:53 success=0'
expect 2 'CB t1 status=0 .*9.9.9.9'
expect 3 'TX x1 s1 srv=0 proto=tcp'
expect 3 'CB t1 status=0 .*hello'
expect 4 'TX x0 .*qname=host.a.test'
expect 4 'TX x2 .*qname=host '
expect 5 'CB t1 status=0 .*nodes=\[.*192.0.2.1:80'
expect 7 'CB t1 status=24'
expect 8 'CB t2 status=16'
expect 8 'IGNORED send 3'
expect 9 'TX x1 .*cookie=[0-9a-f]{32} '
expect 10 'CB t3 status=0 .*A:cache.example:60:'
expect 11 'SOCKET fail'
expect 12 'ALLOCFAIL at=12'
expect 17 'TCPBYTES s0'
expect 22 'CBOP send 2 second.example IN A rd'
expect 23 'CB t1 status=26'
expect 25 'BADOP'

echo "---- known_crash (one process per case; failures here are the library's) ----"
k=0
while read -r line; do
  [ -n "$line" ] || continue
  printf '%s\n' "$line" > "$WORK/one"
  rc=$(run "$WORK/one" "$WORK/o" "$WORK/e")
  echo "known_crash[$k] exit=$rc : $line"
  [ $QUIET = 1 ] || tail -8 "$WORK/o" | cut -c1-200
  grep -E "^(==[0-9]+==ERROR|SUMMARY|.*runtime error)" "$WORK/e" | head -3
  k=$((k+1))
done < "$WORK/known_crash"

if [ $fail = 0 ]; then echo "test_sim: OK"; else echo "test_sim: FAILED"; fi
exit $fail
